/-
  Property C01 — store operations are linearizable w.r.t. the sequential
  resource-store spec; failed calls leave the state untouched; errors classifiable.

  Property theorems only (helper lemmas about the association list are local and
  stated in simp-normal form). Nothing here may be weakened to make a proof pass:
  `step_eq_spec` is the obligation that ties the model of the code (which folds over
  the REGENERATED precondition tables `Gen.Store.*`) to the independent spec.
-/
import Cosi.Spec.Store

namespace Cosi.C01

open Cosi

/-! ### association-list lemmas -/

@[simp] theorem get_nil (k : Key) : Store.get [] k = none := rfl

theorem get_cons (k k' : Key) (r : Res) (s : Store) :
    Store.get ((k', r) :: s) k = if k' = k then some r else Store.get s k := rfl

theorem del_cons (k k' : Key) (r : Res) (s : Store) :
    Store.del ((k', r) :: s) k = if k' = k then Store.del s k else (k', r) :: Store.del s k := by
  unfold Store.del
  by_cases h : k' = k <;> simp [List.filter_cons, h]

theorem get_del_self (s : Store) (k : Key) : (s.del k).get k = none := by
  induction s with
  | nil => rfl
  | cons p s ih =>
    obtain ⟨k', r⟩ := p
    rw [del_cons]
    by_cases h : k' = k
    · simp only [h, if_true]; exact ih
    · simp only [h, if_false, get_cons]; exact ih

theorem get_del_other (s : Store) (k k2 : Key) (h : k2 ≠ k) : (s.del k).get k2 = s.get k2 := by
  induction s with
  | nil => rfl
  | cons p s ih =>
    obtain ⟨k', r⟩ := p
    rw [del_cons]
    by_cases h1 : k' = k
    · have h2 : ¬ k' = k2 := fun e => h (e ▸ h1)
      simp only [h1, if_true, get_cons]
      rw [ih]
      have h3 : ¬ k = k2 := fun e => h e.symm
      simp [h3]
    · simp only [h1, if_false, get_cons, ih]

theorem get_put_self (s : Store) (k : Key) (r : Res) : (s.put k r).get k = some r := by
  simp [Store.put, get_cons]

theorem get_put_other (s : Store) (k k2 : Key) (r : Res) (h : k2 ≠ k) :
    (s.put k r).get k2 = s.get k2 := by
  simp [Store.put, get_cons, get_del_other s k k2 h]
  intro e; exact absurd e.symm h

/-! ### the tie: model over regenerated tables = specification -/

/-- **Obligation C01.tie.** The model of collection.go (a fold over the regenerated
    guard chains, errors built with the regenerated `errHasResource`) is the spec.
    Any edit of /repo that drops, reorders or alters a precondition, or builds a
    conflict error without its resource, changes `Gen.Store` and breaks this proof. -/
theorem step_eq_spec (cfg : Cfg) (s : Store) (now : Nat) (op : Op) :
    step cfg s now op = Spec.step cfg s now op := by
  cases op with
  | create r owner =>
    simp only [step, Spec.step, Gen.Store.createChecks, firstErr, createCheck, setOwner]
    by_cases h1 : r.owner = "" ∨ r.owner = owner
    · have h1' : ¬ (r.owner ≠ "" ∧ r.owner ≠ owner) := by
        rcases h1 with h | h <;> simp [h]
      cases hg : s.get (r.key cfg) <;>
        simp [h1, h1', hg, Spec.err, mkErr, ErrCtor.goName, Gen.Store.errHasResource, ErrCtor.isConflict]
    · have h1' : r.owner ≠ "" ∧ r.owner ≠ owner := by
        constructor <;> intro h <;> exact h1 (by simp [h])
      simp [h1, h1', Spec.err, mkErr, ErrCtor.goName, Gen.Store.errHasResource, ErrCtor.isConflict]
  | update r owner exp =>
    simp only [step, Spec.step, Gen.Store.updateChecks, firstErr, updateCheck]
    cases hg : s.get (r.key cfg) with
    | none => simp [Spec.err, mkErr, ErrCtor.goName, Gen.Store.errHasResource, ErrCtor.isConflict]
    | some cur =>
      by_cases h1 : cur.owner = owner
      · by_cases h2 : cur.ver = r.ver
        · cases exp with
          | none => simp [h1, h2, nextVer]
          | some p =>
            by_cases h3 : cur.phase = p
            · simp [h1, h2, h3, nextVer]
            · have h3' : ¬ p = cur.phase := fun e => h3 e.symm
              simp [h1, h2, h3, h3', Spec.err, mkErr, ErrCtor.goName, Gen.Store.errHasResource,
                ErrCtor.isConflict]
        · simp [h1, h2, Spec.err, mkErr, ErrCtor.goName, Gen.Store.errHasResource,
            ErrCtor.isConflict]
      · simp [h1, Spec.err, mkErr, ErrCtor.goName, Gen.Store.errHasResource, ErrCtor.isConflict]
  | destroy ns typ id owner =>
    simp only [step, Spec.step, Gen.Store.destroyChecks, firstErr, destroyCheck]
    cases hg : s.get (cfg.key ns typ id) with
    | none => simp [Spec.err, mkErr, ErrCtor.goName, Gen.Store.errHasResource, ErrCtor.isConflict]
    | some cur =>
      by_cases h1 : cur.owner = owner
      · by_cases h2 : cur.fins = []
        · simp [h1, h2]
        · simp [h1, h2, Spec.err, mkErr, ErrCtor.goName, Gen.Store.errHasResource,
            ErrCtor.isConflict]
      · simp [h1, Spec.err, mkErr, ErrCtor.goName, Gen.Store.errHasResource, ErrCtor.isConflict]
  | get ns typ id =>
    simp only [step, Spec.step]
    cases s.get (cfg.key ns typ id) <;>
      simp [Spec.err, mkErr, ErrCtor.goName, Gen.Store.errHasResource, ErrCtor.isNotFound,
        ErrCtor.isConflict]
  | list ns typ sel => rfl

theorem run_eq_spec (cfg : Cfg) (s : Store) (t0 : Nat) (ops : List Op) :
    run cfg s t0 ops = Spec.run cfg s t0 ops := by
  induction ops generalizing s t0 with
  | nil => rfl
  | cons op ops ih => simp only [run, Spec.run, step_eq_spec, ih]

/-! ### sequential semantics (stated on the model of the code, via the tie) -/

/-- Create succeeds iff the key is absent (and the object's pre-set owner, if any,
    is the requested one); it then stores version 1 under the requested owner. -/
theorem create_ok_iff (cfg : Cfg) (s : Store) (now : Nat) (r : Res) (owner : String) :
    (step cfg s now (.create r owner)).2.isOk = true ↔
      s.get (r.key cfg) = none ∧ (r.owner = "" ∨ r.owner = owner) := by
  rw [step_eq_spec]
  simp only [Spec.step]
  by_cases h1 : r.owner ≠ "" ∧ r.owner ≠ owner
  · have : ¬ (r.owner = "" ∨ r.owner = owner) := by
      intro h; rcases h with h | h
      · exact h1.1 h
      · exact h1.2 h
    simp [h1, this, Spec.err, Out.isOk, Out.isErr]
  · have h1' : r.owner = "" ∨ r.owner = owner := by
      by_cases a : r.owner = ""
      · exact Or.inl a
      · by_cases b : r.owner = owner
        · exact Or.inr b
        · exact absurd ⟨a, b⟩ h1
    cases hg : s.get (r.key cfg) <;> simp [h1, h1', Spec.err, Out.isOk, Out.isErr]

theorem create_ok_effect (cfg : Cfg) (s : Store) (now : Nat) (r : Res) (owner : String)
    (h : (step cfg s now (.create r owner)).2.isOk = true) :
    (step cfg s now (.create r owner)).1.get (r.key cfg)
      = some { r with owner := owner, ver := some 1, created := now } := by
  have h' := (create_ok_iff cfg s now r owner).1 h
  rw [step_eq_spec]
  simp only [Spec.step]
  have : ¬ (r.owner ≠ "" ∧ r.owner ≠ owner) := by
    intro ⟨a, b⟩; rcases h'.2 with c | c
    · exact a c
    · exact b c
  simp [this, h'.1, get_put_self]

/-- Update succeeds iff the resource exists, the owner matches, the supplied version
    equals the stored one and the expected phase (if any) holds. -/
theorem update_ok_iff (cfg : Cfg) (s : Store) (now : Nat) (r : Res) (owner : String)
    (exp : Option Phase) :
    (step cfg s now (.update r owner exp)).2.isOk = true ↔
      ∃ cur, s.get (r.key cfg) = some cur ∧ cur.owner = owner ∧ cur.ver = r.ver ∧
        (exp = none ∨ exp = some cur.phase) := by
  rw [step_eq_spec]
  simp only [Spec.step]
  cases hg : s.get (r.key cfg) with
  | none => simp [Spec.err, Out.isOk, Out.isErr]
  | some cur =>
    by_cases h1 : cur.owner = owner
    · by_cases h2 : cur.ver = r.ver
      · cases exp with
        | none => simp [h1, h2, Out.isOk, Out.isErr]
        | some p =>
          by_cases h3 : p = cur.phase
          · simp [h1, h2, h3, Out.isOk, Out.isErr]
          · simp [h1, h2, h3, Spec.err, Out.isOk, Out.isErr]
      · simp [h1, h2, Spec.err, Out.isOk, Out.isErr]
    · simp [h1, Spec.err, Out.isOk, Out.isErr]

/-- … and then bumps the version by exactly one, keeping the creation time. -/
theorem update_ok_effect (cfg : Cfg) (s : Store) (now : Nat) (r : Res) (owner : String)
    (exp : Option Phase) (cur : Res) (hg : s.get (r.key cfg) = some cur)
    (h : (step cfg s now (.update r owner exp)).2.isOk = true) :
    ∃ r', (step cfg s now (.update r owner exp)).1.get (r.key cfg) = some r' ∧
      r'.ver = some (cur.ver.getD 0 + 1) ∧ r'.created = cur.created ∧ r'.updated = now ∧
      r'.spec = r.spec ∧ r'.labels = r.labels ∧ r'.fins = r.fins ∧ r'.phase = r.phase := by
  obtain ⟨cur', hg', ho, hv, hp⟩ := (update_ok_iff cfg s now r owner exp).1 h
  have hc : cur' = cur := by rw [hg] at hg'; exact (Option.some.inj hg').symm
  subst hc
  rw [step_eq_spec]
  simp only [Spec.step, hg]
  have hp' : ¬ (exp.isSome = true ∧ exp ≠ some cur'.phase) := by
    intro ⟨a, b⟩; rcases hp with c | c
    · simp [c] at a
    · exact b c
  simp [ho, hv, hp', get_put_self]

/-- Destroy succeeds iff the resource exists, the owner matches and no finalizer is pending. -/
theorem destroy_ok_iff (cfg : Cfg) (s : Store) (now : Nat) (ns typ id owner : String) :
    (step cfg s now (.destroy ns typ id owner)).2.isOk = true ↔
      ∃ cur, s.get (cfg.key ns typ id) = some cur ∧ cur.owner = owner ∧ cur.fins = [] := by
  rw [step_eq_spec]
  simp only [Spec.step]
  cases hg : s.get (cfg.key ns typ id) with
  | none => simp [Spec.err, Out.isOk, Out.isErr]
  | some cur =>
    by_cases h1 : cur.owner = owner
    · by_cases h2 : cur.fins = []
      · simp [h1, h2, Out.isOk, Out.isErr]
      · simp [h1, h2, Spec.err, Out.isOk, Out.isErr]
    · simp [h1, Spec.err, Out.isOk, Out.isErr]

theorem destroy_ok_effect (cfg : Cfg) (s : Store) (now : Nat) (ns typ id owner : String)
    (h : (step cfg s now (.destroy ns typ id owner)).2.isOk = true) :
    (step cfg s now (.destroy ns typ id owner)).1.get (cfg.key ns typ id) = none := by
  obtain ⟨cur, hg, ho, hf⟩ := (destroy_ok_iff cfg s now ns typ id owner).1 h
  rw [step_eq_spec]
  simp [Spec.step, hg, ho, hf, get_del_self]

/-- Every failed call leaves the state untouched; reads never change it. -/
theorem failed_untouched (cfg : Cfg) (s : Store) (now : Nat) (op : Op)
    (h : (step cfg s now op).2.isErr = true) : (step cfg s now op).1 = s := by
  rw [step_eq_spec] at *
  cases op <;> simp only [Spec.step] at h ⊢ <;> (repeat' split) <;>
    first | rfl | (simp_all [Out.isErr])

/-- over a backing store the model is the specification as well (rests on the regenerated order
    "backing store before memory") -/
theorem stepBS_eq_spec (cfg : Cfg) (rej : Bool) (s : Store) (now : Nat) (op : Op) :
    stepBS cfg rej s now op = Spec.stepBS cfg rej s now op := by
  unfold stepBS Spec.stepBS
  rw [step_eq_spec]
  simp [Gen.Store.storeBeforeMemory]

/-- **A write the backing store rejects fails and leaves the state untouched**; every other call
    behaves as without a backing store. -/
theorem rejected_untouched (cfg : Cfg) (s : Store) (now : Nat) (op : Op) :
    ((stepBS cfg true s now op).1 = s ∧ (stepBS cfg true s now op).2.isErr = true) ∨
    stepBS cfg true s now op = step cfg s now op := by
  rw [stepBS_eq_spec]
  unfold Spec.stepBS
  by_cases hc : (true && op.isWrite && (Spec.step cfg s now op).2.isWrite) = true
  · left
    rw [if_pos hc]
    exact ⟨rfl, rfl⟩
  · right
    rw [if_neg hc, step_eq_spec]

/-- every failed call over a backing store leaves the state untouched -/
theorem failed_untouched_bs (cfg : Cfg) (rej : Bool) (s : Store) (now : Nat) (op : Op)
    (h : (stepBS cfg rej s now op).2.isErr = true) : (stepBS cfg rej s now op).1 = s := by
  rw [stepBS_eq_spec] at *
  unfold Spec.stepBS at *
  by_cases hc : (rej && op.isWrite && (Spec.step cfg s now op).2.isWrite) = true
  · rw [if_pos hc]
  · rw [if_neg hc] at h ⊢
    have := failed_untouched cfg s now op (by rw [step_eq_spec]; exact h)
    rw [step_eq_spec] at this; exact this

/-- An operation touches no key but its own. -/
theorem other_keys_untouched (cfg : Cfg) (s : Store) (now : Nat) (op : Op) (k : Key)
    (hk : match op with
      | .create r _ => k ≠ r.key cfg
      | .update r _ _ => k ≠ r.key cfg
      | .destroy ns typ id _ => k ≠ cfg.key ns typ id
      | _ => True) :
    (step cfg s now op).1.get k = s.get k := by
  rw [step_eq_spec]
  cases op with
  | create r owner =>
    simp only [Spec.step]; split
    · rfl
    · split
      · rfl
      · exact get_put_other _ _ _ _ hk
  | update r owner exp =>
    simp only [Spec.step]; split
    · rfl
    · split
      · rfl
      · split
        · rfl
        · split
          · rfl
          · exact get_put_other _ _ _ _ hk
  | destroy ns typ id owner =>
    simp only [Spec.step]; split
    · rfl
    · split
      · rfl
      · split
        · rfl
        · exact get_del_other _ _ _ hk
  | get ns typ id => simp only [Spec.step]; split <;> rfl
  | list ns typ sel => rfl

/-- Reads return the last committed value. -/
theorem get_reads_store (cfg : Cfg) (s : Store) (now : Nat) (ns typ id : String) :
    (step cfg s now (.get ns typ id)).2 =
      match s.get (cfg.key ns typ id) with
      | some r => .res r
      | none => Spec.err .notFound ns typ := by
  rw [step_eq_spec]; simp only [Spec.step]; split <;> simp_all

/-! ### error classification -/

/-- the four public classes, as the Go predicates compute them -/
def classOf (e : Err) : String :=
  if e.ctor.isNotFound then "notFound"
  else if e.ctor.isOwnerConflict then "ownerConflict"
  else if e.ctor.isPhaseConflict then "phaseConflict"
  else if e.ctor.isConflict then "conflict"
  else "other"

/-- shape of every error the specification can return -/
theorem spec_err_shape (cfg : Cfg) (s : Store) (now : Nat) (op : Op) (e : Err)
    (h : (Spec.step cfg s now op).2 = .err e) :
    ∃ c ns typ, e = { ctor := c, res := if c.isConflict then some (ns, typ) else none } ∧
      (c = .ownerAlreadySet ∨ c = .notFound ∨ c.isConflict = true) := by
  cases op <;> simp only [Spec.step] at h <;> (repeat' split at h) <;>
    first
    | (simp only [Spec.err, Out.err.injEq] at h; exact ⟨_, _, _, h.symm, by decide⟩)
    | (exact absurd h (by simp))

/-- Every error any store operation can return, except the documented
    "owner is already set" refusal of `Create` for an object pre-stamped with a
    different owner, falls in one of the four classes. -/
theorem error_classified (cfg : Cfg) (s : Store) (now : Nat) (op : Op) (e : Err)
    (h : (step cfg s now op).2 = .err e) (hno : e.ctor ≠ .ownerAlreadySet) :
    classOf e ≠ "other" := by
  rw [step_eq_spec] at h
  obtain ⟨c, ns, typ, he, hc⟩ := spec_err_shape cfg s now op e h
  subst he
  cases c <;> simp_all [classOf, ErrCtor.isNotFound, ErrCtor.isConflict, ErrCtor.isOwnerConflict,
    ErrCtor.isPhaseConflict]

/-- **No panic.** The qualified conflict predicate is defined (does not dereference a
    nil resource) for every error a store operation can return and every qualifier. -/
theorem qualified_predicate_total (cfg : Cfg) (s : Store) (now : Nat) (op : Op) (e : Err)
    (qns qtyp : String) (h : (step cfg s now op).2 = .err e) :
    (e.isConflictQ qns qtyp).isSome = true := by
  rw [step_eq_spec] at h
  obtain ⟨c, ns, typ, he, _⟩ := spec_err_shape cfg s now op e h
  subst he
  unfold Err.isConflictQ
  simp only [Gen.Store.conflictChecksBothQualifiers, Bool.not_true, Bool.false_eq_true, if_false]
  by_cases hc : c.isConflict = true
  · simp only [hc, Bool.not_true, if_true]
    (repeat' split) <;> simp_all
  · simp [hc]

/-- qualifier semantics: with the matching namespace/type the qualified predicate
    agrees with the unqualified one, with a different one it is false -/
theorem qualified_predicate_sound (e : Err) (ns typ qns qtyp : String)
    (hr : e.res = some (ns, typ)) (hc : e.ctor.isConflict = true) :
    e.isConflictQ qns qtyp = some (decide ((qns = "" ∨ qns = ns) ∧ (qtyp = "" ∨ qtyp = typ))) := by
  unfold Err.isConflictQ
  simp only [Gen.Store.conflictChecksBothQualifiers, hc, hr, Bool.not_true]
  have c' : (qns = ns) = (ns = qns) := propext ⟨Eq.symm, Eq.symm⟩
  have d' : (qtyp = typ) = (typ = qtyp) := propext ⟨Eq.symm, Eq.symm⟩
  by_cases a : qns = "" <;> by_cases b : qtyp = "" <;> by_cases c : ns = qns <;>
    by_cases d : typ = qtyp <;> simp [a, b, c, d, c', d']

/-! ### linearizability of the atomic-step concurrent semantics -/

/-- events of a concurrent history: a client invokes an operation, the operation takes
    effect atomically (under the collection lock — regenerated fact `lockDiscipline`), the
    client receives the response -/
inductive CEv where
  | inv (c : Nat) (op : Op)
  | lin (c : Nat)
  | resp (c : Nat)

/-- the open call of a client -/
structure OpenCall where
  op : Op
  invAt : Nat
  done : Option (Out × Nat) := none     -- response and the instant the call took effect

structure Completed where
  client : Nat
  op : Op
  out : Out
  invAt : Nat
  linAt : Nat
  respAt : Nat

structure CSt where
  store : Store := []
  now : Nat := 0                         -- one tick per event
  opens : Nat → Option OpenCall := fun _ => none
  lins : List (Nat × Op × Out) := []     -- (instant, op, response) in the order of taking effect
  completed : List Completed := []

def cstep (cfg : Cfg) (s : CSt) : CEv → CSt
  | .inv c op =>
    match s.opens c with
    | some _ => { s with now := s.now + 1 }          -- one call at a time per client
    | none => { s with now := s.now + 1,
                       opens := fun x => if x = c then some { op := op, invAt := s.now } else s.opens x }
  | .lin c =>
    match s.opens c with
    | some { op := op, invAt := i, done := none } =>
      let r := step cfg s.store s.now op
      { s with now := s.now + 1, store := r.1, lins := s.lins ++ [(s.now, op, r.2)],
               opens := fun x => if x = c then some { op := op, invAt := i, done := some (r.2, s.now) } else s.opens x }
    | _ => { s with now := s.now + 1 }
  | .resp c =>
    match s.opens c with
    | some { op := op, invAt := i, done := some (out, l) } =>
      { s with now := s.now + 1, opens := fun x => if x = c then none else s.opens x,
               completed := s.completed ++ [{ client := c, op := op, out := out, invAt := i, linAt := l, respAt := s.now }] }
    | _ => { s with now := s.now + 1 }

def crun (cfg : Cfg) (s : CSt) (evs : List CEv) : CSt := evs.foldl (cstep cfg) s

/-- sequential replay of a linearization through the SPECIFICATION, each operation at its own instant -/
def replay (cfg : Cfg) (st : Store) : List (Nat × Op × Out) → Store × List Out
  | [] => (st, [])
  | (t, op, _) :: rest =>
    ((replay cfg (Spec.step cfg st t op).1 rest).1, (Spec.step cfg st t op).2 :: (replay cfg (Spec.step cfg st t op).1 rest).2)

theorem replay_snoc (cfg : Cfg) (st : Store) (a : List (Nat × Op × Out)) (t : Nat) (op : Op) (o : Out) :
    replay cfg st (a ++ [(t, op, o)]) =
      ((Spec.step cfg (replay cfg st a).1 t op).1, (replay cfg st a).2 ++ [(Spec.step cfg (replay cfg st a).1 t op).2]) := by
  induction a generalizing st with
  | nil => simp [replay]
  | cons x xs ih =>
    obtain ⟨t', op', o'⟩ := x
    simp [replay, ih]

structure LinInv (cfg : Cfg) (s : CSt) : Prop where
  seq : replay cfg [] s.lins = (s.store, s.lins.map (·.2.2))
  sorted : s.lins.Pairwise (fun a b => a.1 < b.1)
  past : ∀ x ∈ s.lins, x.1 < s.now
  opens_ok : ∀ c o, s.opens c = some o → o.invAt < s.now ∧
    ∀ out l, o.done = some (out, l) → o.invAt < l ∧ l < s.now ∧ (l, o.op, out) ∈ s.lins
  completed_ok : ∀ c ∈ s.completed, c.invAt < c.linAt ∧ c.linAt < c.respAt ∧ c.respAt < s.now ∧
    (c.linAt, c.op, c.out) ∈ s.lins

theorem init_lin (cfg : Cfg) : LinInv cfg {} := by
  refine ⟨rfl, List.Pairwise.nil, ?_, ?_, ?_⟩
  · intro x hx; cases hx
  · intro c o h; cases h
  · intro c hc; cases hc

theorem cstep_inv (cfg : Cfg) (s : CSt) (e : CEv) (h : LinInv cfg s) : LinInv cfg (cstep cfg s e) := by
  obtain ⟨hseq, hsorted, hpast, hopens, hcomp⟩ := h
  have bump_opens : ∀ c o, s.opens c = some o → o.invAt < s.now + 1 ∧
      ∀ out l, o.done = some (out, l) → o.invAt < l ∧ l < s.now + 1 ∧ (l, o.op, out) ∈ s.lins := by
    intro c o ho
    obtain ⟨a, b⟩ := hopens c o ho
    exact ⟨by omega, fun out l hd => by obtain ⟨x, y, z⟩ := b out l hd; exact ⟨x, by omega, z⟩⟩
  have bump_comp : ∀ c ∈ s.completed, c.invAt < c.linAt ∧ c.linAt < c.respAt ∧ c.respAt < s.now + 1 ∧
      (c.linAt, c.op, c.out) ∈ s.lins := by
    intro c hc; obtain ⟨a, b, d, e⟩ := hcomp c hc; exact ⟨a, b, by omega, e⟩
  have bump_past : ∀ x ∈ s.lins, x.1 < s.now + 1 := fun x hx => by have := hpast x hx; omega
  cases e with
  | inv c op =>
    simp only [cstep]
    cases hc : s.opens c with
    | some o => exact ⟨hseq, hsorted, bump_past, bump_opens, bump_comp⟩
    | none =>
      refine ⟨hseq, hsorted, bump_past, ?_, bump_comp⟩
      intro c' o' ho'
      simp only at ho'
      by_cases hcc : c' = c
      · simp only [hcc, if_true] at ho'
        injection ho' with ho'; subst ho'
        exact ⟨by simp, fun out l hd => by cases hd⟩
      · simp only [hcc, if_false] at ho'; exact bump_opens c' o' ho'
  | lin c =>
    simp only [cstep]
    cases hc : s.opens c with
    | none => exact ⟨hseq, hsorted, bump_past, bump_opens, bump_comp⟩
    | some o =>
      obtain ⟨op, i, d⟩ := o
      cases d with
      | some d => exact ⟨hseq, hsorted, bump_past, bump_opens, bump_comp⟩
      | none =>
        simp only
        have hi : i < s.now := (hopens c _ hc).1
        refine ⟨?_, ?_, ?_, ?_, ?_⟩
        · rw [replay_snoc, hseq, step_eq_spec]; simp
        · rw [List.pairwise_append]
          exact ⟨hsorted, List.pairwise_singleton _ _, fun a ha b hb => by
            simp only [List.mem_singleton] at hb; subst hb; exact hpast a ha⟩
        · intro x hx
          rcases List.mem_append.1 hx with hx | hx
          · exact bump_past x hx
          · simp only [List.mem_singleton] at hx; subst hx; simp
        · intro c' o' ho'
          simp only at ho'
          by_cases hcc : c' = c
          · simp only [hcc, if_true] at ho'
            injection ho' with ho'; subst ho'
            refine ⟨(by show i < s.now + 1; omega), fun out l hd => ?_⟩
            simp only [Option.some.injEq, Prod.mk.injEq] at hd
            obtain ⟨rfl, rfl⟩ := hd
            exact ⟨hi, (by show s.now < s.now + 1; omega), by simp⟩
          · simp only [hcc, if_false] at ho'
            obtain ⟨a, b⟩ := bump_opens c' o' ho'
            exact ⟨a, fun out l hd => by
              obtain ⟨x, y, z⟩ := b out l hd; exact ⟨x, y, List.mem_append_left _ z⟩⟩
        · intro c' hc'
          obtain ⟨a, b, d, e⟩ := bump_comp c' hc'
          exact ⟨a, b, d, List.mem_append_left _ e⟩
  | resp c =>
    simp only [cstep]
    cases hc : s.opens c with
    | none => exact ⟨hseq, hsorted, bump_past, bump_opens, bump_comp⟩
    | some o =>
      obtain ⟨op, i, d⟩ := o
      cases d with
      | none => exact ⟨hseq, hsorted, bump_past, bump_opens, bump_comp⟩
      | some d =>
        obtain ⟨out, l⟩ := d
        simp only
        obtain ⟨_, hd⟩ := hopens c _ hc
        obtain ⟨h1, h2, h3⟩ := hd out l rfl
        refine ⟨hseq, hsorted, bump_past, ?_, ?_⟩
        · intro c' o' ho'
          simp only at ho'
          by_cases hcc : c' = c
          · simp only [hcc, if_true] at ho'; cases ho'
          · simp only [hcc, if_false] at ho'; exact bump_opens c' o' ho'
        · intro c' hc'
          rcases List.mem_append.1 hc' with hc' | hc'
          · exact bump_comp c' hc'
          · simp only [List.mem_singleton] at hc'; subst hc'
            exact ⟨h1, h2, by simp, h3⟩

theorem crun_inv (cfg : Cfg) (evs : List CEv) : ∀ s, LinInv cfg s → LinInv cfg (crun cfg s evs) := by
  induction evs with
  | nil => intro s h; exact h
  | cons e es ih => intro s h; exact ih _ (cstep_inv cfg s e h)

/-- **C01 linearizable.** For every finite concurrent history of CRUD calls by any number of
    clients under every schedule in which each operation takes effect atomically: the
    operations, ordered by the instants they took effect, form a sequential history whose
    replay through the SPECIFICATION yields exactly the responses the clients received and
    the final store; each call took effect between its invocation and its response; hence
    the order is consistent with real time (`real_time_order`). -/
theorem linearizable (cfg : Cfg) (evs : List CEv) :
    let s := crun cfg {} evs
    replay cfg [] s.lins = (s.store, s.lins.map (·.2.2)) ∧
    s.lins.Pairwise (fun a b => a.1 < b.1) ∧
    ∀ c ∈ s.completed, c.invAt < c.linAt ∧ c.linAt < c.respAt ∧ (c.linAt, c.op, c.out) ∈ s.lins := by
  have h := crun_inv cfg evs {} (init_lin cfg)
  exact ⟨h.seq, h.sorted, fun c hc => by obtain ⟨a, b, _, d⟩ := h.completed_ok c hc; exact ⟨a, b, d⟩⟩

/-- if A's response precedes B's invocation, A took effect before B -/
theorem real_time_order (cfg : Cfg) (evs : List CEv) (a b : Completed)
    (ha : a ∈ (crun cfg {} evs).completed) (hb : b ∈ (crun cfg {} evs).completed)
    (hrt : a.respAt < b.invAt) : a.linAt < b.linAt := by
  obtain ⟨_, _, hc⟩ := linearizable cfg evs
  obtain ⟨_, h2, _⟩ := hc a ha
  obtain ⟨h3, _, _⟩ := hc b hb
  omega


/-! ### non-vacuity: a concrete store meets the hypotheses above -/

def exRes : Res :=
  { ns := "n1", typ := "T1", id := "a", ver := some 1, owner := "A", phase := .running,
    fins := [], labels := [], created := 0, updated := 0, spec := "x" }

example : (step {} [] 0 (.create { exRes with owner := "" } "A")).2.isOk = true := by decide
example : (step {} [(("n1","T1","a"), exRes)] 5 (.update exRes "A" (some .running))).2.isOk = true := by
  decide
example : (step {} [(("n1","T1","a"), exRes)] 5 (.update exRes "B" (some .running))).2.isErr = true := by
  decide
example : (step {} [(("n1","T1","a"), { exRes with fins := ["f"] })] 5 (.destroy "n1" "T1" "a" "A")).2.isErr
    = true := by decide

/-- two clients, overlapping calls: both creates are invoked before either takes effect -/
example : ((crun {} {} [.inv 1 (.create { exRes with owner := "" } "A"), .inv 2 (.create { exRes with owner := "" } "B"),
    .lin 2, .lin 1, .resp 1, .resp 2]).completed.map fun c => (c.client, c.out.isOk, c.invAt, c.linAt, c.respAt))
    = [(1, false, 0, 3, 4), (2, true, 1, 2, 5)] := by decide

end Cosi.C01
