/-
  Property C01 — store operations are linearizable w.r.t. the sequential
  resource-store spec; failed calls leave the state untouched; errors classifiable.

  Property theorems only (helper lemmas about the association list are local and
  stated in simp-normal form). Nothing here may be weakened to make a proof pass:
  `step_eq_spec` is the obligation that ties the model of the code (which folds over
  the REGENERATED precondition tables `Gen.Store.*`) to the independent spec.
-/
import Cosi.Spec.Store

namespace Cosi.C01

open Cosi

/-! ### association-list lemmas -/

@[simp] theorem get_nil (k : Key) : Store.get [] k = none := rfl

theorem get_cons (k k' : Key) (r : Res) (s : Store) :
    Store.get ((k', r) :: s) k = if k' = k then some r else Store.get s k := rfl

theorem del_cons (k k' : Key) (r : Res) (s : Store) :
    Store.del ((k', r) :: s) k = if k' = k then Store.del s k else (k', r) :: Store.del s k := by
  unfold Store.del
  by_cases h : k' = k <;> simp [List.filter_cons, h]

theorem get_del_self (s : Store) (k : Key) : (s.del k).get k = none := by
  induction s with
  | nil => rfl
  | cons p s ih =>
    obtain ⟨k', r⟩ := p
    rw [del_cons]
    by_cases h : k' = k
    · simp only [h, if_true]; exact ih
    · simp only [h, if_false, get_cons]; exact ih

theorem get_del_other (s : Store) (k k2 : Key) (h : k2 ≠ k) : (s.del k).get k2 = s.get k2 := by
  induction s with
  | nil => rfl
  | cons p s ih =>
    obtain ⟨k', r⟩ := p
    rw [del_cons]
    by_cases h1 : k' = k
    · have h2 : ¬ k' = k2 := fun e => h (e ▸ h1)
      simp only [h1, if_true, get_cons]
      rw [ih]
      have h3 : ¬ k = k2 := fun e => h e.symm
      simp [h3]
    · simp only [h1, if_false, get_cons, ih]

theorem get_put_self (s : Store) (k : Key) (r : Res) : (s.put k r).get k = some r := by
  simp [Store.put, get_cons]

theorem get_put_other (s : Store) (k k2 : Key) (r : Res) (h : k2 ≠ k) :
    (s.put k r).get k2 = s.get k2 := by
  simp [Store.put, get_cons, get_del_other s k k2 h]
  intro e; exact absurd e.symm h

/-! ### the tie: model over regenerated tables = specification -/

/-- **Obligation C01.tie.** The model of collection.go (a fold over the regenerated
    guard chains, errors built with the regenerated `errHasResource`) is the spec.
    Any edit of /repo that drops, reorders or alters a precondition, or builds a
    conflict error without its resource, changes `Gen.Store` and breaks this proof. -/
theorem step_eq_spec (cfg : Cfg) (s : Store) (now : Nat) (op : Op) :
    step cfg s now op = Spec.step cfg s now op := by
  cases op with
  | create r owner =>
    simp only [step, Spec.step, Gen.Store.createChecks, firstErr, createCheck, setOwner]
    by_cases h1 : r.owner = "" ∨ r.owner = owner
    · have h1' : ¬ (r.owner ≠ "" ∧ r.owner ≠ owner) := by
        rcases h1 with h | h <;> simp [h]
      cases hg : s.get (r.key cfg) <;>
        simp [h1, h1', hg, Spec.err, mkErr, ErrCtor.goName, Gen.Store.errHasResource, ErrCtor.isConflict]
    · have h1' : r.owner ≠ "" ∧ r.owner ≠ owner := by
        constructor <;> intro h <;> exact h1 (by simp [h])
      simp [h1, h1', Spec.err, mkErr, ErrCtor.goName, Gen.Store.errHasResource, ErrCtor.isConflict]
  | update r owner exp =>
    simp only [step, Spec.step, Gen.Store.updateChecks, firstErr, updateCheck]
    cases hg : s.get (r.key cfg) with
    | none => simp [Spec.err, mkErr, ErrCtor.goName, Gen.Store.errHasResource, ErrCtor.isConflict]
    | some cur =>
      by_cases h1 : cur.owner = owner
      · by_cases h2 : cur.ver = r.ver
        · cases exp with
          | none => simp [h1, h2, nextVer]
          | some p =>
            by_cases h3 : cur.phase = p
            · simp [h1, h2, h3, nextVer]
            · have h3' : ¬ p = cur.phase := fun e => h3 e.symm
              simp [h1, h2, h3, h3', Spec.err, mkErr, ErrCtor.goName, Gen.Store.errHasResource,
                ErrCtor.isConflict]
        · simp [h1, h2, Spec.err, mkErr, ErrCtor.goName, Gen.Store.errHasResource,
            ErrCtor.isConflict]
      · simp [h1, Spec.err, mkErr, ErrCtor.goName, Gen.Store.errHasResource, ErrCtor.isConflict]
  | destroy ns typ id owner =>
    simp only [step, Spec.step, Gen.Store.destroyChecks, firstErr, destroyCheck]
    cases hg : s.get (cfg.key ns typ id) with
    | none => simp [Spec.err, mkErr, ErrCtor.goName, Gen.Store.errHasResource, ErrCtor.isConflict]
    | some cur =>
      by_cases h1 : cur.owner = owner
      · by_cases h2 : cur.fins = []
        · simp [h1, h2]
        · simp [h1, h2, Spec.err, mkErr, ErrCtor.goName, Gen.Store.errHasResource,
            ErrCtor.isConflict]
      · simp [h1, Spec.err, mkErr, ErrCtor.goName, Gen.Store.errHasResource, ErrCtor.isConflict]
  | get ns typ id =>
    simp only [step, Spec.step]
    cases s.get (cfg.key ns typ id) <;>
      simp [Spec.err, mkErr, ErrCtor.goName, Gen.Store.errHasResource, ErrCtor.isNotFound,
        ErrCtor.isConflict]
  | list ns typ sel => rfl

theorem run_eq_spec (cfg : Cfg) (s : Store) (t0 : Nat) (ops : List Op) :
    run cfg s t0 ops = Spec.run cfg s t0 ops := by
  induction ops generalizing s t0 with
  | nil => rfl
  | cons op ops ih => simp only [run, Spec.run, step_eq_spec, ih]

/-! ### sequential semantics (stated on the model of the code, via the tie) -/

/-- Create succeeds iff the key is absent (and the object's pre-set owner, if any,
    is the requested one); it then stores version 1 under the requested owner. -/
theorem create_ok_iff (cfg : Cfg) (s : Store) (now : Nat) (r : Res) (owner : String) :
    (step cfg s now (.create r owner)).2.isOk = true ↔
      s.get (r.key cfg) = none ∧ (r.owner = "" ∨ r.owner = owner) := by
  rw [step_eq_spec]
  simp only [Spec.step]
  by_cases h1 : r.owner ≠ "" ∧ r.owner ≠ owner
  · have : ¬ (r.owner = "" ∨ r.owner = owner) := by
      intro h; rcases h with h | h
      · exact h1.1 h
      · exact h1.2 h
    simp [h1, this, Spec.err, Out.isOk, Out.isErr]
  · have h1' : r.owner = "" ∨ r.owner = owner := by
      by_cases a : r.owner = ""
      · exact Or.inl a
      · by_cases b : r.owner = owner
        · exact Or.inr b
        · exact absurd ⟨a, b⟩ h1
    cases hg : s.get (r.key cfg) <;> simp [h1, h1', Spec.err, Out.isOk, Out.isErr]

theorem create_ok_effect (cfg : Cfg) (s : Store) (now : Nat) (r : Res) (owner : String)
    (h : (step cfg s now (.create r owner)).2.isOk = true) :
    (step cfg s now (.create r owner)).1.get (r.key cfg)
      = some { r with owner := owner, ver := some 1, created := now } := by
  have h' := (create_ok_iff cfg s now r owner).1 h
  rw [step_eq_spec]
  simp only [Spec.step]
  have : ¬ (r.owner ≠ "" ∧ r.owner ≠ owner) := by
    intro ⟨a, b⟩; rcases h'.2 with c | c
    · exact a c
    · exact b c
  simp [this, h'.1, get_put_self]

/-- Update succeeds iff the resource exists, the owner matches, the supplied version
    equals the stored one and the expected phase (if any) holds. -/
theorem update_ok_iff (cfg : Cfg) (s : Store) (now : Nat) (r : Res) (owner : String)
    (exp : Option Phase) :
    (step cfg s now (.update r owner exp)).2.isOk = true ↔
      ∃ cur, s.get (r.key cfg) = some cur ∧ cur.owner = owner ∧ cur.ver = r.ver ∧
        (exp = none ∨ exp = some cur.phase) := by
  rw [step_eq_spec]
  simp only [Spec.step]
  cases hg : s.get (r.key cfg) with
  | none => simp [Spec.err, Out.isOk, Out.isErr]
  | some cur =>
    by_cases h1 : cur.owner = owner
    · by_cases h2 : cur.ver = r.ver
      · cases exp with
        | none => simp [h1, h2, Out.isOk, Out.isErr]
        | some p =>
          by_cases h3 : p = cur.phase
          · simp [h1, h2, h3, Out.isOk, Out.isErr]
          · simp [h1, h2, h3, Spec.err, Out.isOk, Out.isErr]
      · simp [h1, h2, Spec.err, Out.isOk, Out.isErr]
    · simp [h1, Spec.err, Out.isOk, Out.isErr]

/-- … and then bumps the version by exactly one, keeping the creation time. -/
theorem update_ok_effect (cfg : Cfg) (s : Store) (now : Nat) (r : Res) (owner : String)
    (exp : Option Phase) (cur : Res) (hg : s.get (r.key cfg) = some cur)
    (h : (step cfg s now (.update r owner exp)).2.isOk = true) :
    ∃ r', (step cfg s now (.update r owner exp)).1.get (r.key cfg) = some r' ∧
      r'.ver = some (cur.ver.getD 0 + 1) ∧ r'.created = cur.created ∧ r'.updated = now ∧
      r'.spec = r.spec ∧ r'.labels = r.labels ∧ r'.fins = r.fins ∧ r'.phase = r.phase := by
  obtain ⟨cur', hg', ho, hv, hp⟩ := (update_ok_iff cfg s now r owner exp).1 h
  have hc : cur' = cur := by rw [hg] at hg'; exact (Option.some.inj hg').symm
  subst hc
  rw [step_eq_spec]
  simp only [Spec.step, hg]
  have hp' : ¬ (exp.isSome = true ∧ exp ≠ some cur'.phase) := by
    intro ⟨a, b⟩; rcases hp with c | c
    · simp [c] at a
    · exact b c
  simp [ho, hv, hp', get_put_self]

/-- Destroy succeeds iff the resource exists, the owner matches and no finalizer is pending. -/
theorem destroy_ok_iff (cfg : Cfg) (s : Store) (now : Nat) (ns typ id owner : String) :
    (step cfg s now (.destroy ns typ id owner)).2.isOk = true ↔
      ∃ cur, s.get (cfg.key ns typ id) = some cur ∧ cur.owner = owner ∧ cur.fins = [] := by
  rw [step_eq_spec]
  simp only [Spec.step]
  cases hg : s.get (cfg.key ns typ id) with
  | none => simp [Spec.err, Out.isOk, Out.isErr]
  | some cur =>
    by_cases h1 : cur.owner = owner
    · by_cases h2 : cur.fins = []
      · simp [h1, h2, Out.isOk, Out.isErr]
      · simp [h1, h2, Spec.err, Out.isOk, Out.isErr]
    · simp [h1, Spec.err, Out.isOk, Out.isErr]

theorem destroy_ok_effect (cfg : Cfg) (s : Store) (now : Nat) (ns typ id owner : String)
    (h : (step cfg s now (.destroy ns typ id owner)).2.isOk = true) :
    (step cfg s now (.destroy ns typ id owner)).1.get (cfg.key ns typ id) = none := by
  obtain ⟨cur, hg, ho, hf⟩ := (destroy_ok_iff cfg s now ns typ id owner).1 h
  rw [step_eq_spec]
  simp [Spec.step, hg, ho, hf, get_del_self]

/-- Every failed call leaves the state untouched; reads never change it. -/
theorem failed_untouched (cfg : Cfg) (s : Store) (now : Nat) (op : Op)
    (h : (step cfg s now op).2.isErr = true) : (step cfg s now op).1 = s := by
  rw [step_eq_spec] at *
  cases op <;> simp only [Spec.step] at h ⊢ <;> (repeat' split) <;>
    first | rfl | (simp_all [Out.isErr])

/-- An operation touches no key but its own. -/
theorem other_keys_untouched (cfg : Cfg) (s : Store) (now : Nat) (op : Op) (k : Key)
    (hk : match op with
      | .create r _ => k ≠ r.key cfg
      | .update r _ _ => k ≠ r.key cfg
      | .destroy ns typ id _ => k ≠ cfg.key ns typ id
      | _ => True) :
    (step cfg s now op).1.get k = s.get k := by
  rw [step_eq_spec]
  cases op with
  | create r owner =>
    simp only [Spec.step]; split
    · rfl
    · split
      · rfl
      · exact get_put_other _ _ _ _ hk
  | update r owner exp =>
    simp only [Spec.step]; split
    · rfl
    · split
      · rfl
      · split
        · rfl
        · split
          · rfl
          · exact get_put_other _ _ _ _ hk
  | destroy ns typ id owner =>
    simp only [Spec.step]; split
    · rfl
    · split
      · rfl
      · split
        · rfl
        · exact get_del_other _ _ _ hk
  | get ns typ id => simp only [Spec.step]; split <;> rfl
  | list ns typ sel => rfl

/-- Reads return the last committed value. -/
theorem get_reads_store (cfg : Cfg) (s : Store) (now : Nat) (ns typ id : String) :
    (step cfg s now (.get ns typ id)).2 =
      match s.get (cfg.key ns typ id) with
      | some r => .res r
      | none => Spec.err .notFound ns typ := by
  rw [step_eq_spec]; simp only [Spec.step]; split <;> simp_all

/-! ### error classification -/

/-- the four public classes, as the Go predicates compute them -/
def classOf (e : Err) : String :=
  if e.ctor.isNotFound then "notFound"
  else if e.ctor.isOwnerConflict then "ownerConflict"
  else if e.ctor.isPhaseConflict then "phaseConflict"
  else if e.ctor.isConflict then "conflict"
  else "other"

/-- shape of every error the specification can return -/
theorem spec_err_shape (cfg : Cfg) (s : Store) (now : Nat) (op : Op) (e : Err)
    (h : (Spec.step cfg s now op).2 = .err e) :
    ∃ c ns typ, e = { ctor := c, res := if c.isConflict then some (ns, typ) else none } ∧
      (c = .ownerAlreadySet ∨ c = .notFound ∨ c.isConflict = true) := by
  cases op <;> simp only [Spec.step] at h <;> (repeat' split at h) <;>
    first
    | (simp only [Spec.err, Out.err.injEq] at h; exact ⟨_, _, _, h.symm, by decide⟩)
    | (exact absurd h (by simp))

/-- Every error any store operation can return, except the documented
    "owner is already set" refusal of `Create` for an object pre-stamped with a
    different owner, falls in one of the four classes. -/
theorem error_classified (cfg : Cfg) (s : Store) (now : Nat) (op : Op) (e : Err)
    (h : (step cfg s now op).2 = .err e) (hno : e.ctor ≠ .ownerAlreadySet) :
    classOf e ≠ "other" := by
  rw [step_eq_spec] at h
  obtain ⟨c, ns, typ, he, hc⟩ := spec_err_shape cfg s now op e h
  subst he
  cases c <;> simp_all [classOf, ErrCtor.isNotFound, ErrCtor.isConflict, ErrCtor.isOwnerConflict,
    ErrCtor.isPhaseConflict]

/-- **No panic.** The qualified conflict predicate is defined (does not dereference a
    nil resource) for every error a store operation can return and every qualifier. -/
theorem qualified_predicate_total (cfg : Cfg) (s : Store) (now : Nat) (op : Op) (e : Err)
    (qns qtyp : String) (h : (step cfg s now op).2 = .err e) :
    (e.isConflictQ qns qtyp).isSome = true := by
  rw [step_eq_spec] at h
  obtain ⟨c, ns, typ, he, _⟩ := spec_err_shape cfg s now op e h
  subst he
  unfold Err.isConflictQ
  by_cases hc : c.isConflict = true
  · simp only [hc, Bool.not_true, if_true]
    (repeat' split) <;> simp_all
  · simp [hc]

/-- qualifier semantics: with the matching namespace/type the qualified predicate
    agrees with the unqualified one, with a different one it is false -/
theorem qualified_predicate_sound (e : Err) (ns typ qns qtyp : String)
    (hr : e.res = some (ns, typ)) (hc : e.ctor.isConflict = true) :
    e.isConflictQ qns qtyp = some (decide ((qns = "" ∨ qns = ns) ∧ (qtyp = "" ∨ qtyp = typ))) := by
  unfold Err.isConflictQ
  simp only [hc, hr, Bool.not_true]
  have c' : (qns = ns) = (ns = qns) := propext ⟨Eq.symm, Eq.symm⟩
  have d' : (qtyp = typ) = (typ = qtyp) := propext ⟨Eq.symm, Eq.symm⟩
  by_cases a : qns = "" <;> by_cases b : qtyp = "" <;> by_cases c : ns = qns <;>
    by_cases d : typ = qtyp <;> simp [a, b, c, d, c', d']

/-! ### non-vacuity: a concrete store meets the hypotheses above -/

def exRes : Res :=
  { ns := "n1", typ := "T1", id := "a", ver := some 1, owner := "A", phase := .running,
    fins := [], labels := [], created := 0, updated := 0, spec := "x" }

example : (step {} [] 0 (.create { exRes with owner := "" } "A")).2.isOk = true := by decide
example : (step {} [(("n1","T1","a"), exRes)] 5 (.update exRes "A" (some .running))).2.isOk = true := by
  decide
example : (step {} [(("n1","T1","a"), exRes)] 5 (.update exRes "B" (some .running))).2.isErr = true := by
  decide
example : (step {} [(("n1","T1","a"), { exRes with fins := ["f"] })] 5 (.destroy "n1" "T1" "a" "A")).2.isErr
    = true := by decide

end Cosi.C01
