/-
  Property C16, clause "a … task that returns an error or panics is restarted with exponentially
  growing … backoff" — for EVERY error value, in particular one that wraps context.Canceled while
  the task's own context is alive (for the controller adapters such an error is a clean exit by
  design, `RunEnd.finished`; pkg/task makes no such exception).

  Model: `Cosi.Model.TaskLoop` (`stepWith rules`; `step = stepWith genRules`, the rule being
  instantiated from the regenerated facts `Cosi.Gen.Restart.taskFinish` / `taskPassesError`).

    Sound                             the exit rule: the loop takes nil, and only nil, for "finished"
    genRules_sound                    the CURRENT source implements it (rests on the facts)
    refines_restart_model             the fine machine is `Cosi.Model.Restart.tstep` under `TaskEnd.coarse`
                                      (every non-nil error is a failure) — so all task theorems of `Cosi.Props.C16`
                                      carry over to error values
    task_error_always_restarted       after any history: a run that ends with ANY non-nil error or a panic is
                                      followed by a backoff within the window of base(n), n = failures so far
    canceled_error_restarts_like_any_error
    stops_only_by_nil_or_cancellation every schedule: the loop has stopped only if RunTask returned nil or the
                                      context was cancelled during a wait
  negative, kernel-checked:
    seeded_swallows_canceled_error    rule `err == nil || errors.Is(err, context.Canceled)`: the task is "finished",
    seeded_never_restarted            and no schedule whatsoever runs it again
-/
import Cosi.Model.TaskLoop
import Cosi.Props.C16

namespace Cosi.C16K

open Cosi Cosi.Restart Cosi.TaskLoop Cosi.Queue.Backoff

/-- the exit rule of the loop: nil, and only nil -/
structure Sound (r : Rules) : Prop where
  finishes_iff_nil : ∀ e, r.finishes e = (e == .nil)

theorem goodRules_sound : Sound goodRules := ⟨fun _ => rfl⟩

/-- the regenerated facts this module rests on -/
theorem facts : Gen.Restart.taskFinish = .errNil ∧ Gen.Restart.taskPassesError = true ∧
    Gen.Restart.taskRecovers = true ∧ taskBackoffKnown = true := by decide

/-- the CURRENT source implements the rule -/
theorem genRules_sound : Sound genRules := by
  have h1 : Gen.Restart.taskFinish = .errNil := facts.1
  have h2 : Gen.Restart.taskPassesError = true := facts.2.1
  exact ⟨fun e => by simp [genRules, h1, h2]⟩

theorem enabled_coarse (s : BLoop) (e : TEv) : e.coarse.enabled s = e.enabled s := by
  cases e <;> rfl

/-- **refinement**: under any sound rule the fine machine is the task loop of
    `Cosi.Model.Restart`, every non-nil error value counting as `RunEnd.failed` -/
theorem refines_restart_model_with (r : Rules) (hr : Sound r) (s : BLoop) (e : TEv) :
    stepWith r s e = tstep s e.coarse := by
  have hrec : Gen.Restart.taskRecovers = true := facts.2.2.1
  unfold stepWith tstep
  rw [enabled_coarse]
  by_cases hen : e.enabled s = true
  · simp only [hen, if_true]
    cases e with
    | runEnds x => cases x <;> simp [TaskLoop.stepOn, tstepOn, TEv.coarse, TaskEnd.coarse, hr.finishes_iff_nil, hrec]
    | timerFires => rfl
    | ctxDone => rfl
  · simp [hen]

theorem refines_restart_model (s : BLoop) (e : TEv) : TaskLoop.step s e = tstep s e.coarse :=
  refines_restart_model_with genRules genRules_sound s e

theorem run_refines (evs : List TEv) (s : BLoop) : TaskLoop.run s evs = trun s (evs.map TEv.coarse) := by
  induction evs generalizing s with
  | nil => rfl
  | cons e rest ih =>
    show runWith genRules (stepWith genRules s e) rest = trun (tstep s e.coarse) (rest.map TEv.coarse)
    rw [refines_restart_model_with genRules genRules_sound]
    exact ih _

theorem coarse_ne_finished (e : TaskEnd) (he : e ≠ .nil) : e.coarse ≠ .finished := by
  cases e <;> simp [TaskEnd.coarse] at * 

/-- **C16, task, every error value.** After any history of the task loop: a run that ends with a
    non-nil error — plain, wrapping context.Canceled, or a recovered panic — is followed by a backoff
    whose interval comes from the window around `base n`, `n` = the task's failures so far (a task's
    backoff is never reset). The task is restarted; it is not "finished". -/
theorem task_error_always_restarted (evs : List TEv) (e : TaskEnd) (he : e ≠ .nil)
    (hph : (TaskLoop.run {} evs).phase = .running) :
    (TaskLoop.step (TaskLoop.run {} evs) (.runEnds e)).phase =
      .backingOff (bounds (base (C16.tcount {} (evs.map TEv.coarse) 0))).1
                  (bounds (base (C16.tcount {} (evs.map TEv.coarse) 0))).2 := by
  rw [refines_restart_model, run_refines] at *
  exact C16.task_restart_backoff (evs.map TEv.coarse) e.coarse 0 (coarse_ne_finished e he) hph

/-- an error that wraps context.Canceled is restarted exactly like any other error -/
theorem canceled_error_restarts_like_any_error (s : BLoop) :
    TaskLoop.step s (.runEnds .canceledErr) = TaskLoop.step s (.runEnds .failed) := by
  rw [refines_restart_model, refines_restart_model]; rfl

/-- the events that may legitimately end the loop -/
def endsLoop : TEv → Bool
  | .runEnds .nil => true
  | .ctxDone => true
  | _ => false

theorem step_not_stopped (s : BLoop) (e : TEv) (hs : s.phase ≠ .stopped) (he : endsLoop e = false) :
    (TaskLoop.step s e).phase ≠ .stopped := by
  rw [refines_restart_model]
  unfold tstep
  by_cases hen : e.coarse.enabled s = true
  · simp only [hen, if_true]
    have hrec : Gen.Restart.taskRecovers = true := facts.2.2.1
    cases e with
    | runEnds x =>
      cases x with
      | nil => simp [endsLoop] at he
      | canceledErr => simp [tstepOn, TEv.coarse, TaskEnd.coarse, C16.failTask_eq]
      | failed => simp [tstepOn, TEv.coarse, TaskEnd.coarse, C16.failTask_eq]
      | panicked => simp [tstepOn, TEv.coarse, TaskEnd.coarse, C16.failTask_eq, hrec]
    | timerFires => simp [tstepOn, TEv.coarse]
    | ctxDone => simp [endsLoop] at he
  · simp only [hen]; exact hs

/-- **a task stops only by returning nil or by cancellation** — every schedule: if none of the
    events was `RunTask returned nil` or `ctx.Done during a wait`, the loop has not stopped,
    whatever errors (wrapping context.Canceled or not) and panics occurred -/
theorem stops_only_by_nil_or_cancellation (evs : List TEv) (h : ∀ e ∈ evs, endsLoop e = false) (s : BLoop)
    (hs : s.phase ≠ .stopped) : (TaskLoop.run s evs).phase ≠ .stopped := by
  induction evs generalizing s with
  | nil => exact hs
  | cons e rest ih =>
    exact ih (fun x hx => h x (List.mem_cons_of_mem _ hx)) _
      (step_not_stopped s e hs (h e (List.mem_cons_self ..)))

/-- (marker) errors reported below this line are in the witnesses -/
theorem examples_follow : True := trivial

/-! ### non-vacuity and negative witnesses -/

/-- the seeded rule (C16-d): `err == nil || errors.Is(err, context.Canceled)` -/
def nilOrCanceledRules : Rules := { finishes := fun e => e == .nil || e == .canceledErr }

-- the current source: error, restart, canceled-wrapping error, restart, panic: three failures, third window
example : (TaskLoop.run {} [.runEnds .failed, .timerFires, .runEnds .canceledErr, .timerFires]).phase = .running ∧
    (TaskLoop.step (TaskLoop.run {} [.runEnds .failed, .timerFires, .runEnds .canceledErr, .timerFires]) (.runEnds .panicked)).phase =
      .backingOff 562500000 1687500001 ∧
    C16.tcount {} ([TEv.runEnds .failed, .timerFires, .runEnds .canceledErr, .timerFires].map TEv.coarse) 0 = 2 := by
  decide

/-- **negative witness for the seeded rule**: the error is swallowed, the task counts as finished … -/
theorem seeded_swallows_canceled_error :
    (runWith nilOrCanceledRules {} [.runEnds .canceledErr]).phase = .stopped ∧
    (runWith nilOrCanceledRules {} [.runEnds .failed]).phase = .backingOff 250000000 750000001 ∧
    (runWith nilOrCanceledRules {} [.runEnds .panicked]).phase = .backingOff 250000000 750000001 := by decide

/-- … and stays so under every schedule (whatever the rule): nothing is enabled in a stopped loop -/
theorem seeded_never_restarted (r : Rules) (evs : List TEv) (s : BLoop) (hs : s.phase = .stopped) :
    runWith r s evs = s := by
  induction evs with
  | nil => rfl
  | cons e rest ih =>
    have : stepWith r s e = s := by
      unfold stepWith
      have : e.enabled s = false := by cases e <;> simp [TEv.enabled, hs, Phase.isBackingOff]
      simp [this]
    show runWith r (stepWith r s e) rest = s
    rw [this]; exact ih

theorem seeded_not_sound : ¬ Sound nilOrCanceledRules := fun h => by
  have := h.finishes_iff_nil .canceledErr
  exact absurd this (by decide)

end Cosi.C16K
