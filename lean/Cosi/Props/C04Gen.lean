/-
  Property C04, tie to the source text — the read-modify-write helpers of pkg/state/wrap.go as the machine whose
  decision points are regenerated facts (Cosi.Model.WrapRules: `RLocal.resumeWith rules`; Cosi.Model.WrapGen:
  `genRules`, `resume := resumeWith genRules`), and the thin forwarding layer of pkg/state/owned/state.go
  (`Owned.forward genORules`). The fact-independent lemmas are in Props/WrapSim.

    genRules_good                 the CURRENT source text implements the intended rules (every field a regenerated fact of
                                  Cosi.Gen.Wrap: uwcFirstPass / uwcRetryPass / uwcRetryOn, teardownFrame / teardownReadyFrom,
                                  modifyFrame / modifyDefaultsRunning / modifyOnCreateError, add/removeFinalizerFrame, waitAct,
                                  ctxAct, matchGuards …) — breaks whenever wrap.go / condition.go change shape
    success_applied_once_gen, no_lost_update_gen, error_no_effect_gen, error_means_no_commit_gen,
    no_retry_into_success_gen, uwc_phase_mismatch_ends_gen, success_applied_once_create_gen
                                  the theorems of Props/C04 (and the new create-path statement of Props/WrapSim) for the
                                  machine generated from the current source, every schedule; each evaluates
                                  `genRules.rmw = goodRules.rmw` from the facts in its own proof, so a changed helper breaks
                                  exactly the theorems about it
    stepActor_gen                 the system the driver runs in model mode is the one it runs in spec mode
    genORules_good / owned_forward_good / owned_forward_gen / owned_modify_phase_conflict_gen
                                  owned.X(opts) = wrapped.X(owner := the owned.State's owner (or none / the explicit one),
                                  expected phase := as given)
    retry_skips_phase_check / retry_into_success_witness, restart_applies_twice_witness,
    owned_dropped_phase_witness   kernel-checked: with the rule "phase test outside the retry loop", "restart after a lost
                                  create race", "explicit expected phase dropped" the SAME machine violates the statement
-/
import Cosi.Props.WrapSim
import Cosi.Model.WrapGen
open Cosi Cosi.WR Cosi.C04 Cosi.WrapSim
namespace Cosi.C04Gen

/-! ### the tie: the current source implements the intended rules -/

/-- **the rules regenerated from wrap.go / condition.go are the intended ones** -/
theorem genRules_good : genRules = goodRules := by decide

/-- the part the read-modify-write helpers look at -/
theorem genRules_rmw : genRules.rmw = goodRules.rmw := by decide

/-! ### the theorems of Props/C04 for the machine generated from the current source -/

/-- the model of the current source text -/
def _root_.Cosi.WrapSim.RCSys.step (cfg : Cfg) (s : RCSys) (now : Nat) (x : Sched) : RCSys := s.stepWith genRules cfg now x
def _root_.Cosi.WrapSim.RCSys.run (cfg : Cfg) (s : RCSys) (t0 : Nat) (xs : List Sched) : RCSys := s.runWith genRules cfg t0 xs


/-- **C04 success_applied_once, generated machine.** Any number of concurrent helper calls, any mutators and
    options, any environment creates and updates, EVERY interleaving of the individual Get/Update/Create steps of the
    machine whose decision points are read off the current wrap.go: every write a helper commits is its mutator
    applied to the value stored immediately before that write, version bumped by exactly one. -/
theorem success_applied_once_gen (cfg : Cfg) (k : Key) (s0 : RCSys) (h0 : initOk cfg k s0.proj) (t0 : Nat)
    (xs : List Sched) (hxs : ∀ x ∈ xs, schedOk cfg k x) :
    ∀ c ∈ (s0.run cfg t0 xs).commits, c.ok := by
  have h := runWith_sim genRules (by decide : genRules.rmw = goodRules.rmw) cfg xs s0 t0 (initOk_allRmw cfg k s0 h0)
  have hc : (s0.run cfg t0 xs).commits = (s0.proj.run cfg t0 xs).commits := by
    show (s0.runWith genRules cfg t0 xs).proj.commits = _
    rw [h]
  rw [hc]
  exact success_applied_once cfg k s0.proj h0 t0 xs hxs

/-- the contended run of Props/C04 (a retry after a lost race) on the generated machine -/
def exSysGen : RCSys :=
  { store := [(wKey, exRes)],
    actors := [RLocal.start (.uwc "n1" "T1" "a" (.addFins ["A"]) "" none),
               RLocal.start (.uwc "n1" "T1" "a" (.setSpec "y") "" none)] }

example : initOk {} wKey exSysGen.proj := by
  refine ⟨?_, ?_, rfl⟩
  · intro c hc
    simp [exSysGen, RCSys.proj, Store.get, wKey] at hc
    subst hc; exact ⟨rfl, rfl⟩
  · intro l hl
    simp [exSysGen, RCSys.proj] at hl
    rcases hl with rfl | rfl
    · exact ⟨.uwc "n1" "T1" "a" (.addFins ["A"]) "" none, rfl, rfl, rfl⟩
    · exact ⟨.uwc "n1" "T1" "a" (.setSpec "y") "" none, rfl, rfl, rfl⟩

example : ((exSysGen.run {} 1 exSched).commits.map (·.actor)) = [1, 0] := by decide
example : ((exSysGen.run {} 1 exSched).store.get wKey).map (fun r => (r.ver, r.fins, r.spec))
    = some (some 3, ["A"], "y") := by decide

/-- **C04 no_lost_update, generated machine.** -/
theorem no_lost_update_gen (cfg : Cfg) (k : Key) (xs : List Sched) (hxs : ∀ x ∈ xs, actorOnly x)
    (s : RCSys) (t0 : Nat) (init : Option Res) (hinv : Inv cfg k s.proj)
    (hrep : s.store.get k = s.commits.foldl applyCommit init) :
    (s.run cfg t0 xs).store.get k = (s.run cfg t0 xs).commits.foldl applyCommit init := by
  have h := runWith_sim genRules (by decide : genRules.rmw = goodRules.rmw) cfg xs s t0 (inv_allRmw cfg k s hinv)
  have hst : (s.run cfg t0 xs).store = (s.proj.run cfg t0 xs).store := by
    show (s.runWith genRules cfg t0 xs).proj.store = _
    rw [h]
  have hc : (s.run cfg t0 xs).commits = (s.proj.run cfg t0 xs).commits := by
    show (s.runWith genRules cfg t0 xs).proj.commits = _
    rw [h]
  rw [hst, hc]
  exact no_lost_update cfg k xs hxs s.proj t0 init hinv hrep

/-- **C04 error_no_effect, generated machine**: in every reachable state a call that has committed a write has
    committed exactly one and has returned success. -/
theorem error_no_effect_gen (cfg : Cfg) (k : Key) (xs : List Sched) (hxs : ∀ x ∈ xs, schedOk cfg k x)
    (s : RCSys) (t0 : Nat) (hinv : Inv cfg k s.proj) (h : OnceInv s.proj) : OnceInv (s.run cfg t0 xs).proj := by
  have hs := runWith_sim genRules (by decide : genRules.rmw = goodRules.rmw) cfg xs s t0 (inv_allRmw cfg k s hinv)
  show OnceInv (s.runWith genRules cfg t0 xs).proj
  rw [hs]
  exact error_no_effect cfg k xs hxs s.proj t0 hinv h

/-- corollary in the shape of the property statement: a call that ended with an error owns no commit -/
theorem error_means_no_commit_gen (cfg : Cfg) (k : Key) (s0 : RCSys) (h0 : initOk cfg k s0.proj) (t0 : Nat)
    (xs : List Sched) (hxs : ∀ x ∈ xs, schedOk cfg k x) (i : Nat) (x : RLocal) (cls : String)
    (hx : (s0.run cfg t0 xs).actors[i]? = some x) (herr : x.l.pc = .done (.err cls)) :
    (s0.run cfg t0 xs).commits.filter (·.actor = i) = [] := by
  have hs := runWith_sim genRules (by decide : genRules.rmw = goodRules.rmw) cfg xs s0 t0 (initOk_allRmw cfg k s0 h0)
  have hl : (s0.proj.run cfg t0 xs).actors[i]? = some x.l := by
    rw [← hs]
    show ((s0.run cfg t0 xs).actors.map (·.l))[i]? = some x.l
    rw [List.getElem?_map, hx]; rfl
  have := error_means_no_commit cfg k s0.proj h0 t0 xs hxs i x.l cls hl herr
  unfold commitsOf at this
  rw [← hs] at this
  exact this

/-- **only a plain version conflict sends the generated UpdateWithConflicts back to its Get**; an owner conflict, a
    phase conflict or any other error of the Update ends the call with that error -/
theorem no_retry_into_success_gen (x : RLocal) (cur new : Res) (e : Err) (hpc : x.l.pc = .uwcUpdate cur new)
    (hne : errClass e ≠ "conflict") (hr : isRmw x.l.call = true) :
    (x.resume (.out (.err e))).l.pc = .done (.err (errClass e)) := by
  show (x.resumeWith genRules _).l.pc = _
  rw [resumeWith_sim genRules x _ (agreeOn_rmw x.l hr genRules goodRules (by decide : genRules.rmw = goodRules.rmw))]
  exact no_retry_into_success x.l cur new e hpc hne hr

/-- **the expected-phase test ends the generated UpdateWithConflicts on EVERY read** — the first one and every
    re-read after a version conflict (`x.retry` is arbitrary): a call expecting phase `p` never gets past a Get that
    returned a value in another phase; it returns the phase conflict and (error_means_no_commit_gen) has no effect -/
theorem uwc_phase_mismatch_ends_gen (x : RLocal) (cur : Res) (hpc : x.l.pc = .uwcGet) (p : Phase)
    (hexp : x.l.uexp = some p) (hne : p ≠ cur.phase) (hr : isRmw x.l.call = true) :
    (x.resume (.out (.res cur))).l.pc = .done (.err "phaseConflict") := by
  show (x.resumeWith genRules _).l.pc = _
  rw [resumeWith_sim genRules x _ (agreeOn_rmw x.l hr genRules goodRules (by decide : genRules.rmw = goodRules.rmw))]
  exact uwc_phase_mismatch_ends x.l cur hpc p hexp hne hr


/-- … for the machine generated from the current source (read-modify-write helpers, any schedule) -/
theorem success_applied_once_create_gen (cfg : Cfg) (s0 : RCSys) (hstart : ∀ x ∈ s0.actors, ∃ c, x = RLocal.start c)
    (hrmw : s0.allRmw) (hc0 : s0.commits = []) (t0 : Nat) (xs : List Sched) :
    ∀ c ∈ (s0.run cfg t0 xs).commits, createdBy (s0.actors.map (·.l.call)) c := by
  have hs := runWith_sim genRules (by decide : genRules.rmw = goodRules.rmw) cfg xs s0 t0 hrmw
  have hc : (s0.run cfg t0 xs).commits = (s0.proj.run cfg t0 xs).commits := by
    show (s0.runWith genRules cfg t0 xs).proj.commits = _
    rw [hs]
  have hcalls : s0.actors.map (·.l.call) = s0.proj.actors.map (·.call) := by
    simp [RCSys.proj, List.map_map]
  rw [hc, hcalls]
  refine success_applied_once_create cfg s0.proj ?_ hc0 t0 xs
  intro l hl
  obtain ⟨x, hx, rfl⟩ := List.mem_map.1 hl
  obtain ⟨c, rfl⟩ := hstart x hx
  exact ⟨c, rfl⟩


/-! ### the system the driver runs in model mode is the one it runs in spec mode -/

/-- `RHSys.stepActor` (model mode, rules regenerated from the source) is `HSys.stepActor` (spec mode) -/
theorem stepActor_gen (s : RHSys) (a now : Nat) :
    (s.stepActor a now).1.proj = (s.proj.stepActor a now).1 ∧ (s.stepActor a now).2 = (s.proj.stepActor a now).2 := by
  unfold RHSys.stepActor
  rw [(by decide : genRules = goodRules)]
  exact stepActorWith_good s a now

/-! ### pkg/state/owned/state.go forwards the owner and the expected phase as given -/

open Cosi.Owned in
/-- **the forwarding rules regenerated from owned/state.go and owned/owned.go are the intended ones** -/
theorem genORules_good : Owned.genORules = Owned.goodORules := by decide

open Cosi.Owned in
/-- **owned.X(opts) = wrapped.X(owner, phase as given)**: Modify(WithResult) hands down the owned.State's owner
    (none with WithModifyNoOwner) and the caller's expected phase (running by default, any with
    WithExpectedPhaseAny, the explicit one otherwise); Teardown and Destroy hand down the explicit owner or the
    owned.State's; Add/RemoveFinalizer pass through -/
theorem owned_forward_good (name : String) :
    (∀ r m no exp, forward goodORules name (.modify r m no exp) = .modify r m (if no then "" else name) exp.toOption) ∧
    (∀ ns typ id o, forward goodORules name (.teardown ns typ id o) = .teardown ns typ id (o.getD name)) ∧
    (∀ ns typ id fs, forward goodORules name (.addFin ns typ id fs) = .addFin ns typ id fs) ∧
    (∀ ns typ id fs, forward goodORules name (.removeFin ns typ id fs) = .removeFin ns typ id fs) ∧
    (∀ ns typ id o, forwardDestroy goodORules name ns typ id o = .destroy ns typ id (o.getD name)) :=
  ⟨fun _ _ _ _ => rfl, fun _ _ _ _ => rfl, fun _ _ _ _ => rfl, fun _ _ _ _ => rfl, fun _ _ _ _ => rfl⟩

open Cosi.Owned in
/-- … for the current source -/
theorem owned_forward_gen (name : String) (r : Res) (m : Mut) (no : Bool) (exp : OExp) :
    forward genORules name (.modify r m no exp) = .modify r m (if no then "" else name) exp.toOption := by
  rw [(by decide : genORules = goodORules)]; rfl

open Cosi.Owned in
/-- **an explicit expected phase given to owned.Modify is enforced**: the call (through the current owned/state.go
    and the current wrap.go) on a resource in another phase ends with the phase conflict at its first read inside
    UpdateWithConflicts — before any write (error_means_no_commit_gen: no effect) -/
theorem owned_modify_phase_conflict_gen (name : String) (r : Res) (m : Mut) (no : Bool) (p : Phase) (c0 cur : Res)
    (hne : p ≠ cur.phase) :
    (((RLocal.start (forward genORules name (.modify r m no (.explicit p)))).resume (.out (.res c0))).resume
        (.out (.res cur))).l.pc = .done (.err "phaseConflict") := by
  have hf : forward genORules name (.modify r m no (.explicit p)) =
      .modify r m (if no then "" else name) (OExp.explicit p).toOption := by
    rw [(by decide : genORules = goodORules)]; rfl
  rw [hf]
  have h1 : ((RLocal.start (.modify r m (if no then "" else name) (OExp.explicit p).toOption)).resume (.out (.res c0))).l =
      { call := .modify r m (if no then "" else name) (some p), pc := .uwcGet, um := m,
        uowner := (if no then "" else name), uexp := some p } := by
    show (RLocal.resumeWith genRules _ _).l = _
    rw [resumeWith_sim genRules _ _ (agreeOn_rmw _ rfl genRules goodRules (by decide : genRules.rmw = goodRules.rmw))]
    rfl
  refine uwc_phase_mismatch_ends_gen _ cur ?_ p ?_ hne ?_
  · rw [h1]
  · rw [h1]
  · rw [h1]; rfl

/-! ### negative witnesses: other rules at the same decision points violate the statements (kernel-checked) -/

/-- the rule "expected-phase test before the retry loop only" (uwcRetryPass without `.phaseCheck`) -/
def rulePhaseOutside : Rules := { goodRules with rmw := { goodRules.rmw with phaseCheckOnRetry := false } }

/-- the rule "start over after a lost create race" (modifyOnCreateError = .restart) -/
def ruleRestart : Rules := { goodRules with rmw := { goodRules.rmw with onCreateError := .restart } }

/-- `uwc_phase_mismatch_ends_gen` is false for the rule "phase test outside the loop": a re-read after a version
    conflict that returns a torn-down value on which the mutator is a no-op is a success -/
theorem retry_skips_phase_check :
    ∃ (x : RLocal) (cur : Res) (p : Phase), x.l.pc = .uwcGet ∧ x.l.uexp = some p ∧ p ≠ cur.phase ∧
      isRmw x.l.call = true ∧ (x.resumeWith rulePhaseOutside (.out (.res cur))).l.pc ≠ .done (.err "phaseConflict") :=
  ⟨{ l := { call := .uwc "n1" "T1" "a" .noop "" (some .running), pc := .uwcGet, uexp := some .running }, retry := true },
   { exRes with phase := .tearingDown }, .running, rfl, rfl, by decide, rfl, fun h => by
     have := congrArg (fun pc => match pc with | Pc.done r => some r | _ => none) h
     revert this; decide⟩

/-- UpdateWithConflicts expecting phase running, mutator "spec := y"; between its Get and its Update another party
    sets the same spec and tears the resource down -/
def phaseSys : RCSys :=
  { store := [(wKey, exRes)],
    actors := [RLocal.start (.uwc "n1" "T1" "a" (.setSpec "y") "" (some .running))] }

def phaseSched : List Sched :=
  [.actor 0, .env (.update { exRes with spec := "y", phase := .tearingDown } "" none), .actor 0, .actor 0]

/-- **a phase conflict retried into success**: with the rule "phase test outside the loop" the call returns a
    tearing-down resource as its success although it expected phase running … -/
theorem retry_into_success_witness :
    (phaseSys.runWith rulePhaseOutside {} 1 phaseSched).actors.map retOf =
      [some (.okRes { exRes with spec := "y", phase := .tearingDown, ver := some 2, updated := 2 })] := by decide

/-- … whereas the intended rule (and, by `genRules_good`, the current source) returns the phase conflict -/
theorem retry_into_success_good :
    (phaseSys.runWith goodRules {} 1 phaseSched).actors.map retOf = [some (.err "phaseConflict")] := by decide

/-- the caller's emptyResource of the Modify below -/
def wEmpty : Res :=
  { ns := "n1", typ := "T1", id := "a", ver := none, owner := "", phase := .running,
    fins := [], labels := [], created := 0, updated := 0, spec := "s" }

/-- Modify with the non-idempotent mutator "append x to the spec" on an absent resource -/
def restartSys : RCSys :=
  { store := [], actors := [RLocal.start (.modify wEmpty (.appendSpec "x") "" (some .running))] }

/-- Get: not found · a rival creates · Create: already exists · the rival destroys · (restart:) Get: not found · Create -/
def restartSched : List Sched :=
  [.actor 0, .env (.create wEmpty ""), .actor 0, .env (.destroy "n1" "T1" "a" ""), .actor 0, .actor 0]

/-- **the mutation applied twice**: with the rule "start over after a lost create race" the call creates the
    resource with its mutator applied TWICE to the caller's object (`createdBy` demands "sx") … -/
theorem restart_applies_twice_witness :
    (restartSys.runWith ruleRestart {} 1 restartSched).commits.map (fun c => (c.actor, c.old.isSome, c.new.spec)) =
      [(0, false, "sxx")] ∧
    ¬ ∀ c ∈ (restartSys.runWith ruleRestart {} 1 restartSched).commits, createdBy (restartSys.actors.map (·.l.call)) c := by
  refine ⟨by decide, fun h => ?_⟩
  have hc : (restartSys.runWith ruleRestart {} 1 restartSched).commits ≠ [] := by decide
  cases hcs : (restartSys.runWith ruleRestart {} 1 restartSched).commits with
  | nil => exact hc hcs
  | cons c cs =>
    have hspec : ((restartSys.runWith ruleRestart {} 1 restartSched).commits.map fun c => (c.actor, c.old, c.new.spec)) =
        [(0, none, "sxx")] := by decide
    rw [hcs] at hspec h
    simp only [List.map_cons, List.cons.injEq, Prod.mk.injEq] at hspec
    obtain ⟨⟨ha, ho, hs⟩, _⟩ := hspec
    obtain ⟨r0, m, o, e, n, hcall, hm, hnew⟩ := h c List.mem_cons_self ho
    rw [ha] at hcall
    simp only [restartSys, RLocal.start, HCall.start, List.map_cons, List.map_nil, List.getElem?_cons_zero,
      Option.some.injEq, HCall.modify.injEq] at hcall
    obtain ⟨rfl, rfl, _, _⟩ := hcall
    simp only [Mut.apply, Option.some.injEq] at hm
    rw [hnew, ← hm] at hs
    have hs' : ("s" ++ "x" : String) = "sxx" := hs
    exact absurd hs' (by decide)

/-- … whereas the intended rule returns the already-exists conflict and commits nothing -/
theorem restart_good :
    (restartSys.runWith goodRules {} 1 restartSched).actors.map retOf = [some (.err "conflict")] ∧
    (restartSys.runWith goodRules {} 1 restartSched).commits.length = 0 := by decide

open Cosi.Owned in
/-- the rule "forward only `any`; an explicit expected phase is dropped" (ownedModifyPhase = .anyOnly) -/
def ruleDropPhase : ORules := { goodORules with modifyPhase := .anyOnly }

/-- a running resource owned by controller C -/
def ownedRes : Res := { exRes with owner := "C" }

open Cosi.Owned in
/-- owned.Modify(…, WithExpectedPhase(TearingDown)) by controller C through the rules `r` -/
def ownedSys (r : ORules) : RCSys :=
  { store := [(wKey, ownedRes)],
    actors := [RLocal.start (forward r "C" (.modify wEmpty (.setSpec "y") false (.explicit .tearingDown)))] }

open Cosi.Owned in
/-- **a phase conflict turned into a success**: with the rule "explicit expected phase dropped" owned.Modify
    expecting tearing-down commits its mutation on a RUNNING resource … -/
theorem owned_dropped_phase_witness :
    forward ruleDropPhase "C" (.modify wEmpty (.setSpec "y") false (.explicit .tearingDown)) =
      .modify wEmpty (.setSpec "y") "C" (some .running) ∧
    ((ownedSys ruleDropPhase).runWith goodRules {} 1 [.actor 0, .actor 0, .actor 0]).commits.map
      (fun c => (c.actor, c.old.map (·.phase), c.new.spec)) = [(0, some .running, "y")] := by
  constructor
  · rfl
  · decide

open Cosi.Owned in
/-- … whereas the intended rule returns the phase conflict and commits nothing -/
theorem owned_dropped_phase_good :
    ((ownedSys goodORules).runWith goodRules {} 1 [.actor 0, .actor 0, .actor 0]).actors.map retOf =
      [some (.err "phaseConflict")] ∧
    ((ownedSys goodORules).runWith goodRules {} 1 [.actor 0, .actor 0, .actor 0]).commits.length = 0 := by decide

end Cosi.C04Gen
