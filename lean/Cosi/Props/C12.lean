/-
  Property C12 — bookmarks resume exactly; stale/foreign bookmarks rejected; tails exact.

    bookmark_roundtrip        byte level: decode (encode p) = p for every int64 and cookie
    foreign_rejected          wrong length / another process' cookie never decodes
    kind/single_reject_invalid, kind/single_accept, accepted_has_no_gap, recent_accepted
                              the acceptance window, and that acceptance implies retention
    started_ginv + C02.delivered_is_log_segment + resume_concatenates
                              interrupted + resumed = uninterrupted
    rewrite_bm (+ C02.RingInv.bm)  every delivered event carries the bookmark of its own log position
    kind_tail_pos, tailBack_spec   tails are exact
-/
import Cosi.Props.C02
import Cosi.Model.Bookmark
open Cosi
namespace Cosi.C12
open Cosi.C02

theorem u8 (x : Nat) (h : x < 256) : (UInt8.ofNat x).toNat = x := by
  simp [Nat.mod_eq_of_lt h]

theorem fromBe64_be64 (n : Nat) (h : n < 2^64) : fromBe64 (be64 n) = n := by
  simp only [be64, fromBe64]
  rw [u8 _ (Nat.mod_lt _ (by decide)), u8 _ (Nat.mod_lt _ (by decide)), u8 _ (Nat.mod_lt _ (by decide)),
    u8 _ (Nat.mod_lt _ (by decide)), u8 _ (Nat.mod_lt _ (by decide)), u8 _ (Nat.mod_lt _ (by decide)),
    u8 _ (Nat.mod_lt _ (by decide)), u8 _ (Nat.mod_lt _ (by decide))]
  omega

theorem toI64_toU64 (p : Int) (h1 : -(2^63 : Int) ≤ p) (h2 : p < 2^63) : toI64 (toU64 p) = p := by
  unfold toI64 toU64
  by_cases hp : 0 ≤ p
  · have : p % (2^64 : Int) = p := Int.emod_eq_of_lt hp (by omega)
    rw [this]
    have h3 : (p.toNat : Int) = p := Int.toNat_of_nonneg hp
    have h4 : p.toNat < 2^63 := by omega
    rw [if_pos h4, h3]
  · have : p % (2^64 : Int) = p + 2^64 := by
      rw [← Int.add_emod_right]; exact Int.emod_eq_of_lt (by omega) (by omega)
    rw [this]
    have h3 : ((p + 2^64).toNat : Int) = p + 2^64 := Int.toNat_of_nonneg (by omega)
    have h4 : ¬ (p + 2^64).toNat < 2^63 := by omega
    rw [if_neg h4, h3]; omega

theorem toU64_lt (p : Int) : toU64 p < 2^64 := by
  unfold toU64
  have h1 : 0 ≤ p % (2^64 : Int) := Int.emod_nonneg _ (by decide)
  have h2 : p % (2^64 : Int) < 2^64 := Int.emod_lt_of_pos _ (by decide)
  omega

/-- **Bookmark round-trip**, for every int64 position and every 8-byte cookie. -/
theorem bookmark_roundtrip (cookie : List UInt8) (hc : cookie.length = 8) (p : Int)
    (h1 : -(2^63 : Int) ≤ p) (h2 : p < 2^63) :
    decodeBookmark cookie (encodeBookmark cookie p) = some p := by
  unfold decodeBookmark encodeBookmark
  have hl : (cookie ++ be64 (toU64 p)).length = 16 := by simp [hc, be64]
  have ht : (cookie ++ be64 (toU64 p)).take 8 = cookie := by
    rw [List.take_append_of_le_length (by omega), List.take_of_length_le (by omega)]
  have hd : (cookie ++ be64 (toU64 p)).drop 8 = be64 (toU64 p) := by
    rw [List.drop_append_of_le_length (by omega), List.drop_of_length_le (by omega)]; rfl
  simp only [hl, ht, hd, ne_eq, not_true_eq_false, if_false]
  rw [fromBe64_be64 _ (toU64_lt p), toI64_toU64 p h1 h2]

/-- a bookmark of the wrong length or with another process' cookie never decodes -/
theorem foreign_rejected (cookie b : List UInt8) (h : b.length ≠ 16 ∨ b.take 8 ≠ cookie) :
    decodeBookmark cookie b = none := by
  unfold decodeBookmark
  rcases h with h | h
  · simp [h]
  · by_cases hl : b.length ≠ 16 <;> simp [hl, h]

/-! ### acceptance window of bookmarks (kind / aggregated watches) -/

def bmOpts (b : BookmarkArg) (bb : Bool) : StartOpts := { bookmark := some b, bootstrapBookmark := bb }

/-- **Rejected, never accepted with a gap**: a bookmark that is malformed or foreign
    (does not decode), ahead of the log, older than the retained window, or below -1 is
    refused with an invalid-bookmark error. -/
theorem kind_reject_invalid (r : Ring) (c : List Res) (ns typ : String) (agg bb : Bool) (b : BookmarkArg)
    (h : decodeBm b = none ∨ ∃ p, decodeBm b = some p ∧
      (p < (r.writePos : Int) - r.cap + r.gap ∨ p < -1 ∨ p ≥ r.writePos)) :
    startKind r c ns typ agg (bmOpts b bb) = .error .invalidBookmark := by
  unfold startKind kindStartPos bmOpts
  rcases h with h | ⟨p, hp, hc⟩
  · simp [h]
  · simp [hp, hc]

/-- an accepted bookmark starts the watch right after the bookmarked event … -/
theorem kind_accept (r : Ring) (c : List Res) (ns typ : String) (agg bb : Bool) (b : BookmarkArg) (p : Int)
    (hp : decodeBm b = some p)
    (hc : ¬ (p < (r.writePos : Int) - r.cap + r.gap ∨ p < -1 ∨ p ≥ r.writePos)) :
    startKind r c ns typ agg (bmOpts b bb) =
      .ok ((p + 1).toNat, kindInit c ns typ agg (bmOpts b bb) (p + 1).toNat) := by
  unfold startKind kindStartPos bmOpts
  simp [hp, hc]

/-- … without re-delivering any contents: at most the bootstrap-bookmark Noop -/
theorem kind_accept_no_bootstrap (c : List Res) (ns typ : String) (agg bb : Bool) (b : BookmarkArg) (pos : Nat) :
    (kindInit c ns typ agg (bmOpts b bb) pos).flatten.all (fun e => e.typ == .noop) = true := by
  unfold kindInit bmOpts
  cases bb <;> simp

/-- … and acceptance implies that every event after it is still retained: the
    resumed watcher is not overrun and reads exactly `log[p+1 ..)` (no gap). -/
theorem accepted_has_no_gap (r : Ring) (hr : RingInv r) (p : Int)
    (hc : ¬ (p < (r.writePos : Int) - r.cap + r.gap ∨ p < -1 ∨ p ≥ r.writePos)) :
    (p + 1).toNat ≤ r.writePos ∧ r.writePos - (p + 1).toNat ≤ r.cap ∧
      ∀ q, (p + 1).toNat ≤ q → q < r.writePos → r.at q = r.log[q]? := by
  have h1 : (p + 1).toNat ≤ r.writePos := by omega
  have h2 : r.writePos - (p + 1).toNat ≤ r.cap := by omega
  exact ⟨h1, h2, fun q hq1 hq2 => hr.retained q hq2 (by omega)⟩

/-- **Recent bookmarks are always accepted**: the bookmarks of the most recent
    (initial capacity − gap) events, whatever growth the ring went through. -/
theorem recent_accepted (r : Ring) (initCap : Nat) (hcap : initCap ≤ r.cap) (p : Nat)
    (h1 : p < r.writePos) (h2 : r.writePos ≤ p + (initCap - r.gap)) (hg : r.gap ≤ initCap) :
    ¬ ((p : Int) < (r.writePos : Int) - r.cap + r.gap ∨ (p : Int) < -1 ∨ (p : Int) ≥ r.writePos) := by
  omega

/-- single-resource watches: same window, and position -1 is refused as well -/
theorem single_reject_invalid (r : Ring) (cur : Option Res) (ns typ id : String) (b : BookmarkArg)
    (h : decodeBm b = none ∨ ∃ p, decodeBm b = some p ∧
      (p < (r.writePos : Int) - r.cap + r.gap ∨ p < 0 ∨ p ≥ r.writePos)) :
    startSingle r cur ns typ id { bookmark := some b } = .error .invalidBookmark := by
  unfold startSingle
  rcases h with h | ⟨p, hp, hc⟩
  · simp [h]
  · simp [hp, hc]

theorem single_accept (r : Ring) (cur : Option Res) (ns typ id : String) (b : BookmarkArg) (p : Int)
    (hp : decodeBm b = some p)
    (hc : ¬ (p < (r.writePos : Int) - r.cap + r.gap ∨ p < 0 ∨ p ≥ r.writePos)) :
    startSingle r cur ns typ id { bookmark := some b } = .ok ((p + 1).toNat, []) := by
  unfold startSingle
  simp [hp, hc]

/-- position-level decoding is the byte-level decoding -/
theorem decodeBm_bytes (cookie bs : List UInt8) :
    decodeBm { len := bs.length, cookieOk := bs.take 8 == cookie, pos := toI64 (fromBe64 (bs.drop 8)) }
      = decodeBookmark cookie bs := by
  unfold decodeBm decodeBookmark
  by_cases h1 : bs.length ≠ 16
  · simp [h1]
  · by_cases h2 : bs.take 8 = cookie <;> simp [h1, h2]

/-! ### a started watch satisfies the stream invariant from its start position -/

theorem started_ginv (r : Ring) (w : Watcher) (hpos : w.pos ≤ r.writePos) (hc : w.chan = []) (hd : w.dead = false) :
    GInv { w := w, start := w.pos, init := w.pending.flatten, delivered := [] } r := by
  refine ⟨Nat.le_refl _, hpos, ?_⟩
  show [] ++ (w.chan ++ w.pending).flatten = _
  unfold GW.expected
  simp [hc, hd, seg_self]

theorem kindStartPos_le (r : Ring) (o : StartOpts) (pos : Nat) (hg : r.gap ≤ r.cap)
    (h : kindStartPos r o = .ok pos) : pos ≤ r.writePos := by
  unfold kindStartPos at h
  by_cases ht : o.tail > 0
  · simp only [ht, if_true] at h
    injection h with h; subst h
    by_cases h1 : (o.tail : Int) > (r.cap : Int) - r.gap
    · simp only [h1, if_true]; split <;> omega
    · simp only [h1, if_false]; split <;> omega
  · simp only [ht, if_false] at h
    cases hb : o.bookmark with
    | none => rw [hb] at h; injection h with h; subst h; exact Nat.le_refl _
    | some b =>
      rw [hb] at h
      simp only at h
      cases hd : decodeBm b with
      | none => rw [hd] at h; cases h
      | some p =>
        rw [hd] at h
        simp only at h
        by_cases hc : p < (r.writePos : Int) - r.cap + r.gap ∨ p < -1 ∨ p ≥ r.writePos
        · rw [if_pos hc] at h; cases h
        · rw [if_neg hc] at h; injection h with h; subst h; omega

theorem startKind_pos_le (r : Ring) (c : List Res) (ns typ : String) (agg : Bool) (o : StartOpts)
    (pos : Nat) (init : List Delivery) (hg : r.gap ≤ r.cap)
    (h : startKind r c ns typ agg o = .ok (pos, init)) : pos ≤ r.writePos := by
  unfold startKind at h
  split at h
  · cases h
  · split at h
    · cases h
    · cases hk : kindStartPos r o with
      | error e => rw [hk] at h; cases h
      | ok p =>
        rw [hk] at h
        injection h with h; injection h with h1 h2; subst h1
        exact kindStartPos_le r o p hg hk

/-- **Interrupted + resumed = uninterrupted.** The view of `[s, pos)` is the view of
    `[s, p+1)` (what the original stream delivered up to and including the
    bookmarked event at position `p`) followed by the view of `[p+1, pos)` (exactly
    what a watch resumed from that bookmark produces, by `kind_accept`, `started_ginv`
    and `C02.delivered_is_log_segment`). -/
theorem resume_concatenates (log : List Event) (w1 w2 : Watcher) (hv : view w2 = view w1)
    (s p pos : Nat) (h1 : s ≤ p + 1) (h2 : p + 1 ≤ pos) :
    (seg log s pos).filterMap (view w1) =
      (seg log s (p + 1)).filterMap (view w1) ++ (seg log (p + 1) pos).filterMap (view w2) := by
  rw [hv, seg_append log s (p + 1) pos h1 h2, List.filterMap_append]

/-- every event in the log carries the bookmark of its own position
    (`C02.RingInv.bm`), and the selector rewriting keeps it: resumed events are
    resumable again -/
theorem rewrite_bm (sel : Option (String × String)) (e e' : Event) (h : rewrite sel e = some e') :
    e'.bm = e.bm := by
  unfold rewrite at h
  cases ht : e.typ <;> rw [ht] at h <;> simp only at h <;> (repeat' split at h) <;>
    first
    | (cases h; rfl)
    | cases h

/-! ### tails -/

/-- a kind-watch tail request starts exactly `min N (cap − gap)` events back (clamped
    at the beginning of the log): it delivers exactly the last N retained events -/
theorem kind_tail_pos (r : Ring) (n : Nat) (hn : 0 < n) (hg : r.gap ≤ r.cap) :
    kindStartPos r { tail := n } = .ok (r.writePos - min (min n (r.cap - r.gap)) r.writePos) := by
  unfold kindStartPos
  simp only [hn, if_true]
  by_cases h1 : (n : Int) > (r.cap : Int) - r.gap
  · simp only [h1, if_true]
    have hm : min n (r.cap - r.gap) = r.cap - r.gap := by omega
    rw [hm]
    by_cases h2 : (r.writePos : Int) - ((r.cap : Int) - r.gap) < 0
    · simp only [h2, if_true]; congr 1; omega
    · simp only [h2, if_false]; congr 1; omega
  · simp only [h1, if_false]
    have hm : min n (r.cap - r.gap) = n := by omega
    rw [hm]
    by_cases h2 : (r.writePos : Int) - (n : Int) < 0
    · simp only [h2, if_true]; congr 1; omega
    · simp only [h2, if_false]; congr 1; omega

/-- number of events of `id` in a list -/
def countId (id : String) (l : List Event) : Nat := (l.filter fun e => e.res.id == id).length

theorem countId_append (id : String) (a b : List Event) : countId id (a ++ b) = countId id a + countId id b := by
  simp [countId, List.filter_append]

/-- **Single-resource tail**: the walk-back stops at a position `p'` such that
    `[p', pos)` holds at most `tail` events of `id`, and exactly `tail` of them unless
    it reached the oldest retained position `minPos` (then: all that is retained). -/
theorem tailBack_spec (r : Ring) (hr : RingInv r) (id : String) (tail : Nat) (minPos : Int)
    (hmin : (r.writePos : Int) - r.cap ≤ minPos) (hmin0 : 0 ≤ minPos) :
    ∀ (fuel pos found : Nat), pos ≤ r.writePos → pos ≤ fuel → minPos ≤ pos → found ≤ tail →
      (tailBack r id tail minPos fuel pos found) ≤ pos ∧ minPos ≤ (tailBack r id tail minPos fuel pos found) ∧
      found + countId id (seg r.log (tailBack r id tail minPos fuel pos found) pos) ≤ tail ∧
      (((tailBack r id tail minPos fuel pos found : Nat) : Int) > minPos →
        found + countId id (seg r.log (tailBack r id tail minPos fuel pos found) pos) = tail) := by
  intro fuel
  induction fuel with
  | zero =>
    intro pos found h1 h2 h3 h4
    have : pos = 0 := by omega
    subst this
    simp only [tailBack]
    refine ⟨Nat.le_refl _, h3, by simp [seg_self, countId]; exact h4, fun h => by omega⟩
  | succ n ih =>
    intro pos found h1 h2 h3 h4
    simp only [tailBack]
    by_cases hc : (pos : Int) > minPos ∧ found < tail
    · simp only [hc, and_self, if_true]
      have hpos : 0 < pos := by omega
      have hat : r.at (pos - 1) = r.log[pos - 1]? := hr.retained (pos - 1) (by omega) (by omega)
      have hlen : pos - 1 < r.log.length := by have := hr.wp; omega
      have hget : r.log[pos - 1]? = some r.log[pos - 1] := List.getElem?_eq_getElem hlen
      rw [hat, hget]
      simp only
      have hsplit : ∀ p', p' ≤ pos - 1 → seg r.log p' pos = seg r.log p' (pos - 1) ++ [r.log[pos - 1]] := by
        intro p' hp'
        rw [seg_append r.log p' (pos - 1) pos hp' (by omega)]
        have := seg_one r.log (pos - 1) _ hget
        have e : pos - 1 + 1 = pos := by omega
        rw [e] at this; rw [this]
      by_cases hid : (r.log[pos - 1]).res.id == id
      · simp only [hid, cond_true]
        obtain ⟨a, b, c, d⟩ := ih (pos - 1) (found + 1) (by omega) (by omega) (by omega) (by omega)
        refine ⟨by omega, b, ?_, ?_⟩
        · rw [hsplit _ a, countId_append]; simp [countId, hid] at c ⊢; omega
        · intro hgt; have := d hgt; rw [hsplit _ a, countId_append]; simp [countId, hid] at this ⊢; omega
      · simp only [hid, cond_false]
        obtain ⟨a, b, c, d⟩ := ih (pos - 1) found (by omega) (by omega) (by omega) h4
        refine ⟨by omega, b, ?_, ?_⟩
        · rw [hsplit _ a, countId_append]; simp [countId, hid] at c ⊢; omega
        · intro hgt; have := d hgt; rw [hsplit _ a, countId_append]; simp [countId, hid] at this ⊢; omega
    · simp only [hc, if_false]
      refine ⟨Nat.le_refl _, h3, by simp [seg_self, countId]; exact h4, fun h => ?_⟩
      simp only [seg_self, countId, List.filter_nil, List.length_nil, Nat.add_zero]
      have : ¬ found < tail := fun hf => hc ⟨h, hf⟩
      omega

/-! ## new at full strength: decode accepts ONLY encode's image; the initial bookmark; delivered positions -/

theorem u8_ofNat_toNat (a : UInt8) : UInt8.ofNat a.toNat = a := by
  cases a; simp

theorem fromBe64_lt (l : List UInt8) (hl : l.length = 8) : fromBe64 l < 2^64 := by
  match l, hl with
  | [a, b, c, d, e, f, g, h], _ =>
    simp only [fromBe64]
    have := a.toNat_lt; have := b.toNat_lt; have := c.toNat_lt; have := d.toNat_lt
    have := e.toNat_lt; have := f.toNat_lt; have := g.toNat_lt; have := h.toNat_lt
    omega

theorem be64_fromBe64 (l : List UInt8) (hl : l.length = 8) : be64 (fromBe64 l) = l := by
  match l, hl with
  | [a, b, c, d, e, f, g, h], _ =>
    have ha := a.toNat_lt; have hb := b.toNat_lt; have hc := c.toNat_lt; have hd := d.toNat_lt
    have he := e.toNat_lt; have hf := f.toNat_lt; have hg := g.toNat_lt; have hh := h.toNat_lt
    simp only [fromBe64, be64]
    have e1 : (a.toNat * 2^56 + b.toNat * 2^48 + c.toNat * 2^40 + d.toNat * 2^32 + e.toNat * 2^24 + f.toNat * 2^16 + g.toNat * 2^8 + h.toNat) / 2^56 % 256 = a.toNat := by omega
    have e2 : (a.toNat * 2^56 + b.toNat * 2^48 + c.toNat * 2^40 + d.toNat * 2^32 + e.toNat * 2^24 + f.toNat * 2^16 + g.toNat * 2^8 + h.toNat) / 2^48 % 256 = b.toNat := by omega
    have e3 : (a.toNat * 2^56 + b.toNat * 2^48 + c.toNat * 2^40 + d.toNat * 2^32 + e.toNat * 2^24 + f.toNat * 2^16 + g.toNat * 2^8 + h.toNat) / 2^40 % 256 = c.toNat := by omega
    have e4 : (a.toNat * 2^56 + b.toNat * 2^48 + c.toNat * 2^40 + d.toNat * 2^32 + e.toNat * 2^24 + f.toNat * 2^16 + g.toNat * 2^8 + h.toNat) / 2^32 % 256 = d.toNat := by omega
    have e5 : (a.toNat * 2^56 + b.toNat * 2^48 + c.toNat * 2^40 + d.toNat * 2^32 + e.toNat * 2^24 + f.toNat * 2^16 + g.toNat * 2^8 + h.toNat) / 2^24 % 256 = e.toNat := by omega
    have e6 : (a.toNat * 2^56 + b.toNat * 2^48 + c.toNat * 2^40 + d.toNat * 2^32 + e.toNat * 2^24 + f.toNat * 2^16 + g.toNat * 2^8 + h.toNat) / 2^16 % 256 = f.toNat := by omega
    have e7 : (a.toNat * 2^56 + b.toNat * 2^48 + c.toNat * 2^40 + d.toNat * 2^32 + e.toNat * 2^24 + f.toNat * 2^16 + g.toNat * 2^8 + h.toNat) / 2^8 % 256 = g.toNat := by omega
    have e8 : (a.toNat * 2^56 + b.toNat * 2^48 + c.toNat * 2^40 + d.toNat * 2^32 + e.toNat * 2^24 + f.toNat * 2^16 + g.toNat * 2^8 + h.toNat) % 256 = h.toNat := by omega
    rw [e1, e2, e3, e4, e5, e6, e7, e8]
    simp only [u8_ofNat_toNat]

theorem toU64_toI64 (u : Nat) (h : u < 2^64) : toU64 (toI64 u) = u := by
  unfold toU64 toI64
  by_cases hu : u < 2^63
  · rw [if_pos hu]; omega
  · rw [if_neg hu]; omega

/-- **Decode accepts only encode's image** (the converse of `bookmark_roundtrip`): a byte string that decodes to
    `p` IS `encodeBookmark cookie p` — no over-long, padded or otherwise different string is taken for a bookmark. -/
theorem decode_only_encoded (cookie : List UInt8) (b : List UInt8) (p : Int)
    (h : decodeBookmark cookie b = some p) : b = encodeBookmark cookie p := by
  unfold decodeBookmark at h
  by_cases hl : b.length ≠ 16
  · rw [if_pos hl] at h; cases h
  · rw [if_neg hl] at h
    by_cases hc : b.take 8 ≠ cookie
    · rw [if_pos hc] at h; cases h
    · rw [if_neg hc] at h
      have hl16 : b.length = 16 := by omega
      have hc' : b.take 8 = cookie := by
        by_cases hx : b.take 8 = cookie
        · exact hx
        · exact absurd hx hc
      have hd8 : (b.drop 8).length = 8 := by simp [hl16]
      have hp : p = toI64 (fromBe64 (b.drop 8)) := (Option.some.inj h).symm
      unfold encodeBookmark
      rw [hp, toU64_toI64 _ (fromBe64_lt _ hd8), be64_fromBe64 _ hd8, ← hc', List.take_append_drop]

theorem decode_length (cookie : List UInt8) (b : List UInt8) (p : Int) (h : decodeBookmark cookie b = some p) :
    b.length = 16 := by
  unfold decodeBookmark at h
  by_cases hl : b.length ≠ 16
  · rw [if_pos hl] at h; cases h
  · omega

theorem flatten_map_singleton (f : Res → Event) (l : List Res) :
    (l.map ((fun e => [e]) ∘ f)).flatten = l.map f := by
  induction l with
  | nil => rfl
  | cons x xs ih => simp [ih]

/-- what a kind watch starts with, flattened: the snapshot as Created events and one Bootstrapped (with
    BootstrapContents), then one Noop (with BootstrapBookmark), the latter two with the bookmark `pos - 1` -/
theorem kindInit_flatten (contents : List Res) (ns typ : String) (agg : Bool) (o : StartOpts) (pos : Nat) :
    (kindInit contents ns typ agg o pos).flatten =
      (if o.bootstrap then contents.map (fun c => ({ typ := .created, res := c } : Event)) ++
          [{ typ := .bootstrapped, res := tombstone ns typ "", bm := some ((pos : Int) - 1) }] else []) ++
      (if o.bootstrapBookmark then [{ typ := .noop, res := tombstone ns typ "", bm := some ((pos : Int) - 1) }] else []) := by
  unfold kindInit
  cases o.bootstrap <;> cases o.bootstrapBookmark <;> cases agg <;> simp [flatten_map_singleton]

/-- every Bootstrapped / Noop event among the initial deliveries for position `pos` carries the bookmark `pos - 1` -/
theorem kindInit_bm (contents : List Res) (ns typ : String) (agg : Bool) (o : StartOpts) (pos : Nat) :
    ∀ e ∈ (kindInit contents ns typ agg o pos).flatten, (e.typ = .bootstrapped ∨ e.typ = .noop) →
      e.bm = some ((pos : Int) - 1) := by
  intro e he ht
  rw [kindInit_flatten] at he
  rcases List.mem_append.1 he with h1 | h2
  · cases hb : o.bootstrap
    · rw [hb] at h1; simp at h1
    · rw [hb] at h1
      simp only [if_true, List.mem_append, List.mem_map, List.mem_cons, List.not_mem_nil, or_false] at h1
      rcases h1 with ⟨c, _, rfl⟩ | rfl
      · rcases ht with ht | ht <;> cases ht
      · rfl
  · cases hbb : o.bootstrapBookmark
    · rw [hbb] at h2; simp at h2
    · rw [hbb] at h2
      simp only [if_true, List.mem_cons, List.not_mem_nil, or_false] at h2
      subst h2; rfl

theorem startKind_init (r : Ring) (c : List Res) (ns typ : String) (agg : Bool) (o : StartOpts)
    (pos : Nat) (init : List Delivery) (h : startKind r c ns typ agg o = .ok (pos, init)) :
    init = kindInit c ns typ agg o pos := by
  unfold startKind at h
  split at h
  · cases h
  · split at h
    · cases h
    · cases hk : kindStartPos r o with
      | error e => rw [hk] at h; cases h
      | ok p =>
        rw [hk] at h
        injection h with h; injection h with h1 h2; subst h1; exact h2.symm

/-- **The initial bookmark names the position right before the first replayed event**: every Bootstrapped / Noop
    event a kind watch starts with carries the bookmark `pos - 1` for the position `pos` the watch replays from
    (after TailEvents / StartFromBookmark moved it), so a client that resumes from it receives exactly what the
    interrupted watch would have delivered next (`resume_concatenates` with `p + 1 = pos`). -/
theorem initial_bookmark_precedes_replay (r : Ring) (c : List Res) (ns typ : String) (agg : Bool) (o : StartOpts)
    (pos : Nat) (init : List Delivery) (h : startKind r c ns typ agg o = .ok (pos, init)) :
    ∀ e ∈ init.flatten, (e.typ = .bootstrapped ∨ e.typ = .noop) → e.bm = some ((pos : Int) - 1) := by
  rw [startKind_init r c ns typ agg o pos init h]
  exact kindInit_bm c ns typ agg o pos

/-- the view a watcher has of a logged event keeps the event's bookmark -/
theorem view_bm (w : Watcher) (e e' : Event) (h : view w e = some e') : e'.bm = e.bm := by
  unfold view at h
  split at h
  · split at h
    · cases h; rfl
    · cases h
  · exact rewrite_bm _ _ _ h

/-- **Every delivered change event carries the bookmark of its own log position**: what a watcher makes of the
    log segment `[a, b)` consists of events whose bookmark is a position of that segment (with `C02.RingInv.bm`:
    the position the event was committed at), so every delivered event is resumable from. -/
theorem delivered_carries_position (r : Ring) (hr : RingInv r) (w : Watcher) (a b : Nat) :
    ∀ e' ∈ (seg r.log a b).filterMap (view w), ∃ p : Nat, a ≤ p ∧ p < b ∧ e'.bm = some (p : Int) := by
  intro e' he'
  rw [List.mem_filterMap] at he'
  obtain ⟨e, he, hv⟩ := he'
  unfold seg at he
  obtain ⟨i, hi, hget⟩ := List.mem_iff_getElem.1 he
  rw [List.getElem_take, List.getElem_drop] at hget
  have hlen : i < b - a := by
    have := hi; simp only [List.length_take, List.length_drop] at this; omega
  have hlog : r.log[a + i]? = some e := by
    rw [← hget]; exact List.getElem?_eq_getElem _
  refine ⟨a + i, by omega, by omega, ?_⟩
  rw [view_bm w e e' hv]
  exact hr.bm (a + i) e hlog

end Cosi.C12
