/-
  Property C12 — the rules-parametrised bookmark codec and start functions (Cosi.Model.WatchRules) against the
  intended ones, and the kernel-checked witnesses of what goes wrong under the seeded rules. Nothing here depends
  on the VALUE of a regenerated fact; Cosi.Props.C12Src instantiates the property theorems at `genRules`.

    decodeWith_good / encodeWith_good / decodeBmWith_good / tailBackWith_good / startSingleWith_good /
    kindStartPosWith_good / startKindWith_good / startWith_goodRules
    bookmark_at_writePos_accepted       seeded C12-a: WatchAll rejects only `pos > writePos`
    oldest_retained_bookmark_rejected   seeded C12-b: Watch rejects `pos <= writePos - capacity + gap`
    rewritten_event_loses_bookmark      seeded C12-c: the filter builds a fresh Event for a rewritten one
    overlong_bookmark_decodes           seeded C12-d: `len(bookmark) < 16`, `bytes.HasPrefix`
    initial_bookmark_ahead_of_replay    seeded C13-d: initial bookmark computed before the TailEvents / StartFromBookmark switch
-/
import Cosi.Props.C12
import Cosi.Props.C02Rules
open Cosi
namespace Cosi.C12
open Cosi.C02

theorem decodeWith_good (cookie b : List UInt8) : decodeBookmarkWith goodBmRules cookie b = decodeBookmark cookie b := by
  unfold decodeBookmarkWith decodeBookmark goodBmRules
  simp only [Bool.not_true, Bool.false_eq_true, if_false, Gen.Cmp.evalN]
  by_cases hl : b.length ≠ 16
  · simp [hl]
  · have hl16 : b.length = 16 := by omega
    have : (b.drop 8).take 8 = b.drop 8 := List.take_of_length_le (by simp [hl16])
    simp [hl, this]

theorem encodeWith_good (cookie : List UInt8) (p : Int) : encodeBookmarkWith goodBmRules cookie p = encodeBookmark cookie p := rfl

theorem decodeBmWith_good (R : Rules) (hR : DecodeOk R) (b : BookmarkArg) : decodeBmWith R b = decodeBm b := by
  unfold decodeBmWith decodeBm
  rw [show R.bm = goodBmRules from hR]
  simp only [goodBmRules, Bool.not_true, Bool.false_eq_true, if_false, Gen.Cmp.evalN]
  by_cases hl : b.len ≠ 16
  · simp [hl]
  · cases b.cookieOk <;> simp [hl]

theorem tailBackWith_good (R : Rules) (hR : SingleTailOk R) (r : Ring) (id : String) (tail : Nat) (minPos : Int) :
    ∀ (fuel pos found : Nat), tailBackWith R r id tail minPos fuel pos found = tailBack r id tail minPos fuel pos found := by
  obtain ⟨_, h2, h3⟩ := hR
  intro fuel
  induction fuel with
  | zero => intro pos found; rfl
  | succ n ih =>
    intro pos found
    simp only [tailBackWith, tailBack, h2, h3, Gen.Cmp.eval, Gen.Cmp.evalN, ih, Bool.and_eq_true, decide_eq_true_eq]
    rfl

theorem startSingleWith_good (R : Rules) (hb : SingleBmOk R) (ht : SingleTailOk R) (hd : DecodeOk R)
    (r : Ring) (cur : Option Res) (ns typ id : String) (o : StartOpts) :
    startSingleWith R r cur ns typ id o = startSingle r cur ns typ id o := by
  obtain ⟨b1, b2, b3, b4, b5, b6⟩ := hb
  unfold startSingleWith startSingle
  simp only [b1, b2, b3, b4, b5, b6, Bool.not_true, Bool.false_eq_true, if_false, if_true, Gen.Cmp.eval,
    decodeBmWith_good R hd, tailBackWith_good R ht, Bool.or_eq_true, decide_eq_true_eq, or_assoc]
  rfl

theorem kindStartPosWith_good (R : Rules) (hb : KindBmOk R) (ht : KindTailOk R) (hd : DecodeOk R)
    (r : Ring) (o : StartOpts) : kindStartPosWith R r o = kindStartPos r o := by
  obtain ⟨b1, b2, b3, b4, b5, b6⟩ := hb
  obtain ⟨_, t2⟩ := ht
  unfold kindStartPosWith kindStartPos
  simp only [b1, b2, b3, b4, b5, b6, t2, Bool.not_true, Bool.false_eq_true, if_false, if_true, Gen.Cmp.eval,
    decodeBmWith_good R hd, Bool.or_eq_true, decide_eq_true_eq, or_assoc]
  rfl

theorem startKindWith_good (R : Rules) (hb : KindBmOk R) (ht : KindTailOk R) (hi : KindInitOk R) (hd : DecodeOk R)
    (r : Ring) (c : List Res) (ns typ : String) (agg : Bool) (o : StartOpts) :
    startKindWith R r c ns typ agg o = startKind r c ns typ agg o := by
  unfold startKindWith startKind
  simp only [kindStartPosWith_good R hb ht hd, hi.2]
  try rfl

/-- the initial deliveries of WatchAll over the rules are those for the START position as soon as the initial
    bookmark is evaluated after the switch — whatever the bounds / tail rules are -/
theorem startKindWith_init (R : Rules) (hi : KindInitOk R) (r : Ring) (c : List Res) (ns typ : String) (agg : Bool)
    (o : StartOpts) (pos : Nat) (init : List Delivery) (h : startKindWith R r c ns typ agg o = .ok (pos, init)) :
    init = kindInit c ns typ agg o pos := by
  unfold startKindWith at h
  split at h
  · cases h
  · split at h
    · cases h
    · cases hk : kindStartPosWith R r o with
      | error e => rw [hk] at h; cases h
      | ok p =>
        rw [hk, hi.2] at h
        injection h with h; injection h with h1 h2; subst h1; exact h2.symm

/-- a tail request consults the tail rule only -/
theorem kindStartPosWith_tail_good (R : Rules) (ht : KindTailOk R) (r : Ring) (n : Nat) (hn : 0 < n) :
    kindStartPosWith R r { tail := n } = kindStartPos r { tail := n } := by
  obtain ⟨t1, t2⟩ := ht
  unfold kindStartPosWith kindStartPos
  simp only [t1, t2, hn, Bool.not_true, Bool.false_eq_true, if_false, if_true]

/-- resuming from a bookmark consults the bounds rules and the decoder only (not the tail rule) -/
theorem kindStartPosWith_bm_good (R : Rules) (hb : KindBmOk R) (hd : DecodeOk R) (r : Ring) (b : BookmarkArg) (bb : Bool) :
    kindStartPosWith R r (bmOpts b bb) = kindStartPos r (bmOpts b bb) := by
  obtain ⟨b1, b2, b3, b4, b5, b6⟩ := hb
  unfold kindStartPosWith kindStartPos bmOpts
  simp only [b1, b2, b3, b4, b5, b6, Bool.not_true, Bool.false_eq_true, if_false, if_true, Gen.Cmp.eval,
    decodeBmWith_good R hd, Bool.or_eq_true, decide_eq_true_eq, or_assoc, Nat.lt_irrefl, gt_iff_lt]
  rfl

/-- the start position WatchAll over the rules reports is the one `kindStartPosWith` computed -/
theorem startKindWith_pos (R : Rules) (r : Ring) (c : List Res) (ns typ : String) (agg : Bool) (o : StartOpts)
    (pos : Nat) (init : List Delivery) (h : startKindWith R r c ns typ agg o = .ok (pos, init)) :
    kindStartPosWith R r o = .ok pos := by
  unfold startKindWith at h
  split at h
  · cases h
  · split at h
    · cases h
    · cases hk : kindStartPosWith R r o with
      | error e => rw [hk] at h; cases h
      | ok p =>
        rw [hk] at h
        cases hi : R.kInitBm <;> rw [hi] at h <;> simp only at h
        · injection h with h; injection h with h1 _; rw [h1]
        · injection h with h; injection h with h1 _; rw [h1]
        · cases h

/-- a bookmark `kindStartPosWith` refuses is refused by WatchAll over the rules, whatever the initial-bookmark rule -/
theorem startKindWith_bm_error (R : Rules) (r : Ring) (c : List Res) (ns typ : String) (agg bb : Bool) (b : BookmarkArg)
    (e : StartErr) (h : kindStartPosWith R r (bmOpts b bb) = .error e) :
    startKindWith R r c ns typ agg (bmOpts b bb) = .error e := by
  unfold startKindWith
  rw [h]
  simp [bmOpts]

/-- the intended start position for a bookmark -/
theorem kindStartPos_bm (r : Ring) (b : BookmarkArg) (bb : Bool) :
    kindStartPos r (bmOpts b bb) =
      match decodeBm b with
      | none => .error .invalidBookmark
      | some p =>
        if p < (r.writePos : Int) - r.cap + r.gap ∨ p < -1 ∨ p ≥ r.writePos then .error .invalidBookmark
        else .ok (p + 1).toNat := by
  unfold kindStartPos bmOpts
  simp only [Nat.lt_irrefl, gt_iff_lt, if_false]
  rfl

/-- `…With goodRules` are the intended start functions -/
theorem startWith_goodRules (r : Ring) (cur : Option Res) (c : List Res) (ns typ id : String) (agg : Bool) (o : StartOpts) :
    startSingleWith goodRules r cur ns typ id o = startSingle r cur ns typ id o ∧
    startKindWith goodRules r c ns typ agg o = startKind r c ns typ agg o :=
  ⟨startSingleWith_good goodRules (by decide) (by decide) (by decide) r cur ns typ id o,
   startKindWith_good goodRules (by decide) (by decide) (by decide) (by decide) r c ns typ agg o⟩

/-! ### what goes wrong under the seeded rules (kernel-checked) -/

def exCookie : List UInt8 := placeholderCookie

/-- outcome of a start function, in a form with decidable equality -/
def startErr {α : Type} : Except StartErr α → Option StartErr
  | .error e => some e
  | .ok _ => none

def startedAt : Except StartErr (Nat × List Delivery) → Option Nat
  | .error _ => none
  | .ok x => some x.1

/-- a well-formed bookmark for position `p` as the start functions see it -/
def bmAt (p : Int) : BookmarkArg := { len := 16, cookieOk := true, pos := p }

/-- capacity 4, gap 1, four events published -/
def exRing4 : Ring := [C02.exEv "a", C02.exEv "a", C02.exEv "b", C02.exEv "a"].foldl Ring.publish (Ring.new 4 4 1)

/-- seeded change C12-a: WatchAll rejects only `pos > writePos` -/
def kindHighGtRules : Rules := { goodRules with kBmHigh := .gt }

/-- **with `pos > writePos` a bookmark ONE AHEAD of the log is accepted**: the watch starts at position 5 of a log of
    4 events — beyond it; the intended test refuses the bookmark (`kind_reject_invalid`, `accepted_has_no_gap` fail) -/
theorem bookmark_at_writePos_accepted :
    exRing4.writePos = 4 ∧
    startedAt (startKindWith kindHighGtRules exRing4 [] "" "T" false (bmOpts (bmAt 4) false)) = some 5 ∧
    startErr (startKind exRing4 [] "" "T" false (bmOpts (bmAt 4) false)) = some .invalidBookmark := by decide

/-- seeded change C12-b: Watch rejects `pos <= writePos - capacity + gap` -/
def singleLowLeRules : Rules := { goodRules with sBmLow := .le }

/-- **with `pos <= …` the OLDEST bookmark of the retained window is refused**: capacity 4, gap 1, write position 4 —
    the bookmarks of positions 1, 2, 3 are the window `recent_accepted` promises; position 1 is rejected -/
theorem oldest_retained_bookmark_rejected :
    startErr (startSingleWith singleLowLeRules exRing4 none "" "T" "a" { bookmark := some (bmAt 1) }) = some .invalidBookmark ∧
    startedAt (startSingle exRing4 none "" "T" "a" { bookmark := some (bmAt 1) }) = some 2 ∧
    startedAt (startSingleWith singleLowLeRules exRing4 none "" "T" "a" { bookmark := some (bmAt 2) }) = some 3 := by decide

/-- seeded change C12-c: the filter builds a fresh Event for a rewritten one -/
def freshEventRules : Rules := { goodRules with kRewrite := .freshEvent }

def exLabelled (v : String) : Res := { (tombstone "" "T" "a") with labels := [("k1", v)], ver := some 2 }

/-- an Updated event at position 7 whose new version gains the selected label -/
def exGainsLabel : Event := { typ := .updated, res := exLabelled "v1", old := some (exLabelled "v0"), bm := some 7 }

/-- **with a fresh Event the rewritten (Updated → Created) event has NO bookmark**, the intended rewrite keeps
    position 7: a subscriber interrupted right after it cannot resume (`rewrite_bm` fails) -/
theorem rewritten_event_loses_bookmark :
    (rewriteWith freshEventRules (some ("k1", "v1")) exGainsLabel).map (fun e => (e.typ, e.bm)) = some (.created, none) ∧
    (rewrite (some ("k1", "v1")) exGainsLabel).map (fun e => (e.typ, e.bm)) = some (.created, some 7) := by decide

/-- seeded change C12-d: `len(bookmark) < 16` and `bytes.HasPrefix` -/
def prefixBmRules : BmRules := { goodBmRules with lenCmp := .lt, cookie := .hasPrefix }

/-- **with a lower bound on the length and a prefix test an over-long string decodes**: the bookmark of position 5
    followed by a stray byte is taken for position 5, though it is not `encodeBookmark _ 5` (17 bytes) — the
    intended decoder refuses it (`decode_only_encoded` fails) -/
theorem overlong_bookmark_decodes :
    decodeBookmarkWith prefixBmRules exCookie (encodeBookmark exCookie 5 ++ [0]) = some 5 ∧
    (encodeBookmark exCookie 5 ++ [0]).length = 17 ∧
    decodeBookmark exCookie (encodeBookmark exCookie 5 ++ [0]) = none ∧
    decodeBookmarkWith prefixBmRules exCookie (encodeBookmark exCookie 5) = some 5 := by decide

/-- seeded change C13-d: the initial bookmark is computed from `pos` before the switch moved it -/
def initBmBeforeRules : Rules := { goodRules with kInitBm := .beforeSwitch }

/-- **with the bookmark computed before the switch the initial Noop points AHEAD of the replayed events**: a tail
    request for 2 events at write position 4 replays from position 2, the Noop says "resume after 3": a client
    interrupted right after the Noop resumes at 4 and never sees events 2 and 3 (`resume_concatenates` needs
    `p + 1 = pos`; `initial_bookmark_precedes_replay` fails) -/
theorem initial_bookmark_ahead_of_replay :
    (startKindWith initBmBeforeRules exRing4 [] "" "T" false { tail := 2, bootstrapBookmark := true }).toOption.map
        (fun x => (x.1, x.2.flatten.map fun e => (e.typ, e.bm))) = some (2, [(.noop, some 3)]) ∧
    (startKind exRing4 [] "" "T" false { tail := 2, bootstrapBookmark := true }).toOption.map
        (fun x => (x.1, x.2.flatten.map fun e => (e.typ, e.bm))) = some (2, [(.noop, some 1)]) := by decide

/-! non-vacuity of the acceptance theorems on the same ring -/
example : C02.RingInv exRing4 :=
  (C02.publish_inv _ _ (C02.publish_inv _ _ (C02.publish_inv _ _ (C02.publish_inv _ _ (C02.new_inv 4 4 1 (by decide))))))
example : startedAt (startKindWith genRules exRing4 [] "" "T" true (bmOpts (bmAt 1) true)) = some 2 := by decide

end Cosi.C12
