/-
  Property C11, second half at full strength — "No request, well-formed or not, can crash the
  server process; malformed requests yield an error status."

  This module holds ONE theorem, `handler_total`, stated exactly as the property quantifies: for
  every request shape a client can form (`Cosi.Remote.WReq`: every optional field possibly absent,
  any operator number, any strings) and every server state, the modelled handler returns a status
  or a response — never `panic`. Its proof is `handler_total_partial` plus `decide` on the two
  REGENERATED nil-safety facts of the handlers:

    Gen.Grpc.valueGuarded            ConvertLabelQuery checks len(term.Value) before term.Value[0]
    Gen.Grpc.derefUnchecked rpc      no nil-able request field is read through a bare field selector

  On the unchanged tree both facts are violated (D2: helpers.go:30/38/40/42/44; server.go:185),
  the theorem is FALSE (witnesses: `Cosi.Props.C11`, "negative witness 1/2") and this module does
  not build; `bin/check C11` reports it as a broken obligation next to the concrete replays the
  `grpc` engine produces. Nothing here needs editing once the source is repaired.
-/
import Cosi.Props.C11

namespace Cosi.C11
open Cosi Cosi.Remote Cosi.Gen

theorem handler_total (fuel : Nat) (s : Srv) (cid now : Nat) (req : WReq) :
    (serverHandle fuel s cid now req).2 ≠ .panic :=
  handler_total_partial fuel s cid now req
    ⟨Or.inl (by decide), Or.inl (by cases req <;> simp only [WReq.rpc] <;> decide)⟩

end Cosi.C11
