/-
  Property C02 — watch streams are exact, ordered change logs (or fail loudly).

  Everything here is about the executable definitions the driver runs
  (`Ring.publish`, `Ring.slice`, `scanSingle`, `Watcher.fetch/settle/recv`), which the
  correspondence engine `watch` compares with the real inmem state delivery by delivery.

  Main results
    publish_inv              the cyclic buffer refines the unbounded ghost log, for every
                             capacity/max-capacity setting incl. growth and wrap-around
    slice_eq_log             the kind-watch fetch (first/last wrap arithmetic) reads exactly the log suffix
    scanSingle_spec          the single-resource scan stops right after the first event of its id
    delivered_is_log_segment for EVERY schedule: delivered = prefix of init ++ view(log[start,pos)) ++ [Errored]?
    quiescent_complete       nothing is silently dropped
    fetch_no_error/cap_ge_init  lag ≤ initial capacity ⇒ never Errored
-/
import Cosi.Model.Watch
open Cosi
namespace Cosi.C02

/-- two positions less than `c` apart fall into different slots -/
theorem mod_ne_of_lt_cap {p w c : Nat} (h1 : p < w) (h2 : w < p + c) : p % c ≠ w % c := by
  intro h
  have h3 : (w - p) % c = 0 := Nat.sub_mod_eq_zero_of_mod_eq h.symm
  have h4 : c ∣ (w - p) := Nat.dvd_of_mod_eq_zero h3
  have h5 : w - p = 0 := Nat.eq_zero_of_dvd_of_lt h4 (by omega)
  omega

structure RingInv (r : Ring) : Prop where
  cap_pos : 0 < r.cap
  buf_len : r.buf.length = r.cap
  wp : r.writePos = r.log.length
  first_lap : r.cap < r.maxCap → r.writePos ≤ r.cap
  retained : ∀ p, p < r.writePos → r.writePos ≤ p + r.cap → r.at p = r.log[p]?
  bm : ∀ (p : Nat) (e : Event), r.log[p]? = some e → e.bm = some (p : Int)

theorem new_inv (i m g : Nat) (h : 0 < i) : RingInv (Ring.new i m g) := by
  refine ⟨h, by simp [Ring.new], rfl, fun _ => Nat.zero_le _, ?_, ?_⟩
  · intro p hp; simp [Ring.new] at hp
  · intro p e he; simp [Ring.new] at he

/-- the event as stored: stamped with its position -/
def stamp (r : Ring) (e : Event) : Event := { e with bm := some (r.writePos : Int) }

theorem publish_nogrow (r : Ring) (e : Event) (hg : ¬ (r.writePos = r.cap ∧ r.cap < r.maxCap)) :
    r.publish e = { r with buf := r.buf.set (r.writePos % r.cap) (some (stamp r e)),
                           writePos := r.writePos + 1, log := r.log ++ [stamp r e] } := by
  simp [Ring.publish, hg, stamp]

theorem publish_grow (r : Ring) (e : Event) (hg : r.writePos = r.cap ∧ r.cap < r.maxCap) :
    r.publish e = { r with cap := min (r.cap * 2) r.maxCap,
                           buf := (r.buf ++ List.replicate (min (r.cap * 2) r.maxCap - r.cap) none).set
                                    (r.writePos % min (r.cap * 2) r.maxCap) (some (stamp r e)),
                           writePos := r.writePos + 1, log := r.log ++ [stamp r e] } := by
  simp [Ring.publish, hg, stamp]

theorem log_snoc_get (l : List Event) (x : Event) (p : Nat) (hp : p < l.length) :
    (l ++ [x])[p]? = l[p]? := List.getElem?_append_left hp

theorem log_snoc_last (l : List Event) (x : Event) : (l ++ [x])[l.length]? = some x := by
  simp

theorem bm_snoc (r : Ring) (e : Event) (hw : r.writePos = r.log.length)
    (hbm : ∀ (p : Nat) (e : Event), r.log[p]? = some e → e.bm = some (p : Int)) :
    ∀ (p : Nat) (ev : Event), (r.log ++ [stamp r e])[p]? = some ev → ev.bm = some (p : Int) := by
  intro p ev hev
  by_cases hp : p < r.log.length
  · rw [log_snoc_get _ _ _ hp] at hev; exact hbm p ev hev
  · by_cases hp2 : p = r.log.length
    · subst hp2
      rw [log_snoc_last] at hev
      have := Option.some.inj hev
      subst this
      simp [stamp, hw]
    · have : (r.log ++ [stamp r e])[p]? = none := by
        apply List.getElem?_eq_none; simp; omega
      rw [this] at hev; cases hev

theorem publish_inv (r : Ring) (e : Event) (h : RingInv r) : RingInv (r.publish e) := by
  obtain ⟨hc, hb, hw, hf, hr, hbm⟩ := h
  by_cases hg : r.writePos = r.cap ∧ r.cap < r.maxCap
  · -- growth at the end of the first lap
    rw [publish_grow r e hg]
    obtain ⟨hg1, hg2⟩ := hg
    have hcap' : r.cap < min (r.cap * 2) r.maxCap := by omega
    have hmod : r.cap % min (r.cap * 2) r.maxCap = r.cap := Nat.mod_eq_of_lt hcap'
    refine ⟨?_, ?_, ?_, ?_, ?_, bm_snoc r e hw hbm⟩
    · show 0 < min (r.cap * 2) r.maxCap; omega
    · show ((r.buf ++ List.replicate (min (r.cap * 2) r.maxCap - r.cap) none).set _ _).length = min (r.cap * 2) r.maxCap
      simp only [List.length_set, List.length_append, List.length_replicate, hb]; omega
    · show r.writePos + 1 = (r.log ++ [stamp r e]).length
      simp [hw]
    · show min (r.cap * 2) r.maxCap < r.maxCap → r.writePos + 1 ≤ min (r.cap * 2) r.maxCap
      intro _; omega
    · intro p hp hp2
      show (((r.buf ++ List.replicate (min (r.cap * 2) r.maxCap - r.cap) none).set
              (r.writePos % min (r.cap * 2) r.maxCap) (some (stamp r e)))[p % min (r.cap * 2) r.maxCap]?).join
            = (r.log ++ [stamp r e])[p]?
      have hp' : p < r.writePos + 1 := hp
      rw [hg1, hmod]
      by_cases hpc : p = r.cap
      · subst hpc
        rw [hmod, List.getElem?_set]
        have hlen : r.cap < (r.buf ++ List.replicate (min (r.cap * 2) r.maxCap - r.cap) none).length := by
          simp only [List.length_append, List.length_replicate, hb]; omega
        rw [if_pos rfl, if_pos hlen]
        have : r.log.length = r.cap := by omega
        rw [← this, log_snoc_last]; rfl
      · have hplt : p < r.cap := by omega
        have hpm : p % min (r.cap * 2) r.maxCap = p := Nat.mod_eq_of_lt (by omega)
        have hne : ¬ r.cap = p := fun e => hpc e.symm
        rw [hpm, List.getElem?_set]
        simp only [hne, if_false]
        rw [List.getElem?_append_left (by omega), log_snoc_get _ _ _ (by omega)]
        have := hr p (by omega) (by omega)
        simp only [Ring.at, Nat.mod_eq_of_lt hplt] at this
        exact this
  · -- no growth
    rw [publish_nogrow r e hg]
    refine ⟨hc, ?_, ?_, ?_, ?_, bm_snoc r e hw hbm⟩
    · show (r.buf.set _ _).length = r.cap
      simp only [List.length_set]; exact hb
    · show r.writePos + 1 = (r.log ++ [stamp r e]).length
      simp [hw]
    · show r.cap < r.maxCap → r.writePos + 1 ≤ r.cap
      intro hlt
      have := hf hlt
      have : ¬ r.writePos = r.cap := fun e => hg ⟨e, hlt⟩
      omega
    · intro p hp hp2
      show ((r.buf.set (r.writePos % r.cap) (some (stamp r e)))[p % r.cap]?).join = (r.log ++ [stamp r e])[p]?
      have hp' : p < r.writePos + 1 := hp
      have hp2' : r.writePos + 1 ≤ p + r.cap := hp2
      by_cases hpw : p = r.writePos
      · subst hpw
        have hlt : r.writePos % r.cap < r.buf.length := by rw [hb]; exact Nat.mod_lt _ hc
        rw [List.getElem?_set, if_pos rfl, if_pos hlt, hw, log_snoc_last]; rfl
      · have hplt : p < r.writePos := by omega
        have hne := mod_ne_of_lt_cap hplt (by omega : r.writePos < p + r.cap)
        rw [List.getElem?_set, if_neg (fun e => hne (Eq.symm e))]
        have := hr p hplt (by omega)
        simp only [Ring.at] at this
        rw [this, log_snoc_get _ _ _ (by omega)]

theorem shift_lt {pos i c : Nat} (h : pos % c + i < c) : (pos + i) % c = pos % c + i := by
  rw [← Nat.mod_add_mod, Nat.mod_eq_of_lt h]
theorem shift_ge {pos i c : Nat} (h1 : c ≤ pos % c + i) (h2 : pos % c + i < 2 * c) :
    (pos + i) % c = pos % c + i - c := by
  rw [← Nat.mod_add_mod, Nat.mod_eq_sub_mod h1, Nat.mod_eq_of_lt (by omega)]
theorem filterMap_id_map_some (l : List Event) : (l.map some).filterMap id = l := by
  induction l with
  | nil => rfl
  | cons x xs ih => simp [ih]

/-- a retained position's slot holds exactly the logged event -/
theorem buf_at (r : Ring) (h : RingInv r) (j : Nat) (h1 : j < r.writePos) (h2 : r.writePos ≤ j + r.cap) :
    r.buf[j % r.cap]? = some r.log[j]? := by
  have hlt : j % r.cap < r.buf.length := by rw [h.buf_len]; exact Nat.mod_lt _ h.cap_pos
  have := h.retained j h1 h2
  simp only [Ring.at] at this
  rw [List.getElem?_eq_getElem hlt] at this ⊢
  simp only [Option.join] at this
  simpa using this

/-- **Fetch reads the log.** When the watcher has not been overrun, the slice the
    kind-watch goroutine copies out of the ring (collection.go:637-645, with its
    first/last wrap-around arithmetic) is exactly the log suffix from `pos`. -/
theorem slice_eq_log (r : Ring) (h : RingInv r) (pos : Nat) (h1 : pos < r.writePos)
    (h2 : r.writePos - pos ≤ r.cap) : r.slice pos = r.log.drop pos := by
  have hc := h.cap_pos
  have hb := h.buf_len
  have hw := h.wp
  have hflt : pos % r.cap < r.cap := Nat.mod_lt _ hc
  have hwp : r.writePos = pos + (r.writePos - pos) := by omega
  suffices hraw : (if pos % r.cap < r.writePos % r.cap
        then (r.buf.drop (pos % r.cap)).take (r.writePos % r.cap - pos % r.cap)
        else r.buf.drop (pos % r.cap) ++ r.buf.take (r.writePos % r.cap)) = (r.log.drop pos).map some by
    simp only [Ring.slice]
    rw [hraw, filterMap_id_map_some]
  apply List.ext_getElem?
  intro i
  have hrhs : ((r.log.drop pos).map some)[i]? = if i < r.writePos - pos then some r.log[pos + i]? else none := by
    rw [List.getElem?_map, List.getElem?_drop]
    by_cases hi : i < r.writePos - pos
    · have : pos + i < r.log.length := by omega
      rw [if_pos hi, List.getElem?_eq_getElem this]; rfl
    · have : r.log.length ≤ pos + i := by omega
      rw [if_neg hi, List.getElem?_eq_none this]; rfl
  rw [hrhs]
  by_cases hA : pos % r.cap + (r.writePos - pos) < r.cap
  · -- no wrap: last = first + n
    have hl : r.writePos % r.cap = pos % r.cap + (r.writePos - pos) := by
      have := shift_lt hA; rwa [← hwp] at this
    rw [if_pos (by omega), List.getElem?_take, List.getElem?_drop, hl]
    by_cases hi : i < r.writePos - pos
    · rw [if_pos (by omega), if_pos hi]
      have := buf_at r h (pos + i) (by omega) (by omega)
      rwa [shift_lt (by omega)] at this
    · rw [if_neg (by omega), if_neg hi]
  · -- wrap: last = first + n - cap ≤ first
    have hl : r.writePos % r.cap = pos % r.cap + (r.writePos - pos) - r.cap := by
      have := shift_ge (pos := pos) (i := r.writePos - pos) (c := r.cap) (by omega) (by omega)
      rwa [← hwp] at this
    rw [if_neg (by omega), List.getElem?_append, List.length_drop, hb]
    by_cases hi1 : i < r.cap - pos % r.cap
    · rw [if_pos hi1, List.getElem?_drop, if_pos (by omega)]
      have := buf_at r h (pos + i) (by omega) (by omega)
      rwa [shift_lt (by omega)] at this
    · rw [if_neg hi1, List.getElem?_take, hl]
      by_cases hi : i < r.writePos - pos
      · rw [if_pos (by omega), if_pos hi]
        have := buf_at r h (pos + i) (by omega) (by omega)
        rw [shift_ge (by omega) (by omega)] at this
        have he : i - (r.cap - pos % r.cap) = pos % r.cap + i - r.cap := by omega
        rw [he]; exact this
      · rw [if_neg (by omega), if_neg hi]

/-! ### log segments -/

/-- `seg l a b` = positions `[a, b)` of `l` -/
def seg (l : List Event) (a b : Nat) : List Event := (l.drop a).take (b - a)

theorem seg_self (l : List Event) (a : Nat) : seg l a a = [] := by simp [seg]

theorem seg_to_end (l : List Event) (a : Nat) : seg l a l.length = l.drop a := by
  simp [seg, List.take_of_length_le]

theorem seg_append (l : List Event) (a b c : Nat) (h1 : a ≤ b) (h2 : b ≤ c) :
    seg l a c = seg l a b ++ seg l b c := by
  unfold seg
  have : c - a = (b - a) + (c - b) := by omega
  rw [this, List.take_add, List.drop_drop]
  congr 3
  omega

theorem seg_one (l : List Event) (a : Nat) (e : Event) (h : l[a]? = some e) : seg l a (a + 1) = [e] := by
  unfold seg
  have : a + 1 - a = 1 := by omega
  rw [this]
  have hlt : a < l.length := by
    cases hl : l[a]? with
    | none => rw [hl] at h; cases h
    | some _ => exact (List.getElem?_eq_some_iff.1 hl).1
  rw [List.drop_eq_getElem_cons hlt]
  have h' := List.getElem?_eq_getElem hlt
  rw [h'] at h
  simp [Option.some.inj h]

theorem seg_snoc (l : List Event) (x : Event) (a b : Nat) (hb : b ≤ l.length) :
    seg (l ++ [x]) a b = seg l a b := by
  unfold seg
  by_cases ha : a ≤ l.length
  · rw [List.drop_append_of_le_length ha, List.take_append_of_le_length]
    simp; omega
  · have h1 : l.length ≤ a := by omega
    have : b - a = 0 := by omega
    simp [this]

/-! ### watcher invariant: what a watcher has produced is a view of a log segment -/

/-- the view a watcher has of one logged event -/
def view (w : Watcher) (e : Event) : Option Event :=
  match w.kind with
  | .single id => if e.res.id = id then some e else none
  | _ => rewrite w.sel e

/-- watcher + ghost history -/
structure GW where
  w : Watcher
  start : Nat              -- log position the watch started from
  init : List Event        -- initial event / bootstrap contents (flattened)
  delivered : List Event   -- handed to the subscriber so far (flattened)

/-- everything the watcher may ever have produced up to its current position -/
def GW.expected (g : GW) (r : Ring) : List Event :=
  g.init ++ (seg r.log g.start g.w.pos).filterMap (view g.w) ++ (if g.w.dead then [erroredEvent] else [])

structure GInv (g : GW) (r : Ring) : Prop where
  start_le : g.start ≤ g.w.pos
  pos_le : g.w.pos ≤ r.writePos
  flow : g.delivered ++ (g.w.chan ++ g.w.pending).flatten = g.expected r

theorem view_congr (w w' : Watcher) (hk : w'.kind = w.kind) (hs : w'.sel = w.sel) : view w' = view w := by
  funext e; simp [view, hk, hs]

theorem flatten_singletons (l : List Event) : (l.map fun e => [e]).flatten = l := by
  induction l with
  | nil => rfl
  | cons x xs ih => simp [ih]

theorem publish_log (r : Ring) (e : Event) : (r.publish e).log = r.log ++ [stamp r e] := by
  simp [Ring.publish, stamp]

theorem publish_wp (r : Ring) (e : Event) : (r.publish e).writePos = r.writePos + 1 := by
  simp [Ring.publish]

/-- a write does not disturb what a watcher has already produced -/
theorem ginv_publish (g : GW) (r : Ring) (e : Event) (hr : RingInv r) (h : GInv g r) :
    GInv g (r.publish e) := by
  refine ⟨h.start_le, ?_, ?_⟩
  · rw [publish_wp]; have := h.pos_le; omega
  · rw [h.flow]; unfold GW.expected
    rw [publish_log, seg_snoc _ _ _ _ (by have := h.pos_le; have := hr.wp; omega)]

/-- moving a fetched delivery into the channel buffer -/
theorem ginv_push (g : GW) (r : Ring) (d : Delivery) (ds : List Delivery) (hp : g.w.pending = d :: ds)
    (h : GInv g r) :
    GInv { g with w := { g.w with chan := g.w.chan ++ [d], pending := ds } } r := by
  refine ⟨h.start_le, h.pos_le, ?_⟩
  have hf := h.flow
  rw [hp] at hf
  show g.delivered ++ ((g.w.chan ++ [d]) ++ ds).flatten = _
  have : (g.w.chan ++ [d]) ++ ds = g.w.chan ++ d :: ds := by simp
  rw [this, hf]
  rfl

/-- the subscriber receives the next delivery -/
theorem ginv_recv (g : GW) (r : Ring) (d : Delivery) (w' : Watcher) (hrecv : g.w.recv = (some d, w'))
    (h : GInv g r) : GInv { g with w := w', delivered := g.delivered ++ d } r := by
  have hf := h.flow
  unfold Watcher.recv at hrecv
  split at hrecv
  · rename_i d' ds hc
    injection hrecv with h1 h2
    injection h1 with h1
    subst h1; subst h2
    refine ⟨h.start_le, h.pos_le, ?_⟩
    show (g.delivered ++ d') ++ (ds ++ g.w.pending).flatten = _
    rw [hc] at hf
    simp only [List.cons_append, List.flatten_cons] at hf
    rw [List.append_assoc, hf]; rfl
  · rename_i hc
    split at hrecv
    · rename_i d' ds hp
      injection hrecv with h1 h2
      injection h1 with h1
      subst h1; subst h2
      refine ⟨h.start_le, h.pos_le, ?_⟩
      show (g.delivered ++ d') ++ (g.w.chan ++ ds).flatten = _
      rw [hc, hp] at hf
      rw [hc]
      simp only [List.nil_append, List.flatten_cons] at hf ⊢
      rw [List.append_assoc, hf]; rfl
    · injection hrecv with h1 h2; cases h1

def viewSingle (id : String) (e : Event) : Option Event := if e.res.id = id then some e else none

/-- the scan of the single-resource watch loop (collection.go:418): it stops right
    after the first event of `id`; everything it skipped was of another id -/
theorem scanSingle_spec (r : Ring) (h : RingInv r) (id : String) :
    ∀ (fuel pos : Nat), pos ≤ r.writePos → r.writePos - pos ≤ r.cap → r.writePos - pos ≤ fuel →
      pos ≤ (scanSingle r id fuel pos).1 ∧ (scanSingle r id fuel pos).1 ≤ r.writePos ∧
      (seg r.log pos (scanSingle r id fuel pos).1).filterMap (viewSingle id) = (scanSingle r id fuel pos).2.toList ∧
      ((scanSingle r id fuel pos).2 = none → (scanSingle r id fuel pos).1 = r.writePos) := by
  intro fuel
  induction fuel with
  | zero =>
    intro pos h1 _ h3
    simp only [scanSingle]
    exact ⟨Nat.le_refl _, h1, by simp [seg_self], fun _ => by omega⟩
  | succ n ih =>
    intro pos h1 h2 h3
    simp only [scanSingle]
    by_cases hlt : pos < r.writePos
    · simp only [hlt, if_true]
      have hat : r.at pos = r.log[pos]? := h.retained pos hlt (by omega)
      have hlen : pos < r.log.length := by have := h.wp; omega
      have hget : r.log[pos]? = some r.log[pos] := List.getElem?_eq_getElem hlen
      rw [hat, hget]
      by_cases hid : (r.log[pos]).res.id = id
      · simp only [hid, if_true]
        refine ⟨by omega, by omega, ?_, fun hc => by cases hc⟩
        rw [seg_one _ _ _ hget]
        simp [viewSingle, hid]
      · simp only [hid, if_false]
        obtain ⟨a, b, c, d⟩ := ih (pos + 1) (by omega) (by omega) (by omega)
        refine ⟨by omega, b, ?_, d⟩
        rw [seg_append _ pos (pos + 1) _ (by omega) a, seg_one _ _ _ hget, List.filterMap_append, c]
        simp [viewSingle, hid]
    · simp only [hlt, if_false]
      exact ⟨Nat.le_refl _, h1, by simp [seg_self], fun _ => by omega⟩

theorem filterMap_view_single (w : Watcher) (id : String) (hk : w.kind = .single id) (l : List Event) :
    l.filterMap (view w) = l.filterMap (viewSingle id) := by
  congr 1; funext e; simp [view, hk, viewSingle]

theorem filterMap_view_kind (w : Watcher) (hk : ∀ id, w.kind ≠ .single id) (l : List Event) :
    l.filterMap (view w) = l.filterMap (rewrite w.sel) := by
  congr 1; funext e
  unfold view
  split
  · rename_i id hk'; exact absurd hk' (hk id)
  · rfl

/-- generic step: the watcher moves from `g.w.pos` to `w'.pos` and appends the view
    of that log segment to what it has in flight -/
theorem ginv_advance (g : GW) (r : Ring) (w' : Watcher) (newEvs : List Event)
    (hk : w'.kind = g.w.kind) (hs : w'.sel = g.w.sel) (hdead : w'.dead = g.w.dead)
    (hnd : g.w.dead = false) (hpos1 : g.w.pos ≤ w'.pos) (hpos2 : w'.pos ≤ r.writePos)
    (hseg : (seg r.log g.w.pos w'.pos).filterMap (view g.w) = newEvs)
    (hflow : (w'.chan ++ w'.pending).flatten = (g.w.chan ++ g.w.pending).flatten ++ newEvs)
    (h : GInv g r) : GInv { g with w := w' } r := by
  refine ⟨by show g.start ≤ w'.pos; have := h.start_le; omega, hpos2, ?_⟩
  show g.delivered ++ (w'.chan ++ w'.pending).flatten = _
  rw [hflow, ← List.append_assoc, h.flow]
  unfold GW.expected
  show _ = g.init ++ (seg r.log g.start w'.pos).filterMap (view w') ++ (if w'.dead then [erroredEvent] else [])
  rw [view_congr g.w w' hk hs, hdead, seg_append _ g.start g.w.pos w'.pos h.start_le hpos1,
    List.filterMap_append, hseg, hnd]
  simp

theorem fetch_idle (w : Watcher) (r : Ring) (h : w.dead = true ∨ w.pos = r.writePos) : w.fetch r = w := by
  simp [Watcher.fetch, h]

theorem fetch_overrun (w : Watcher) (r : Ring) (h : ¬ (w.dead = true ∨ w.pos = r.writePos))
    (ho : r.writePos - w.pos > r.cap) :
    w.fetch r = { w with pending := [[erroredEvent]], dead := true } := by
  simp [Watcher.fetch, h, ho]

theorem fetch_single (w : Watcher) (r : Ring) (id : String) (hk : w.kind = .single id)
    (h : ¬ (w.dead = true ∨ w.pos = r.writePos)) (ho : ¬ r.writePos - w.pos > r.cap) :
    w.fetch r = match (scanSingle r id (r.writePos - w.pos) w.pos).2 with
      | some e => { w with pos := (scanSingle r id (r.writePos - w.pos) w.pos).1, pending := [[e]] }
      | none => { w with pos := (scanSingle r id (r.writePos - w.pos) w.pos).1 } := by
  simp only [Watcher.fetch, h, ho, if_false, hk]
  cases hs : scanSingle r id (r.writePos - w.pos) w.pos with
  | mk p oe => cases oe <;> rfl

theorem fetch_kind (w : Watcher) (r : Ring) (hk : w.kind = .kind)
    (h : ¬ (w.dead = true ∨ w.pos = r.writePos)) (ho : ¬ r.writePos - w.pos > r.cap) :
    w.fetch r = { w with pos := r.writePos,
                         pending := ((r.slice w.pos).filterMap (rewrite w.sel)).map fun e => [e] } := by
  simp only [Watcher.fetch, h, ho, if_false, hk]

theorem fetch_agg (w : Watcher) (r : Ring) (hk : w.kind = .agg)
    (h : ¬ (w.dead = true ∨ w.pos = r.writePos)) (ho : ¬ r.writePos - w.pos > r.cap) :
    w.fetch r = { w with pos := r.writePos,
                         pending := if ((r.slice w.pos).filterMap (rewrite w.sel)).isEmpty then []
                                    else [(r.slice w.pos).filterMap (rewrite w.sel)] } := by
  simp only [Watcher.fetch, h, ho, if_false, hk]

/-- **One loop iteration of the watcher goroutine** (entered with nothing pending):
    it produces exactly the view of the next log segment, or a single terminal
    `Errored` when it has been overrun. -/
theorem ginv_fetch (g : GW) (r : Ring) (hr : RingInv r) (hp : g.w.pending = []) (h : GInv g r) :
    GInv { g with w := g.w.fetch r } r := by
  have hwp := hr.wp
  by_cases hd : g.w.dead = true ∨ g.w.pos = r.writePos
  · rw [fetch_idle _ _ hd]; exact h
  · have hnd : g.w.dead = false := by
      cases hdd : g.w.dead with
      | true => exact absurd (Or.inl hdd) hd
      | false => rfl
    have hlt : g.w.pos < r.writePos := by
      have := h.pos_le
      have : g.w.pos ≠ r.writePos := fun e => hd (Or.inr e)
      omega
    by_cases ho : r.writePos - g.w.pos > r.cap
    · -- overrun: one terminal Errored
      rw [fetch_overrun _ _ hd ho]
      refine ⟨h.start_le, h.pos_le, ?_⟩
      have hf := h.flow
      rw [hp] at hf
      simp only [List.append_nil] at hf
      show g.delivered ++ (g.w.chan ++ [[erroredEvent]]).flatten = _
      simp only [List.flatten_append, List.flatten_cons, List.flatten_nil, List.append_nil]
      rw [← List.append_assoc, hf]
      unfold GW.expected
      show _ = g.init ++ (seg r.log g.start g.w.pos).filterMap
          (view { g.w with pending := [[erroredEvent]], dead := true }) ++ (if true then [erroredEvent] else [])
      rw [view_congr g.w { g.w with pending := [[erroredEvent]], dead := true } rfl rfl, hnd]
      simp
    · have hno : r.writePos - g.w.pos ≤ r.cap := by omega
      cases hk : g.w.kind with
      | single id =>
        rw [fetch_single _ _ id hk hd ho]
        obtain ⟨a, b, c, d⟩ := scanSingle_spec r hr id (r.writePos - g.w.pos) g.w.pos h.pos_le hno (Nat.le_refl _)
        cases hs : (scanSingle r id (r.writePos - g.w.pos) g.w.pos).2 with
        | some e =>
          rw [hs] at c
          exact ginv_advance g r _ [e] rfl rfl rfl hnd a b
            (by rw [filterMap_view_single g.w id hk]; exact c)
            (by show (g.w.chan ++ [[e]]).flatten = _; rw [hp]; simp) h
        | none =>
          rw [hs] at c
          exact ginv_advance g r _ [] rfl rfl rfl hnd a b
            (by rw [filterMap_view_single g.w id hk]; exact c)
            (by show (g.w.chan ++ g.w.pending).flatten = _; simp) h
      | kind =>
        rw [fetch_kind _ _ hk hd ho]
        exact ginv_advance g r _ ((r.slice g.w.pos).filterMap (rewrite g.w.sel)) rfl rfl rfl hnd h.pos_le
          (Nat.le_refl _)
          (by show (seg r.log g.w.pos r.writePos).filterMap (view g.w) = _
              rw [slice_eq_log r hr g.w.pos hlt hno, hwp, seg_to_end,
                filterMap_view_kind g.w (by intro id; rw [hk]; exact fun e => by cases e)])
          (by show (g.w.chan ++ ((r.slice g.w.pos).filterMap (rewrite g.w.sel)).map fun e => [e]).flatten = _
              rw [hp, List.flatten_append, flatten_singletons]; simp) h
      | agg =>
        rw [fetch_agg _ _ hk hd ho]
        have hfl : (if ((r.slice g.w.pos).filterMap (rewrite g.w.sel)).isEmpty = true then ([] : List Delivery)
              else [(r.slice g.w.pos).filterMap (rewrite g.w.sel)]).flatten
            = (r.slice g.w.pos).filterMap (rewrite g.w.sel) := by
          cases hl : (r.slice g.w.pos).filterMap (rewrite g.w.sel) <;> simp
        exact ginv_advance g r _ ((r.slice g.w.pos).filterMap (rewrite g.w.sel)) rfl rfl rfl hnd h.pos_le
          (Nat.le_refl _)
          (by show (seg r.log g.w.pos r.writePos).filterMap (view g.w) = _
              rw [slice_eq_log r hr g.w.pos hlt hno, hwp, seg_to_end,
                filterMap_view_kind g.w (by intro id; rw [hk]; exact fun e => by cases e)])
          (by show (g.w.chan ++ (if ((r.slice g.w.pos).filterMap (rewrite g.w.sel)).isEmpty = true then []
                else [(r.slice g.w.pos).filterMap (rewrite g.w.sel)])).flatten = _
              rw [hp, List.flatten_append, hfl]; simp) h

/-- letting the goroutine run until it blocks preserves the invariant -/
theorem ginv_settle (r : Ring) (hr : RingInv r) :
    ∀ (fuel : Nat) (g : GW), GInv g r → GInv { g with w := g.w.settle r fuel } r := by
  intro fuel
  induction fuel with
  | zero => intro g h; exact h
  | succ n ih =>
    intro g h
    unfold Watcher.settle
    cases hp : g.w.pending with
    | cons d ds =>
      simp only
      by_cases hc : g.w.chan.length < g.w.chanCap
      · simp only [hc, if_true]
        exact ih { g with w := { g.w with chan := g.w.chan ++ [d], pending := ds } } (ginv_push g r d ds hp h)
      · simp only [hc, if_false]; exact h
    | nil =>
      simp only
      by_cases hd : g.w.dead = true ∨ g.w.pos = r.writePos
      · simp only [hd, if_true]; exact h
      · simp only [hd, if_false]
        exact ih { g with w := g.w.fetch r } (ginv_fetch g r hr hp h)

/-! ### every schedule -/

/-- the actions of the system around one watcher: a write to its kind, the watcher
    goroutine running (one loop iteration, one channel push, or until it blocks),
    and the subscriber receiving. Any interleaving of these is a schedule. -/
inductive Act where
  | publish (e : Event)
  | fetch
  | push
  | settle (fuel : Nat)
  | recv

def act (s : Ring × GW) : Act → Ring × GW
  | .publish e => (s.1.publish e, s.2)
  | .fetch => if s.2.w.pending = [] then (s.1, { s.2 with w := s.2.w.fetch s.1 }) else s
  | .push =>
    match s.2.w.pending with
    | d :: ds =>
      if s.2.w.chan.length < s.2.w.chanCap then
        (s.1, { s.2 with w := { s.2.w with chan := s.2.w.chan ++ [d], pending := ds } })
      else s
    | [] => s
  | .settle fuel => (s.1, { s.2 with w := s.2.w.settle s.1 fuel })
  | .recv =>
    match s.2.w.recv with
    | (some d, w') => (s.1, { s.2 with w := w', delivered := s.2.delivered ++ d })
    | (none, _) => s

theorem act_inv (s : Ring × GW) (a : Act) (hr : RingInv s.1) (h : GInv s.2 s.1) :
    RingInv (act s a).1 ∧ GInv (act s a).2 (act s a).1 := by
  cases a with
  | publish e => exact ⟨publish_inv _ e hr, ginv_publish _ _ e hr h⟩
  | fetch =>
    simp only [act]
    by_cases hp : s.2.w.pending = []
    · simp only [hp, if_true]; exact ⟨hr, ginv_fetch _ _ hr hp h⟩
    · simp only [hp, if_false]; exact ⟨hr, h⟩
  | push =>
    simp only [act]
    cases hp : s.2.w.pending with
    | nil => exact ⟨hr, h⟩
    | cons d ds =>
      simp only
      by_cases hc : s.2.w.chan.length < s.2.w.chanCap
      · simp only [hc, if_true]; exact ⟨hr, ginv_push _ _ d ds hp h⟩
      · simp only [hc, if_false]; exact ⟨hr, h⟩
  | settle fuel => exact ⟨hr, ginv_settle _ hr fuel _ h⟩
  | recv =>
    simp only [act]
    cases hrv : s.2.w.recv with
    | mk od w' =>
      cases od with
      | none => exact ⟨hr, h⟩
      | some d => exact ⟨hr, ginv_recv _ _ d w' hrv h⟩

/-- **C02 — watch streams are exact ordered change logs (or fail loudly).**
    For every schedule of writes, goroutine steps and receives, what the subscriber
    has been handed is a prefix of: its initial events, then the view of the
    contiguous log segment `[start, pos)` in commit order, then (only if the watcher
    was overrun) one terminal `Errored` — no loss, no duplicate, no reordering, no event
    of another id / outside the selector, nothing after the error. -/
theorem delivered_is_log_segment (r0 : Ring) (g0 : GW) (hr : RingInv r0) (h : GInv g0 r0) (acts : List Act) :
    let s := acts.foldl act (r0, g0)
    RingInv s.1 ∧ GInv s.2 s.1 ∧ s.2.delivered <+: s.2.expected s.1 := by
  induction acts generalizing r0 g0 with
  | nil => exact ⟨hr, h, ⟨_, h.flow⟩⟩
  | cons a as ih =>
    have := act_inv (r0, g0) a hr h
    exact ih _ _ this.1 this.2

/-- at quiescence (nothing in flight, caught up, not errored) the subscriber has
    received *everything*: no change is silently dropped -/
theorem quiescent_complete (g : GW) (r : Ring) (h : GInv g r) (hc : g.w.chan = []) (hp : g.w.pending = [])
    (hpos : g.w.pos = r.writePos) (hd : g.w.dead = false) :
    g.delivered = g.init ++ (seg r.log g.start r.writePos).filterMap (view g.w) := by
  have := h.flow
  rw [hc, hp] at this
  simp only [List.append_nil, List.flatten_nil] at this
  rw [this]; unfold GW.expected; rw [hpos, hd]; simp

/-- the only way to die is an overrun: a watcher that lags by no more than the
    initial capacity is never errored -/
theorem fetch_no_error (w : Watcher) (r : Ring) (initCap : Nat) (hd : w.dead = false)
    (hlag : r.writePos - w.pos ≤ initCap) (hcap : initCap ≤ r.cap) : (w.fetch r).dead = false := by
  unfold Watcher.fetch
  by_cases h1 : w.dead = true ∨ w.pos = r.writePos
  · simp only [h1, if_true]; exact hd
  · have ho : ¬ r.writePos - w.pos > r.cap := by omega
    simp only [h1, ho, if_false]
    cases w.kind with
    | single id =>
      simp only
      cases (scanSingle r id (r.writePos - w.pos) w.pos) with
      | mk p oe => cases oe <;> exact hd
    | kind => exact hd
    | agg => exact hd

theorem publish_cap_mono (r : Ring) (e : Event) : r.cap ≤ (r.publish e).cap := by
  by_cases hg : r.writePos = r.cap ∧ r.cap < r.maxCap
  · rw [publish_grow r e hg]; show r.cap ≤ min (r.cap * 2) r.maxCap; omega
  · rw [publish_nogrow r e hg]; exact Nat.le_refl _

/-- the capacity never drops below the configured initial capacity -/
theorem cap_ge_init (i m g : Nat) (es : List Event) : i ≤ (es.foldl Ring.publish (Ring.new i m g)).cap := by
  suffices ∀ (r : Ring), i ≤ r.cap → i ≤ (es.foldl Ring.publish r).cap from this _ (Nat.le_refl _)
  induction es with
  | nil => intro r h; exact h
  | cons e es ih => intro r h; exact ih _ (Nat.le_trans h (publish_cap_mono r e))

end Cosi.C02
