/-
  Property C02 — the rules-parametrised watch machinery (Cosi.Model.WatchRules) against the intended one.

  `…With R` is the machinery of collection.go with every decision point a parameter; the driver of engine `watch`
  runs `…With genRules`, the rules REGENERATED from the source text. Each `…With_good` lemma here says: when the
  rules this function consults are the intended ones, it IS the intended function the theorems of Cosi.Props.C02 /
  C02Store are about (nothing here depends on the VALUE of a regenerated fact). The second half holds the
  kernel-checked witnesses of what goes wrong under the seeded rules. Cosi.Props.C02Src instantiates the
  property theorems at `genRules`.

    publishWith_good / sliceWith_good / scanSingleWith_good / rewriteWith_good / fetchWith_good / settleWith_good
    actWith, actWith_good, actWith_goodRules      the every-schedule machine over the rules
    storeOpWith_good / storeOpBSWith_good / runOpsWith_good
    batch_guard_le_drops_full_ring                seeded C02-a: `first <= last` — a reader lagging by exactly the capacity
                                                  gets an empty batch and jumps ahead
    stale_capacity_redelivers / stale_capacity_spurious_overrun
                                                  seeded C02-d: capacity read once at establishment, ring grows
-/
import Cosi.Props.C02Store
import Cosi.Model.WatchRules
open Cosi
namespace Cosi.C02

theorem publishWith_good (R : Rules) (hR : PublishOk R) (r : Ring) (e : Event) : r.publishWith R e = r.publish e := by
  obtain ⟨h1, h2, h3, h4⟩ := hR
  unfold Ring.publishWith Ring.publish
  simp only [h1, h2, h3, h4, Gen.Cmp.evalN, Bool.not_true, Bool.false_eq_true, if_false]
  by_cases hg : r.writePos = r.cap ∧ r.cap < r.maxCap
  · simp [hg]
  · simp only [hg, if_false]
    have : (decide (r.writePos = r.cap) && decide (r.cap < r.maxCap)) = false := by
      simpa using hg
    simp [this]

theorem atCap_good (r : Ring) (p : Nat) : r.atCap r.cap p = r.at p := rfl

theorem scanSingleWith_good (r : Ring) (id : String) :
    ∀ (fuel pos : Nat), scanSingleWith r r.cap id fuel pos = scanSingle r id fuel pos := by
  intro fuel
  induction fuel with
  | zero => intro pos; rfl
  | succ n ih =>
    intro pos
    simp only [scanSingleWith, scanSingle, atCap_good, ih]
    rfl

theorem sliceWith_good (R : Rules) (h1 : R.kBatchGuard = .lt) (h2 : R.kBatchCopy = .cloneOrConcat) (r : Ring) (pos : Nat) :
    r.sliceWith R r.cap pos = r.slice pos := by
  unfold Ring.sliceWith Ring.slice
  simp only [h1, h2, Gen.Cmp.evalN, decide_eq_true_eq]

theorem rewriteWith_good (R : Rules) (hR : RewriteOk R) (sel : Option (String × String)) (e : Event) :
    rewriteWith R sel e = rewrite sel e := by
  unfold rewriteWith
  cases rewrite sel e with
  | none => rfl
  | some e' =>
    simp only [show R.kRewrite = .inPlace from hR]
    split <;> rfl

theorem fetchWith_good (R : Rules) (hs : SingleLoopOk R) (hk : KindLoopOk R) (hw : RewriteOk R) (w : Watcher) (r : Ring) :
    w.fetchWith R r = w.fetch r := by
  obtain ⟨s1, s2, s3⟩ := hs
  obtain ⟨k1, k2, k3, k4, k5⟩ := hk
  have hrw : rewriteWith R w.sel = rewrite w.sel := funext (rewriteWith_good R hw w.sel)
  unfold Watcher.fetchWith Watcher.fetch
  by_cases hd : w.dead = true ∨ w.pos = r.writePos
  · simp only [hd, if_true]
  · simp only [hd, if_false]
    by_cases ho : r.writePos - w.pos > r.cap
    · cases hkind : w.kind <;>
        simp [s1, s2, s3, k1, k2, k3, capOf, Gen.Cmp.evalN, ho, Watcher.die, hkind]
    · cases hkind : w.kind <;>
        simp [s1, s2, s3, k1, k2, k3, capOf, Gen.Cmp.evalN, ho, scanSingleWith_good, sliceWith_good R k4 k5, hrw]
      rfl

theorem settleWith_good (R : Rules) (hs : SingleLoopOk R) (hk : KindLoopOk R) (hw : RewriteOk R) (r : Ring) :
    ∀ (fuel : Nat) (w : Watcher), w.settleWith R r fuel = w.settle r fuel := by
  intro fuel
  induction fuel with
  | zero => intro w; rfl
  | succ n ih =>
    intro w
    unfold Watcher.settleWith Watcher.settle
    simp only [ih, fetchWith_good R hs hk hw]
    rfl

/-- the actions of the system around one watcher, over the rules -/
def actWith (R : Rules) (s : Ring × GW) : Act → Ring × GW
  | .publish e => (s.1.publishWith R e, s.2)
  | .fetch => if s.2.w.pending = [] then (s.1, { s.2 with w := s.2.w.fetchWith R s.1 }) else s
  | .push =>
    match s.2.w.pending with
    | d :: ds =>
      if s.2.w.chan.length < s.2.w.chanCap then
        (s.1, { s.2 with w := { s.2.w with chan := s.2.w.chan ++ [d], pending := ds } })
      else s
    | [] => s
  | .settle fuel => (s.1, { s.2 with w := s.2.w.settleWith R s.1 fuel })
  | .recv =>
    match s.2.w.recv with
    | (some d, w') => (s.1, { s.2 with w := w', delivered := s.2.delivered ++ d })
    | (none, _) => s

theorem actWith_good (R : Rules) (hp : PublishOk R) (hs : SingleLoopOk R) (hk : KindLoopOk R) (hw : RewriteOk R) :
    actWith R = act := by
  funext s a
  cases a <;> simp only [actWith, act, publishWith_good R hp, fetchWith_good R hs hk hw, settleWith_good R hs hk hw] <;> rfl

/-- `…With goodRules` is the intended machinery -/
theorem actWith_goodRules : actWith goodRules = act :=
  actWith_good goodRules (by decide) (by decide) (by decide) (by decide)

/-! ### the store/log coupling over the rules -/

theorem storeOpWith_good (R : Rules) (hR : PublishOk R) (s : WSys) (now : Nat) (op : Op) :
    s.storeOpWith R now op = s.storeOp now op := by
  have h : Ring.publishWith R = Ring.publish := by
    funext r e; exact publishWith_good R hR r e
  unfold WSys.storeOpWith WSys.storeOp
  rw [h]
  rfl

theorem storeOpBSWith_good (R : Rules) (hR : PublishOk R) (s : WSys) (reject : Bool) (now : Nat) (op : Op) :
    s.storeOpBSWith R reject now op = s.storeOpBS reject now op := by
  unfold WSys.storeOpBSWith WSys.storeOpBS
  simp only [storeOpWith_good R hR]

/-- run a sequence of store operations on the state with its rings, over the rules -/
def WSys.runOpsWith (R : Rules) (s : WSys) (t0 : Nat) : List Op → WSys
  | [] => s
  | op :: ops => WSys.runOpsWith R (s.storeOpWith R t0 op).1 (t0 + 1) ops

theorem runOpsWith_good (R : Rules) (hR : PublishOk R) (ops : List Op) :
    ∀ (s : WSys) (t0 : Nat), WSys.runOpsWith R s t0 ops = WSys.runOps s t0 ops := by
  induction ops with
  | nil => intro s t0; rfl
  | cons op ops ih => intro s t0; simp only [WSys.runOpsWith, WSys.runOps, storeOpWith_good R hR, ih]

/-! ### what goes wrong under the seeded rules (kernel-checked) -/

def exEv (id : String) : Event := { typ := .created, res := tombstone "" "T" id }

/-- seeded change C02-a: `if first <= last` guards the batch copy -/
def batchGuardLeRules : Rules := { goodRules with kBatchGuard := .le }

/-- capacity 2, two events published: a kind watcher still at position 0 lags by exactly the capacity -/
def exFullRing : Ring := ((Ring.new 2 2 0).publish (exEv "a")).publish (exEv "b")

def exKindWatcher : Watcher := { wid := 1, rkey := ("", "T"), kind := .kind, pos := 0 }

/-- **with `first <= last` a reader lagging by exactly the capacity gets an EMPTY batch and jumps ahead**: it is
    not overrun (lag = capacity), the intended copy hands it both events, the seeded copy nothing; the watcher
    moves to the write position with nothing to deliver and stays alive — `slice_eq_log` fails, two committed
    events are silently dropped -/
theorem batch_guard_le_drops_full_ring :
    exFullRing.writePos - 0 ≤ exFullRing.cap ∧
    (exFullRing.slice 0).map (·.bm) = [some 0, some 1] ∧ (exFullRing.log.drop 0).map (·.bm) = [some 0, some 1] ∧
    exFullRing.sliceWith batchGuardLeRules exFullRing.cap 0 = [] ∧
    ((exKindWatcher.fetchWith batchGuardLeRules exFullRing).pos, (exKindWatcher.fetchWith batchGuardLeRules exFullRing).pending,
      (exKindWatcher.fetchWith batchGuardLeRules exFullRing).dead) = (2, [], false) ∧
    ((exKindWatcher.fetch exFullRing).pending.map fun d => d.map (·.bm)) = [[some 0], [some 1]] := by decide

/-- seeded change C02-d: the single-resource loop keeps the capacity it read at establishment -/
def staleCapRules : Rules := { goodRules with sCap := .snapshot }

/-- a single-resource watcher for `a`, established on an empty ring of capacity 2 that may grow to 4 -/
def exSingleStart : Ring × GW :=
  (Ring.new 2 4 0, { w := { wid := 1, rkey := ("", "T"), kind := .single "a", pos := 0, capSnap := 2 },
                     start := 0, init := [], delivered := [] })

/-- three events of `a`; the third is published at `writePos = capacity` and grows the ring to 4 slots -/
def exGrowSched : List Act :=
  [.publish (exEv "a"), .fetch, .recv, .publish (exEv "a"), .publish (exEv "a"), .fetch, .recv, .fetch, .recv]

/-- **with the capacity read once at establishment a watch that stays open across a growth step re-delivers**:
    position 2 of the grown ring is read through `2 % 2 = 0`, the slot of position 0 — the subscriber receives
    positions 0, 1, 0 instead of 0, 1, 2 (`delivered_is_log_segment` fails) -/
theorem stale_capacity_redelivers :
    ((exGrowSched.foldl (actWith staleCapRules) exSingleStart).2.delivered.map (·.bm)) = [some 0, some 1, some 0] ∧
    ((exGrowSched.foldl (actWith goodRules) exSingleStart).2.delivered.map (·.bm)) = [some 0, some 1, some 2] ∧
    (exGrowSched.foldl (actWith goodRules) exSingleStart).1.cap = 4 := by decide

/-- … and it is errored although it lags by less than the capacity: 3 events behind in a ring of 4 slots -/
theorem stale_capacity_spurious_overrun :
    (([Act.publish (exEv "a"), .publish (exEv "a"), .publish (exEv "a"), .fetch].foldl (actWith staleCapRules) exSingleStart).2.w.dead) = true ∧
    (([Act.publish (exEv "a"), .publish (exEv "a"), .publish (exEv "a"), .fetch].foldl (actWith goodRules) exSingleStart).2.w.dead) = false := by
  decide

example : RingInv exSingleStart.1 ∧ GInv exSingleStart.2 exSingleStart.1 :=
  ⟨new_inv 2 4 0 (by decide), ⟨Nat.le_refl _, Nat.le_refl _, rfl⟩⟩

end Cosi.C02
