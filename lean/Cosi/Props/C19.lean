/-
  Property C19 — caller isolation: objects passed to / returned by the state never
  alias the store; metadata copies are copy-on-write.

  All theorems are about `Cosi.Heap.step` / `primStep` (the heap model of the code)
  instantiated with the REGENERATED facts `Cosi.Heap.facts = Cosi.Gen.Alias.facts`
  (clone-before-write of every public mutator, deep copy in/out at every store and
  cache boundary). Each main theorem discharges `AllTrue facts = true` by `decide`
  itself, so flipping any of the twelve facts in /repo breaks every one of them.
  The general lemmas are stated for an arbitrary fact table `F` with `AllTrue F`;
  the negative witnesses at the end instantiate `F` with one fact false and exhibit
  the aliasing in the model.

  Main theorems (all for EVERY program `prog : List Step`, by induction over the program
  through the invariant `Inv`, `step_good` / `run_inv`):
    shared_cells_never_written   a cell referenced by any metadata value is never written again (A)
    aliased_cells_never_written  … in the property's wording: a cell reachable from two metadata values
    copy_independence            a public mutation through handle a changes nothing handle b ≠ a shows (B)
    raw_write_isolated           an in-place write to a caller-owned slice changes no object (B′)
    write_call_isolated          Create/Update of one object changes no other object of the caller (B′)
    store_isolated               any caller-side activity leaves store, cache and watch replica unchanged (C)
    reads_unaffected             … and a later Get/List/cached read returns what it would have returned (C′)
    applyMut_refines             each mutator acts on its own object as the value-semantics spec says (D)
  plus `prim_good`/`step_good` (every step: invariant, frame), `applyMut_ok` (every
  mutator allocates before it writes), `get_returns_view`.
-/
import Cosi.Spec.Alias

namespace Cosi.C19

open Cosi Cosi.Heap Cosi.Gen

/-! ### the regenerated facts, as one Boolean -/

def AllTrue (F : AliasFacts) : Bool :=
  F.cloneBeforeWrite .finAdd && F.cloneBeforeWrite .finRemove && F.cloneBeforeWrite .finSet &&
  F.cloneBeforeWrite .kvSet && F.cloneBeforeWrite .kvDelete && F.cloneBeforeWrite .kvDo &&
  F.deepCopyIn .collCreate && F.deepCopyIn .collUpdate &&
  F.deepCopyOut .collGet && F.deepCopyOut .collList && F.deepCopyOut .cacheGet && F.deepCopyOut .cacheList

theorem AllTrue.clone {F : AliasFacts} (h : AllTrue F = true) (m : Mutator) : F.cloneBeforeWrite m = true := by
  simp only [AllTrue, Bool.and_eq_true] at h
  cases m <;> simp [h]

theorem AllTrue.copyIn {F : AliasFacts} (h : AllTrue F = true) :
    F.deepCopyIn .collCreate = true ∧ F.deepCopyIn .collUpdate = true := by
  simp only [AllTrue, Bool.and_eq_true] at h
  simp [h]

theorem AllTrue.copyOut {F : AliasFacts} (h : AllTrue F = true) (v : Via) (l : Bool) :
    F.deepCopyOut (readSite v l) = true := by
  simp only [AllTrue, Bool.and_eq_true] at h
  cases v <;> cases l <;> simp [readSite, h]

/-! ### association lists -/

section Assoc
variable {κ : Type} [DecidableEq κ] {α : Type}

theorem aget_mem {l : List (κ × α)} {k : κ} {v : α} (h : aget l k = some v) : (k, v) ∈ l := by
  induction l with
  | nil => simp [aget] at h
  | cons p l ih =>
    obtain ⟨k', v'⟩ := p
    simp only [aget] at h
    by_cases e : k' = k
    · simp only [e, if_true, Option.some.injEq] at h
      simp [e, h]
    · simp only [e, if_false] at h
      exact List.mem_cons_of_mem _ (ih h)

theorem mem_adel {l : List (κ × α)} {k : κ} {p : κ × α} (h : p ∈ adel l k) : p ∈ l ∧ p.1 ≠ k := by
  simpa [adel] using h

theorem mem_aput {l : List (κ × α)} {k : κ} {v : α} {p : κ × α} (h : p ∈ aput l k v) :
    p = (k, v) ∨ (p ∈ l ∧ p.1 ≠ k) := by
  simp only [aput, List.mem_cons] at h
  rcases h with h | h
  · exact Or.inl h
  · exact Or.inr (mem_adel h)

theorem aget_aput_self (l : List (κ × α)) (k : κ) (v : α) : aget (aput l k v) k = some v := by
  simp [aput, aget]

theorem aget_adel_other (l : List (κ × α)) (k k' : κ) (h : k' ≠ k) : aget (adel l k) k' = aget l k' := by
  induction l with
  | nil => rfl
  | cons p l ih =>
    obtain ⟨k0, v0⟩ := p
    by_cases e : k0 = k
    · have : k0 ≠ k' := fun e' => h (e' ▸ e)
      simp only [adel, List.filter_cons, e, ne_eq, not_true_eq_false, decide_false, Bool.false_eq_true, if_false]
      simp only [aget, e ▸ this, if_false]
      exact ih
    · simp only [adel, List.filter_cons, e, ne_eq, not_false_eq_true, decide_true, if_true, aget]
      by_cases e2 : k0 = k'
      · simp [e2]
      · simp only [e2, if_false]; exact ih

theorem aget_aput_other (l : List (κ × α)) (k k' : κ) (v : α) (h : k' ≠ k) :
    aget (aput l k v) k' = aget l k' := by
  have : k ≠ k' := fun e => h e.symm
  simp only [aput, aget, this, if_false]
  exact aget_adel_other l k k' h

theorem aget_adel_self (l : List (κ × α)) (k : κ) : aget (adel l k) k = none := by
  induction l with
  | nil => rfl
  | cons p l ih =>
    obtain ⟨k0, v0⟩ := p
    by_cases e : k0 = k
    · simp only [adel, List.filter_cons, e, ne_eq, not_true_eq_false, decide_false, Bool.false_eq_true, if_false]
      exact ih
    · simp only [adel, List.filter_cons, e, ne_eq, not_false_eq_true, decide_true, if_true, aget, if_false]
      exact ih

end Assoc

/-! ### heap frames -/

/-- `h'` has at least the cells of `h` and keeps every cell below `n` -/
def Above (n : Nat) (h h' : Heap) : Prop := h.length ≤ h'.length ∧ ∀ q, q < n → h'[q]? = h[q]?

theorem Above.refl (n : Nat) (h : Heap) : Above n h h := ⟨Nat.le_refl _, fun _ _ => rfl⟩

theorem Above.trans {n : Nat} {h h' h'' : Heap} (a : Above n h h') (b : Above n h' h'') : Above n h h'' :=
  ⟨Nat.le_trans a.1 b.1, fun q hq => (b.2 q hq).trans (a.2 q hq)⟩

theorem Above.mono {n m : Nat} {h h' : Heap} (a : Above n h h') (hm : m ≤ n) : Above m h h' :=
  ⟨a.1, fun q hq => a.2 q (Nat.lt_of_lt_of_le hq hm)⟩

theorem above_append (n : Nat) (h ext : Heap) (hn : n ≤ h.length) : Above n h (h ++ ext) := by
  refine ⟨by simp, fun q hq => ?_⟩
  exact List.getElem?_append_left (Nat.lt_of_lt_of_le hq hn)

theorem above_set (n : Nat) (h : Heap) (p : Nat) (c : Cell) (hp : n ≤ p) : Above n h (h.set p c) := by
  refine ⟨by simp, fun q hq => ?_⟩
  have : p ≠ q := by omega
  simp [this]

theorem getElem?_append_one (h : Heap) (c : Cell) : (h ++ [c])[h.length]? = some c := by
  simp

theorem getElemOpt_set_self (h : Heap) (p : Nat) (c : Cell) (hp : p < h.length) : (h.set p c)[p]? = some c := by
  simp [hp]

/-! ### slices -/

/-- the header is backed by an array cell that is at least as long as its capacity -/
def SliceOk (h : Heap) (s : Slice) : Prop :=
  match s.ptr with
  | none => s.len = 0 ∧ s.cap = 0
  | some p => ∃ e, h[p]? = some (.arr e) ∧ s.len ≤ s.cap ∧ s.cap ≤ e.length

def PtrGe (n : Nat) (r : Option Nat) : Prop := ∀ p, r = some p → n ≤ p

theorem sliceOk_nil (h : Heap) : SliceOk h Slice.nil := by simp [SliceOk, Slice.nil]

theorem ptrGe_none (n : Nat) : PtrGe n none := by intro p hp; cases hp

theorem le_roundCap (n : Nat) : n ≤ roundCap n := by
  unfold roundCap
  split
  · exact Nat.le_refl _
  · split
    · omega
    · split
      · omega
      · split <;> omega

theorem succ_le_growCap (c : Nat) : c + 1 ≤ growCap c := by
  unfold growCap
  refine Nat.le_trans ?_ (le_roundCap _)
  split
  · omega
  · split <;> omega

theorem length_pad (l : List String) (c : Nat) : c ≤ (pad l c).length := by
  simp [pad]; omega

theorem sliceOk_above {n : Nat} {h h' : Heap} {s : Slice} (ok : SliceOk h s) (a : Above n h h')
    (hp : ∀ p, s.ptr = some p → p < n) : SliceOk h' s := by
  unfold SliceOk at *
  cases hs : s.ptr with
  | none => simpa [hs] using ok
  | some p =>
    simp only [hs] at ok ⊢
    obtain ⟨e, he, h1, h2⟩ := ok
    exact ⟨e, (a.2 p (hp p hs)).trans he, h1, h2⟩

theorem sliceClone_ok (h : Heap) (s : Slice) :
    Above h.length h (sliceClone h s).1 ∧ SliceOk (sliceClone h s).1 (sliceClone h s).2 ∧
      PtrGe h.length (sliceClone h s).2.ptr := by
  unfold sliceClone
  split
  · exact ⟨Above.refl _ _, sliceOk_nil _, ptrGe_none _⟩
  · refine ⟨above_append _ _ _ (Nat.le_refl _), ?_, ?_⟩
    · simp only [SliceOk]
      exact ⟨_, getElem?_append_one _ _, le_roundCap _, length_pad _ _⟩
    · intro p hp; simp at hp; omega

theorem sliceLit_ok (h : Heap) (l : List String) :
    Above h.length h (sliceLit h l).1 ∧ SliceOk (sliceLit h l).1 (sliceLit h l).2 ∧
      PtrGe h.length (sliceLit h l).2.ptr := by
  unfold sliceLit
  split
  · exact ⟨Above.refl _ _, sliceOk_nil _, ptrGe_none _⟩
  · refine ⟨above_append _ _ _ (Nat.le_refl _), ?_, ?_⟩
    · simp only [SliceOk]
      exact ⟨_, getElem?_append_one _ _, Nat.le_refl _, Nat.le_refl _⟩
    · intro p hp; simp at hp; omega

theorem arrAt_of_getElem? {h : Heap} {p : Nat} {e : List String} (he : h[p]? = some (.arr e)) :
    arrAt h (some p) = e := by
  simp [arrAt, he]

theorem lt_of_getElem?_some {h : Heap} {p : Nat} {c : Cell} (he : h[p]? = some c) : p < h.length := by
  by_cases hp : p < h.length
  · exact hp
  · simp [List.getElem?_eq_none (Nat.le_of_not_lt hp)] at he

theorem sliceAppend_ok (n : Nat) (h : Heap) (s : Slice) (f : String) (ok : SliceOk h s)
    (ge : PtrGe n s.ptr) (hn : n ≤ h.length) :
    Above n h (sliceAppend h s f).1 ∧ SliceOk (sliceAppend h s f).1 (sliceAppend h s f).2 ∧
      PtrGe n (sliceAppend h s f).2.ptr := by
  unfold sliceAppend
  cases hs : s.ptr with
  | none =>
    refine ⟨above_append _ _ _ hn, ?_, ?_⟩
    · simp only [SliceOk]
      exact ⟨_, getElem?_append_one _ _, succ_le_growCap 0, length_pad _ _⟩
    · intro p hp; simp at hp; omega
  | some p =>
    simp only [SliceOk, hs] at ok
    obtain ⟨e, he, h1, h2⟩ := ok
    have hp : p < h.length := lt_of_getElem?_some he
    simp only
    split
    · refine ⟨above_set _ _ _ _ (ge p hs), ?_, ?_⟩
      · simp only [SliceOk]
        refine ⟨_, getElemOpt_set_self _ _ _ hp, by omega, ?_⟩
        rw [arrAt_of_getElem? he]; simp; omega
      · simpa [hs] using ge
    · refine ⟨above_append _ _ _ hn, ?_, ?_⟩
      · simp only [SliceOk]
        refine ⟨_, getElem?_append_one _ _, ?_, length_pad _ _⟩
        have := succ_le_growCap s.cap
        omega
      · intro q hq; simp at hq; omega

theorem sliceRemoveAt_ok (n : Nat) (h : Heap) (s : Slice) (i : Nat) (ok : SliceOk h s)
    (ge : PtrGe n s.ptr) (hi : i < s.len) :
    Above n h (sliceRemoveAt h s i).1 ∧ SliceOk (sliceRemoveAt h s i).1 (sliceRemoveAt h s i).2 ∧
      PtrGe n (sliceRemoveAt h s i).2.ptr := by
  unfold sliceRemoveAt
  cases hs : s.ptr with
  | none => exact ⟨Above.refl _ _, ok, by simpa [hs] using ge⟩
  | some p =>
    have ok' := ok
    simp only [SliceOk, hs] at ok'
    obtain ⟨e, he, h1, h2⟩ := ok'
    have hp : p < h.length := lt_of_getElem?_some he
    refine ⟨above_set _ _ _ _ (ge p hs), ?_, ?_⟩
    · simp only [SliceOk]
      refine ⟨_, getElemOpt_set_self _ _ _ hp, by omega, ?_⟩
      rw [arrAt_of_getElem? he]
      simp only [List.length_append, List.length_take, List.length_drop]
      omega
    · simpa [hs] using ge

theorem indexOf_lt {l : List String} {f : String} {i : Nat} (h : indexOf l f = some i) : i < l.length := by
  induction l generalizing i with
  | nil => simp [indexOf] at h
  | cons x xs ih =>
    simp only [indexOf] at h
    split at h
    · simp at h; subst h; simp
    · cases hx : indexOf xs f with
      | none => simp [hx] at h
      | some j =>
        simp [hx] at h
        subst h
        have := ih hx
        simp; omega

theorem length_viewSlice_le (h : Heap) (s : Slice) : (viewSlice h s).length ≤ s.len := by
  simp [viewSlice, List.length_take]; omega

/-- Finalizers.Add under the clone fact touches nothing below the old heap top -/
theorem finAdd_ok {F : AliasFacts} (hF : F.cloneBeforeWrite .finAdd = true) (h : Heap) (s : Slice) (f : String) :
    Above h.length h (finAdd F h s f).1 ∧ SliceOk (finAdd F h s f).1 (finAdd F h s f).2.1 ∧
      PtrGe h.length (finAdd F h s f).2.1.ptr := by
  obtain ⟨a, ok, ge⟩ := sliceClone_ok h s
  unfold finAdd
  simp only [hF, if_true]
  split
  · exact ⟨a, ok, ge⟩
  · obtain ⟨a2, ok2, ge2⟩ := sliceAppend_ok h.length _ _ f ok ge a.1
    exact ⟨a.trans a2, ok2, ge2⟩

theorem finRemove_ok {F : AliasFacts} (hF : F.cloneBeforeWrite .finRemove = true) (h : Heap) (s : Slice) (f : String) :
    Above h.length h (finRemove F h s f).1 ∧ SliceOk (finRemove F h s f).1 (finRemove F h s f).2.1 ∧
      PtrGe h.length (finRemove F h s f).2.1.ptr := by
  obtain ⟨a, ok, ge⟩ := sliceClone_ok h s
  unfold finRemove
  simp only [hF, if_true]
  split
  · exact ⟨a, ok, ge⟩
  · rename_i i hi
    have hlt : i < (sliceClone h s).2.len := Nat.lt_of_lt_of_le (indexOf_lt hi) (length_viewSlice_le _ _)
    obtain ⟨a2, ok2, ge2⟩ := sliceRemoveAt_ok h.length _ _ i ok ge hlt
    exact ⟨a.trans a2, ok2, ge2⟩

theorem finSet_ok {F : AliasFacts} (hF : F.cloneBeforeWrite .finSet = true) (h : Heap) (s : Slice) :
    Above h.length h (finSet F h s).1 ∧ SliceOk (finSet F h s).1 (finSet F h s).2 ∧
      PtrGe h.length (finSet F h s).2.ptr := by
  unfold finSet
  simp only [hF, if_true]
  exact sliceClone_ok h s

/-! ### maps: every KV mutator either keeps the reference or returns a fresh cell -/

/-- outcome of a KV mutator on reference `r0`: nothing below the old top is touched and
    the new reference is the old one or the freshly allocated cell -/
def KvOk (h : Heap) (r0 : Option Nat) (res : Heap × Option Nat) : Prop :=
  Above h.length h res.1 ∧ (res.2 = r0 ∨ (res.2 = some h.length ∧ h.length < res.1.length))

theorem above_alloc_set (h : Heap) (c c' : Cell) : Above h.length h ((h ++ [c]).set h.length c') :=
  (above_append _ _ [c] (Nat.le_refl _)).trans (above_set _ _ _ _ (Nat.le_refl _))

theorem kvSetM_ok {F : AliasFacts} (hF : F.cloneBeforeWrite .kvSet = true) (h : Heap) (r : Option Nat)
    (k v : String) : KvOk h r (kvSetM F h r k v) := by
  unfold kvSetM KvOk
  cases r with
  | none => exact ⟨above_alloc_set _ _ _, Or.inr ⟨rfl, by simp⟩⟩
  | some p =>
    simp only [hF, if_true]
    split
    · exact ⟨Above.refl _ _, Or.inl rfl⟩
    · exact ⟨above_alloc_set _ _ _, Or.inr ⟨rfl, by simp⟩⟩

theorem kvDelM_ok {F : AliasFacts} (hF : F.cloneBeforeWrite .kvDelete = true) (h : Heap) (r : Option Nat)
    (k : String) : KvOk h r (kvDelM F h r k) := by
  unfold kvDelM KvOk
  simp only [hF, if_true]
  split
  · exact ⟨Above.refl _ _, Or.inl rfl⟩
  · exact ⟨above_append _ _ _ (Nat.le_refl _), Or.inr ⟨rfl, by simp⟩⟩

theorem kvDoM_ok {F : AliasFacts} (hF : F.cloneBeforeWrite .kvDo = true) (h : Heap) (r : Option Nat)
    (es : List KVEdit) : KvOk h r (kvDoM F h r es) := by
  unfold kvDoM KvOk
  simp only [hF, if_true]
  split
  · exact ⟨Above.refl _ _, Or.inl rfl⟩
  · cases r with
    | none => exact ⟨above_append _ _ _ (Nat.le_refl _), Or.inr ⟨rfl, by simp⟩⟩
    | some p => exact ⟨above_append _ _ _ (Nat.le_refl _), Or.inr ⟨rfl, by simp⟩⟩

/-! ### metadata values -/

/-- a reference held by a metadata value: a live cell that no caller-owned raw slice uses -/
def RefOk (h : Heap) (R : List Nat) (r : Option Nat) : Prop := ∀ p, r = some p → p < h.length ∧ p ∉ R

def MetaOk (h : Heap) (R : List Nat) (m : Meta) : Prop :=
  RefOk h R m.labels ∧ RefOk h R m.annos ∧ RefOk h R m.fins.ptr ∧ SliceOk h m.fins

/-- every raw cell is an existing cell -/
def RBelow (R : List Nat) (n : Nat) : Prop := ∀ p ∈ R, p < n

/-- `h'` keeps every cell of `h` that is not owned by a caller's raw slice -/
def HFrame (h h' : Heap) (R : List Nat) : Prop :=
  h.length ≤ h'.length ∧ ∀ p, p < h.length → p ∉ R → h'[p]? = h[p]?

theorem Above.hframe {h h' : Heap} (a : Above h.length h h') (R : List Nat) : HFrame h h' R :=
  ⟨a.1, fun p hp _ => a.2 p hp⟩

theorem HFrame.refl (h : Heap) (R : List Nat) : HFrame h h R := ⟨Nat.le_refl _, fun _ _ _ => rfl⟩

theorem refOk_frame {h h' : Heap} {R : List Nat} {r : Option Nat} (ok : RefOk h R r) (f : HFrame h h' R) :
    RefOk h' R r := fun p hp => ⟨Nat.lt_of_lt_of_le (ok p hp).1 f.1, (ok p hp).2⟩

theorem sliceOk_frame {h h' : Heap} {R : List Nat} {s : Slice} (ok : SliceOk h s) (rk : RefOk h R s.ptr)
    (f : HFrame h h' R) : SliceOk h' s := by
  unfold SliceOk at *
  cases hs : s.ptr with
  | none => simpa [hs] using ok
  | some p =>
    simp only [hs] at ok ⊢
    obtain ⟨e, he, h1, h2⟩ := ok
    exact ⟨e, (f.2 p (rk p hs).1 (rk p hs).2).trans he, h1, h2⟩

theorem metaOk_frame {h h' : Heap} {R : List Nat} {m : Meta} (ok : MetaOk h R m) (f : HFrame h h' R) :
    MetaOk h' R m :=
  ⟨refOk_frame ok.1 f, refOk_frame ok.2.1 f, refOk_frame ok.2.2.1 f, sliceOk_frame ok.2.2.2 ok.2.2.1 f⟩

theorem metaOk_congr {h : Heap} {R : List Nat} {m m' : Meta} (ok : MetaOk h R m)
    (h1 : m'.labels = m.labels) (h2 : m'.annos = m.annos) (h3 : m'.fins = m.fins) : MetaOk h R m' := by
  unfold MetaOk at *
  rw [h1, h2, h3]; exact ok

theorem mapAt_frame {h h' : Heap} {R : List Nat} {r : Option Nat} (ok : RefOk h R r) (f : HFrame h h' R) :
    mapAt h' r = mapAt h r := by
  cases r with
  | none => rfl
  | some p => simp only [mapAt]; rw [f.2 p (ok p rfl).1 (ok p rfl).2]

theorem arrAt_frame {h h' : Heap} {R : List Nat} {r : Option Nat} (ok : RefOk h R r) (f : HFrame h h' R) :
    arrAt h' r = arrAt h r := by
  cases r with
  | none => rfl
  | some p => simp only [arrAt]; rw [f.2 p (ok p rfl).1 (ok p rfl).2]

/-- the observable content of a metadata value only depends on the cells it references -/
theorem viewMeta_frame {h h' : Heap} {R : List Nat} {m : Meta} (ok : MetaOk h R m) (f : HFrame h h' R) :
    viewMeta h' m = viewMeta h m := by
  simp only [viewMeta, viewSlice, mapAt_frame ok.1 f, mapAt_frame ok.2.1 f, arrAt_frame ok.2.2.1 f]

theorem refOk_kv {h : Heap} {R : List Nat} {r0 : Option Nat} {res : Heap × Option Nat}
    (ok : RefOk h R r0) (rb : RBelow R h.length) (k : KvOk h r0 res) : RefOk res.1 R res.2 := by
  rcases k.2 with e | ⟨e, hl⟩
  · rw [e]; exact refOk_frame ok (k.1.hframe R)
  · intro p hp
    rw [e] at hp; cases hp
    exact ⟨hl, fun hm => Nat.lt_irrefl _ (rb _ hm)⟩

theorem refOk_slice {h h' : Heap} {R : List Nat} {s : Slice} (ok : SliceOk h' s) (ge : PtrGe h.length s.ptr)
    (rb : RBelow R h.length) : RefOk h' R s.ptr := by
  intro p hp
  have hge := ge p hp
  simp only [SliceOk, hp] at ok
  obtain ⟨e, he, _⟩ := ok
  exact ⟨lt_of_getElem?_some he, fun hm => absurd (rb _ hm) (by omega)⟩

theorem metaOk_setLabels {h h' : Heap} {R : List Nat} {m : Meta} {res : Heap × Option Nat}
    (ok : MetaOk h R m) (rb : RBelow R h.length) (k : KvOk h m.labels res) (e : h' = res.1) :
    MetaOk h' R { m with labels := res.2 } := by
  subst e
  have f := k.1.hframe R
  have ok' := metaOk_frame ok f
  exact ⟨refOk_kv ok.1 rb k, ok'.2.1, ok'.2.2.1, ok'.2.2.2⟩

theorem metaOk_setAnnos {h h' : Heap} {R : List Nat} {m : Meta} {res : Heap × Option Nat}
    (ok : MetaOk h R m) (rb : RBelow R h.length) (k : KvOk h m.annos res) (e : h' = res.1) :
    MetaOk h' R { m with annos := res.2 } := by
  subst e
  have f := k.1.hframe R
  have ok' := metaOk_frame ok f
  exact ⟨ok'.1, refOk_kv ok.2.1 rb k, ok'.2.2.1, ok'.2.2.2⟩

theorem metaOk_setFins {h h' : Heap} {R : List Nat} {m : Meta} {s : Slice}
    (ok : MetaOk h R m) (rb : RBelow R h.length) (a : Above h.length h h') (sok : SliceOk h' s)
    (ge : PtrGe h.length s.ptr) : MetaOk h' R { m with fins := s } := by
  have ok' := metaOk_frame ok (a.hframe R)
  exact ⟨ok'.1, ok'.2.1, refOk_slice sok ge rb, sok⟩

/-- **Every public mutator allocates before it writes**: under the clone facts, one
    mutator call on an object leaves every existing cell untouched and the object's
    metadata well-formed (its references are old untouched cells or fresh ones). -/
theorem applyMut_ok {F : AliasFacts} (hF : AllTrue F = true) {h : Heap} {R : List Nat} {o : Obj} (m : Mut)
    (ok : MetaOk h R o.md) (rb : RBelow R h.length) :
    Above h.length h (applyMut F h o m).1 ∧ MetaOk (applyMut F h o m).1 R (applyMut F h o m).2.1.md := by
  cases m with
  | setLabel k v => exact ⟨(kvSetM_ok (AllTrue.clone hF _) h _ k v).1, metaOk_setLabels ok rb (kvSetM_ok (AllTrue.clone hF _) h _ k v) rfl⟩
  | delLabel k => exact ⟨(kvDelM_ok (AllTrue.clone hF _) h _ k).1, metaOk_setLabels ok rb (kvDelM_ok (AllTrue.clone hF _) h _ k) rfl⟩
  | doLabels es => exact ⟨(kvDoM_ok (AllTrue.clone hF _) h _ es).1, metaOk_setLabels ok rb (kvDoM_ok (AllTrue.clone hF _) h _ es) rfl⟩
  | setAnno k v => exact ⟨(kvSetM_ok (AllTrue.clone hF _) h _ k v).1, metaOk_setAnnos ok rb (kvSetM_ok (AllTrue.clone hF _) h _ k v) rfl⟩
  | delAnno k => exact ⟨(kvDelM_ok (AllTrue.clone hF _) h _ k).1, metaOk_setAnnos ok rb (kvDelM_ok (AllTrue.clone hF _) h _ k) rfl⟩
  | doAnnos es => exact ⟨(kvDoM_ok (AllTrue.clone hF _) h _ es).1, metaOk_setAnnos ok rb (kvDoM_ok (AllTrue.clone hF _) h _ es) rfl⟩
  | finAdd f =>
    obtain ⟨a, sok, ge⟩ := finAdd_ok (AllTrue.clone hF _) h o.md.fins f
    exact ⟨a, metaOk_setFins ok rb a sok ge⟩
  | finRemove f =>
    obtain ⟨a, sok, ge⟩ := finRemove_ok (AllTrue.clone hF _) h o.md.fins f
    exact ⟨a, metaOk_setFins ok rb a sok ge⟩
  | finSetLit l =>
    obtain ⟨a1, _, _⟩ := sliceLit_ok h l
    obtain ⟨a2, sok, ge⟩ := finSet_ok (AllTrue.clone hF .finSet) (sliceLit h l).1 (sliceLit h l).2
    have a := a1.trans (a2.mono a1.1)
    have ge' : PtrGe h.length (finSet F (sliceLit h l).1 (sliceLit h l).2).2.ptr :=
      fun p hp => Nat.le_trans a1.1 (ge p hp)
    exact ⟨a, metaOk_setFins ok rb a sok ge'⟩
  | setPhase t => exact ⟨Above.refl _ _, metaOk_congr ok rfl rfl rfl⟩
  | setVersion v => exact ⟨Above.refl _ _, metaOk_congr ok rfl rfl rfl⟩
  | setOwner w =>
    simp only [applyMut]
    split
    · exact ⟨Above.refl _ _, metaOk_congr ok rfl rfl rfl⟩
    · exact ⟨Above.refl _ _, ok⟩
  | setSpec s => exact ⟨Above.refl _ _, ok⟩

/-! ### the state invariant -/

/-- cells owned by the caller's raw finalizer slices (the only cells written in place) -/
def rawPtrs (raws : List (Nat × Slice)) : List Nat := raws.filterMap (·.2.ptr)

theorem mem_rawPtrs {raws : List (Nat × Slice)} {p : Nat} :
    p ∈ rawPtrs raws ↔ ∃ e ∈ raws, e.2.ptr = some p := by
  simp [rawPtrs]

/-- who holds which object: caller handles hold pairwise distinct objects, and none of
    them is an object the store or the cache holds -/
structure RefInv (n : Nat) (hs : List (Nat × Nat)) (store cache : List (String × Nat)) : Prop where
  hsLt : ∀ p ∈ hs, p.2 < n
  storeLt : ∀ p ∈ store, p.2 < n
  cacheLt : ∀ p ∈ cache, p.2 < n
  hsInj : ∀ p ∈ hs, ∀ p' ∈ hs, p.2 = p'.2 → p = p'
  hsStore : ∀ p ∈ hs, ∀ p' ∈ store, p.2 ≠ p'.2
  hsCache : ∀ p ∈ hs, ∀ p' ∈ cache, p.2 ≠ p'.2

theorem RefInv.mono {n n' : Nat} {hs : List (Nat × Nat)} {store cache : List (String × Nat)}
    (r : RefInv n hs store cache) (hn : n ≤ n') : RefInv n' hs store cache :=
  ⟨fun p hp => Nat.lt_of_lt_of_le (r.hsLt p hp) hn, fun p hp => Nat.lt_of_lt_of_le (r.storeLt p hp) hn,
   fun p hp => Nat.lt_of_lt_of_le (r.cacheLt p hp) hn, r.hsInj, r.hsStore, r.hsCache⟩

theorem RefInv.hsPutFresh {n : Nat} {hs : List (Nat × Nat)} {store cache : List (String × Nat)}
    (r : RefInv n hs store cache) (k : Nat) : RefInv (n + 1) (aput hs k n) store cache := by
  refine ⟨?_, fun p hp => Nat.lt_succ_of_lt (r.storeLt p hp), fun p hp => Nat.lt_succ_of_lt (r.cacheLt p hp), ?_, ?_, ?_⟩
  · intro p hp
    rcases mem_aput hp with e | ⟨hm, _⟩
    · subst e; exact Nat.lt_succ_self _
    · exact Nat.lt_succ_of_lt (r.hsLt p hm)
  · intro p hp p' hp' e
    rcases mem_aput hp with e1 | ⟨hm, _⟩ <;> rcases mem_aput hp' with e2 | ⟨hm', _⟩
    · rw [e1, e2]
    · subst e1; have := r.hsLt p' hm'; simp at e; omega
    · subst e2; have := r.hsLt p hm; simp at e; omega
    · exact r.hsInj p hm p' hm' e
  · intro p hp p' hp'
    rcases mem_aput hp with e1 | ⟨hm, _⟩
    · subst e1; have := r.storeLt p' hp'; simp; omega
    · exact r.hsStore p hm p' hp'
  · intro p hp p' hp'
    rcases mem_aput hp with e1 | ⟨hm, _⟩
    · subst e1; have := r.cacheLt p' hp'; simp; omega
    · exact r.hsCache p hm p' hp'

theorem RefInv.hsDel {n : Nat} {hs : List (Nat × Nat)} {store cache : List (String × Nat)}
    (r : RefInv n hs store cache) (k : Nat) : RefInv n (adel hs k) store cache :=
  ⟨fun p hp => r.hsLt p (mem_adel hp).1, r.storeLt, r.cacheLt,
   fun p hp p' hp' => r.hsInj p (mem_adel hp).1 p' (mem_adel hp').1,
   fun p hp => r.hsStore p (mem_adel hp).1, fun p hp => r.hsCache p (mem_adel hp).1⟩

theorem RefInv.storePutFresh {n : Nat} {hs : List (Nat × Nat)} {store cache : List (String × Nat)}
    (r : RefInv n hs store cache) (id : String) : RefInv (n + 1) hs (aput store id n) cache := by
  refine ⟨fun p hp => Nat.lt_succ_of_lt (r.hsLt p hp), ?_, fun p hp => Nat.lt_succ_of_lt (r.cacheLt p hp),
    r.hsInj, ?_, r.hsCache⟩
  · intro p hp
    rcases mem_aput hp with e | ⟨hm, _⟩
    · subst e; exact Nat.lt_succ_self _
    · exact Nat.lt_succ_of_lt (r.storeLt p hm)
  · intro p hp p' hp'
    rcases mem_aput hp' with e | ⟨hm, _⟩
    · subst e; have := r.hsLt p hp; simp; omega
    · exact r.hsStore p hp p' hm

theorem RefInv.storeDel {n : Nat} {hs : List (Nat × Nat)} {store cache : List (String × Nat)}
    (r : RefInv n hs store cache) (id : String) : RefInv n hs (adel store id) cache :=
  ⟨r.hsLt, fun p hp => r.storeLt p (mem_adel hp).1, r.cacheLt, r.hsInj,
   fun p hp p' hp' => r.hsStore p hp p' (mem_adel hp').1, r.hsCache⟩

theorem RefInv.sync {n : Nat} {hs : List (Nat × Nat)} {store cache : List (String × Nat)}
    (r : RefInv n hs store cache) : RefInv n hs store store :=
  ⟨r.hsLt, r.storeLt, r.storeLt, r.hsInj, r.hsStore, r.hsStore⟩

/-- **The invariant.** Every object's metadata references live cells that no raw slice
    owns (so: cells nobody writes in place), raw slices are well-formed, and no handle
    shares its object with another handle, the store or the cache. -/
structure Inv (st : St) : Prop where
  objsOk : ∀ o ∈ st.objs, MetaOk st.heap (rawPtrs st.raws) o.md
  rawsOk : ∀ p ∈ st.raws, SliceOk st.heap p.2
  refs : RefInv st.objs.length st.hs st.store st.cache

theorem sliceOk_ptr_lt {h : Heap} {s : Slice} {p : Nat} (ok : SliceOk h s) (hp : s.ptr = some p) :
    p < h.length := by
  simp only [SliceOk, hp] at ok
  obtain ⟨e, he, _⟩ := ok
  exact lt_of_getElem?_some he

theorem sliceOk_aboveTop {h h' : Heap} {s : Slice} (ok : SliceOk h s) (a : Above h.length h h') : SliceOk h' s :=
  sliceOk_above ok a (fun _ hp => sliceOk_ptr_lt ok hp)

theorem Inv.rbelow {st : St} (inv : Inv st) : RBelow (rawPtrs st.raws) st.heap.length := by
  intro p hp
  obtain ⟨e, he, hptr⟩ := mem_rawPtrs.1 hp
  exact sliceOk_ptr_lt (inv.rawsOk e he) hptr

theorem metaOk_default (h : Heap) (R : List Nat) : MetaOk h R (default : Obj).md := by
  refine ⟨?_, ?_, ?_, ?_⟩
  · intro p hp; have hp' : (none : Option Nat) = some p := hp; cases hp'
  · intro p hp; have hp' : (none : Option Nat) = some p := hp; cases hp'
  · intro p hp; have hp' : (none : Option Nat) = some p := hp; cases hp'
  · exact ⟨rfl, rfl⟩

theorem objAt_ok {h : Heap} {R : List Nat} {objs : List Obj} (q : Nat)
    (hall : ∀ o ∈ objs, MetaOk h R o.md) : MetaOk h R (objAt objs q).md := by
  unfold objAt
  cases hq : objs[q]? with
  | none => exact metaOk_default h R
  | some o => exact hall o (List.mem_of_getElem? hq)

theorem forall_mem_append_one {α : Type} {P : α → Prop} {l : List α} {x : α}
    (hl : ∀ o ∈ l, P o) (hx : P x) : ∀ o ∈ l ++ [x], P o := by
  intro o ho
  rcases List.mem_append.1 ho with h | h
  · exact hl o h
  · simp at h; subst h; exact hx

theorem forall_mem_set {α : Type} {P : α → Prop} {l : List α} {x : α} (i : Nat)
    (hl : ∀ o ∈ l, P o) (hx : P x) : ∀ o ∈ l.set i x, P o := by
  intro o ho
  rcases List.mem_or_eq_of_mem_set ho with h | h
  · exact hl o h
  · subst h; exact hx

/-- what one step guarantees: the invariant again, every cell not owned by a raw slice
    untouched, and raw cells only ever added at fresh addresses -/
structure Good (st st' : St) : Prop where
  inv : Inv st'
  frame : HFrame st.heap st'.heap (rawPtrs st.raws)
  rawMono : ∀ p ∈ rawPtrs st'.raws, p ∈ rawPtrs st.raws ∨ st.heap.length ≤ p

theorem Good.refl {st : St} (inv : Inv st) : Good st st := ⟨inv, HFrame.refl _ _, fun _ hp => Or.inl hp⟩

theorem Good.trans {st st' st'' : St} (a : Good st st') (b : Good st' st'') : Good st st'' := by
  refine ⟨b.inv, ⟨Nat.le_trans a.frame.1 b.frame.1, ?_⟩, ?_⟩
  · intro p hp hR
    have h1 := a.frame.2 p hp hR
    have hp' : p < st'.heap.length := Nat.lt_of_lt_of_le hp a.frame.1
    have hR' : p ∉ rawPtrs st'.raws := by
      intro hm
      rcases a.rawMono p hm with h | h
      · exact hR h
      · omega
    exact (b.frame.2 p hp' hR').trans h1
  · intro p hp
    rcases b.rawMono p hp with h | h
    · exact a.rawMono p h
    · exact Or.inr (Nat.le_trans a.frame.1 h)

/-- a step that leaves heap and raw slices alone -/
theorem Good.sameHeap {st st' : St} (inv' : Inv st') (hh : st'.heap = st.heap) (hr : st'.raws = st.raws) :
    Good st st' :=
  ⟨inv', by rw [hh]; exact HFrame.refl _ _, fun p hp => Or.inl (by rw [hr] at hp; exact hp)⟩

/-! ### every primitive step is `Good` -/

theorem good_new {F : AliasFacts} {st : St} (inv : Inv st) (h : Nat) (id : String) :
    Good st (primStep F st (.new h id)).1 := by
  refine Good.sameHeap ⟨?_, inv.rawsOk, ?_⟩ rfl rfl
  · refine forall_mem_append_one inv.objsOk ?_
    refine ⟨?_, ?_, ?_, sliceOk_nil _⟩ <;> (intro p hp; cases hp)
  · have := inv.refs.hsPutFresh h
    simpa [primStep] using this

theorem good_copy {F : AliasFacts} {st : St} (inv : Inv st) (dst src : Nat) :
    Good st (primStep F st (.copy dst src)).1 := by
  simp only [primStep]
  split
  · exact Good.refl inv
  · refine Good.sameHeap ⟨?_, inv.rawsOk, ?_⟩ rfl rfl
    · exact forall_mem_append_one inv.objsOk (objAt_ok _ inv.objsOk)
    · have := inv.refs.hsPutFresh dst
      simpa using this

theorem good_copyMd {F : AliasFacts} {st : St} (inv : Inv st) (dst src : Nat) :
    Good st (primStep F st (.copyMd dst src)).1 := by
  simp only [primStep]
  split
  · refine Good.sameHeap ⟨?_, inv.rawsOk, ?_⟩ rfl rfl
    · exact forall_mem_set _ inv.objsOk (objAt_ok _ inv.objsOk)
    · simpa using inv.refs
  · exact Good.refl inv

/-- a step that replaces the object of one handle and extends the heap above its old top -/
theorem good_setObj {st : St} (inv : Inv st) {h' : Heap} {o' : Obj} (q : Nat)
    (a : Above st.heap.length st.heap h') (ok : MetaOk h' (rawPtrs st.raws) o'.md) :
    Good st { st with heap := h', objs := st.objs.set q o' } := by
  refine ⟨⟨?_, ?_, ?_⟩, a.hframe _, fun p hp => Or.inl hp⟩
  · exact forall_mem_set _ (fun o ho => metaOk_frame (inv.objsOk o ho) (a.hframe _)) ok
  · intro e he; exact sliceOk_aboveTop (inv.rawsOk e he) a
  · simpa using inv.refs

theorem good_mutate {F : AliasFacts} (hF : AllTrue F = true) {st : St} (inv : Inv st) (h : Nat) (m : Mut) :
    Good st (primStep F st (.mutate h m)).1 := by
  simp only [primStep]
  split
  · exact Good.refl inv
  · rename_i q _
    obtain ⟨a, ok⟩ := applyMut_ok hF m (objAt_ok q inv.objsOk) inv.rbelow
    exact good_setObj inv q a ok

theorem good_finSetFrom {F : AliasFacts} (hF : AllTrue F = true) {st : St} (inv : Inv st) (h src : Nat) :
    Good st (primStep F st (.finSetFrom h src)).1 := by
  simp only [primStep]
  split
  · rename_i q qs _ _
    obtain ⟨a, sok, ge⟩ := finSet_ok (AllTrue.clone hF .finSet) st.heap (objAt st.objs qs).md.fins
    exact good_setObj inv q a (metaOk_setFins (objAt_ok q inv.objsOk) inv.rbelow a sok ge)
  · exact Good.refl inv

theorem good_finSetRaw {F : AliasFacts} (hF : AllTrue F = true) {st : St} (inv : Inv st) (h r : Nat) :
    Good st (primStep F st (.finSetRaw h r)).1 := by
  simp only [primStep]
  split
  · rename_i q s _ _
    obtain ⟨a, sok, ge⟩ := finSet_ok (AllTrue.clone hF .finSet) st.heap s
    exact good_setObj inv q a (metaOk_setFins (objAt_ok q inv.objsOk) inv.rbelow a sok ge)
  · exact Good.refl inv

theorem mem_rawPtrs_aput {raws : List (Nat × Slice)} {k : Nat} {s : Slice} {p : Nat}
    (h : p ∈ rawPtrs (aput raws k s)) : s.ptr = some p ∨ p ∈ rawPtrs raws := by
  obtain ⟨e, he, hp⟩ := mem_rawPtrs.1 h
  rcases mem_aput he with e1 | ⟨hm, _⟩
  · subst e1; exact Or.inl hp
  · exact Or.inr (mem_rawPtrs.2 ⟨e, hm, hp⟩)

theorem good_rawNew {F : AliasFacts} {st : St} (inv : Inv st) (r : Nat) (l : List String) :
    Good st (primStep F st (.rawNew r l)).1 := by
  simp only [primStep]
  obtain ⟨a, sok, ge⟩ := sliceLit_ok st.heap l
  have fresh : ∀ p ∈ rawPtrs (aput st.raws r (sliceLit st.heap l).2), p ∈ rawPtrs st.raws ∨ st.heap.length ≤ p := by
    intro p hp
    rcases mem_rawPtrs_aput hp with h | h
    · exact Or.inr (ge p h)
    · exact Or.inl h
  refine ⟨⟨?_, ?_, inv.refs⟩, a.hframe _, fresh⟩
  · intro o ho
    have ok := metaOk_frame (inv.objsOk o ho) (a.hframe _)
    have old := inv.objsOk o ho
    have narrow : ∀ r0 : Option Nat, RefOk st.heap (rawPtrs st.raws) r0 →
        RefOk (sliceLit st.heap l).1 (rawPtrs (aput st.raws r (sliceLit st.heap l).2)) r0 := by
      intro r0 hr p hp
      refine ⟨Nat.lt_of_lt_of_le (hr p hp).1 a.1, fun hm => ?_⟩
      rcases fresh p hm with h | h
      · exact (hr p hp).2 h
      · have := (hr p hp).1; omega
    exact ⟨narrow _ old.1, narrow _ old.2.1, narrow _ old.2.2.1, ok.2.2.2⟩
  · intro e he
    rcases mem_aput he with e1 | ⟨hm, _⟩
    · subst e1; exact sok
    · exact sliceOk_aboveTop (inv.rawsOk e hm) a

theorem good_rawWrite {F : AliasFacts} {st : St} (inv : Inv st) (r i : Nat) (v : String) :
    Good st (primStep F st (.rawWrite r i v)).1 := by
  simp only [primStep]
  split
  · exact Good.refl inv
  · rename_i s hs
    split
    · rename_i p hp
      split
      · have hmem : p ∈ rawPtrs st.raws := mem_rawPtrs.2 ⟨_, aget_mem hs, hp⟩
        have sok := inv.rawsOk _ (aget_mem hs)
        have plt : p < st.heap.length := sliceOk_ptr_lt sok hp
        have fr : HFrame st.heap (st.heap.set p (.arr ((arrAt st.heap s.ptr).set i v))) (rawPtrs st.raws) := by
          refine ⟨by simp, fun q _ hq => ?_⟩
          have : p ≠ q := fun e => hq (e ▸ hmem)
          simp [this]
        refine ⟨⟨?_, ?_, inv.refs⟩, fr, fun q hq => Or.inl hq⟩
        · intro o ho; exact metaOk_frame (inv.objsOk o ho) fr
        · intro e he
          have ok := inv.rawsOk e he
          unfold SliceOk at ok ⊢
          cases hp' : e.2.ptr with
          | none => simpa [hp'] using ok
          | some p' =>
            simp only [hp'] at ok ⊢
            obtain ⟨el, hel, h1, h2⟩ := ok
            by_cases e' : p = p'
            · subst e'
              refine ⟨_, getElemOpt_set_self _ _ _ plt, h1, ?_⟩
              rw [hp, arrAt_of_getElem? hel]; simpa using h2
            · exact ⟨el, by simpa [e'] using hel, h1, h2⟩
      · exact Good.refl inv
    · exact Good.refl inv

theorem good_destroy {F : AliasFacts} {st : St} (inv : Inv st) (id owner : String) :
    Good st (primStep F st (.destroy id owner)).1 := by
  simp only [primStep]
  split
  · exact Good.refl inv
  · split
    · exact Good.refl inv
    · split
      · exact Good.refl inv
      · exact Good.sameHeap ⟨inv.objsOk, inv.rawsOk, inv.refs.storeDel id⟩ rfl rfl

theorem good_sync {F : AliasFacts} {st : St} (inv : Inv st) : Good st (primStep F st .sync).1 :=
  Good.sameHeap ⟨inv.objsOk, inv.rawsOk, inv.refs.sync⟩ rfl rfl

theorem good_drop {F : AliasFacts} {st : St} (inv : Inv st) (h : Nat) : Good st (primStep F st (.drop h)).1 :=
  Good.sameHeap ⟨inv.objsOk, inv.rawsOk, inv.refs.hsDel h⟩ rfl rfl

theorem good_get {F : AliasFacts} (hF : AllTrue F = true) {st : St} (inv : Inv st) (id : String) (dst : Nat)
    (via : Via) (l : Bool) : Good st (primStep F st (.get id dst via l)).1 := by
  simp only [primStep, copyIf, AllTrue.copyOut hF via l, if_true]
  split
  · exact Good.refl inv
  · refine Good.sameHeap ⟨?_, inv.rawsOk, ?_⟩ rfl rfl
    · exact forall_mem_append_one inv.objsOk (objAt_ok _ inv.objsOk)
    · have := inv.refs.hsPutFresh dst
      simpa using this

theorem metaOk_scalar {h : Heap} {R : List Nat} {o : Obj} (ok : MetaOk h R o.md) (m' : Meta)
    (h1 : m'.labels = o.md.labels) (h2 : m'.annos = o.md.annos) (h3 : m'.fins = o.md.fins) :
    MetaOk h R m' := metaOk_congr ok h1 h2 h3

/-- Create under the copy-in fact: the store gets a FRESH object; the caller's object
    only receives a copy of its metadata value -/
theorem good_create {F : AliasFacts} (hF : AllTrue F = true) {st : St} (inv : Inv st) (q : Nat) (owner : String) :
    Good st (createM F st q owner).1 := by
  have ext : ∀ o ∈ st.objs ++ [objAt st.objs q], MetaOk st.heap (rawPtrs st.raws) o.md :=
    forall_mem_append_one inv.objsOk (objAt_ok _ inv.objsOk)
  have okC := objAt_ok (st.objs.length) ext
  simp only [createM, copyIf, (AllTrue.copyIn hF).1, if_true]
  split
  · exact Good.sameHeap ⟨ext, inv.rawsOk, by simpa using inv.refs.mono (Nat.le_succ _)⟩ rfl rfl
  · split
    · refine Good.sameHeap ⟨?_, inv.rawsOk, by simpa using inv.refs.mono (Nat.le_succ _)⟩ rfl rfl
      exact forall_mem_set _ ext (metaOk_scalar okC _ rfl rfl rfl)
    · refine Good.sameHeap ⟨?_, inv.rawsOk, ?_⟩ rfl rfl
      · refine forall_mem_set _ (forall_mem_set _ (forall_mem_set _ ext ?_) ?_) ?_
        · exact metaOk_scalar okC _ rfl rfl rfl
        · exact metaOk_scalar okC _ rfl rfl rfl
        · exact metaOk_scalar okC _ rfl rfl rfl
      · have := inv.refs.storePutFresh (objAt (st.objs ++ [objAt st.objs q]) st.objs.length).md.id
        simpa using this

/-- Update under the copy-in fact -/
theorem good_update {F : AliasFacts} (hF : AllTrue F = true) {st : St} (inv : Inv st) (q : Nat) (owner : String)
    (exp : Exp) : Good st (updateM F st q owner exp).1 := by
  have ext : ∀ o ∈ st.objs ++ [objAt st.objs q], MetaOk st.heap (rawPtrs st.raws) o.md :=
    forall_mem_append_one inv.objsOk (objAt_ok _ inv.objsOk)
  have okC := objAt_ok (st.objs.length) ext
  have bad : Good st { st with objs := st.objs ++ [objAt st.objs q] } :=
    Good.sameHeap ⟨ext, inv.rawsOk, by simpa using inv.refs.mono (Nat.le_succ _)⟩ rfl rfl
  simp only [updateM, copyIf, (AllTrue.copyIn hF).2, if_true]
  split
  · exact bad
  · split
    · exact bad
    · split
      · exact bad
      · split
        · exact bad
        · refine Good.sameHeap ⟨?_, inv.rawsOk, ?_⟩ rfl rfl
          · refine forall_mem_set _ (forall_mem_set _ ext ?_) ?_
            · exact metaOk_scalar okC _ rfl rfl rfl
            · exact metaOk_scalar okC _ rfl rfl rfl
          · have := inv.refs.storePutFresh (objAt (st.objs ++ [objAt st.objs q]) st.objs.length).md.id
            simpa using this

/-- **Every primitive step preserves the invariant and touches no shared cell.** -/
theorem prim_good {F : AliasFacts} (hF : AllTrue F = true) {st : St} (inv : Inv st) (p : Prim) :
    Good st (primStep F st p).1 := by
  cases p with
  | new h id => exact good_new inv h id
  | copy dst src => exact good_copy inv dst src
  | copyMd dst src => exact good_copyMd inv dst src
  | mutate h m => exact good_mutate hF inv h m
  | finSetFrom h src => exact good_finSetFrom hF inv h src
  | finSetRaw h r => exact good_finSetRaw hF inv h r
  | rawNew r l => exact good_rawNew inv r l
  | rawWrite r i v => exact good_rawWrite inv r i v
  | create h owner =>
    simp only [primStep]
    split
    · exact Good.refl inv
    · exact good_create hF inv _ owner
  | update h owner exp =>
    simp only [primStep]
    split
    · exact Good.refl inv
    · exact good_update hF inv _ owner exp
  | destroy id owner => exact good_destroy inv id owner
  | get id dst via l => exact good_get hF inv id dst via l
  | sync => exact good_sync inv
  | drop h => exact good_drop inv h

theorem runPrims_good {F : AliasFacts} (hF : AllTrue F = true) (ps : List Prim) {st : St} (inv : Inv st) :
    Good st (runPrims F st ps) := by
  induction ps generalizing st with
  | nil => exact Good.refl inv
  | cons p ps ih =>
    have g := prim_good hF inv p
    exact g.trans (ih g.inv)

theorem updateWCcore_good {F : AliasFacts} (hF : AllTrue F = true) {st : St} (inv : Inv st) (id : String)
    (ms : List Mut) (dst : Nat) (owner : String) : Good st (updateWCcore F st id ms dst owner).1 := by
  have g1 := prim_good hF inv (.get id scratch .direct false)
  simp only [updateWCcore]
  split
  · split
    · exact g1.trans (prim_good hF g1.inv _)
    · have g2 := g1.trans (prim_good hF g1.inv (.copy dst scratch))
      have g3 := g2.trans (runPrims_good hF (ms.map (.mutate dst ·)) g2.inv)
      have g4 := g3.trans (prim_good hF g3.inv (.drop scratch))
      split
      · exact g4
      · exact g4.trans (prim_good hF g4.inv _)
  · exact g1

theorem updateWCM_good {F : AliasFacts} (hF : AllTrue F = true) {st : St} (inv : Inv st) (id : String)
    (ms : List Mut) (dst : Nat) (owner : String) : Good st (updateWCM F st id ms dst owner).1 := by
  have g := updateWCcore_good hF inv id ms dst owner
  simp only [updateWCM]
  split
  · exact g.trans (prim_good hF g.inv _)
  · exact g

/-- **Every step of a caller program (primitive or composite API call) is `Good`.** -/
theorem step_good {F : AliasFacts} (hF : AllTrue F = true) {st : St} (inv : Inv st) (s : Step) :
    Good st (step F st s).1 := by
  cases s with
  | prim p => exact prim_good hF inv p
  | list base via => exact runPrims_good hF _ inv
  | modify h ms owner =>
    simp only [step]
    split
    · exact Good.refl inv
    · split
      · have g := runPrims_good hF (ms.map (.mutate h ·)) inv
        exact g.trans (prim_good hF g.inv _)
      · rename_i q _ _ _ _
        have g := updateWCM_good hF inv (objAt st.objs q).md.id ms scratch2 owner
        exact g.trans (prim_good hF g.inv _)
  | updateWC id ms dst owner => exact updateWCM_good hF inv id ms dst owner

theorem inv_init : Inv ({} : St) := by
  refine ⟨?_, ?_, ⟨?_, ?_, ?_, ?_, ?_, ?_⟩⟩ <;> (intro p hp; cases hp)

theorem run_inv {F : AliasFacts} (hF : AllTrue F = true) (prog : List Step) {st : St} (inv : Inv st) :
    Inv (run F st prog) := by
  induction prog generalizing st with
  | nil => exact inv
  | cons s ss ih => exact ih (step_good hF inv s).inv

/-! ### A. shared cells are never written -/

/-- cell `p` is referenced by the metadata of some object (labels, annotations or finalizers) -/
def MetaReach (st : St) (p : Nat) : Prop :=
  ∃ o ∈ st.objs, o.md.labels = some p ∨ o.md.annos = some p ∨ o.md.fins.ptr = some p

theorem metaReach_frame {st : St} (inv : Inv st) {p : Nat} (hp : MetaReach st p) :
    p < st.heap.length ∧ p ∉ rawPtrs st.raws := by
  obtain ⟨o, ho, h⟩ := hp
  have ok := inv.objsOk o ho
  rcases h with h | h | h
  · exact ok.1 p h
  · exact ok.2.1 p h
  · exact ok.2.2.1 p h

theorem shared_cells_never_written_of {F : AliasFacts} (hF : AllTrue F = true) (prog : List Step) (s : Step)
    (p : Nat) (hp : MetaReach (run F {} prog) p) :
    (step F (run F {} prog) s).1.heap[p]? = (run F {} prog).heap[p]? := by
  have inv := run_inv hF prog inv_init
  obtain ⟨h1, h2⟩ := metaReach_frame inv hp
  exact (step_good hF inv s).frame.2 p h1 h2

/-- **C19.A — invariant `shared_cells_never_written`.** In every state a caller
    program can reach, a cell referenced by ANY metadata value (a fortiori one reachable
    from two) keeps its contents across every further step — every public mutator,
    every store/cache API call, even the caller's in-place writes to its own slices:
    every writer allocates first. (Model under the regenerated facts.) -/
theorem shared_cells_never_written (prog : List Step) (s : Step) (p : Nat)
    (hp : MetaReach (run facts {} prog) p) :
    (step facts (run facts {} prog) s).1.heap[p]? = (run facts {} prog).heap[p]? :=
  shared_cells_never_written_of (by decide) prog s p hp

/-- the wording of the property: a cell reachable from two distinct metadata values -/
theorem aliased_cells_never_written (prog : List Step) (s : Step) (p i j : Nat) (o1 o2 : Obj) (hij : i ≠ j)
    (h1 : (run facts {} prog).objs[i]? = some o1) (h2 : (run facts {} prog).objs[j]? = some o2)
    (r1 : o1.md.labels = some p ∨ o1.md.annos = some p ∨ o1.md.fins.ptr = some p)
    (_r2 : o2.md.labels = some p ∨ o2.md.annos = some p ∨ o2.md.fins.ptr = some p) :
    (step facts (run facts {} prog) s).1.heap[p]? = (run facts {} prog).heap[p]? :=
  have _ := hij; have _ := h2
  shared_cells_never_written prog s p ⟨o1, List.mem_of_getElem? h1, r1⟩

/-! ### B. copy independence -/

/-- caller-side primitive steps: everything except the writing store API calls -/
def callerSide : Prim → Bool
  | .create .. | .update .. | .destroy .. | .sync => false
  | _ => true

/-- the object a caller-side step writes (through a handle), if any -/
def target (st : St) : Prim → Option Nat
  | .mutate h _ => aget st.hs h
  | .finSetFrom h _ => aget st.hs h
  | .finSetRaw h _ => aget st.hs h
  | .copyMd dst _ => aget st.hs dst
  | _ => none

theorem getElemOpt_set_ne {α : Type} (l : List α) (i j : Nat) (x : α) (h : i ≠ j) : (l.set i x)[j]? = l[j]? := by
  simp [h]

/-- a caller-side step leaves every existing object except its target untouched -/
theorem objs_agree {F : AliasFacts} (hF : AllTrue F = true) (st : St) (p : Prim) (hc : callerSide p = true)
    (q' : Nat) (hq' : q' < st.objs.length) (ht : target st p ≠ some q') :
    (primStep F st p).1.objs[q']? = st.objs[q']? := by
  cases p with
  | new h id => simp only [primStep]; exact List.getElem?_append_left hq'
  | copy dst src =>
    simp only [primStep]; split
    · rfl
    · exact List.getElem?_append_left hq'
  | copyMd dst src =>
    simp only [primStep]; split
    · rename_i qd qs hd _
      have : qd ≠ q' := fun e => ht (by simp [target, hd, e])
      exact getElemOpt_set_ne _ _ _ _ this
    · rfl
  | mutate h m =>
    simp only [primStep]; split
    · rfl
    · rename_i q hh
      have : q ≠ q' := fun e => ht (by simp [target, hh, e])
      exact getElemOpt_set_ne _ _ _ _ this
  | finSetFrom h src =>
    simp only [primStep]; split
    · rename_i q qs hh _
      have : q ≠ q' := fun e => ht (by simp [target, hh, e])
      exact getElemOpt_set_ne _ _ _ _ this
    · rfl
  | finSetRaw h r =>
    simp only [primStep]; split
    · rename_i q sl hh _
      have : q ≠ q' := fun e => ht (by simp [target, hh, e])
      exact getElemOpt_set_ne _ _ _ _ this
    · rfl
  | rawNew r l => rfl
  | rawWrite r i v =>
    simp only [primStep]; split
    · rfl
    · split
      · split <;> rfl
      · rfl
  | create h owner => simp [callerSide] at hc
  | update h owner exp => simp [callerSide] at hc
  | destroy id owner => simp [callerSide] at hc
  | get id dst via l =>
    simp only [primStep, copyIf, AllTrue.copyOut hF via l, if_true]; split
    · rfl
    · exact List.getElem?_append_left hq'
  | sync => simp [callerSide] at hc
  | drop h => rfl

/-- if a step is `Good` and keeps object `q'`, then what is observable through `q'` is unchanged -/
theorem viewRef_stable {st st' : St} (inv : Inv st) (g : Good st st') (q' : Nat) (hq' : q' < st.objs.length)
    (ho : st'.objs[q']? = st.objs[q']?) : viewRef st' q' = viewRef st q' := by
  have hm : objAt st.objs q' ∈ st.objs := by
    unfold objAt
    rw [List.getElem?_eq_getElem hq']
    exact List.getElem_mem hq'
  simp only [viewRef, objAt, ho, viewObj]
  have := viewMeta_frame (inv.objsOk _ hm) g.frame
  simp only [objAt] at this
  rw [this]

/-- the steps that mutate the object of handle `a` through the public metadata/spec API -/
def mutatesHandle (a : Nat) : Prim → Prop
  | .mutate h _ => h = a
  | .finSetFrom h _ => h = a
  | .finSetRaw h _ => h = a
  | .copyMd dst _ => dst = a
  | _ => False

theorem mutates_callerSide {a : Nat} {p : Prim} (hm : mutatesHandle a p) : callerSide p = true := by
  cases p <;> first | rfl | exact absurd hm id

theorem mutates_target {a : Nat} {p : Prim} (st : St) (hm : mutatesHandle a p) : target st p = aget st.hs a := by
  cases p <;> first | exact absurd hm id | (simp only [mutatesHandle] at hm; subst hm; rfl)

theorem mutates_hs {F : AliasFacts} {a : Nat} {p : Prim} (st : St) (hm : mutatesHandle a p) :
    (primStep F st p).1.hs = st.hs := by
  cases p <;> first | exact absurd hm id | (simp only [primStep]; split <;> rfl)

theorem copy_independence_of {F : AliasFacts} (hF : AllTrue F = true) {st : St} (inv : Inv st) (a : Nat)
    (p : Prim) (hm : mutatesHandle a p) (b : Nat) (hb : b ≠ a) :
    viewHandle (primStep F st p).1 b = viewHandle st b := by
  simp only [viewHandle, mutates_hs st hm]
  cases hqb : aget st.hs b with
  | none => rfl
  | some qb =>
    simp only [Option.map_some]
    congr 1
    have hlt := inv.refs.hsLt _ (aget_mem hqb)
    refine viewRef_stable inv (prim_good hF inv p) qb hlt (objs_agree hF st p (mutates_callerSide hm) qb hlt ?_)
    rw [mutates_target st hm]
    intro hqa
    have := inv.refs.hsInj _ (aget_mem hqa) _ (aget_mem hqb) rfl
    exact hb (by simpa using this.symm)

/-- **C19.B — `copy_independence`.** In every reachable state, mutating the object of
    handle `a` through any public mutator (labels, annotations, finalizers — also
    `Finalizers().Set` from another object or from a caller-owned slice —, phase,
    version, owner, spec, or assigning a metadata copy over it) leaves what every other
    handle `b` observes unchanged — in particular when `b` is a metadata copy / DeepCopy
    of `a` sharing all its cells, or an object passed to or returned by the store. -/
theorem copy_independence (prog : List Step) (a : Nat) (p : Prim) (hm : mutatesHandle a p) (b : Nat)
    (hb : b ≠ a) :
    viewHandle (primStep facts (run facts {} prog) p).1 b = viewHandle (run facts {} prog) b :=
  copy_independence_of (by decide) (run_inv (by decide) prog inv_init) a p hm b hb

/-! ### C. the store, the cache and the watch replica are isolated from the caller -/

theorem callerSide_tables {F : AliasFacts} (hF : AllTrue F = true) (st : St) (p : Prim) (hc : callerSide p = true) :
    (primStep F st p).1.store = st.store ∧ (primStep F st p).1.cache = st.cache := by
  cases p with
  | new h id => exact ⟨rfl, rfl⟩
  | copy dst src => simp only [primStep]; split <;> exact ⟨rfl, rfl⟩
  | copyMd dst src => simp only [primStep]; split <;> exact ⟨rfl, rfl⟩
  | mutate h m => simp only [primStep]; split <;> exact ⟨rfl, rfl⟩
  | finSetFrom h src => simp only [primStep]; split <;> exact ⟨rfl, rfl⟩
  | finSetRaw h r => simp only [primStep]; split <;> exact ⟨rfl, rfl⟩
  | rawNew r l => exact ⟨rfl, rfl⟩
  | rawWrite r i v =>
    simp only [primStep]; split
    · exact ⟨rfl, rfl⟩
    · split
      · split <;> exact ⟨rfl, rfl⟩
      · exact ⟨rfl, rfl⟩
  | create h owner => simp [callerSide] at hc
  | update h owner exp => simp [callerSide] at hc
  | destroy id owner => simp [callerSide] at hc
  | get id dst via l =>
    have _ := hF
    simp only [primStep]; split <;> exact ⟨rfl, rfl⟩
  | sync => simp [callerSide] at hc
  | drop h => exact ⟨rfl, rfl⟩

theorem target_in_hs {st : St} {p : Prim} {q : Nat} (h : target st p = some q) : ∃ e ∈ st.hs, e.2 = q := by
  cases p <;> first
    | (simp [target] at h; done)
    | (simp only [target] at h; exact ⟨_, aget_mem h, rfl⟩)

/-- one caller-side step changes nothing the store or the cache/watch replica shows -/
theorem store_isolated_step {F : AliasFacts} (hF : AllTrue F = true) {st : St} (inv : Inv st) (p : Prim)
    (hc : callerSide p = true) :
    storeView (primStep F st p).1 = storeView st ∧ cacheView (primStep F st p).1 = cacheView st := by
  have g := prim_good hF inv p
  obtain ⟨hs, hcache⟩ := callerSide_tables hF st p hc
  simp only [storeView, cacheView, hs, hcache]
  constructor
  · refine List.map_congr_left (fun e he => ?_)
    have hlt := inv.refs.storeLt e he
    rw [viewRef_stable inv g e.2 hlt (objs_agree hF st p hc e.2 hlt ?_)]
    intro ht
    obtain ⟨e', he', heq⟩ := target_in_hs ht
    exact inv.refs.hsStore e' he' e he heq
  · refine List.map_congr_left (fun e he => ?_)
    have hlt := inv.refs.cacheLt e he
    rw [viewRef_stable inv g e.2 hlt (objs_agree hF st p hc e.2 hlt ?_)]
    intro ht
    obtain ⟨e', he', heq⟩ := target_in_hs ht
    exact inv.refs.hsCache e' he' e he heq

theorem store_isolated_of {F : AliasFacts} (hF : AllTrue F = true) (ps : List Prim) {st : St} (inv : Inv st)
    (hps : ∀ p ∈ ps, callerSide p = true) :
    storeView (runPrims F st ps) = storeView st ∧ cacheView (runPrims F st ps) = cacheView st := by
  induction ps generalizing st with
  | nil => exact ⟨rfl, rfl⟩
  | cons p ps ih =>
    have h1 := store_isolated_step hF inv p (hps p (List.mem_cons_self ..))
    have h2 := ih (prim_good hF inv p).inv (fun p' hp' => hps p' (List.mem_cons_of_mem _ hp'))
    exact ⟨h2.1.trans h1.1, h2.2.trans h1.2⟩

/-- **C19.C — `store_isolated`.** After ANY program, ANY further sequence of
    caller-side activity — creating, copying and dropping objects, every public mutator
    on every object the caller holds (including those it passed to Create/Update/Modify
    and those Get/List/cached reads returned), in-place writes to its own finalizer
    slices, even further reads — leaves the content the store serves (`storeView`: what
    Get/List return) and the content of the cache / watch replica (`cacheView`)
    exactly as it was. -/
theorem store_isolated (prog : List Step) (ps : List Prim) (hps : ∀ p ∈ ps, callerSide p = true) :
    storeView (runPrims facts (run facts {} prog) ps) = storeView (run facts {} prog) ∧
    cacheView (runPrims facts (run facts {} prog) ps) = cacheView (run facts {} prog) :=
  store_isolated_of (by decide) ps (run_inv (by decide) prog inv_init) hps

theorem aget_map_snd {κ : Type} [DecidableEq κ] {α β : Type} (f : α → β) (l : List (κ × α)) (k : κ) :
    aget (l.map fun p => (p.1, f p.2)) k = (aget l k).map f := by
  induction l with
  | nil => rfl
  | cons p l ih =>
    obtain ⟨k', v⟩ := p
    simp only [List.map_cons, aget]
    split
    · rfl
    · exact ih

/-- a read returns exactly the stored content (direct: `storeView`; cached: `cacheView`) -/
theorem get_returns_view {F : AliasFacts} (hF : AllTrue F = true) {st : St} (inv : Inv st) (id : String)
    (dst : Nat) (via : Via) (l : Bool) :
    (primStep F st (.get id dst via l)).2 = .ok →
    viewHandle (primStep F st (.get id dst via l)).1 dst =
      aget (match via with | .direct => storeView st | .cached => cacheView st) id := by
  have g := prim_good hF inv (.get id dst via l)
  have tbl : aget (match via with | .direct => storeView st | .cached => cacheView st) id =
      (aget (viaTable st via) id).map (viewRef st) := by
    cases via <;> simp only [storeView, cacheView, viaTable] <;> exact aget_map_snd _ _ _
  rw [tbl]
  revert g
  simp only [primStep, copyIf, AllTrue.copyOut hF via l, if_true]
  cases hq : aget (viaTable st via) id with
  | none => intro _ h; cases h
  | some q =>
    intro g _
    simp only [viewHandle, aget_aput_self, Option.map_some]
    congr 1
    have hlt : q < st.objs.length := by
      cases via
      · exact inv.refs.storeLt _ (aget_mem hq)
      · exact inv.refs.cacheLt _ (aget_mem hq)
    -- the fresh copy shows what the stored object shows
    simp only [viewRef, objAt, List.getElem?_append_right (Nat.le_refl _), Nat.sub_self,
      List.getElem?_cons_zero, Option.getD_some]

/-- **C19.C′ — reads are unaffected.** Whatever the caller did to the objects it holds
    (`ps`, caller-side only) after any program, a subsequent Get (direct or cached, also
    as one iteration of a List) returns the same content as it would have returned
    before. -/
theorem reads_unaffected (prog : List Step) (ps : List Prim) (hps : ∀ p ∈ ps, callerSide p = true)
    (id : String) (dst dst' : Nat) (via : Via) (l : Bool)
    (h1 : (primStep facts (run facts {} prog) (.get id dst via l)).2 = .ok)
    (h2 : (primStep facts (runPrims facts (run facts {} prog) ps) (.get id dst' via l)).2 = .ok) :
    viewHandle (primStep facts (runPrims facts (run facts {} prog) ps) (.get id dst' via l)).1 dst' =
    viewHandle (primStep facts (run facts {} prog) (.get id dst via l)).1 dst := by
  have inv := run_inv (F := facts) (by decide) prog inv_init
  have inv' := (runPrims_good (F := facts) (by decide) ps inv).inv
  have iso := store_isolated prog ps hps
  rw [get_returns_view (by decide) inv' id dst' via l h2, get_returns_view (by decide) inv id dst via l h1]
  cases via
  · simp only [iso.1]
  · simp only [iso.2]

/-! ### B′. the other objects of the caller are untouched by raw writes and by Create/Update of one of them -/

theorem raw_write_isolated_of {F : AliasFacts} (hF : AllTrue F = true) {st : St} (inv : Inv st) (r i : Nat)
    (v : String) (b : Nat) : viewHandle (primStep F st (.rawWrite r i v)).1 b = viewHandle st b := by
  have hs : (primStep F st (.rawWrite r i v)).1.hs = st.hs := by
    simp only [primStep]; split
    · rfl
    · split
      · split <;> rfl
      · rfl
  simp only [viewHandle, hs]
  cases hqb : aget st.hs b with
  | none => rfl
  | some qb =>
    simp only [Option.map_some]
    congr 1
    have hlt := inv.refs.hsLt _ (aget_mem hqb)
    exact viewRef_stable inv (prim_good hF inv _) qb hlt
      (objs_agree hF st _ rfl qb hlt (by simp [target]))

/-- an in-place write to a caller-owned finalizer slice — also one that was handed to
    `Finalizers().Set` before — changes no object (and, by `store_isolated`, not the store) -/
theorem raw_write_isolated (prog : List Step) (r i : Nat) (v : String) (b : Nat) :
    viewHandle (primStep facts (run facts {} prog) (.rawWrite r i v)).1 b = viewHandle (run facts {} prog) b :=
  raw_write_isolated_of (by decide) (run_inv (by decide) prog inv_init) r i v b

theorem createM_agree {F : AliasFacts} (hF : AllTrue F = true) (st : St) (q : Nat) (owner : String) (q' : Nat)
    (hq' : q' < st.objs.length) (hne : q' ≠ q) :
    (createM F st q owner).1.objs[q']? = st.objs[q']? ∧ (createM F st q owner).1.hs = st.hs := by
  have hL : st.objs.length ≠ q' := by omega
  have hq : q ≠ q' := fun e => hne e.symm
  simp only [createM, copyIf, (AllTrue.copyIn hF).1, if_true]
  split
  · exact ⟨List.getElem?_append_left hq', rfl⟩
  · split
    · refine ⟨?_, rfl⟩
      rw [getElemOpt_set_ne _ _ _ _ hL]; exact List.getElem?_append_left hq'
    · refine ⟨?_, rfl⟩
      rw [getElemOpt_set_ne _ _ _ _ hq, getElemOpt_set_ne _ _ _ _ hL, getElemOpt_set_ne _ _ _ _ hL]
      exact List.getElem?_append_left hq'

theorem updateM_agree {F : AliasFacts} (hF : AllTrue F = true) (st : St) (q : Nat) (owner : String) (exp : Exp)
    (q' : Nat) (hq' : q' < st.objs.length) (hne : q' ≠ q) :
    (updateM F st q owner exp).1.objs[q']? = st.objs[q']? ∧ (updateM F st q owner exp).1.hs = st.hs := by
  have hL : st.objs.length ≠ q' := by omega
  have hq : q ≠ q' := fun e => hne e.symm
  have base : (st.objs ++ [objAt st.objs q])[q']? = st.objs[q']? := List.getElem?_append_left hq'
  simp only [updateM, copyIf, (AllTrue.copyIn hF).2, if_true]
  split
  · exact ⟨base, rfl⟩
  · split
    · exact ⟨base, rfl⟩
    · split
      · exact ⟨base, rfl⟩
      · split
        · exact ⟨base, rfl⟩
        · refine ⟨?_, rfl⟩
          rw [getElemOpt_set_ne _ _ _ _ hq, getElemOpt_set_ne _ _ _ _ hL]; exact base

/-- the store-writing calls through handle `a` -/
def writesThrough (a : Nat) : Prim → Prop
  | .create h _ => h = a
  | .update h _ _ => h = a
  | _ => False

theorem createM_hs (F : AliasFacts) (st : St) (q : Nat) (owner : String) : (createM F st q owner).1.hs = st.hs := by
  simp only [createM]
  split
  · rfl
  · split <;> rfl

theorem updateM_hs (F : AliasFacts) (st : St) (q : Nat) (owner : String) (exp : Exp) :
    (updateM F st q owner exp).1.hs = st.hs := by
  simp only [updateM]
  split
  · rfl
  · split
    · rfl
    · split
      · rfl
      · split <;> rfl

theorem writes_hs {F : AliasFacts} {a : Nat} {p : Prim} (st : St) (hw : writesThrough a p) :
    (primStep F st p).1.hs = st.hs := by
  cases p <;> first
    | exact absurd hw id
    | (simp only [primStep]; split
       · rfl
       · first | exact createM_hs _ _ _ _ | exact updateM_hs _ _ _ _ _)

theorem writes_agree {F : AliasFacts} (hF : AllTrue F = true) {a : Nat} {p : Prim} (st : St)
    (hw : writesThrough a p) (q' : Nat) (hq' : q' < st.objs.length) (hne : aget st.hs a ≠ some q') :
    (primStep F st p).1.objs[q']? = st.objs[q']? := by
  cases p <;> first
    | exact absurd hw id
    | (simp only [writesThrough] at hw; subst hw
       simp only [primStep]
       split
       · rfl
       · rename_i q hqa
         have ne : q' ≠ q := fun e => hne (by rw [hqa, e])
         first
           | exact (createM_agree hF st q _ q' hq' ne).1
           | exact (updateM_agree hF st q _ _ q' hq' ne).1)

theorem write_call_isolated_of {F : AliasFacts} (hF : AllTrue F = true) {st : St} (inv : Inv st) (a : Nat)
    (p : Prim) (hw : writesThrough a p) (b : Nat) (hb : b ≠ a) :
    viewHandle (primStep F st p).1 b = viewHandle st b := by
  simp only [viewHandle, writes_hs st hw]
  cases hqb : aget st.hs b with
  | none => rfl
  | some qb =>
    simp only [Option.map_some]
    congr 1
    have hlt := inv.refs.hsLt _ (aget_mem hqb)
    refine viewRef_stable inv (prim_good hF inv p) qb hlt (writes_agree hF st hw qb hlt ?_)
    intro hqa
    have := inv.refs.hsInj _ (aget_mem hqa) _ (aget_mem hqb) rfl
    have h2 : a = b := by simpa using congrArg Prod.fst this
    exact hb h2.symm

/-- passing one object to Create/Update changes nothing any OTHER object of the caller
    shows (even a copy sharing all its cells): the write-back only assigns to the object passed -/
theorem write_call_isolated (prog : List Step) (a : Nat) (p : Prim) (hw : writesThrough a p) (b : Nat)
    (hb : b ≠ a) :
    viewHandle (primStep facts (run facts {} prog) p).1 b = viewHandle (run facts {} prog) b :=
  write_call_isolated_of (by decide) (run_inv (by decide) prog inv_init) a p hw b hb

/-! ### D. each mutator acts on its own object exactly as the value-semantics specification says -/

section Functional
open Cosi.Spec.Alias

theorem length_viewSlice {h : Heap} {s : Slice} (ok : SliceOk h s) : (viewSlice h s).length = s.len := by
  unfold SliceOk at ok
  cases hs : s.ptr with
  | none => simp only [hs] at ok; simp [viewSlice, hs, arrAt, ok.1]
  | some p =>
    simp only [hs] at ok
    obtain ⟨e, he, h1, h2⟩ := ok
    simp only [viewSlice, hs, arrAt_of_getElem? he, List.length_take]
    omega

theorem take_pad (v : List String) (c n : Nat) (h : v.length = n) : (pad v c).take n = v := by
  simp [pad, ← h]

theorem arrAt_alloc (h : Heap) (e : List String) : arrAt (h ++ [.arr e]) (some h.length) = e := by
  simp [arrAt]

theorem mapAt_alloc (h : Heap) (m : KVs) : mapAt (h ++ [.map m]) (some h.length) = m := by
  simp [mapAt]

theorem mapAt_alloc_set (h : Heap) (c : Cell) (m : KVs) :
    mapAt ((h ++ [c]).set h.length (.map m)) (some h.length) = m := by
  simp [mapAt]

theorem view_sliceClone {h : Heap} {s : Slice} (ok : SliceOk h s) :
    viewSlice (sliceClone h s).1 (sliceClone h s).2 = viewSlice h s := by
  unfold sliceClone
  split
  · rename_i h0
    simp [viewSlice, Slice.nil, arrAt, h0]
  · simp only [viewSlice, arrAt_alloc]
    exact take_pad _ _ _ (length_viewSlice ok)

theorem view_sliceLit (h : Heap) (l : List String) : viewSlice (sliceLit h l).1 (sliceLit h l).2 = l := by
  unfold sliceLit
  split
  · rename_i h0
    have : l = [] := List.length_eq_zero_iff.1 h0
    simp [viewSlice, Slice.nil, arrAt, this]
  · simp [viewSlice, arrAt_alloc]

theorem take_set_succ (e : List String) (n : Nat) (f : String) (h : n < e.length) :
    (e.set n f).take (n + 1) = e.take n ++ [f] := by
  rw [List.take_add_one, List.take_set_of_le (Nat.le_refl _)]
  simp [h]

theorem view_sliceAppend {h : Heap} {s : Slice} (f : String) (ok : SliceOk h s) :
    viewSlice (sliceAppend h s f).1 (sliceAppend h s f).2 = viewSlice h s ++ [f] := by
  have hl := length_viewSlice ok
  unfold sliceAppend
  cases hs : s.ptr with
  | none =>
    simp only [viewSlice, hs]
    rw [arrAt_alloc]
    simp [arrAt, pad]
  | some p =>
    have ok' := ok
    simp only [SliceOk, hs] at ok'
    obtain ⟨e, he, h1, h2⟩ := ok'
    have hp : p < h.length := lt_of_getElem?_some he
    simp only
    split
    · simp only [viewSlice, hs, arrAt_of_getElem? he]
      rw [arrAt_of_getElem? (getElemOpt_set_self _ _ _ hp)]
      exact take_set_succ _ _ _ (by omega)
    · simp only [viewSlice, arrAt_alloc]
      refine take_pad _ _ _ ?_
      simp only [viewSlice] at hl
      simp [hl]

theorem take_shift (e : List String) (i len : Nat) (hi : i < len) (hl : len ≤ e.length) :
    (e.take i ++ (e.take len).drop (i + 1) ++ e.drop (len - 1)).take (len - 1) = (e.take len).eraseIdx i := by
  rw [List.eraseIdx_eq_take_drop_succ]
  have : (e.take i ++ (e.take len).drop (i + 1)).length = len - 1 := by
    simp [List.length_take, List.length_drop]; omega
  rw [List.take_append_of_le_length (by omega)]
  rw [List.take_of_length_le (by omega)]
  congr 1
  rw [List.take_take]; congr 1; omega

theorem view_sliceRemoveAt {h : Heap} {s : Slice} (i : Nat) (ok : SliceOk h s) (hi : i < s.len) :
    viewSlice (sliceRemoveAt h s i).1 (sliceRemoveAt h s i).2 = (viewSlice h s).eraseIdx i := by
  unfold sliceRemoveAt
  cases hs : s.ptr with
  | none => simp only [SliceOk, hs] at ok; omega
  | some p =>
    simp only [SliceOk, hs] at ok
    obtain ⟨e, he, h1, h2⟩ := ok
    have hp : p < h.length := lt_of_getElem?_some he
    simp only [viewSlice, hs, arrAt_of_getElem? he]
    rw [arrAt_of_getElem? (getElemOpt_set_self _ _ _ hp)]
    exact take_shift e i s.len hi (by omega)

theorem view_finAdd {F : AliasFacts} (hF : F.cloneBeforeWrite .finAdd = true) {h : Heap} {s : Slice} (f : String)
    (ok : SliceOk h s) :
    viewSlice (finAdd F h s f).1 (finAdd F h s f).2.1 =
        (if (viewSlice h s).contains f then viewSlice h s else viewSlice h s ++ [f]) ∧
      (finAdd F h s f).2.2 = !(viewSlice h s).contains f := by
  have hc := view_sliceClone ok
  have okc := (sliceClone_ok h s).2.1
  unfold finAdd
  simp only [hF, if_true, hc]
  cases hcon : (viewSlice h s).contains f with
  | true => exact ⟨hc, rfl⟩
  | false =>
    simp only [Bool.false_eq_true, if_false, Bool.not_false, and_true]
    rw [view_sliceAppend f okc, hc]

theorem view_finRemove {F : AliasFacts} (hF : F.cloneBeforeWrite .finRemove = true) {h : Heap} {s : Slice}
    (f : String) (ok : SliceOk h s) :
    viewSlice (finRemove F h s f).1 (finRemove F h s f).2.1 =
        (match indexOf (viewSlice h s) f with
         | none => viewSlice h s
         | some i => (viewSlice h s).eraseIdx i) ∧
      (finRemove F h s f).2.2 = (indexOf (viewSlice h s) f).isSome := by
  have hc := view_sliceClone ok
  have okc := (sliceClone_ok h s).2.1
  unfold finRemove
  simp only [hF, if_true, hc]
  cases hi : indexOf (viewSlice h s) f with
  | none => simp [hc]
  | some i =>
    have hlt : i < (sliceClone h s).2.len := by
      have := indexOf_lt hi
      rw [← hc] at this
      exact Nat.lt_of_lt_of_le this (length_viewSlice_le _ _)
    simp [view_sliceRemoveAt i okc hlt, hc]

theorem view_finSet {F : AliasFacts} (hF : F.cloneBeforeWrite .finSet = true) {h : Heap} {s : Slice}
    (ok : SliceOk h s) : viewSlice (finSet F h s).1 (finSet F h s).2 = viewSlice h s := by
  unfold finSet
  simp only [hF, if_true]
  exact view_sliceClone ok

theorem view_kvSetM {F : AliasFacts} (hF : F.cloneBeforeWrite .kvSet = true) (h : Heap) (r : Option Nat)
    (k v : String) : mapAt (kvSetM F h r k v).1 (kvSetM F h r k v).2 = kvSetV (mapAt h r) k v := by
  unfold kvSetM kvSetV
  cases r with
  | none => simp [mapAt, aget, aput, adel]
  | some p =>
    simp only [hF, if_true]
    split
    · rfl
    · exact mapAt_alloc_set _ _ _

theorem view_kvDelM {F : AliasFacts} (hF : F.cloneBeforeWrite .kvDelete = true) (h : Heap) (r : Option Nat)
    (k : String) : mapAt (kvDelM F h r k).1 (kvDelM F h r k).2 = kvDelV (mapAt h r) k := by
  unfold kvDelM kvDelV
  simp only [hF, if_true]
  split
  · rfl
  · exact mapAt_alloc _ _

theorem runEdits_clean (m : KVs) (d : Bool) (es : List KVEdit) (h : (runEdits m d es).2 = false) :
    (runEdits m d es).1 = m := by
  induction es generalizing m d with
  | nil => rfl
  | cons e es ih =>
    by_cases hn : editNoop m e = true
    · simp only [runEdits, hn, if_true] at h ⊢; exact ih m d h
    · simp only [runEdits, hn, Bool.false_eq_true, if_false] at h ⊢
      -- once dirty, always dirty
      have mono : ∀ (m' : KVs) (es' : List KVEdit), (runEdits m' true es').2 = true := by
        intro m' es'
        induction es' generalizing m' with
        | nil => rfl
        | cons e' es' ih' => simp only [runEdits]; split <;> exact ih' _
      rw [mono] at h
      cases h

theorem view_kvDoM {F : AliasFacts} (hF : F.cloneBeforeWrite .kvDo = true) (h : Heap) (r : Option Nat)
    (es : List KVEdit) : mapAt (kvDoM F h r es).1 (kvDoM F h r es).2 = kvDoV (mapAt h r) es := by
  unfold kvDoM kvDoV
  simp only [hF, if_true]
  split
  · rename_i hd
    simp only [Bool.not_eq_true'] at hd
    exact (runEdits_clean _ _ _ hd).symm
  · cases r with
    | none => exact mapAt_alloc _ _
    | some p => exact mapAt_alloc _ _

theorem viewSlice_above {h h' : Heap} {s : Slice} (ok : SliceOk h s) (a : Above h.length h h') :
    viewSlice h' s = viewSlice h s := by
  cases hs : s.ptr with
  | none => simp [viewSlice, hs, arrAt]
  | some p => simp only [viewSlice, hs, arrAt]; rw [a.2 p (sliceOk_ptr_lt ok hs)]

theorem mapAt_above {h h' : Heap} {R : List Nat} {r : Option Nat} (ok : RefOk h R r) (a : Above h.length h h') :
    mapAt h' r = mapAt h r := mapAt_frame ok (a.hframe R)

/-- **C19.D — the mutators refine value semantics.** Under the regenerated clone facts,
    one public mutator call changes the observable content of ITS OWN object exactly as
    the value-semantics specification `Spec.Alias.vApplyMut` says, and returns the same
    result (the Booleans of Add/Remove, the error of SetOwner). Together with
    `copy_independence` / `store_isolated` (nothing else changes) this ties the heap
    model's mutators to the specification. -/
theorem applyMut_refines {F : AliasFacts} (hF : AllTrue F = true) {h : Heap} {R : List Nat} {o : Obj} (m : Mut)
    (ok : MetaOk h R o.md) :
    viewObj (applyMut F h o m).1 (applyMut F h o m).2.1 = (vApplyMut (viewObj h o) m).1 ∧
      (applyMut F h o m).2.2 = (vApplyMut (viewObj h o) m).2 := by
  obtain ⟨okl, oka, okp, oks⟩ := ok
  cases m with
  | setLabel k v =>
    have a := (kvSetM_ok (AllTrue.clone hF .kvSet) h o.md.labels k v).1
    simp only [applyMut, vApplyMut, viewObj, viewMeta, view_kvSetM (AllTrue.clone hF .kvSet), mapAt_above oka a,
      viewSlice_above oks a, and_self]
  | delLabel k =>
    have a := (kvDelM_ok (AllTrue.clone hF .kvDelete) h o.md.labels k).1
    simp only [applyMut, vApplyMut, viewObj, viewMeta, view_kvDelM (AllTrue.clone hF .kvDelete), mapAt_above oka a,
      viewSlice_above oks a, and_self]
  | doLabels es =>
    have a := (kvDoM_ok (AllTrue.clone hF .kvDo) h o.md.labels es).1
    simp only [applyMut, vApplyMut, viewObj, viewMeta, view_kvDoM (AllTrue.clone hF .kvDo), mapAt_above oka a,
      viewSlice_above oks a, and_self]
  | setAnno k v =>
    have a := (kvSetM_ok (AllTrue.clone hF .kvSet) h o.md.annos k v).1
    simp only [applyMut, vApplyMut, viewObj, viewMeta, view_kvSetM (AllTrue.clone hF .kvSet), mapAt_above okl a,
      viewSlice_above oks a, and_self]
  | delAnno k =>
    have a := (kvDelM_ok (AllTrue.clone hF .kvDelete) h o.md.annos k).1
    simp only [applyMut, vApplyMut, viewObj, viewMeta, view_kvDelM (AllTrue.clone hF .kvDelete), mapAt_above okl a,
      viewSlice_above oks a, and_self]
  | doAnnos es =>
    have a := (kvDoM_ok (AllTrue.clone hF .kvDo) h o.md.annos es).1
    simp only [applyMut, vApplyMut, viewObj, viewMeta, view_kvDoM (AllTrue.clone hF .kvDo), mapAt_above okl a,
      viewSlice_above oks a, and_self]
  | finAdd f =>
    have a := (finAdd_ok (AllTrue.clone hF .finAdd) h o.md.fins f).1
    obtain ⟨v1, v2⟩ := view_finAdd (AllTrue.clone hF .finAdd) f oks
    simp only [applyMut, vApplyMut, viewObj, viewMeta, v1, v2, mapAt_above okl a, mapAt_above oka a]
    split <;> simp_all
  | finRemove f =>
    have a := (finRemove_ok (AllTrue.clone hF .finRemove) h o.md.fins f).1
    obtain ⟨v1, v2⟩ := view_finRemove (AllTrue.clone hF .finRemove) f oks
    simp only [applyMut, vApplyMut, viewObj, viewMeta, v1, v2, mapAt_above okl a, mapAt_above oka a]
    split <;> simp_all
  | finSetLit l =>
    obtain ⟨a1, sok1, _⟩ := sliceLit_ok h l
    obtain ⟨a2, _, _⟩ := finSet_ok (AllTrue.clone hF .finSet) (sliceLit h l).1 (sliceLit h l).2
    have a := a1.trans (a2.mono a1.1)
    simp only [applyMut, vApplyMut, viewObj, viewMeta, view_finSet (AllTrue.clone hF .finSet) sok1, view_sliceLit,
      mapAt_above okl a, mapAt_above oka a, and_self]
  | setPhase t => exact ⟨rfl, rfl⟩
  | setVersion v => exact ⟨rfl, rfl⟩
  | setOwner w =>
    by_cases ho : o.md.owner = "" ∨ o.md.owner = w <;> simp [applyMut, vApplyMut, viewObj, viewMeta, ho]
  | setSpec s => exact ⟨rfl, rfl⟩

end Functional

/-! ### non-vacuity: concrete programs that meet the hypotheses -/

/-- two objects, the second a DeepCopy of the first: they share the label map and the finalizer array -/
def exShare : List Step :=
  [.prim (.new 2 "a"), .prim (.mutate 2 (.setLabel "k" "v")), .prim (.mutate 2 (.finAdd "A")), .prim (.copy 3 2)]

-- cell 0 (the label map) is reachable from the metadata of two distinct objects …
example : ((run facts {} exShare).objs[0]?.map (·.md.labels), (run facts {} exShare).objs[1]?.map (·.md.labels))
    = (some (some 0), some (some 0)) := by decide
-- … so `shared_cells_never_written`/`aliased_cells_never_written` apply to it, and a label write through one of
-- the holders is effective (handle 2 changes) while the other copy (handle 3) keeps its content:
example : viewHandle (primStep facts (run facts {} exShare) (.mutate 2 (.setLabel "k" "w"))).1 2
    ≠ viewHandle (run facts {} exShare) 2 := by decide
example : viewHandle (primStep facts (run facts {} exShare) (.mutate 2 (.setLabel "k" "w"))).1 3
    = viewHandle (run facts {} exShare) 3 := by decide
example : mutatesHandle 2 (.mutate 2 (.setLabel "k" "w")) := rfl

/-- an object handed to Create and mutated afterwards, a Get result mutated afterwards, a cached read -/
def exStore : List Step :=
  [.prim (.new 2 "a"), .prim (.mutate 2 (.finAdd "A")), .prim (.create 2 "O"), .prim .sync,
   .prim (.get "a" 3 .direct false), .prim (.get "a" 4 .cached false)]

def exMuts : List Prim :=
  [.mutate 2 (.finAdd "B"), .mutate 3 (.finRemove "A"), .mutate 4 (.setLabel "k" "v"), .mutate 2 (.setPhase true),
   .rawNew 1 ["x", "y"], .finSetRaw 3 1, .rawWrite 1 0 "z"]

-- after Create the caller's object shares the finalizer array with the stored object (collection.go:174) …
example : ((run facts {} exStore).objs[0]?.map (·.md.fins.ptr), (run facts {} exStore).objs[1]?.map (·.md.fins.ptr))
    = (some (some 0), some (some 0)) := by decide
example : ∀ p ∈ exMuts, callerSide p = true := by decide
-- … the mutations are effective on the caller's side …
example : viewHandle (runPrims facts (run facts {} exStore) exMuts) 2 ≠ viewHandle (run facts {} exStore) 2 := by
  decide
-- … and the store is non-empty (so `store_isolated` says something)
example : (storeView (run facts {} exStore)).length = 1 := by decide

/-! ### negative witnesses: with one fact false the model exhibits the aliasing -/

def allTrue : AliasFacts := ⟨fun _ => true, fun _ => true, fun _ => true⟩

def noClone (m : Mutator) : AliasFacts := { allTrue with cloneBeforeWrite := fun x => x != m }
def noCopyIn (c : CopySite) : AliasFacts := { allTrue with deepCopyIn := fun x => x != c }
def noCopyOut (c : CopySite) : AliasFacts := { allTrue with deepCopyOut := fun x => x != c }

example : AllTrue allTrue = true := by decide
example : AllTrue (noClone .finAdd) = false := by decide

/-- three finalizers appended without a clone leave a backing array of capacity 4 -/
def exAdd3 : List Step :=
  [.prim (.new 2 "a"), .prim (.mutate 2 (.finAdd "A")), .prim (.mutate 2 (.finAdd "B")), .prim (.mutate 2 (.finAdd "x")),
   .prim (.copy 3 2), .prim (.mutate 2 (.finAdd "y"))]

/-- `Finalizers.Add` without `slices.Clone`: both copies append in place into the shared
    array's spare slot — adding "z" through copy 3 overwrites the "y" copy 2 had added. -/
example : (viewHandle (run (noClone .finAdd) {} exAdd3) 2).map (·.md.fins) = some ["A", "B", "x", "y"] ∧
    (viewHandle (primStep (noClone .finAdd) (run (noClone .finAdd) {} exAdd3) (.mutate 3 (.finAdd "z"))).1 2).map
      (·.md.fins) = some ["A", "B", "x", "z"] := by decide

/-- `Finalizers.Remove` without the clone shifts the shared array in place -/
example : (viewHandle (primStep (noClone .finRemove)
      (run (noClone .finRemove) {} [.prim (.new 2 "a"), .prim (.mutate 2 (.finSetLit ["A", "B", "x"])), .prim (.copy 3 2)])
      (.mutate 3 (.finRemove "A"))).1 2).map (·.md.fins) = some ["B", "x", "x"] := by decide

/-- `Finalizers.Set` without the clone keeps the caller's slice: a later write to that slice shows in the object -/
example : (viewHandle (run (noClone .finSet) {}
      [.prim (.new 2 "a"), .prim (.rawNew 1 ["A", "B"]), .prim (.finSetRaw 2 1), .prim (.rawWrite 1 0 "z")]) 2).map
      (·.md.fins) = some ["z", "B"] := by decide

/-- `KV.Set` without `maps.Clone`: the copy's write lands in the shared map -/
example : (viewHandle (primStep (noClone .kvSet) (run (noClone .kvSet) {} exShare) (.mutate 3 (.setLabel "k" "w"))).1 2).map
      (·.md.labels) = some [("k", "w")] := by decide

/-- `KV.Delete` in place -/
example : (viewHandle (primStep (noClone .kvDelete) (run (noClone .kvDelete) {} exShare) (.mutate 3 (.delLabel "k"))).1 2).map
      (·.md.labels) = some [] := by decide

/-- `KV.Do` whose tempKV does not clone -/
example : (viewHandle (primStep (noClone .kvDo) (run (noClone .kvDo) {} exShare) (.mutate 3 (.doLabels [.set "k2" "x"]))).1 2).map
      (·.md.labels) = some [("k2", "x"), ("k", "v")] := by decide

/-- `collection.Get` returning the stored object itself: a setter on the result changes the store -/
example : (storeView (primStep (noCopyOut .collGet) (run (noCopyOut .collGet) {} exStore) (.mutate 3 (.setPhase true))).1).map
      (·.2.md.tearing) = [true] := by decide

/-- cache `get` without DeepCopy: the cached read hands out the replica -/
example : (cacheView (primStep (noCopyOut .cacheGet) (run (noCopyOut .cacheGet) {} exStore) (.mutate 4 (.setSpec "evil"))).1).map
      (·.2.spec) = ["evil"] := by decide

/-- `collection.Create` storing the caller's object: the caller keeps a pointer into the store -/
example : (storeView (primStep (noCopyIn .collCreate) (run (noCopyIn .collCreate) {} exStore) (.mutate 2 (.setSpec "evil"))).1).map
      (·.2.spec) = ["evil"] := by decide

/-- with all facts true none of this happens (the same programs, the true table) -/
example : (viewHandle (primStep allTrue (run allTrue {} exAdd3) (.mutate 3 (.finAdd "z"))).1 2).map (·.md.fins)
    = some ["A", "B", "x", "y"] := by decide

end Cosi.C19
