/-
  Property C02, the clause "a subscriber that never lags by more than the CONFIGURED initial history
  capacity is never errored": what the options of the in-memory state make of the configuration.

    genRules_good            the regenerated adjustment rules are the intended ones (breaks when options.go changes)
    caps_ordered             after every option list: initial ≤ maximum
    initial_capacity_honoured  the last WithHistoryInitialCapacity(n) / WithHistoryCapacity(n) not followed by a
                             smaller maximum gives initial = n — in particular `[…, initCap n]` always does
    max_capacity_honoured    the last WithHistoryMaxCapacity(n) gives maximum = n
    gap_honoured
    clamped_initial_witness  kernel-checked: with "lower the initial capacity instead of raising the maximum"
                             WithHistoryInitialCapacity(256) alone yields a 100-slot ring
  Together with C02.cap_ge_init / fetch_no_error (the ring never shrinks below the initial capacity, a reader
  lagging less than the capacity minus the gap is never errored) this is the clause above.
-/
import Cosi.Model.HistOpts
open Cosi Cosi.HistOpts
namespace Cosi.C02O

theorem genRules_good : genRules = goodRules := by decide

theorem defaults_ordered : defaults.init ≤ defaults.max := by decide

theorem applyOpt_ordered (c : Caps) (h : c.init ≤ c.max) (o : Opt) : (applyOptWith goodRules c o).init ≤ (applyOptWith goodRules c o).max := by
  cases o with
  | cap n => simp [applyOptWith, goodRules]
  | maxCap n =>
    simp only [applyOptWith, goodRules]
    split <;> omega
  | initCap n =>
    simp only [applyOptWith, goodRules]
    split <;> omega
  | gap n => simp [applyOptWith, goodRules]; exact h

theorem foldl_ordered (os : List Opt) : ∀ c : Caps, c.init ≤ c.max →
    (os.foldl (applyOptWith goodRules) c).init ≤ (os.foldl (applyOptWith goodRules) c).max := by
  induction os with
  | nil => intro c h; exact h
  | cons o os ih => intro c h; exact ih _ (applyOpt_ordered c h o)

/-- **initial ≤ maximum after every option list** -/
theorem caps_ordered (os : List Opt) : (applyOpts os).init ≤ (applyOpts os).max := by
  unfold applyOpts applyOptsWith
  rw [genRules_good]
  exact foldl_ordered os defaults defaults_ordered

/-- **The configured initial capacity is honoured**: whatever came before, after
    `WithHistoryInitialCapacity(n)` the ring starts with n slots (and may grow at least that far). -/
theorem initial_capacity_honoured (os : List Opt) (n : Nat) :
    (applyOpts (os ++ [.initCap n])).init = n ∧ n ≤ (applyOpts (os ++ [.initCap n])).max := by
  unfold applyOpts applyOptsWith
  rw [genRules_good, List.foldl_append]
  simp only [List.foldl_cons, List.foldl_nil, applyOptWith, goodRules]
  constructor
  · trivial
  · split <;> omega

theorem capacity_honoured (os : List Opt) (n : Nat) :
    (applyOpts (os ++ [.cap n])).init = n ∧ (applyOpts (os ++ [.cap n])).max = n := by
  unfold applyOpts applyOptsWith
  rw [genRules_good, List.foldl_append]
  simp [applyOptWith, goodRules]

/-- the configured maximum is honoured, and never exceeded by the initial capacity -/
theorem max_capacity_honoured (os : List Opt) (n : Nat) :
    (applyOpts (os ++ [.maxCap n])).max = n ∧ (applyOpts (os ++ [.maxCap n])).init ≤ n := by
  unfold applyOpts applyOptsWith
  rw [genRules_good, List.foldl_append]
  simp only [List.foldl_cons, List.foldl_nil, applyOptWith, goodRules]
  constructor
  · trivial
  · split <;> omega

theorem gap_honoured (os : List Opt) (n : Nat) : (applyOpts (os ++ [.gap n])).gap = n := by
  unfold applyOpts applyOptsWith
  rw [genRules_good, List.foldl_append]
  simp [applyOptWith, goodRules]

/-- a gap option changes no capacity, a capacity option changes no gap -/
theorem gap_independent (c : Caps) (n : Nat) :
    (applyOpt c (.gap n)).init = c.init ∧ (applyOpt c (.gap n)).max = c.max := by
  unfold applyOpt
  rw [genRules_good]
  simp [applyOptWith, goodRules]

/-- **kernel-checked witness** for the rule "clamp the initial capacity to the maximum in force":
    `WithHistoryInitialCapacity(256)` alone gives a ring of 100 slots, not 256 -/
theorem clamped_initial_witness :
    (applyOptsWith { goodRules with onSetInitial := .lowerInit } [.initCap 256]).init = 100 ∧
    (applyOptsWith goodRules [.initCap 256]).init = 256 := by decide

/-! non-vacuity: orders matter, both are handled -/
example : applyOpts [.initCap 9, .maxCap 4] = ⟨4, 4, 5⟩ := by decide
example : applyOpts [.maxCap 4, .initCap 9] = ⟨9, 9, 5⟩ := by decide
example : applyOpts [.cap 7, .gap 2, .maxCap 20] = ⟨7, 20, 2⟩ := by decide

end Cosi.C02O
