/-
  Property C18 — every codec round-trips or rejects; decoders are total.
  Theorems about Cosi.Model.Wire (model of the code, consuming the regenerated facts
  Cosi.Gen.Codec). External primitives (zstd, AES-GCM) appear as hypotheses only.
-/
import Cosi.Model.Wire

namespace Cosi.C18
open Cosi Cosi.Wire Cosi.Gen

/-! ### varints -/

theorem u8_small (n : Nat) (h : n < 256) : (UInt8.ofNat n).toNat = n := by
  simp [UInt8.toNat_ofNat']; omega

theorem pow7_succ (f : Nat) : 2 ^ (7 * (f + 1)) = 2 ^ (7 * f) * 128 := by
  rw [Nat.mul_add, Nat.pow_add]

theorem decAux_enc (f : Nat) : ∀ (n : Nat) (rest : Bytes), n < 2 ^ (7 * (f + 1)) →
    decVarintAux (f + 1) (encVarintF f n ++ rest) = some (n, rest) := by
  induction f with
  | zero =>
    intro n rest h
    have h' : n < 128 := by simpa using h
    simp [encVarintF, decVarintAux, u8_small n (by omega), h']
  | succ f ih =>
    intro n rest h
    rw [pow7_succ] at h
    by_cases h1 : n < 128
    · simp [encVarintF, decVarintAux, h1, u8_small n (by omega)]
    · have hb : (UInt8.ofNat (n % 128 + 128)).toNat = n % 128 + 128 := u8_small _ (by omega)
      have hq : n / 128 < 2 ^ (7 * (f + 1)) := by
        apply Nat.div_lt_of_lt_mul; rw [Nat.mul_comm]; exact h
      simp only [encVarintF, h1, if_false, List.cons_append, decVarintAux, hb]
      rw [ih (n / 128) rest hq]
      have : ¬ (n % 128 + 128 < 128) := by omega
      simp only [this, if_false]
      congr 2
      omega

/-- **varint_roundtrip**: every `uint64` survives `EncodeVarint` / the vtproto decode loop,
    whatever follows it in the buffer. -/
theorem varint_roundtrip (n : Nat) (rest : Bytes) (h : n < 2 ^ 64) :
    decVarint (encVarint n ++ rest) = some (n, rest) := by
  have h70 : n < 2 ^ (7 * (9 + 1)) := by
    have : (2 : Nat) ^ 64 < 2 ^ (7 * (9 + 1)) := by decide
    omega
  unfold decVarint encVarint
  rw [decAux_enc 9 n rest h70]
  simp [Nat.mod_eq_of_lt h]

example : decVarint (encVarint 300 ++ [7]) = some (300, [7]) := by decide
example : encVarint (2 ^ 64 - 1) = [255, 255, 255, 255, 255, 255, 255, 255, 255, 1] := by decide
/-- the decoder is not injective on over-long input: bits above 2^64 are dropped (vtproto quirk) -/
example : decVarint [255, 255, 255, 255, 255, 255, 255, 255, 255, 127] = some (2 ^ 64 - 1, []) := by decide
example : decVarint [255, 255, 255, 255, 255, 255, 255, 255, 255, 255, 1] = none := by decide

/-! ### tags and length-delimited fields -/

theorem encVarintF_ne_nil (f n : Nat) : encVarintF f n ≠ [] := by
  cases f <;> simp [encVarintF] <;> split <;> simp

theorem encVarint_length_pos (n : Nat) : 0 < (encVarint n).length := by
  have := encVarintF_ne_nil 9 n
  unfold encVarint
  cases h : encVarintF 9 n with
  | nil => exact absurd h this
  | cons _ _ => simp

theorem decTag_encTag (fn wt : Nat) (rest : Bytes) (h1 : 0 < fn) (h2 : fn < 2 ^ 29) (h3 : wt < 8) (h4 : wt ≠ 4) :
    decTag (encTag fn wt ++ rest) = some (fn, wt, rest) := by
  unfold decTag encTag
  rw [varint_roundtrip _ _ (by omega)]
  have e1 : (fn * 8 + wt) % 8 = wt := by omega
  have e2 : (fn * 8 + wt) / 8 % 2 ^ 32 = fn := by omega
  simp only [e1, e2, h4, if_false]
  have : ¬ (fn = 0 ∨ 2 ^ 31 ≤ fn) := by omega
  simp [this]

theorem takeLen_enc (p rest : Bytes) (h : p.length < 2 ^ 63) :
    takeLen (encVarint p.length ++ (p ++ rest)) = some (p, rest) := by
  unfold takeLen
  rw [varint_roundtrip _ _ (by omega)]
  have h1 : ¬ (2 ^ 63 ≤ p.length) := by omega
  have h2 : ¬ ((p ++ rest).length < p.length) := by simp
  simp only [h1, h2, if_false]
  simp

/-- a length-delimited field as the decoders see it: tag, then `takeLen` -/
theorem encLen_eq (fn : Nat) (p rest : Bytes) :
    encLen fn p ++ rest = encTag fn 2 ++ (encVarint p.length ++ (p ++ rest)) := by
  simp [encLen, List.append_assoc]

theorem encLen_length_pos (fn : Nat) (p : Bytes) : 0 < (encLen fn p).length := by
  have := encVarint_length_pos (fn * 8 + 2)
  simp [encLen, encTag, List.length_append]; omega

theorem encLen_length (fn : Nat) (p : Bytes) :
    (encLen fn p).length = (encTag fn 2).length + (encVarint p.length).length + p.length := by
  simp [encLen, List.length_append]; omega

/-! ### the message loop -/

theorem loop_fuel2 {σ : Type} (step : σ → Bytes → Option (σ × Bytes)) :
    ∀ (f1 f2 : Nat) (acc : σ) (buf : Bytes), buf.length ≤ f1 → buf.length ≤ f2 →
      loop step f1 acc buf = loop step f2 acc buf := by
  intro f1
  induction f1 with
  | zero =>
    intro f2 acc buf h _
    have : buf = [] := by cases buf <;> simp_all
    subst this
    cases f2 <;> rfl
  | succ f1 ih =>
    intro f2 acc buf h h'
    cases buf with
    | nil => cases f2 <;> rfl
    | cons b bs =>
      cases f2 with
      | zero => simp at h'
      | succ f2 =>
        simp only [loop, List.length_cons]
        cases hs : step acc (b :: bs) with
        | none => rfl
        | some pr =>
          obtain ⟨acc', rest⟩ := pr
          simp only
          by_cases hl : rest.length < bs.length + 1
          · simp only [hl, if_true]
            simp only [List.length_cons] at h h'
            exact ih f2 acc' rest (by omega) (by omega)
          · simp [hl]

theorem loop_fuel {σ : Type} (step : σ → Bytes → Option (σ × Bytes)) (f : Nat) (acc : σ) (buf : Bytes)
    (h : buf.length ≤ f) : loop step f acc buf = loop step buf.length acc buf :=
  loop_fuel2 step f buf.length acc buf h (Nat.le_refl _)

theorem run_nil {σ : Type} (step : σ → Bytes → Option (σ × Bytes)) (acc : σ) : run step acc [] = some acc := by
  simp [run, loop]

theorem run_step {σ : Type} (step : σ → Bytes → Option (σ × Bytes)) (acc acc' : σ) (buf rest : Bytes)
    (hs : step acc buf = some (acc', rest)) (hl : rest.length < buf.length) :
    run step acc buf = run step acc' rest := by
  unfold run
  cases buf with
  | nil => simp at hl
  | cons b bs =>
    simp only [List.length_cons] at hl
    simp only [List.length_cons, loop, hs, hl, if_true]
    exact loop_fuel step bs.length acc' rest (by omega)

theorem run_none {σ : Type} (step : σ → Bytes → Option (σ × Bytes)) (acc : σ) (b : UInt8) (bs : Bytes)
    (hs : step acc (b :: bs) = none) : run step acc (b :: bs) = none := by
  simp [run, loop, hs]

/-! ### 64/32-bit two's complement -/

theorem ofInt64_lt (i : Int) : ofInt64 i < 2 ^ 64 := by
  unfold ofInt64; omega

theorem toInt64_ofInt64 (i : Int) (h1 : -(2 ^ 63) ≤ i) (h2 : i < 2 ^ 63) : toInt64 (ofInt64 i) = i := by
  unfold toInt64 ofInt64; split <;> omega

theorem toInt32_ofInt64 (i : Int) (h1 : -(2 ^ 31) ≤ i) (h2 : i < 2 ^ 31) : toInt32 (ofInt64 i) = i := by
  unfold toInt32 ofInt64; split <;> omega

/-! ### Timestamp -/

def tsOk (t : Ts) : Prop := -(2 ^ 63) ≤ t.secs ∧ t.secs < 2 ^ 63 ∧ -(2 ^ 31) ≤ t.nanos ∧ t.nanos < 2 ^ 31

theorem tsStep_secs (acc : Ts) (v : Nat) (rest : Bytes) (h : v < 2 ^ 64) :
    tsStep acc (encTag 1 0 ++ (encVarint v ++ rest)) = some ({ acc with secs := toInt64 v }, rest) := by
  unfold tsStep
  rw [decTag_encTag 1 0 _ (by decide) (by decide) (by decide) (by decide)]
  simp [varint_roundtrip v rest h]

theorem tsStep_nanos (acc : Ts) (v : Nat) (rest : Bytes) (h : v < 2 ^ 64) :
    tsStep acc (encTag 2 0 ++ (encVarint v ++ rest)) = some ({ acc with nanos := toInt32 v }, rest) := by
  unfold tsStep
  rw [decTag_encTag 2 0 _ (by decide) (by decide) (by decide) (by decide)]
  simp [varint_roundtrip v rest h]

theorem varint_chunk_shorter (a : Nat) (v : Nat) (rest : Bytes) :
    rest.length < (encTag a 0 ++ (encVarint v ++ rest)).length := by
  have := encVarint_length_pos v
  simp [List.length_append]; omega

/-- protobuf Timestamp messages round-trip exactly (full int64 seconds / int32 nanos) -/
theorem ts_roundtrip (t : Ts) (h : tsOk t) : decTsInto {} (encTs t) = some t := by
  obtain ⟨h1, h2, h3, h4⟩ := h
  unfold decTsInto encTs
  by_cases hs : t.secs = 0 <;> by_cases hn : t.nanos = 0
  · simp only [hs, hn, if_true, List.append_nil]
    rw [run_nil]; cases t; simp_all
  · simp only [hs, hn, if_true, if_false, List.nil_append]
    have e := tsStep_nanos {} (ofInt64 t.nanos) [] (ofInt64_lt _)
    simp only [List.append_nil] at e
    rw [run_step tsStep _ _ _ _ e (by have := varint_chunk_shorter 2 (ofInt64 t.nanos) []; simpa using this), run_nil,
      toInt32_ofInt64 _ h3 h4]
    cases t; simp_all
  · simp only [hs, hn, if_true, if_false, List.append_nil]
    have e := tsStep_secs {} (ofInt64 t.secs) [] (ofInt64_lt _)
    simp only [List.append_nil] at e
    rw [run_step tsStep _ _ _ _ e (by have := varint_chunk_shorter 1 (ofInt64 t.secs) []; simpa using this), run_nil,
      toInt64_ofInt64 _ h1 h2]
    cases t; simp_all
  · simp only [hs, hn, if_false, List.append_assoc]
    have e1 := tsStep_secs {} (ofInt64 t.secs) (encTag 2 0 ++ encVarint (ofInt64 t.nanos)) (ofInt64_lt _)
    rw [run_step tsStep _ _ _ _ e1 (varint_chunk_shorter 1 _ _)]
    have e2 := tsStep_nanos { secs := toInt64 (ofInt64 t.secs) } (ofInt64 t.nanos) [] (ofInt64_lt _)
    simp only [List.append_nil] at e2
    rw [run_step tsStep _ _ _ _ e2 (by have := varint_chunk_shorter 2 (ofInt64 t.nanos) []; simpa using this), run_nil,
      toInt64_ofInt64 _ h1 h2, toInt32_ofInt64 _ h3 h4]

example : tsOk { secs := -62135596800, nanos := 999999999 } := by unfold tsOk; decide
example : decTsInto {} (encTs { secs := -62135596800, nanos := 999999999 }) = some { secs := -62135596800, nanos := 999999999 } := by decide

/-! ### Metadata fields -/

/-- the regenerated field numbers are the ones the proofs below are checked against:
    pairwise distinct, legal tags -/
theorem field_numbers_ok :
    [Codec.fNamespace, Codec.fType, Codec.fId, Codec.fVersion, Codec.fOwner, Codec.fPhase, Codec.fCreated,
     Codec.fUpdated, Codec.fFinalizers, Codec.fLabels, Codec.fAnnotations].Pairwise (· ≠ ·) ∧
    Codec.fProtoSpec ≠ Codec.fYamlSpec ∧ Codec.fMetadata ≠ Codec.fSpec := by decide

theorem lenfield_shorter (fn : Nat) (p rest : Bytes) : rest.length < (encLen fn p ++ rest).length := by
  have := encLen_length_pos fn p
  simp [List.length_append]; omega

theorem lenfield_payload_lt (fn : Nat) (p rest : Bytes) (n : Nat) (h : (encLen fn p ++ rest).length < n) :
    p.length < n ∧ rest.length < n := by
  have := encLen_length fn p
  simp [List.length_append] at h; omega

macro "meta_str_field" f:ident : tactic => `(tactic| (
  rw [encLen_eq]
  unfold metaStep
  rw [decTag_encTag $f 2 _ (by decide) (by decide) (by decide) (by decide)]
  simp [Codec.fNamespace, Codec.fType, Codec.fId, Codec.fVersion, Codec.fOwner, Codec.fPhase, Codec.fCreated,
    Codec.fUpdated, Codec.fFinalizers, Codec.fLabels, Codec.fAnnotations, takeLen_enc _ _ ‹_›]))

theorem metaStep_ns (acc : PMeta) (p rest : Bytes) (h : p.length < 2 ^ 63) :
    metaStep acc (encLen Codec.fNamespace p ++ rest) = some ({ acc with ns := p }, rest) := by
  meta_str_field Codec.fNamespace

theorem metaStep_typ (acc : PMeta) (p rest : Bytes) (h : p.length < 2 ^ 63) :
    metaStep acc (encLen Codec.fType p ++ rest) = some ({ acc with typ := p }, rest) := by
  meta_str_field Codec.fType

theorem metaStep_id (acc : PMeta) (p rest : Bytes) (h : p.length < 2 ^ 63) :
    metaStep acc (encLen Codec.fId p ++ rest) = some ({ acc with id := p }, rest) := by
  meta_str_field Codec.fId

theorem metaStep_ver (acc : PMeta) (p rest : Bytes) (h : p.length < 2 ^ 63) :
    metaStep acc (encLen Codec.fVersion p ++ rest) = some ({ acc with ver := p }, rest) := by
  meta_str_field Codec.fVersion

theorem metaStep_owner (acc : PMeta) (p rest : Bytes) (h : p.length < 2 ^ 63) :
    metaStep acc (encLen Codec.fOwner p ++ rest) = some ({ acc with owner := p }, rest) := by
  meta_str_field Codec.fOwner

theorem metaStep_phase (acc : PMeta) (p rest : Bytes) (h : p.length < 2 ^ 63) :
    metaStep acc (encLen Codec.fPhase p ++ rest) = some ({ acc with phase := p }, rest) := by
  meta_str_field Codec.fPhase

theorem metaStep_fin (acc : PMeta) (p rest : Bytes) (h : p.length < 2 ^ 63) :
    metaStep acc (encLen Codec.fFinalizers p ++ rest) = some ({ acc with fins := acc.fins ++ [p] }, rest) := by
  meta_str_field Codec.fFinalizers

theorem metaStep_created (acc : PMeta) (t : Ts) (rest : Bytes) (h : (encTs t).length < 2 ^ 63)
    (ha : acc.created = none) (ht : tsOk t) :
    metaStep acc (encLen Codec.fCreated (encTs t) ++ rest) = some ({ acc with created := some t }, rest) := by
  rw [encLen_eq]
  unfold metaStep
  rw [decTag_encTag Codec.fCreated 2 _ (by decide) (by decide) (by decide) (by decide)]
  simp [Codec.fNamespace, Codec.fType, Codec.fId, Codec.fVersion, Codec.fOwner, Codec.fPhase, Codec.fCreated,
    takeLen_enc _ _ h, ha, ts_roundtrip t ht]

theorem metaStep_updated (acc : PMeta) (t : Ts) (rest : Bytes) (h : (encTs t).length < 2 ^ 63)
    (ha : acc.updated = none) (ht : tsOk t) :
    metaStep acc (encLen Codec.fUpdated (encTs t) ++ rest) = some ({ acc with updated := some t }, rest) := by
  rw [encLen_eq]
  unfold metaStep
  rw [decTag_encTag Codec.fUpdated 2 _ (by decide) (by decide) (by decide) (by decide)]
  simp [Codec.fNamespace, Codec.fType, Codec.fId, Codec.fVersion, Codec.fOwner, Codec.fPhase, Codec.fCreated,
    Codec.fUpdated, takeLen_enc _ _ h, ha, ts_roundtrip t ht]

/-! ### map entries -/

theorem entryLoop_kv (f : Nat) (k v k0 v0 rest : Bytes) (hk : k.length < 2 ^ 63) (hv : v.length < 2 ^ 63) :
    entryLoop (f + 3) (encLen 1 k ++ (encLen 2 v ++ rest)) ((encLen 1 k).length + (encLen 2 v).length) k0 v0
      = some (k, v) := by
  have p1 := encLen_length_pos 1 k
  have p2 := encLen_length_pos 2 v
  have hne : ¬ ((encLen 1 k).length + (encLen 2 v).length = 0) := by omega
  -- first field: the key
  rw [entryLoop]
  simp only [hne, if_false]
  rw [encLen_eq 1 k]
  have e1 : encTag 1 2 = encVarint 10 := rfl
  rw [e1, varint_roundtrip 10 _ (by decide)]
  simp only [if_true, show (10 / 8 % 2 ^ 32 = 1) from by decide]
  rw [takeLen_enc k _ hk]
  simp only
  have u1 : (encVarint 10 ++ (encVarint k.length ++ (k ++ (encLen 2 v ++ rest)))).length - (encLen 2 v ++ rest).length
      = (encLen 1 k).length := by
    rw [← e1, ← encLen_eq 1 k]; simp [List.length_append]
  rw [u1]
  have r1 : (encLen 1 k).length + (encLen 2 v).length - (encLen 1 k).length = (encLen 2 v).length := by omega
  rw [r1]
  -- second field: the value
  rw [entryLoop]
  have hne2 : ¬ ((encLen 2 v).length = 0) := by omega
  simp only [hne2, if_false]
  rw [encLen_eq 2 v]
  have e2 : encTag 2 2 = encVarint 18 := rfl
  rw [e2, varint_roundtrip 18 _ (by decide)]
  simp only [show ¬ (18 / 8 % 2 ^ 32 = 1) from by decide, if_false]
  rw [takeLen_enc v _ hv]
  simp only
  have u2 : (encVarint 18 ++ (encVarint v.length ++ (v ++ rest))).length - rest.length = (encLen 2 v).length := by
    rw [← e2, ← encLen_eq 2 v]; simp [List.length_append]
  rw [u2, Nat.sub_self]
  rw [entryLoop]
  simp

theorem decEntry_enc (kv : Bytes × Bytes) (rest : Bytes) (hk : kv.1.length < 2 ^ 63) (hv : kv.2.length < 2 ^ 63)
    (hl : (encLen 1 kv.1 ++ encLen 2 kv.2).length < 2 ^ 63) :
    decEntry (encVarint (encLen 1 kv.1 ++ encLen 2 kv.2).length ++ ((encLen 1 kv.1 ++ encLen 2 kv.2) ++ rest))
      = some (kv, rest) := by
  unfold decEntry
  rw [varint_roundtrip _ _ (by omega)]
  have h1 : ¬ (2 ^ 63 ≤ (encLen 1 kv.1 ++ encLen 2 kv.2).length) := by omega
  have h2 : ¬ (((encLen 1 kv.1 ++ encLen 2 kv.2) ++ rest).length < (encLen 1 kv.1 ++ encLen 2 kv.2).length) := by
    simp [List.length_append]
  simp only [h1, h2, if_false]
  have p1 := encLen_length_pos 1 kv.1
  have p2 := encLen_length_pos 2 kv.2
  have hf : (encLen 1 kv.1 ++ encLen 2 kv.2).length + 1 = ((encLen 1 kv.1 ++ encLen 2 kv.2).length - 2) + 3 := by
    simp [List.length_append]; omega
  rw [hf, List.append_assoc, List.length_append, entryLoop_kv _ kv.1 kv.2 [] [] rest hk hv]
  simp

theorem encEntry_eq (fn : Nat) (kv : Bytes × Bytes) (rest : Bytes) :
    encEntry fn kv ++ rest = encTag fn 2 ++ (encVarint (encLen 1 kv.1 ++ encLen 2 kv.2).length ++
      ((encLen 1 kv.1 ++ encLen 2 kv.2) ++ rest)) := by
  simp [encEntry, encLen, List.append_assoc]

theorem entry_bounds (fn : Nat) (kv : Bytes × Bytes) (rest : Bytes) (n : Nat) (h : (encEntry fn kv ++ rest).length < n) :
    kv.1.length < n ∧ kv.2.length < n ∧ (encLen 1 kv.1 ++ encLen 2 kv.2).length < n ∧ rest.length < n := by
  have a := encLen_length fn (encLen 1 kv.1 ++ encLen 2 kv.2)
  have b := encLen_length 1 kv.1
  have c := encLen_length 2 kv.2
  simp only [encEntry, List.length_append] at h a ⊢
  omega

theorem metaStep_label (acc : PMeta) (kv : Bytes × Bytes) (rest : Bytes)
    (h : (encEntry Codec.fLabels kv ++ rest).length < 2 ^ 63) :
    metaStep acc (encEntry Codec.fLabels kv ++ rest)
      = some ({ acc with labels := kvSet acc.labels kv.1 kv.2 }, rest) := by
  obtain ⟨h1, h2, h3, _⟩ := entry_bounds _ _ _ _ h
  rw [encEntry_eq]
  unfold metaStep
  rw [decTag_encTag Codec.fLabels 2 _ (by decide) (by decide) (by decide) (by decide)]
  dsimp only
  rw [decEntry_enc kv rest h1 h2 h3]
  simp [Codec.fNamespace, Codec.fType, Codec.fId, Codec.fVersion, Codec.fOwner, Codec.fPhase, Codec.fCreated,
    Codec.fUpdated, Codec.fFinalizers, Codec.fLabels]

theorem metaStep_annotation (acc : PMeta) (kv : Bytes × Bytes) (rest : Bytes)
    (h : (encEntry Codec.fAnnotations kv ++ rest).length < 2 ^ 63) :
    metaStep acc (encEntry Codec.fAnnotations kv ++ rest)
      = some ({ acc with annotations := kvSet acc.annotations kv.1 kv.2 }, rest) := by
  obtain ⟨h1, h2, h3, _⟩ := entry_bounds _ _ _ _ h
  rw [encEntry_eq]
  unfold metaStep
  rw [decTag_encTag Codec.fAnnotations 2 _ (by decide) (by decide) (by decide) (by decide)]
  dsimp only
  rw [decEntry_enc kv rest h1 h2 h3]
  simp [Codec.fNamespace, Codec.fType, Codec.fId, Codec.fVersion, Codec.fOwner, Codec.fPhase, Codec.fCreated,
    Codec.fUpdated, Codec.fFinalizers, Codec.fLabels, Codec.fAnnotations]

theorem entry_shorter (fn : Nat) (kv : Bytes × Bytes) (rest : Bytes) : rest.length < (encEntry fn kv ++ rest).length := by
  unfold encEntry; exact lenfield_shorter _ _ _

/-! ### repeated fields -/

theorem run_fins (fins : List Bytes) : ∀ (acc : PMeta) (rest : Bytes),
    (fins.flatMap (encLen Codec.fFinalizers) ++ rest).length < 2 ^ 63 →
    run metaStep acc (fins.flatMap (encLen Codec.fFinalizers) ++ rest)
      = run metaStep { acc with fins := acc.fins ++ fins } rest := by
  induction fins with
  | nil => intro acc rest _; simp
  | cons f fs ih =>
    intro acc rest h
    simp only [List.flatMap_cons, List.append_assoc] at h ⊢
    obtain ⟨h1, h2⟩ := lenfield_payload_lt _ _ _ _ h
    rw [run_step metaStep _ _ _ _ (metaStep_fin acc f _ h1) (lenfield_shorter _ _ _), ih _ rest h2]
    simp [List.append_assoc]

theorem run_labels (l : KV) : ∀ (acc : PMeta) (rest : Bytes),
    (l.flatMap (encEntry Codec.fLabels) ++ rest).length < 2 ^ 63 →
    run metaStep acc (l.flatMap (encEntry Codec.fLabels) ++ rest)
      = run metaStep { acc with labels := setAll acc.labels l } rest := by
  induction l with
  | nil => intro acc rest _; simp [setAll]
  | cons kv kvs ih =>
    intro acc rest h
    simp only [List.flatMap_cons, List.append_assoc] at h ⊢
    have h2 := (entry_bounds _ _ _ _ h).2.2.2
    rw [run_step metaStep _ _ _ _ (metaStep_label acc kv _ h) (entry_shorter _ _ _), ih _ rest h2]
    obtain ⟨k, v⟩ := kv
    simp [setAll]

theorem run_annotations (l : KV) : ∀ (acc : PMeta) (rest : Bytes),
    (l.flatMap (encEntry Codec.fAnnotations) ++ rest).length < 2 ^ 63 →
    run metaStep acc (l.flatMap (encEntry Codec.fAnnotations) ++ rest)
      = run metaStep { acc with annotations := setAll acc.annotations l } rest := by
  induction l with
  | nil => intro acc rest _; simp [setAll]
  | cons kv kvs ih =>
    intro acc rest h
    simp only [List.flatMap_cons, List.append_assoc] at h ⊢
    have h2 := (entry_bounds _ _ _ _ h).2.2.2
    rw [run_step metaStep _ _ _ _ (metaStep_annotation acc kv _ h) (entry_shorter _ _ _), ih _ rest h2]
    obtain ⟨k, v⟩ := kv
    simp [setAll]

/-- an optional (proto3) string field, processed once from an accumulator that still has
    the default there -/
theorem run_optstr (fn : Nat) (set : PMeta → Bytes → PMeta)
    (hstep : ∀ acc p rest, p.length < 2 ^ 63 → metaStep acc (encLen fn p ++ rest) = some (set acc p, rest))
    (acc : PMeta) (p rest : Bytes) (hz : set acc [] = acc) (h : (encStr fn p ++ rest).length < 2 ^ 63) :
    run metaStep acc (encStr fn p ++ rest) = run metaStep (set acc p) rest := by
  unfold encStr at h ⊢
  by_cases hp : p = []
  · subst hp; simp [hz]
  · simp only [hp, if_false] at h ⊢
    exact run_step metaStep _ _ _ _ (hstep acc p rest (lenfield_payload_lt _ _ _ _ h).1) (lenfield_shorter _ _ _)

theorem optstr_rest_lt (fn : Nat) (p rest : Bytes) (n : Nat) (h : (encStr fn p ++ rest).length < n) : rest.length < n := by
  unfold encStr at h
  by_cases hp : p = []
  · simpa [hp] using h
  · simp only [hp, if_false] at h; exact (lenfield_payload_lt _ _ _ _ h).2

/-! ### the Metadata message -/

theorem run_optts_created (acc : PMeta) (o : Option Ts) (rest : Bytes) (ha : acc.created = none)
    (ho : ∀ t, o = some t → tsOk t) (h : (encOptTs Codec.fCreated o ++ rest).length < 2 ^ 63) :
    run metaStep acc (encOptTs Codec.fCreated o ++ rest) = run metaStep { acc with created := o } rest := by
  cases o with
  | none => cases acc; simp_all [encOptTs]
  | some t =>
    simp only [encOptTs] at h ⊢
    exact run_step metaStep _ _ _ _
      (metaStep_created acc t rest (lenfield_payload_lt _ _ _ _ h).1 ha (ho t rfl)) (lenfield_shorter _ _ _)

theorem run_optts_updated (acc : PMeta) (o : Option Ts) (rest : Bytes) (ha : acc.updated = none)
    (ho : ∀ t, o = some t → tsOk t) (h : (encOptTs Codec.fUpdated o ++ rest).length < 2 ^ 63) :
    run metaStep acc (encOptTs Codec.fUpdated o ++ rest) = run metaStep { acc with updated := o } rest := by
  cases o with
  | none => cases acc; simp_all [encOptTs]
  | some t =>
    simp only [encOptTs] at h ⊢
    exact run_step metaStep _ _ _ _
      (metaStep_updated acc t rest (lenfield_payload_lt _ _ _ _ h).1 ha (ho t rfl)) (lenfield_shorter _ _ _)

theorem optts_rest_lt (fn : Nat) (o : Option Ts) (rest : Bytes) (n : Nat) (h : (encOptTs fn o ++ rest).length < n) :
    rest.length < n := by
  cases o with
  | none => simpa [encOptTs] using h
  | some t => simp only [encOptTs] at h; exact (lenfield_payload_lt _ _ _ _ h).2

theorem flatMap_rest_lt {α : Type} (g : α → Bytes) (l : List α) (rest : Bytes) (n : Nat)
    (h : (l.flatMap g ++ rest).length < n) : rest.length < n := by
  simp only [List.length_append] at h; omega

/-- the wire form of a `v1alpha1.Metadata` message decodes to the same message; maps come
    back as the fold of Go's `m[k] = v` over the entries in wire order -/
theorem pmeta_roundtrip (m : PMeta) (hc : ∀ t, m.created = some t → tsOk t) (hu : ∀ t, m.updated = some t → tsOk t)
    (hl : (encPMeta m).length < 2 ^ 63) :
    decPMetaInto {} (encPMeta m)
      = some { m with labels := setAll [] m.labels, annotations := setAll [] m.annotations } := by
  unfold decPMetaInto
  unfold encPMeta at hl ⊢
  have l1 := optstr_rest_lt _ _ _ _ hl
  have l2 := optstr_rest_lt _ _ _ _ l1
  have l3 := optstr_rest_lt _ _ _ _ l2
  have l4 := optstr_rest_lt _ _ _ _ l3
  have l5 := optstr_rest_lt _ _ _ _ l4
  have l6 := optstr_rest_lt _ _ _ _ l5
  have l7 := optts_rest_lt _ _ _ _ l6
  have l8 := optts_rest_lt _ _ _ _ l7
  have l9 := flatMap_rest_lt _ _ _ _ l8
  rw [run_optstr Codec.fNamespace (fun a p => { a with ns := p }) metaStep_ns _ _ _ rfl hl]
  rw [run_optstr Codec.fType (fun a p => { a with typ := p }) metaStep_typ _ _ _ rfl l1]
  rw [run_optstr Codec.fId (fun a p => { a with id := p }) metaStep_id _ _ _ rfl l2]
  rw [run_optstr Codec.fVersion (fun a p => { a with ver := p }) metaStep_ver _ _ _ rfl l3]
  rw [run_optstr Codec.fOwner (fun a p => { a with owner := p }) metaStep_owner _ _ _ rfl l4]
  rw [run_optstr Codec.fPhase (fun a p => { a with phase := p }) metaStep_phase _ _ _ rfl l5]
  rw [run_optts_created _ _ _ rfl hc l6]
  rw [run_optts_updated _ _ _ rfl hu l7]
  rw [run_fins _ _ _ l8]
  rw [run_labels _ _ _ l9]
  have l10 : (m.annotations.flatMap (encEntry Codec.fAnnotations) ++ []).length < 2 ^ 63 := by
    have := flatMap_rest_lt _ _ _ _ l9
    simpa using this
  have e := run_annotations m.annotations
    { ns := m.ns, typ := m.typ, id := m.id, ver := m.ver, owner := m.owner, phase := m.phase, created := m.created,
      updated := m.updated, fins := [] ++ m.fins, labels := setAll [] m.labels, annotations := [] } [] l10
  simp only [List.append_nil] at e
  rw [e, run_nil]
  simp

/-! ### Spec and Resource messages -/

theorem specStep_proto (acc : PSpec) (p rest : Bytes) (h : p.length < 2 ^ 63) :
    specStep acc (encLen Codec.fProtoSpec p ++ rest) = some ({ acc with proto := p }, rest) := by
  rw [encLen_eq]
  unfold specStep
  rw [decTag_encTag Codec.fProtoSpec 2 _ (by decide) (by decide) (by decide) (by decide)]
  simp [Codec.fProtoSpec, takeLen_enc _ _ h]

theorem specStep_yaml (acc : PSpec) (p rest : Bytes) (h : p.length < 2 ^ 63) :
    specStep acc (encLen Codec.fYamlSpec p ++ rest) = some ({ acc with yaml := p }, rest) := by
  rw [encLen_eq]
  unfold specStep
  rw [decTag_encTag Codec.fYamlSpec 2 _ (by decide) (by decide) (by decide) (by decide)]
  simp [Codec.fProtoSpec, Codec.fYamlSpec, takeLen_enc _ _ h]

theorem pspec_roundtrip (s : PSpec) (hl : (encPSpec s).length < 2 ^ 63) : decPSpecInto {} (encPSpec s) = some s := by
  unfold decPSpecInto
  unfold encPSpec at hl ⊢
  have l1 := optstr_rest_lt _ _ _ _ hl
  have e1 : run specStep {} (encStr Codec.fProtoSpec s.proto ++ encStr Codec.fYamlSpec s.yaml)
      = run specStep { proto := s.proto } (encStr Codec.fYamlSpec s.yaml) := by
    unfold encStr at hl ⊢
    by_cases hp : s.proto = []
    · simp [hp]
    · simp only [hp, if_false] at hl ⊢
      exact run_step specStep _ _ _ _ (specStep_proto {} s.proto _ (lenfield_payload_lt _ _ _ _ hl).1) (lenfield_shorter _ _ _)
  rw [e1]
  unfold encStr at l1 ⊢
  by_cases hy : s.yaml = []
  · simp only [hy, if_true]; rw [run_nil]; cases s; simp_all
  · simp only [hy, if_false] at l1 ⊢
    have l1' : (encLen Codec.fYamlSpec s.yaml ++ []).length < 2 ^ 63 := by simpa using l1
    have e2 := run_step specStep _ _ _ _
      (specStep_yaml { proto := s.proto } s.yaml [] (lenfield_payload_lt _ _ _ _ l1').1) (lenfield_shorter _ _ _)
    simp only [List.append_nil] at e2
    rw [e2, run_nil]

theorem resStep_md (acc : PRes) (m m' : PMeta) (rest : Bytes) (ha : acc.md = none)
    (hd : decPMetaInto {} (encPMeta m) = some m') (h : (encPMeta m).length < 2 ^ 63) :
    resStep acc (encLen Codec.fMetadata (encPMeta m) ++ rest) = some ({ acc with md := some m' }, rest) := by
  rw [encLen_eq]
  unfold resStep
  rw [decTag_encTag Codec.fMetadata 2 _ (by decide) (by decide) (by decide) (by decide)]
  simp [Codec.fMetadata, takeLen_enc _ _ h, ha, hd]

theorem resStep_spec (acc : PRes) (s : PSpec) (rest : Bytes) (ha : acc.spec = none) (h : (encPSpec s).length < 2 ^ 63) :
    resStep acc (encLen Codec.fSpec (encPSpec s) ++ rest) = some ({ acc with spec := some s }, rest) := by
  rw [encLen_eq]
  unfold resStep
  rw [decTag_encTag Codec.fSpec 2 _ (by decide) (by decide) (by decide) (by decide)]
  simp [Codec.fMetadata, Codec.fSpec, takeLen_enc _ _ h, ha, pspec_roundtrip s h]

/-- the wire form of a `v1alpha1.Resource` with both sub-messages present -/
theorem pres_roundtrip (m : PMeta) (s : PSpec) (hc : ∀ t, m.created = some t → tsOk t)
    (hu : ∀ t, m.updated = some t → tsOk t) (hl : (encPRes { md := some m, spec := some s }).length < 2 ^ 63) :
    decPRes (encPRes { md := some m, spec := some s })
      = some { md := some { m with labels := setAll [] m.labels, annotations := setAll [] m.annotations }, spec := some s } := by
  unfold decPRes
  unfold encPRes at hl ⊢
  simp only at hl ⊢
  obtain ⟨h1, h2⟩ := lenfield_payload_lt _ _ _ _ hl
  have h2' : (encLen Codec.fSpec (encPSpec s) ++ []).length < 2 ^ 63 := by simpa using h2
  rw [run_step resStep _ _ _ _ (resStep_md {} m _ _ rfl (pmeta_roundtrip m hc hu h1) h1) (lenfield_shorter _ _ _)]
  have e := run_step resStep _ _ _ _
    (resStep_spec { md := some { m with labels := setAll [] m.labels, annotations := setAll [] m.annotations } } s [] rfl
      (lenfield_payload_lt _ _ _ _ h2').1) (lenfield_shorter _ _ _)
  simp only [List.append_nil] at e
  rw [e, run_nil]

/-! ### version and phase text -/

theorem parseDigits_append (xs ys : Bytes) : ∀ a, parseDigits (xs ++ ys) a =
    match parseDigits xs a with
    | none => none
    | some v => parseDigits ys v := by
  induction xs with
  | nil => intro a; simp [parseDigits]
  | cons c cs ih =>
    intro a
    simp only [List.cons_append, parseDigits]
    split
    · exact ih _
    · rfl

theorem fmtDigits_acc (f : Nat) : ∀ (n : Nat) (acc : Bytes), fmtDigits f n acc = fmtDigits f n [] ++ acc := by
  induction f with
  | zero => intro n acc; simp [fmtDigits]
  | succ f ih =>
    intro n acc
    simp only [fmtDigits]
    by_cases h : n < 10
    · simp [h]
    · simp only [h, if_false]
      rw [ih (n / 10) (UInt8.ofNat (48 + n % 10) :: acc), ih (n / 10) [UInt8.ofNat (48 + n % 10)]]
      simp

theorem digit_byte (d : Nat) (h : d < 10) :
    48 ≤ (UInt8.ofNat (48 + d)).toNat ∧ (UInt8.ofNat (48 + d)).toNat ≤ 57 ∧ (UInt8.ofNat (48 + d)).toNat - 48 = d := by
  rw [u8_small _ (by omega)]; omega

theorem parse_fmtDigits (f : Nat) : ∀ n, n < 10 ^ f → parseDigits (fmtDigits f n []) 0 = some n := by
  induction f with
  | zero => intro n h; simp at h; subst h; simp [fmtDigits, parseDigits]
  | succ f ih =>
    intro n h
    simp only [fmtDigits]
    obtain ⟨d1, d2, d3⟩ := digit_byte (n % 10) (Nat.mod_lt _ (by decide))
    by_cases h10 : n < 10
    · simp only [h10, if_true, parseDigits, d1, d2, and_self, if_true, d3]
      congr 1; omega
    · simp only [h10, if_false]
      rw [fmtDigits_acc, parseDigits_append, ih (n / 10) (by
        apply Nat.div_lt_of_lt_mul; rw [Nat.pow_succ, Nat.mul_comm] at h; exact h)]
      simp only [parseDigits, d1, d2, and_self, if_true, d3]
      congr 1; omega

theorem parseDigits_formatUint (n : Nat) (h : n < 2 ^ 64) : parseDigits (formatUint n) 0 = some n := by
  unfold formatUint
  exact parse_fmtDigits 20 n (by have : (2 : Nat) ^ 64 < 10 ^ 20 := by decide
                                 omega)

theorem formatUint_ne_nil (n : Nat) : formatUint n ≠ [] := by
  unfold formatUint fmtDigits
  split
  · simp
  · rw [fmtDigits_acc]; simp

theorem parseUint_formatUint (n : Nat) (h : n < 2 ^ 64) : parseUint (formatUint n) = some n := by
  unfold parseUint
  simp [formatUint_ne_nil, parseDigits_formatUint n h, h]

/-- the first byte of a decimal rendering is a digit, hence neither `+` nor `-` -/
theorem formatUint_head (n : Nat) (h : n < 2 ^ 64) :
    ∃ c rest, formatUint n = c :: rest ∧ c ≠ 43 ∧ c ≠ 45 := by
  have hp := parseDigits_formatUint n h
  cases hf : formatUint n with
  | nil => exact absurd hf (formatUint_ne_nil n)
  | cons c rest =>
    refine ⟨c, rest, rfl, ?_, ?_⟩ <;>
    · intro hc
      rw [hf, hc] at hp
      simp [parseDigits] at hp

theorem parseInt_formatUint (n : Nat) (h : n < 2 ^ 63) : parseInt (formatUint n) = some (n : Int) := by
  obtain ⟨c, rest, hf, h43, h45⟩ := formatUint_head n (by omega)
  have hu := parseUint_formatUint n (by omega)
  rw [hf] at hu
  unfold parseInt
  rw [hf]
  simp only [h43, h45, or_self, if_false, hu]
  have : ¬ (2 ^ 63 ≤ n) := by omega
  simp [this]

theorem formatUint_ne_undefined (n : Nat) (h : n < 2 ^ 64) : formatUint n ≠ Codec.undefinedVersion := by
  intro e
  have hp := parseDigits_formatUint n h
  rw [e] at hp
  have hu : parseDigits Codec.undefinedVersion 0 = none := by decide
  rw [hu] at hp
  exact absurd hp (by simp)

theorem ofInt64_nat (n : Nat) (h : n < 2 ^ 64) : ofInt64 (n : Int) = n := by
  unfold ofInt64; omega

/-
  FULL STATEMENT (does not hold on the unchanged tree — DESIGN §5 D4):

    theorem version_text_roundtrip (v : Option Nat) (h : ∀ n, v = some n → n < 2 ^ 64) :
        parseVersion (formatVersion v) = some v

  `Version.String` prints the uint64 with FormatUint, `ParseVersion` reads it with ParseInt
  (regenerated fact `Codec.versionParser = .parseInt`), so every version ≥ 2^63 prints a text
  that ParseVersion rejects (`version_text_roundtrip_fails_high` below), and
  ParseVersion("-1") manufactures 2^64-1 (`parse_minus_one`). What is missing for the full
  statement is exactly `Codec.versionParser = .parseUint`: see
  `version_text_roundtrip_of_unsigned`, which is the full statement under that fact.
-/

/-- **version_text_roundtrip_partial**: `ParseVersion(v.String()) = v` for the undefined
    version and every version below 2^63. Depends on the regenerated parser fact. -/
theorem version_text_roundtrip_partial (v : Option Nat) (h : ∀ n, v = some n → n < 2 ^ 63) :
    parseVersion (formatVersion v) = some v := by
  cases v with
  | none => simp [formatVersion, parseVersion]
  | some n =>
    have hn := h n rfl
    unfold parseVersion formatVersion
    simp only [show Codec.formatUnsigned = true from rfl, if_true,
      formatUint_ne_undefined n (by omega), if_false]
    cases hp : Codec.versionParser with
    | parseInt => simp [parseInt_formatUint n hn, ofInt64_nat n (by omega)]
    | parseUint => simp [parseUint_formatUint n (by omega)]
    | unknown => exact absurd hp (by decide)

/-- the full statement, available as soon as the regenerated fact says `ParseUint` -/
theorem version_text_roundtrip_of_unsigned (hfix : Codec.versionParser = .parseUint) (v : Option Nat)
    (h : ∀ n, v = some n → n < 2 ^ 64) : parseVersion (formatVersion v) = some v := by
  cases v with
  | none => simp [formatVersion, parseVersion]
  | some n =>
    have hn := h n rfl
    unfold parseVersion formatVersion
    simp only [show Codec.formatUnsigned = true from rfl, if_true, formatUint_ne_undefined n hn, if_false, hfix]
    simp [parseUint_formatUint n hn]

/-- **version_text_roundtrip — full strength**: every version (undefined or any uint64) parses
    back from its text. Rests on the regenerated fact that `ParseVersion` uses
    `strconv.ParseUint` (`rfl` proves `.parseUint = .parseUint` only while it does); on the
    tree before the `fix:` commit for D4 the fact was `.parseInt`, this theorem did not build
    and the negative witnesses below applied. -/
theorem version_text_roundtrip (v : Option Nat) (h : ∀ n, v = some n → n < 2 ^ 64) :
    parseVersion (formatVersion v) = some v :=
  version_text_roundtrip_of_unsigned rfl v h

/-- negative witness (kernel-checked on the model): with the signed parser the text of
    2^63 and of 2^64-1 is rejected -/
theorem version_text_roundtrip_fails_high (hs : Codec.versionParser = .parseInt) :
    parseVersion (formatVersion (some (2 ^ 63))) = none ∧
    parseVersion (formatVersion (some (2 ^ 64 - 1))) = none := by
  unfold parseVersion
  rw [hs]
  decide

/-- negative witness: with the signed parser "-1" is accepted as 2^64-1, whose own text
    (`18446744073709551615`) no longer parses -/
theorem parse_minus_one (hs : Codec.versionParser = .parseInt) :
    parseVersion [45, 49] = some (some (2 ^ 64 - 1)) ∧
    parseVersion (formatVersion (some (2 ^ 64 - 1))) = none := by
  unfold parseVersion
  rw [hs]
  decide

/-- the extractor recognised the parser (on the unchanged tree it is `.parseInt`, so the two
    negative witnesses above apply; after the `ParseUint` fix they become vacuous and
    `version_text_roundtrip_of_unsigned` takes over) -/
example : Codec.versionParser = .parseInt ∨ Codec.versionParser = .parseUint := by decide
example : parseVersion (formatVersion (some 9223372036854775807)) = some (some 9223372036854775807) := by decide

/-- **phase_text_roundtrip** (depends on the regenerated phase strings being distinct) -/
theorem phase_text_roundtrip (p : Phase) : parsePhase p.text = some p := by
  cases p <;> simp [parsePhase, Phase.text] <;> decide

example : parsePhase (asc "Running") = none := by decide

/-! ### resource.Metadata ⇄ protobuf message -/

theorem kvSet_fresh (acc : KV) (k v : Bytes) (h : k ∉ acc.map (·.1)) : kvSet acc k v = acc ++ [(k, v)] := by
  induction acc with
  | nil => rfl
  | cons p ps ih =>
    obtain ⟨k', v'⟩ := p
    simp only [List.map_cons, List.mem_cons, not_or] at h
    have : ¬ (k' = k) := fun e => h.1 e.symm
    simp [kvSet, this, ih h.2]

theorem setAll_nodup (l : KV) : ∀ acc : KV, ((acc ++ l).map (·.1)).Nodup → setAll acc l = acc ++ l := by
  induction l with
  | nil => intro acc _; simp [setAll]
  | cons p ps ih =>
    intro acc h
    obtain ⟨k, v⟩ := p
    have hk : k ∉ acc.map (·.1) := by
      intro hm
      simp only [List.map_append, List.map_cons] at h
      have := (List.nodup_append.mp h).2.2 k hm k (by simp)
      exact this rfl
    simp only [setAll]
    rw [kvSet_fresh acc k v hk, ih (acc ++ [(k, v)]) (by simpa [List.append_assoc] using h)]
    simp [List.append_assoc]

theorem addFins_nodup (l : List Bytes) : ∀ acc : List Bytes, (acc ++ l).Nodup → addFins acc l = acc ++ l := by
  induction l with
  | nil => intro acc _; simp [addFins]
  | cons f fs ih =>
    intro acc h
    have hf : f ∉ acc := by
      intro hm
      have := (List.nodup_append.mp h).2.2 f hm f (by simp)
      exact this rfl
    have hc : acc.contains f = false := by simpa using hf
    simp only [addFins, hc]
    rw [ih (acc ++ [f]) (by simpa [List.append_assoc] using h)]
    simp [List.append_assoc]

def timeOk (t : Time) : Prop := -(2 ^ 63) ≤ t.sec ∧ t.sec < 2 ^ 63 ∧ t.nsec < 1000000000

theorem time_ts_ok (t : Time) (h : timeOk t) : tsOk t.toTs := by
  obtain ⟨h1, h2, h3⟩ := h
  unfold tsOk Time.toTs
  simp only
  omega

/-- `timestamppb.New(t).AsTime()` is `t` (seconds and nanoseconds) -/
theorem time_ts_roundtrip (t : Time) (h : timeOk t) : t.toTs.asTime = t := by
  obtain ⟨h1, h2, h3⟩ := h
  unfold Ts.asTime Time.toTs
  simp only
  have e1 : ((t.nsec : Nat) : Int) / 1000000000 = 0 := by omega
  have e2 : (((t.nsec : Nat) : Int) % 1000000000).toNat = t.nsec := by omega
  rw [e1, e2, Int.add_zero, toInt64_ofInt64 _ h1 h2]

/-- the domain of the wire round trip: what a `resource.Metadata` built through the public
    API satisfies. `verBound` is 2^63 on the unchanged tree (D4), 2^64 after the fix. -/
structure ResOk (verBound : Nat) (r : Res) : Prop where
  ver : ∀ n, r.md.ver = some n → n < verBound
  created : timeOk r.md.created
  updated : timeOk r.md.updated
  fins : r.md.fins.Nodup
  labels : (r.md.labels.map (·.1)).Nodup
  annotations : (r.md.annotations.map (·.1)).Nodup
  size : (encodeResource r).length < 2 ^ 63

theorem wire_roundtrip_core (r : Res) (b : Nat) (h : ResOk b r)
    (hv : parseVersion (formatVersion r.md.ver) = some r.md.ver) : decodeResource (encodeResource r) = some r := by
  have hsz := h.size
  unfold decodeResource
  unfold encodeResource Res.toProto at hsz ⊢
  rw [pres_roundtrip _ _ (by intro t e; cases e; exact time_ts_ok _ h.created)
    (by intro t e; cases e; exact time_ts_ok _ h.updated) hsz]
  simp only [resFromProto, metaFromProto, hv, phase_text_roundtrip, optTsAsTime,
    time_ts_roundtrip _ h.created, time_ts_roundtrip _ h.updated]
  have el : setAll [] r.md.labels = r.md.labels := by
    have := setAll_nodup r.md.labels [] (by simpa using h.labels); simpa using this
  have ea : setAll [] r.md.annotations = r.md.annotations := by
    have := setAll_nodup r.md.annotations [] (by simpa using h.annotations); simpa using this
  have ef : addFins [] r.md.fins = r.md.fins := by
    have := addFins_nodup r.md.fins [] (by simpa using h.fins); simpa using this
  simp only [el, ea, ef]

/-
  FULL STATEMENT (does not hold on the unchanged tree — D4):

    theorem resource_wire_roundtrip (r : Res) (h : ResOk (2 ^ 64) r) :
        decodeResource (encodeResource r) = some r

  It fails exactly for versions in [2^63, 2^64): `resource_wire_roundtrip_fails_high`.
  `resource_wire_roundtrip_of_unsigned` is the full statement under the regenerated fact
  `Codec.versionParser = .parseUint`.
-/

/-- **resource_wire_roundtrip_partial**: every resource (any byte strings for namespace,
    type, id, owner, finalizers, label/annotation keys and values, spec and YAML text; both
    phases; any int64 seconds / nanoseconds; versions undefined or < 2^63) survives
    `Marshal` + `ProtoMarshal` followed by `ProtoUnmarshal` + `Unmarshal` unchanged. -/
theorem resource_wire_roundtrip_partial (r : Res) (h : ResOk (2 ^ 63) r) :
    decodeResource (encodeResource r) = some r :=
  wire_roundtrip_core r _ h (version_text_roundtrip_partial _ h.ver)

theorem resource_wire_roundtrip_of_unsigned (hfix : Codec.versionParser = .parseUint) (r : Res)
    (h : ResOk (2 ^ 64) r) : decodeResource (encodeResource r) = some r :=
  wire_roundtrip_core r _ h (version_text_roundtrip_of_unsigned hfix _ h.ver)

/-- **resource_wire_roundtrip — full strength** (all versions below 2^64); rests on the
    regenerated `.parseUint` fact like `version_text_roundtrip` -/
theorem resource_wire_roundtrip (r : Res) (h : ResOk (2 ^ 64) r) :
    decodeResource (encodeResource r) = some r :=
  resource_wire_roundtrip_of_unsigned rfl r h

/-- negative witness: a well-formed resource whose encoding the decoder rejects -/
theorem resource_wire_roundtrip_fails_high (hs : Codec.versionParser = .parseInt) :
    decodeResource (encodeResource { md := { ver := some (2 ^ 64 - 1) } }) = none := by
  have e : decPRes (encodeResource { md := { ver := some (2 ^ 64 - 1) } })
      = some (Res.toProto { md := { ver := some (2 ^ 64 - 1) } }) := by decide
  unfold decodeResource
  rw [e]
  simp only [Res.toProto, resFromProto, metaFromProto, (parse_minus_one hs).2]

def sampleRes : Res :=
  { md := { ns := [110], typ := [84], id := [], ver := some 7, owner := [0, 255], phase := .tearingDown,
            created := { sec := -62135596800, nsec := 0 }, updated := { sec := 946684800, nsec := 999999999 },
            fins := [[102], []], labels := [([107], [118]), ([], [])], annotations := [([97], [])] },
    spec := [1, 2, 3], yaml := [97, 58, 32, 49, 10] }

/-- non-vacuity: a resource with empty strings, both maps, finalizers (one empty), the zero
    time and nanoseconds satisfies the domain, and the model round-trips it by evaluation -/
example : ResOk (2 ^ 63) sampleRes :=
  { ver := by decide, created := by unfold timeOk; decide, updated := by unfold timeOk; decide, fins := by decide,
    labels := by decide, annotations := by decide, size := by decide }
example : decodeResource (encodeResource sampleRes) = some sampleRes := by decide

/-! ### decoders are total -/

theorem kvSet_keys (acc : KV) (k v : Bytes) :
    (kvSet acc k v).map (·.1) = if k ∈ acc.map (·.1) then acc.map (·.1) else acc.map (·.1) ++ [k] := by
  induction acc with
  | nil => simp [kvSet]
  | cons p ps ih =>
    obtain ⟨k', v'⟩ := p
    by_cases e : k' = k
    · subst e; simp [kvSet]
    · have e' : ¬ (k = k') := fun h => e h.symm
      simp only [kvSet, e, if_false, List.map_cons, ih, List.mem_cons, e', false_or]
      split <;> simp

theorem kvSet_nodup (acc : KV) (k v : Bytes) (h : (acc.map (·.1)).Nodup) : ((kvSet acc k v).map (·.1)).Nodup := by
  rw [kvSet_keys]
  split
  · exact h
  · rename_i hk
    rw [List.nodup_append]
    refine ⟨h, by simp, ?_⟩
    intro a ha b hb
    simp only [List.mem_singleton] at hb
    subst hb
    intro e; subst e; exact hk ha

theorem setAll_keys_nodup (l : KV) : ∀ acc : KV, (acc.map (·.1)).Nodup → ((setAll acc l).map (·.1)).Nodup := by
  induction l with
  | nil => intro acc h; simpa [setAll] using h
  | cons p ps ih =>
    intro acc h
    obtain ⟨k, v⟩ := p
    simp only [setAll]
    exact ih _ (kvSet_nodup acc k v h)

theorem addFins_result_nodup (l : List Bytes) : ∀ acc : List Bytes, acc.Nodup → (addFins acc l).Nodup := by
  induction l with
  | nil => intro acc h; simpa [addFins] using h
  | cons f fs ih =>
    intro acc h
    simp only [addFins]
    split
    · exact ih acc h
    · rename_i hc
      apply ih
      rw [List.nodup_append]
      refine ⟨h, by simp, ?_⟩
      intro a ha b hb
      simp only [List.mem_singleton] at hb
      subst hb
      intro e; subst e
      simp at hc
      exact hc ha

theorem asTime_ok (t : Ts) : timeOk t.asTime := by
  unfold timeOk Ts.asTime toInt64
  simp only
  refine ⟨?_, ?_, ?_⟩
  · split <;> omega
  · split <;> omega
  · omega

theorem optTsAsTime_ok (o : Option Ts) : timeOk (optTsAsTime o) := by
  cases o with
  | none => unfold optTsAsTime timeOk; decide
  | some t => exact asTime_ok t

/-- what every accepted input decodes to: de-duplicated finalizers, maps with unique keys,
    normalised times -/
structure WellFormed (r : Res) : Prop where
  created : timeOk r.md.created
  updated : timeOk r.md.updated
  fins : r.md.fins.Nodup
  labels : (r.md.labels.map (·.1)).Nodup
  annotations : (r.md.annotations.map (·.1)).Nodup

theorem decoded_wellformed (b : Bytes) (r : Res) (h : decodeResource b = some r) : WellFormed r := by
  unfold decodeResource at h
  cases hp : decPRes b with
  | none => simp [hp] at h
  | some p =>
    simp only [hp, resFromProto] at h
    cases hm : p.md with
    | none => simp [hm] at h
    | some m =>
      cases hs : p.spec with
      | none => simp [hm, hs] at h
      | some sp =>
        simp only [hm, hs, metaFromProto] at h
        cases hv : parseVersion m.ver with
        | none => simp [hv] at h
        | some ver =>
          cases hph : parsePhase m.phase with
          | none => simp [hv, hph] at h
          | some ph =>
            simp only [hv, hph, Option.some.injEq] at h
            subst h
            exact
              { created := optTsAsTime_ok _, updated := optTsAsTime_ok _,
                fins := addFins_result_nodup _ [] (by simp),
                labels := setAll_keys_nodup _ [] (by simp),
                annotations := setAll_keys_nodup _ [] (by simp) }

/-
  FULL STATEMENT (does not hold on the unchanged tree — D4): as below without the version
  premise. `decode_total_fails_minus_one` is the negative witness: an input the decoder
  accepts whose value does not survive re-encoding.
-/

/-- **decode_total_partial**: the model decoder is a total function (every byte string is
    either rejected or yields a value — there is no third outcome, in particular no
    panic), every accepted value is well-formed, and it re-encodes and decodes to itself
    provided its version is undefined or < 2^63 (D4) and the re-encoding is of representable
    size. -/
theorem decode_total_partial (b : Bytes) :
    decodeResource b = none ∨
    ∃ r, decodeResource b = some r ∧ WellFormed r ∧
      ((∀ n, r.md.ver = some n → n < 2 ^ 63) → (encodeResource r).length < 2 ^ 63 →
        decodeResource (encodeResource r) = some r) := by
  cases h : decodeResource b with
  | none => exact Or.inl rfl
  | some r =>
    refine Or.inr ⟨r, rfl, decoded_wellformed b r h, ?_⟩
    intro hv hs
    have w := decoded_wellformed b r h
    exact resource_wire_roundtrip_partial r
      { ver := hv, created := w.created, updated := w.updated, fins := w.fins, labels := w.labels,
        annotations := w.annotations, size := hs }

/-- bytes of a Resource message whose version text is "-1" -/
def minusOneBytes : Bytes :=
  encPRes { md := some { ver := [45, 49], phase := Codec.phaseRunning }, spec := some {} }

theorem decode_total_fails_minus_one (hs : Codec.versionParser = .parseInt) :
    ∃ r, decodeResource minusOneBytes = some r ∧ decodeResource (encodeResource r) = none := by
  refine ⟨{ md := { ver := some (2 ^ 64 - 1), created := {}, updated := {} } }, ?_, ?_⟩
  · have e : decPRes minusOneBytes
        = some { md := some { ver := [45, 49], phase := Codec.phaseRunning }, spec := some {} } := by decide
    unfold decodeResource
    rw [e]
    simp only [resFromProto, metaFromProto, (parse_minus_one hs).1]
    decide
  · have e : decPRes (encodeResource { md := { ver := some (2 ^ 64 - 1), created := {}, updated := {} } })
        = some (Res.toProto { md := { ver := some (2 ^ 64 - 1), created := {}, updated := {} } }) := by decide
    unfold decodeResource
    rw [e]
    simp only [Res.toProto, resFromProto, metaFromProto, (parse_minus_one hs).2]

/-- truncated input is rejected, not mis-read (non-vacuity of the rejecting branch) -/
example : decodeResource ((encodeResource sampleRes).take 20) = none := by decide
/-- unknown fields (here field 15, varint) are skipped as the protobuf runtimes do -/
example : decodeResource (encodeResource sampleRes ++ [120, 5]) = some sampleRes := by decide
/-- a repeated scalar field: the last occurrence wins (here a second Spec message is merged) -/
example : (decodeResource (encodeResource sampleRes ++ encLen Codec.fSpec (encLen Codec.fProtoSpec [9]))).map (·.spec)
    = some [9] := by decide

/-! ### compression layer -/

/-- what compression.Marshaler assumes about the encoding below it ("0x00 can't start a
    valid protobuf message"): it is not read as a compressed record, i.e. it does not have
    length > 1 with the marker as first byte -/
def NoMarker (e : Bytes) : Prop := ∀ b0 b1 rest, e = b0 :: b1 :: rest → b0 ≠ compMarker

/-- what the layer assumes about its Compressor: the output starts with the given prefix
    and `Decompress` of what follows returns the data -/
def CompOk (c : Compressor) : Prop :=
  ∀ d, ∃ body, c.compress [compMarker, c.id] d = compMarker :: c.id :: body ∧ c.decompress body = some d

theorem compDecode_noMarker (c : Compressor) (e : Bytes) (h : NoMarker e) : compDecode c e = some e := by
  unfold compDecode
  simp only [show Codec.compDecodeShape = true from rfl, Bool.not_true, Bool.false_eq_true, if_false]
  match e, h with
  | [], _ => rfl
  | [_], _ => rfl
  | b0 :: b1 :: rest, h => simp [h b0 b1 rest rfl]

/-- **compression_roundtrip**, any threshold, both sides of it -/
theorem compression_roundtrip (c : Compressor) (minSize : Nat) (e : Bytes) (hc : CompOk c) (hn : NoMarker e) :
    compDecode c (compEncode c minSize e) = some e := by
  unfold compEncode
  simp only [show (Codec.compThresholdLt && Codec.compMarkerOK) = true from rfl, Bool.not_true, Bool.false_eq_true, if_false]
  by_cases hs : e.length < minSize
  · simp only [hs, if_true]; exact compDecode_noMarker c e hn
  · simp only [hs, if_false]
    obtain ⟨body, h1, h2⟩ := hc e
    rw [h1]
    unfold compDecode
    simp [show Codec.compDecodeShape = true from rfl, h2]

/-- below the threshold the inner encoding is stored as it is -/
theorem compression_below_threshold (c : Compressor) (minSize : Nat) (e : Bytes) (h : e.length < minSize) :
    compEncode c minSize e = e := by
  unfold compEncode
  simp [show (Codec.compThresholdLt && Codec.compMarkerOK) = true from rfl, h]

/-- at and above the threshold the record is marker, compressor id, compressed data -/
theorem compression_at_threshold (c : Compressor) (minSize : Nat) (e : Bytes) (hc : CompOk c) (h : minSize ≤ e.length) :
    ∃ body, compEncode c minSize e = compMarker :: c.id :: body ∧ c.decompress body = some e := by
  unfold compEncode
  have : ¬ (e.length < minSize) := by omega
  simp only [show (Codec.compThresholdLt && Codec.compMarkerOK) = true from rfl, Bool.not_true, Bool.false_eq_true,
    if_false, this]
  exact hc e

theorem encLen_head (fn : Nat) (p : Bytes) (h1 : 0 < fn) (h2 : fn < 16) :
    ∃ rest, encLen fn p = UInt8.ofNat (fn * 8 + 2) :: rest := by
  refine ⟨encVarint p.length ++ p, ?_⟩
  have : fn * 8 + 2 < 128 := by omega
  simp [encLen, encTag, encVarint, encVarintF, this]

/-- the protobuf encoding of a resource satisfies the assumption: its first byte is the
    tag of field `metadata` (0x0a), never the marker -/
theorem resource_encoding_no_marker (r : Res) : NoMarker (encodeResource r) := by
  intro b0 b1 rest h
  unfold encodeResource encPRes Res.toProto at h
  simp only at h
  obtain ⟨tl, e⟩ := encLen_head Codec.fMetadata
    (encPMeta
      { ns := r.md.ns, typ := r.md.typ, id := r.md.id, ver := formatVersion r.md.ver, owner := r.md.owner,
        phase := r.md.phase.text, created := some r.md.created.toTs, updated := some r.md.updated.toTs,
        fins := r.md.fins, labels := r.md.labels, annotations := r.md.annotations })
    (by decide) (by decide)
  rw [e] at h
  simp only [List.cons_append, List.cons.injEq] at h
  rw [← h.1]
  decide

/-- the assumption is NOT inherited through a compression layer: a compressed record starts
    with the marker. Stacked compression layers therefore only work when the outer layer can
    undo the inner one (same compressor): see `stack_roundtrip` and the counterexample. -/
theorem compressed_record_has_marker (c : Compressor) (e : Bytes) (hc : CompOk c) :
    ¬ NoMarker (compEncode c 0 e) := by
  intro hn
  obtain ⟨body, h, _⟩ := compression_at_threshold c 0 e hc (Nat.zero_le _)
  exact hn _ _ _ h rfl

/-! ### encryption layer -/

def AeadOk (a : Aead) : Prop :=
  (∀ n p, a.openF n (a.sealF n p) = some p) ∧ (∀ n p, 0 < (a.sealF n p).length)

theorem enc_split (nonce ct : Bytes) (hn : nonce.length = nonceSize) :
    (((UInt8.ofNat Codec.encVersion :: (nonce ++ ct)).drop 1).take nonceSize = nonce) ∧
    ((UInt8.ofNat Codec.encVersion :: (nonce ++ ct)).drop Codec.encHeader = ct) := by
  have e : Codec.encHeader = nonceSize + 1 := by decide
  constructor
  · simp [← hn]
  · rw [e, ← hn]; simp

/-- **encryption_roundtrip**: version byte, nonce, sealed data — and back -/
theorem encryption_roundtrip (a : Aead) (nonce e : Bytes) (ha : AeadOk a) (hn : nonce.length = nonceSize) :
    encDecode a (encEncode a nonce e) = some e := by
  obtain ⟨h1, h2⟩ := ha
  obtain ⟨s1, s2⟩ := enc_split nonce (a.sealF nonce e) hn
  unfold encDecode encEncode
  simp only [show Codec.encSplitOK = true from rfl, Bool.not_true, Bool.false_eq_true, if_false, s1, s2, h1]
  have hl : ¬ ((UInt8.ofNat Codec.encVersion :: (nonce ++ a.sealF nonce e)).length < Codec.encMinLen) := by
    have := h2 nonce e
    have e2 : Codec.encMinLen = nonceSize + 2 := by decide
    simp only [List.length_cons, List.length_append, hn, e2]; omega
  simp only [List.length_cons, List.length_append] at hl
  simp
  intro _
  omega

/-- **short_or_bad_version_rejected** -/
theorem short_or_bad_version_rejected (a : Aead) (b : Bytes)
    (h : b.length < Codec.encMinLen ∨ b.head? ≠ some (UInt8.ofNat Codec.encVersion)) : encDecode a b = none := by
  unfold encDecode
  simp only [show Codec.encSplitOK = true from rfl, show Codec.encChecksLength = true from rfl,
    show Codec.encChecksVersion = true from rfl, Bool.not_true, Bool.false_eq_true, if_false, Bool.true_and]
  rcases h with h | h
  · simp [h]
  · by_cases hl : b.length < Codec.encMinLen
    · simp [hl]
    · simp [hl, h]

/-- ideal AEAD (INT-CTXT in symbolic form): whatever opens was sealed, under that nonce, as
    one of the issued (nonce, plaintext) pairs -/
def IdealAead (a : Aead) (issued : List (Bytes × Bytes)) : Prop :=
  ∀ n c p, a.openF n c = some p → (n, p) ∈ issued ∧ c = a.sealF n p

theorem record_reassemble (b : Bytes) (h : Codec.encMinLen ≤ b.length)
    (hv : b.head? = some (UInt8.ofNat Codec.encVersion)) :
    b = UInt8.ofNat Codec.encVersion :: (((b.drop 1).take nonceSize) ++ b.drop Codec.encHeader) := by
  cases b with
  | nil => simp at hv
  | cons x xs =>
    simp only [List.head?_cons, Option.some.injEq] at hv
    subst hv
    have e : Codec.encHeader = nonceSize + 1 := by decide
    rw [e]
    simp

/-- **tamper_detected**: under the ideal-AEAD hypothesis every record the decryptor accepts
    is, byte for byte, an honestly produced record of exactly the plaintext it returns; so
    any modification (of the version byte, the nonce, the ciphertext or the tag, truncation,
    extension) of an issued record is rejected unless it is itself an issued record. -/
theorem tamper_detected (a : Aead) (issued : List (Bytes × Bytes)) (hi : IdealAead a issued) (b p : Bytes)
    (h : encDecode a b = some p) :
    ∃ n, (n, p) ∈ issued ∧ n.length = nonceSize ∧ b = encEncode a n p := by
  unfold encDecode at h
  simp only [show Codec.encSplitOK = true from rfl, show Codec.encChecksLength = true from rfl,
    show Codec.encChecksVersion = true from rfl, Bool.not_true, Bool.false_eq_true, if_false, Bool.true_and] at h
  by_cases hl : b.length < Codec.encMinLen
  · simp [hl] at h
  · simp only [hl, decide_false, Bool.false_eq_true, if_false] at h
    by_cases hv : b.head? = some (UInt8.ofNat Codec.encVersion)
    · simp only [hv, ne_eq, not_true_eq_false, decide_false, Bool.false_eq_true, if_false] at h
      obtain ⟨hm, hc⟩ := hi _ _ _ h
      refine ⟨(b.drop 1).take nonceSize, hm, ?_, ?_⟩
      · have e2 : Codec.encMinLen = nonceSize + 2 := by decide
        simp only [List.length_take, List.length_drop]; omega
      · unfold encEncode
        simp only [show Codec.encSplitOK = true from rfl, Bool.not_true, Bool.false_eq_true, if_false]
        rw [← hc]
        exact record_reassemble b (by omega) hv
    · simp [hv] at h

/-- the corollary the harness samples: with one issued record, every other byte string —
    in particular the record with any single byte changed — is rejected -/
theorem tamper_every_byte (a : Aead) (n p : Bytes) (hi : IdealAead a [(n, p)]) (b' : Bytes)
    (hne : b' ≠ encEncode a n p) : encDecode a b' = none := by
  cases h : encDecode a b' with
  | none => rfl
  | some p' =>
    obtain ⟨n', hm, _, hb⟩ := tamper_detected a _ hi b' p' h
    simp only [List.mem_singleton, Prod.mk.injEq] at hm
    obtain ⟨e1, e2⟩ := hm
    subst e1; subst e2
    exact absurd hb hne

theorem tamper_single_byte (a : Aead) (n p : Bytes) (hi : IdealAead a [(n, p)]) (i : Nat) (v : UInt8)
    (hi' : i < (encEncode a n p).length) (hv : (encEncode a n p)[i] ≠ v) :
    encDecode a ((encEncode a n p).set i v) = none := by
  apply tamper_every_byte a n p hi
  intro e
  have := congrArg (fun l => l[i]?) e
  simp [hi'] at this
  exact hv this.symm

/-- **wrong_key_detected**: a record sealed under one key is rejected under another key,
    provided the other key's AEAD only opens what it sealed and the two keys never produce
    the same ciphertext (key separation) -/
theorem wrong_key_detected (a a' : Aead) (nonce e : Bytes)
    (hideal : ∀ n c p, a'.openF n c = some p → c = a'.sealF n p)
    (hsep : ∀ n n' p p', a.sealF n p ≠ a'.sealF n' p') (hn : nonce.length = nonceSize) :
    encDecode a' (encEncode a nonce e) = none := by
  obtain ⟨s1, s2⟩ := enc_split nonce (a.sealF nonce e) hn
  cases h : encDecode a' (encEncode a nonce e) with
  | none => rfl
  | some p =>
    exfalso
    unfold encDecode encEncode at h
    simp only [show Codec.encSplitOK = true from rfl, Bool.not_true, Bool.false_eq_true, if_false, s1, s2] at h
    split at h
    · simp at h
    · split at h
      · simp at h
      · exact hsep _ _ _ _ (hideal _ _ _ h)

/-! ### arbitrary stacks of wrappers -/

def LayerOk : Layer → Prop
  | .comp c _ => CompOk c
  | .enc a n => AeadOk a ∧ n.length = nonceSize

/-- a compression layer directly above another compression layer uses the same compressor -/
def Compatible : List Layer → Prop
  | [] => True
  | l :: rest =>
    (match l, rest with
     | .comp c _, .comp c' _ :: _ => c = c'
     | _, _ => True) ∧ Compatible rest

/-- the strengthened invariant: the set of acceptable encodings of payload `p` under a stack.
    A compression layer accepts the inner encoding as it is or compressed; an encryption
    layer accepts a sealed inner encoding under any nonce of the right size. -/
def Acc : List Layer → Bytes → Bytes → Prop
  | [], p, b => b = p
  | .comp c _ :: ls, p, b => Acc ls p b ∨ ∃ e, Acc ls p e ∧ b = c.compress [compMarker, c.id] e
  | .enc a _ :: ls, p, b => ∃ n e, n.length = nonceSize ∧ Acc ls p e ∧ b = encEncode a n e

theorem encode_acc (ls : List Layer) (p : Bytes) (hok : ∀ l ∈ ls, LayerOk l) : Acc ls p (encodeStack ls p) := by
  induction ls with
  | nil => rfl
  | cons l ls ih =>
    have ih' := ih (fun l' h => hok l' (List.mem_cons_of_mem _ h))
    cases l with
    | comp c m =>
      simp only [encodeStack, Acc]
      unfold compEncode
      simp only [show (Codec.compThresholdLt && Codec.compMarkerOK) = true from rfl, Bool.not_true, Bool.false_eq_true, if_false]
      split
      · exact Or.inl ih'
      · exact Or.inr ⟨_, ih', rfl⟩
    | enc a n =>
      have h := hok (.enc a n) (by simp)
      exact ⟨n, _, h.2, ih', rfl⟩

theorem encEncode_noMarker (a : Aead) (n e : Bytes) : NoMarker (encEncode a n e) := by
  intro b0 b1 rest h
  unfold encEncode at h
  simp only [show Codec.encSplitOK = true from rfl, Bool.not_true, Bool.false_eq_true, if_false, List.cons.injEq] at h
  rw [← h.1]
  decide

theorem acc_marker (ls : List Layer) : ∀ (p b : Bytes), Compatible ls → NoMarker p → Acc ls p b →
    NoMarker b ∨ ∃ c m ls', ls = .comp c m :: ls' ∧ ∃ e, Acc ls' p e ∧ b = c.compress [compMarker, c.id] e := by
  induction ls with
  | nil => intro p b _ hp h; simp only [Acc] at h; subst h; exact Or.inl hp
  | cons l ls ih =>
    intro p b hc hp h
    cases l with
    | enc a n =>
      obtain ⟨n', e, _, _, hb⟩ := h
      subst hb
      exact Or.inl (encEncode_noMarker a n' e)
    | comp c m =>
      simp only [Acc] at h
      rcases h with h | ⟨e, he, hb⟩
      · rcases ih p b hc.2 hp h with hn | ⟨c', m', ls', hls, e, he, hb⟩
        · exact Or.inl hn
        · subst hls
          have hcc : c = c' := hc.1
          subst hcc
          exact Or.inr ⟨c, m, _, rfl, e, Or.inl he, hb⟩
      · exact Or.inr ⟨c, m, ls, rfl, e, he, hb⟩

theorem acc_decode (ls : List Layer) : ∀ (p b : Bytes), (∀ l ∈ ls, LayerOk l) → Compatible ls → NoMarker p →
    Acc ls p b → decodeStack ls b = some p := by
  induction ls with
  | nil => intro p b _ _ _ h; simp only [Acc] at h; subst h; rfl
  | cons l ls ih =>
    intro p b hok hc hp h
    have hok' : ∀ l' ∈ ls, LayerOk l' := fun l' h => hok l' (List.mem_cons_of_mem _ h)
    cases l with
    | enc a n =>
      have hl := hok (.enc a n) (by simp)
      obtain ⟨n', e, hn', he, hb⟩ := h
      subst hb
      simp only [decodeStack, encryption_roundtrip a n' e hl.1 hn']
      exact ih p e hok' hc.2 hp he
    | comp c m =>
      have hl : CompOk c := hok (.comp c m) (by simp)
      rcases acc_marker (.comp c m :: ls) p b hc hp h with hn | ⟨c', m', ls', hls, e, he, hb⟩
      · simp only [decodeStack, compDecode_noMarker c b hn]
        simp only [Acc] at h
        rcases h with h | ⟨e, _, hb⟩
        · exact ih p b hok' hc.2 hp h
        · exfalso
          obtain ⟨body, h1, _⟩ := hl e
          exact hn _ _ _ (hb.trans h1) rfl
      · simp only [List.cons.injEq, Layer.comp.injEq] at hls
        obtain ⟨⟨hcc, _⟩, hll⟩ := hls
        subst hcc; subst hll
        obtain ⟨body, h1, h2⟩ := hl e
        rw [hb, h1]
        simp only [decodeStack, compDecode, show Codec.compDecodeShape = true from rfl, Bool.not_true,
          Bool.false_eq_true, if_false, if_true, ne_eq, not_true_eq_false, h2]
        exact ih p e hok' hc.2 hp he

/-- **stack_roundtrip**: any stacking of compression and encryption wrappers, any
    thresholds, any nonces, around any payload that is not itself marked as compressed,
    decodes to the payload. Proved by induction on the layer list through the invariant
    "every acceptable encoding of `p` decodes to `p`" (`acc_decode`). -/
theorem stack_roundtrip (ls : List Layer) (p : Bytes) (hok : ∀ l ∈ ls, LayerOk l) (hc : Compatible ls)
    (hp : NoMarker p) : decodeStack ls (encodeStack ls p) = some p :=
  acc_decode ls p _ hok hc hp (encode_acc ls p hok)

/-- the whole store codec around `store.ProtobufMarshaler` (partial in the version, D4) -/
theorem store_roundtrip_partial (ls : List Layer) (r : Res) (hok : ∀ l ∈ ls, LayerOk l) (hc : Compatible ls)
    (hr : ResOk (2 ^ 63) r) : storeDecode ls (storeEncode ls r) = some r := by
  unfold storeDecode storeEncode
  rw [stack_roundtrip ls _ hok hc (resource_encoding_no_marker r)]
  exact resource_wire_roundtrip_partial r hr

def toyComp (id : UInt8) : Compressor := { id := id, compress := fun p d => p ++ d, decompress := fun d => some d }
def toyAead (key : UInt8) : Aead :=
  { sealF := fun n p => key :: (n ++ p),
    openF := fun n c => match c with
      | k :: rest => if k = key ∧ rest.take n.length = n then some (rest.drop n.length) else none
      | [] => none }

theorem toyComp_ok (id : UInt8) : CompOk (toyComp id) := fun d => ⟨d, rfl, rfl⟩
theorem toyAead_ok (k : UInt8) : AeadOk (toyAead k) := by
  constructor
  · intro n p; simp [toyAead]
  · intro n p; simp [toyAead]

/-- non-vacuity: a four-layer stack (compression above and below the threshold, two
    encryptions) satisfies the hypotheses and round-trips by evaluation -/
def sampleStack : List Layer :=
  [.comp (toyComp 122) 1000, .comp (toyComp 122) 0, .enc (toyAead 1) (List.replicate 12 7), .comp (toyComp 122) 5,
   .enc (toyAead 2) (List.replicate 12 9)]

example : (∀ l ∈ sampleStack, LayerOk l) ∧ Compatible sampleStack := by
  refine ⟨?_, ?_⟩
  · intro l hl
    simp only [sampleStack, List.mem_cons, List.not_mem_nil, or_false] at hl
    rcases hl with h | h | h | h | h <;> subst h
    · exact toyComp_ok _
    · exact toyComp_ok _
    · exact ⟨toyAead_ok _, by decide⟩
    · exact toyComp_ok _
    · exact ⟨toyAead_ok _, by decide⟩
  · simp [Compatible, sampleStack]
set_option maxRecDepth 8000 in
example : storeDecode sampleStack (storeEncode sampleStack sampleRes) = some sampleRes := by decide

/-- **stack_hetero_comp_counterexample**: the marker assumption is not closed under
    stacking. Two compression layers with different compressor ids, the outer one below its
    threshold: the inner layer's marker is read by the outer layer, which rejects the
    foreign id. (Only ZStd exists in the tree; `Compatible` excludes this stacking.) -/
theorem stack_hetero_comp_counterexample :
    decodeStack [.comp (toyComp 1) 100, .comp (toyComp 2) 0]
      (encodeStack [.comp (toyComp 1) 100, .comp (toyComp 2) 0] [10, 0]) = none := by decide

/-- non-vacuity of the ideal-AEAD hypotheses: an AEAD that opens exactly one issued record -/
def oneShot (n p c : Bytes) : Aead :=
  { sealF := fun _ _ => c, openF := fun n' c' => if n' = n ∧ c' = c then some p else none }

example (n p c : Bytes) : IdealAead (oneShot n p c) [(n, p)] := by
  intro n' c' p' h
  simp only [oneShot] at h ⊢
  split at h
  · rename_i hh; cases h; simp [hh.1, hh.2]
  · simp at h

example : encDecode (oneShot (List.replicate 12 0) [5] [1, 2, 3]) ((encEncode (oneShot (List.replicate 12 0) [5] [1, 2, 3]) (List.replicate 12 0) [5]).set 0 2) = none := by decide
example : encDecode (toyAead 2) (encEncode (toyAead 1) (List.replicate 12 0) [5]) = none := by decide

/-! ### RFC 3339 text (UTC, second resolution) -/

theorem cycle_decompose (d1 : Nat) (h : d1 < 146097) :
    let n100 := min (d1 / 36524) 3
    let d2 := d1 - n100 * 36524
    let n4 := d2 / 1461
    let d3 := d2 % 1461
    let n1 := min (d3 / 365) 3
    let doy := d3 - n1 * 365
    let yoe := n100 * 100 + n4 * 4 + n1
    yoe < 400 ∧ doy ≤ 365 ∧ (doy = 365 → (n1 = 3 ∧ (n4 = 24 → n100 = 3))) ∧
    d1 = yoe * 365 + yoe / 4 - yoe / 100 + doy ∧ n4 ≤ 24 ∧ n1 ≤ 3 ∧ n100 ≤ 3 := by
  intro n100 d2 n4 d3 n1 doy yoe
  have h100 : n100 ≤ 3 := by omega
  have hd2 : d2 ≤ 36524 := by omega
  have hn4 : n4 ≤ 24 := by omega
  have hn1 : n1 ≤ 3 := by omega
  have hf : yoe / 100 = n100 := by omega
  have he : yoe / 4 = 25 * n100 + n4 := by omega
  have hd3 : d3 = n1 * 365 + doy := by omega
  have hd2' : d2 = n4 * 1461 + d3 := by omega
  have hd1 : d1 = n100 * 36524 + d2 := by omega
  refine ⟨by omega, by omega, ?_, by omega, hn4, hn1, h100⟩
  intro hdoy
  omega

theorem month_day (doy : Nat) (h : doy ≤ 365) :
    let mp := (5 * doy + 2) / 153
    let d := doy - (153 * mp + 2) / 5 + 1
    mp ≤ 11 ∧ 1 ≤ d ∧ (153 * mp + 2) / 5 + d - 1 = doy ∧
    (mp = 11 → d ≤ 29 ∧ (d = 29 → doy = 365)) ∧
    ((mp = 0 ∨ mp = 2 ∨ mp = 4 ∨ mp = 5 ∨ mp = 7 ∨ mp = 9 ∨ mp = 10) → d ≤ 31) ∧
    ((mp = 1 ∨ mp = 3 ∨ mp = 6 ∨ mp = 8) → d ≤ 30) := by
  intro mp d
  omega

theorem civil_core (era d1 n100 n4 n1 doy mp d m y : Nat) (hera : 1 ≤ era)
    (c1 : n100 * 100 + n4 * 4 + n1 < 400)
    (c3 : doy = 365 → (n1 = 3 ∧ (n4 = 24 → n100 = 3)))
    (c4 : d1 = (n100 * 100 + n4 * 4 + n1) * 365 + (n100 * 100 + n4 * 4 + n1) / 4 - (n100 * 100 + n4 * 4 + n1) / 100 + doy)
    (c5 : n4 ≤ 24) (c6 : n1 ≤ 3)
    (m1 : mp ≤ 11) (m2 : 1 ≤ d) (m3 : (153 * mp + 2) / 5 + d - 1 = doy)
    (m4 : mp = 11 → d ≤ 29 ∧ (d = 29 → doy = 365))
    (m5 : (mp = 0 ∨ mp = 2 ∨ mp = 4 ∨ mp = 5 ∨ mp = 7 ∨ mp = 9 ∨ mp = 10) → d ≤ 31)
    (m6 : (mp = 1 ∨ mp = 3 ∨ mp = 6 ∨ mp = 8) → d ≤ 30)
    (hm : m = if mp < 10 then mp + 3 else mp - 9)
    (hy : y = n100 * 100 + n4 * 4 + n1 + era * 400 + (if m ≤ 2 then 1 else 0) - 400) :
    1 ≤ m ∧ m ≤ 12 ∧ d ≤ daysIn y m ∧ daysFromCivil y m d = era * 146097 + d1 ∧
    (era * 146097 + d1 ≤ 3798461 → y ≤ 9999) := by
  generalize hyoe : n100 * 100 + n4 * 4 + n1 = yoe at *
  have hf : yoe / 100 = n100 := by omega
  have he : yoe / 4 = 25 * n100 + n4 := by omega
  by_cases hlt : mp < 10
  · have hm' : m = mp + 3 := by rw [hm, if_pos hlt]
    have h1 : ¬ (m ≤ 2) := by omega
    have h2 : m > 2 := by omega
    rw [if_neg h1] at hy
    refine ⟨by omega, by omega, ?_, ?_, by omega⟩
    · unfold daysIn isLeap
      have hmps : mp = 0 ∨ mp = 1 ∨ mp = 2 ∨ mp = 3 ∨ mp = 4 ∨ mp = 5 ∨ mp = 6 ∨ mp = 7 ∨ mp = 8 ∨ mp = 9 := by omega
      rcases hmps with h | h | h | h | h | h | h | h | h | h <;> subst h <;> subst hm' <;> simp <;> omega
    · unfold daysFromCivil
      simp only [h1, h2, if_false, if_true]
      have e1 : (y + 400) / 400 = era := by omega
      have e2 : (y + 400) % 400 = yoe := by omega
      have e3 : m - 3 = mp := by omega
      rw [e1, e2, e3]
      omega
  · have hm' : m = mp - 9 := by rw [hm, if_neg hlt]
    have h1 : m ≤ 2 := by omega
    have h2 : ¬ (m > 2) := by omega
    rw [if_pos h1] at hy
    refine ⟨by omega, by omega, ?_, ?_, by omega⟩
    · unfold daysIn isLeap
      have hmps : mp = 10 ∨ mp = 11 := by omega
      rcases hmps with h | h <;> subst h <;> subst hm' <;> simp
      · omega
      · have hd29 := m4 rfl
        split
        · omega
        · rename_i hnl
          have : d ≠ 29 := by
            intro h29
            have := c3 (hd29.2 h29)
            apply hnl
            omega
          omega
    · unfold daysFromCivil
      simp only [h1, h2, if_false, if_true]
      have e1 : (y + 399) / 400 = era := by omega
      have e2 : (y + 399) % 400 = yoe := by omega
      have e3 : m + 9 = mp := by omega
      rw [e1, e2, e3]
      omega

/-- the calendar conversion of the model is a bijection on its range: every day number of
    era ≥ 1 (years ≥ 0000) gives a valid date which converts back to that day -/
theorem civil_roundtrip (z : Nat) (hz : 146097 ≤ z) :
    ∃ y m d, civilFromDays z = (y, m, d) ∧ 1 ≤ m ∧ m ≤ 12 ∧ 1 ≤ d ∧ d ≤ daysIn y m ∧ daysFromCivil y m d = z ∧
      (z ≤ 3798461 → y ≤ 9999) := by
  have hd1 : z % 146097 < 146097 := Nat.mod_lt _ (by decide)
  obtain ⟨c1, c2, c3, c4, c5, c6, _⟩ := cycle_decompose (z % 146097) hd1
  obtain ⟨m1, m2, m3, m4, m5, m6⟩ := month_day _ c2
  have hera : 1 ≤ z / 146097 := by omega
  have hz' : z / 146097 * 146097 + z % 146097 = z := by omega
  obtain ⟨r1, r2, r3, r4, r5⟩ := civil_core (z / 146097) (z % 146097) _ _ _ _ _ _ _ _ hera c1 c3 c4 c5 c6 m1 m2 m3 m4 m5 m6 rfl rfl
  rw [hz'] at r4 r5
  exact ⟨_, _, _, rfl, r1, r2, m2, r3, r4, r5⟩

theorem digVal_dig (n : Nat) : digVal (dig n) = some (n % 10) := by
  unfold digVal dig
  have := Nat.mod_lt n (show 0 < 10 by decide)
  rw [u8_small _ (by omega)]
  have h1 : 48 ≤ 48 + n % 10 ∧ 48 + n % 10 ≤ 57 := by omega
  simp only [h1, and_self, if_true]
  congr 1; omega

theorem num2_pad (n : Nat) (h : n < 100) : num2 (dig (n / 10)) (dig n) = some n := by
  unfold num2
  rw [digVal_dig, digVal_dig]
  simp only
  congr 1; omega

theorem num4_pad (n : Nat) (h : n < 10000) : num4 (dig (n / 1000)) (dig (n / 100)) (dig (n / 10)) (dig n) = some n := by
  unfold num4 num2
  rw [digVal_dig, digVal_dig, digVal_dig, digVal_dig]
  simp only
  congr 1; omega

/-- the years `Format(time.RFC3339)` prints with four digits: 0001-01-01T00:00:00Z … 9999-12-31T23:59:59Z -/
def inYearRange (sec : Int) : Prop := zeroTimeSec ≤ sec ∧ sec ≤ 253402300799

/-- **timestamp_text_roundtrip**: at second resolution (the resolution of the layout; the
    nanoseconds are not printed — observed, within the format's contract) a UTC time of the
    years 0001..9999 parses back to the same instant -/
theorem timestamp_text_roundtrip (t : Time) (hr : inYearRange t.sec) (hn : t.nsec = 0) :
    parseRFC3339 (formatRFC3339 t) = some (some t) := by
  obtain ⟨lo, hi⟩ := hr
  unfold zeroTimeSec at lo
  have hs : ((t.sec + epochShift).toNat : Int) = t.sec + epochShift := by unfold epochShift; omega
  generalize hS : (t.sec + epochShift).toNat = S at hs
  have hSlo : 146097 * 86400 ≤ S := by unfold epochShift at hs; omega
  have hShi : S ≤ 3798461 * 86400 + 86399 := by unfold epochShift at hs; omega
  obtain ⟨y, m, d, hciv, m1, m2, d1, d2, hback, hy⟩ := civil_roundtrip (S / 86400) (by omega)
  have hy' : y ≤ 9999 := hy (by omega)
  have hm' : m < 100 := by omega
  have hd' : d < 100 := by unfold daysIn at d2; (repeat' split at d2) <;> omega
  unfold formatRFC3339
  simp only [hS, hciv]
  simp only [pad4, pad2, List.cons_append, List.nil_append]
  unfold parseRFC3339
  simp only [ne_eq, not_true_eq_false, or_self, if_false]
  rw [num4_pad y (by omega), num2_pad m hm', num2_pad d hd', num2_pad (S % 86400 / 3600) (by omega),
    num2_pad (S % 86400 % 3600 / 60) (by omega), num2_pad (S % 86400 % 60) (by omega)]
  simp only
  have hv : ¬ (m < 1 ∨ 12 < m ∨ d < 1 ∨ daysIn y m < d ∨ 24 ≤ S % 86400 / 3600 ∨ 60 ≤ S % 86400 % 3600 / 60 ∨
      60 ≤ S % 86400 % 60) := by omega
  simp only [hv, if_false, hback]
  have e : S / 86400 * 86400 + S % 86400 / 3600 * 3600 + S % 86400 % 3600 / 60 * 60 + S % 86400 % 60 = S := by omega
  rw [e, hs]
  cases t
  simp_all

example : inYearRange 951782400 := by unfold inYearRange zeroTimeSec; decide
example : formatRFC3339 { sec := 951782400 } = asc "2000-02-29T00:00:00Z" := by decide
example : parseRFC3339 (asc "2000-02-29T00:00:00Z") = some (some { sec := 951782400 }) := by decide
example : parseRFC3339 (asc "2001-02-29T00:00:00Z") = some none := by decide
example : formatRFC3339 { sec := -62135596800 } = asc "0001-01-01T00:00:00Z" := by decide
example : formatRFC3339 { sec := 253402300799 } = asc "9999-12-31T23:59:59Z" := by decide

/-! ### Metadata ⇄ yaml.Node -/

theorem ltBytes_irrefl (a : Bytes) : ltBytes a a = false := by
  induction a with
  | nil => rfl
  | cons x xs ih => simp [ltBytes, ih]

theorem sortBy_sorted {α : Type} (lt : α → α → Bool) (l : List α) (h : l.Pairwise (fun a b => lt a b = true)) :
    sortBy lt l = l := by
  induction l with
  | nil => rfl
  | cons x xs ih =>
    have hx := List.pairwise_cons.mp h
    have e : sortBy lt (x :: xs) = insertBy lt x (sortBy lt xs) := rfl
    rw [e, ih hx.2]
    cases xs with
    | nil => rfl
    | cons y ys => simp [insertBy, hx.1 y (by simp)]

/-- the canonical representative of a Go map: entries in strictly increasing key order -/
def SortedKV (m : KV) : Prop := m.Pairwise (fun a b => ltBytes a.1 b.1 = true)

theorem sorted_keys_nodup (m : KV) (h : SortedKV m) : (m.map (·.1)).Nodup := by
  unfold SortedKV at h
  induction m with
  | nil => simp
  | cons p ps ih =>
    have hx := List.pairwise_cons.mp h
    simp only [List.map_cons, List.nodup_cons]
    refine ⟨?_, ih hx.2⟩
    intro hm
    obtain ⟨q, hq, e⟩ := List.mem_map.mp hm
    have := hx.1 q hq
    rw [← e, ltBytes_irrefl] at this
    exact absurd this (by simp)

def pairNodes (kv : Bytes × Bytes) : List Node := [Node.scalar kv.1, Node.scalar kv.2]

theorem flatMap_pairs_even (m : KV) : (m.flatMap pairNodes).length % 2 = 0 := by
  induction m with
  | nil => rfl
  | cons p ps ih => simp only [List.flatMap_cons, List.length_append, pairNodes, List.length_cons, List.length_nil]; omega

theorem kvFromYaml_go_pairs (m : KV) : ∀ acc, kvFromYaml.go (m.flatMap pairNodes) acc = some (setAll acc m) := by
  induction m with
  | nil => intro acc; simp [kvFromYaml.go, setAll]
  | cons p ps ih =>
    intro acc
    obtain ⟨k, v⟩ := p
    simp only [List.flatMap_cons, pairNodes, List.cons_append, List.nil_append, kvFromYaml.go, scalarOf, setAll]
    exact ih _

theorem kvFromYaml_pairs (m : KV) (h : SortedKV m) : kvFromYaml (.mapping (m.flatMap pairNodes)) = some m := by
  unfold kvFromYaml
  have e := flatMap_pairs_even m
  simp only [e, ne_eq, not_true_eq_false, if_false, kvFromYaml_go_pairs]
  have := setAll_nodup m [] (by simpa using sorted_keys_nodup m h)
  simpa using this

theorem finsFromYaml_map (fs : List Bytes) : finsFromYaml (.sequence (fs.map Node.scalar)) = some fs := by
  unfold finsFromYaml
  induction fs with
  | nil => rfl
  | cons f fs ih => simp [scalarOf, Gen.Codec.yamlScalarIsNodeText, ih]

theorem mfp_ns (v : Bytes) (rest : List Node) (md : Meta) :
    metaFromPairs (.scalar kNamespace :: .scalar v :: rest) md = metaFromPairs rest { md with ns := v } := by
  rw [metaFromPairs]; simp +decide [scalarOf]

theorem mfp_typ (v : Bytes) (rest : List Node) (md : Meta) :
    metaFromPairs (.scalar kType :: .scalar v :: rest) md = metaFromPairs rest { md with typ := v } := by
  rw [metaFromPairs]; simp +decide [scalarOf]

theorem mfp_id (v : Bytes) (rest : List Node) (md : Meta) :
    metaFromPairs (.scalar kId :: .scalar v :: rest) md = metaFromPairs rest { md with id := v } := by
  rw [metaFromPairs]; simp +decide [scalarOf]

theorem mfp_owner (v : Bytes) (rest : List Node) (md : Meta) :
    metaFromPairs (.scalar kOwner :: .scalar v :: rest) md = metaFromPairs rest { md with owner := v } := by
  rw [metaFromPairs]; simp +decide [scalarOf]

theorem mfp_ver (v : Bytes) (ver : Option Nat) (rest : List Node) (md : Meta) (h : parseVersion v = some ver) :
    metaFromPairs (.scalar kVersion :: .scalar v :: rest) md = metaFromPairs rest { md with ver := ver } := by
  rw [metaFromPairs]; simp +decide [scalarOf, h]

theorem mfp_phase (v : Bytes) (ph : Phase) (rest : List Node) (md : Meta) (h : parsePhase v = some ph) :
    metaFromPairs (.scalar kPhase :: .scalar v :: rest) md = metaFromPairs rest { md with phase := ph } := by
  rw [metaFromPairs]; simp +decide [scalarOf, h]

theorem mfp_created (v : Bytes) (t : Time) (rest : List Node) (md : Meta) (h : parseRFC3339 v = some (some t)) :
    metaFromPairs (.scalar kCreated :: .scalar v :: rest) md = metaFromPairs rest { md with created := t } := by
  rw [metaFromPairs]; simp +decide [scalarOf, h]

theorem mfp_updated (v : Bytes) (t : Time) (rest : List Node) (md : Meta) (h : parseRFC3339 v = some (some t)) :
    metaFromPairs (.scalar kUpdated :: .scalar v :: rest) md = metaFromPairs rest { md with updated := t } := by
  rw [metaFromPairs]; simp +decide [scalarOf, h]

theorem mfp_fins (v : Node) (fs : List Bytes) (rest : List Node) (md : Meta) (h : finsFromYaml v = some fs) :
    metaFromPairs (.scalar kFinalizers :: v :: rest) md = metaFromPairs rest { md with fins := fs } := by
  rw [metaFromPairs]; simp +decide [h]

theorem mfp_labels (v : Node) (m : KV) (rest : List Node) (md : Meta) (h : kvFromYaml v = some m) :
    metaFromPairs (.scalar kLabels :: v :: rest) md = metaFromPairs rest { md with labels := m } := by
  rw [metaFromPairs]; simp +decide [h]

theorem mfp_annotations (v : Node) (m : KV) (rest : List Node) (md : Meta) (h : kvFromYaml v = some m) :
    metaFromPairs (.scalar kAnnotations :: v :: rest) md = metaFromPairs rest { md with annotations := m } := by
  rw [metaFromPairs]; simp +decide [h]

theorem kvToYaml_sorted (label : Bytes) (m : KV) (h : SortedKV m) :
    kvToYaml label m = if m = [] then [] else [.scalar label, .mapping (m.flatMap pairNodes)] := by
  unfold kvToYaml sortKV
  rw [sortBy_sorted _ m h]
  rfl

/-- the domain of the YAML round trip: second-resolution UTC times of the years 0001..9999
    (the resolution and range of the text format), maps in their canonical (sorted) order,
    version undefined or < 2^63 (D4; 2^64 after the fix) -/
structure MetaYamlOk (verBound : Nat) (md : Meta) : Prop where
  ver : ∀ n, md.ver = some n → n < verBound
  created : inYearRange md.created.sec ∧ md.created.nsec = 0
  updated : inYearRange md.updated.sec ∧ md.updated.nsec = 0
  labels : SortedKV md.labels
  annotations : SortedKV md.annotations

theorem yaml_tail (md acc : Meta) (hl : SortedKV md.labels) (ha : SortedKV md.annotations)
    (h0 : acc.labels = [] ∧ acc.annotations = [] ∧ acc.fins = []) :
    metaFromPairs (kvToYaml kLabels md.labels ++ (kvToYaml kAnnotations md.annotations ++
      (if md.fins = [] then [] else [.scalar kFinalizers, .sequence (md.fins.map Node.scalar)]))) acc
    = .ok { acc with labels := md.labels, annotations := md.annotations, fins := md.fins } := by
  have e1 := kvToYaml_sorted kLabels md.labels hl
  have e2 := kvToYaml_sorted kAnnotations md.annotations ha
  generalize kvToYaml kLabels md.labels = L at e1 ⊢
  generalize kvToYaml kAnnotations md.annotations = A at e2 ⊢
  subst e1; subst e2
  obtain ⟨z1, z2, z3⟩ := h0
  by_cases cl : md.labels = [] <;> by_cases ca : md.annotations = [] <;> by_cases cf : md.fins = [] <;>
    simp only [cl, ca, cf, if_true, if_false, List.cons_append, List.nil_append, List.append_nil] <;>
    (try rw [mfp_labels _ _ _ _ (kvFromYaml_pairs _ hl)]) <;>
    (try rw [mfp_annotations _ _ _ _ (kvFromYaml_pairs _ ha)]) <;>
    (try rw [mfp_fins _ _ _ _ (finsFromYaml_map _)]) <;>
    simp only [metaFromPairs] <;>
    (cases acc; simp_all)

theorem yaml_roundtrip_core (md : Meta) (b : Nat) (h : MetaYamlOk b md)
    (hv : parseVersion (formatVersion md.ver) = some md.ver) : metaFromYaml (metaToYaml md) = .ok md := by
  unfold metaFromYaml metaToYaml
  simp only [List.cons_append, List.nil_append]
  rw [mfp_ns, mfp_typ, mfp_id, mfp_ver _ _ _ _ hv, mfp_owner, mfp_phase _ _ _ _ (phase_text_roundtrip _),
    mfp_created _ _ _ _ (timestamp_text_roundtrip _ h.created.1 h.created.2),
    mfp_updated _ _ _ _ (timestamp_text_roundtrip _ h.updated.1 h.updated.2)]
  rw [yaml_tail md _ h.labels h.annotations ⟨rfl, rfl, rfl⟩]

/-
  FULL STATEMENT (does not hold on the unchanged tree — D4):
    theorem yaml_node_roundtrip (md : Meta) (h : MetaYamlOk (2 ^ 64) md) : metaFromYaml (metaToYaml md) = .ok md
  `yaml_node_roundtrip_of_unsigned` is that statement under the regenerated fact `.parseUint`.
-/

/-- **yaml_node_roundtrip_partial**: `MarshalYAML` followed by `UnmarshalYAML` at the
    yaml.Node level returns the same metadata (any byte strings; finalizers in order, also
    with duplicates; omitted empty maps / finalizers come back empty) -/
theorem yaml_node_roundtrip_partial (md : Meta) (h : MetaYamlOk (2 ^ 63) md) : metaFromYaml (metaToYaml md) = .ok md :=
  yaml_roundtrip_core md _ h (version_text_roundtrip_partial _ h.ver)

theorem yaml_node_roundtrip_of_unsigned (hfix : Codec.versionParser = .parseUint) (md : Meta)
    (h : MetaYamlOk (2 ^ 64) md) : metaFromYaml (metaToYaml md) = .ok md :=
  yaml_roundtrip_core md _ h (version_text_roundtrip_of_unsigned hfix _ h.ver)

/-- **yaml_node_roundtrip — full strength** (all versions below 2^64) -/
theorem yaml_node_roundtrip (md : Meta) (h : MetaYamlOk (2 ^ 64) md) : metaFromYaml (metaToYaml md) = .ok md :=
  yaml_node_roundtrip_of_unsigned rfl md h

def sampleMeta : Meta :=
  { ns := [110], typ := [], id := [0, 255], ver := some 7, owner := [], phase := .tearingDown,
    created := { sec := -62135596800 }, updated := { sec := 951782400 }, fins := [[102], [], [102]],
    labels := [([], [1]), ([107], [118]), ([107, 0], [])], annotations := [([97], [])] }

example : MetaYamlOk (2 ^ 63) sampleMeta :=
  { ver := by decide, created := by unfold inYearRange zeroTimeSec; decide,
    updated := by unfold inYearRange zeroTimeSec; decide,
    labels := by unfold SortedKV; decide, annotations := by unfold SortedKV; decide }

/-- the re-raised runtime panic of `UnmarshalYAML` on a mapping node with an odd number of
    children (not producible by the YAML parser) is part of the model -/
example : (match metaFromYaml (.mapping [.scalar kNamespace]) with | .panic => true | _ => false) = true := by decide

end Cosi.C18
