/-
  Property C10 — persistent store: acked writes survive crashes; memory never diverges.

  Model: `Cosi.Model.Persist` (one `inmem.State` + its `BackingStore`; consumes the regenerated
  facts `Gen.Store.storeBeforeMemory`, `Gen.Persist.*`). Specification: `Cosi.Spec.Persist`.
  Everything is proved for every history (`List POp`: store ops, watch ops, crashes, changes
  of the fault schedule), every fault schedule, every crash instant (every step boundary of the
  op in flight), every number of failed Load attempts, every history-ring configuration.

  The marshaler stack is the parameter `c : Codec E`; its round-trip law
      hrt : ∀ r, c.dec (c.enc r) = some r
  is an explicit hypothesis wherever a Load is involved (C18 proves it for the stackings).
  Trusted, not modelled: bbolt's `Update` is atomic and durable across a process crash.
-/
import Cosi.Spec.Persist
import Cosi.Props.C01

namespace Cosi.C10

open Cosi Cosi.C01

/-! ### the tie: model over the regenerated facts = specification -/

theorem loadEntries_eq_spec {E} (c : Codec E) (m : WSys) (l : List (Key × Res)) (b : Option Nat) :
    loadEntries c m l b = Spec.Persist.loadEntries c m l b := by
  induction l generalizing m b with
  | nil => rfl
  | cons e es ih =>
    simp only [loadEntries, Spec.Persist.loadEntries, Gen.Persist.loadInjects, if_true]
    by_cases hb : b = some 0
    · simp [hb]
    · cases hd : c.dec (c.enc e.2) <;> simp [hb, ih]

theorem ensureLoaded_eq_spec {E} (c : Codec E) (s : PSys) :
    s.ensureLoaded c = Spec.Persist.ensureLoaded c s := by
  simp [PSys.ensureLoaded, Spec.Persist.ensureLoaded, loadEntries_eq_spec,
    Gen.Persist.loadedOnlyOnSuccess, Gen.Persist.loadGuardsEveryOp]

theorem dWrite_eq_spec (cfg : Cfg) (D : Store) (op : Op) (o : Out) :
    dWrite cfg D op o = Spec.Persist.dWrite cfg D op o := by
  cases op <;> cases o <;> simp [dWrite, Spec.Persist.dWrite, Gen.Persist.boltSameKey, Gen.Store.preparedBeforeStore]

/-- **Obligation C10.tie.** The model of collection.go / inmem.go / bolt (backing store before
    memory and publish, its error aborts; `loaded` only after a complete Load; every method
    guarded by loadStore; Put and Destroy address the same key) is the specification. Any edit
    of /repo that flips one of those regenerated facts breaks this proof. -/
theorem storeOp_eq_spec {E} (c : Codec E) (s : PSys) (now : Nat) (op : Op) :
    s.storeOp c now op = Spec.Persist.storeOp c s now op := by
  simp only [PSys.storeOp, PSys.storeTrace, Spec.Persist.storeOp, ensureLoaded_eq_spec, step_eq_spec,
    dWrite_eq_spec, Gen.Store.storeBeforeMemory, if_true]
  cases h1 : (Spec.Persist.ensureLoaded c s).2 <;> simp only [Bool.not_false, Bool.not_true, if_true]
  · simp
  · simp only [Bool.false_eq_true, if_false]
    split
    · simp
    · split <;> simp

theorem exec_eq_spec {E} (c : Codec E) (s : PSys) (pop : POp) :
    s.exec c pop = Spec.Persist.exec c s pop := by
  cases pop <;> simp only [PSys.exec, Spec.Persist.exec, storeOp_eq_spec, ensureLoaded_eq_spec]

theorem run_eq_spec {E} (c : Codec E) (s : PSys) (ops : List POp) :
    s.run c ops = Spec.Persist.run c s ops := by
  induction ops generalizing s with
  | nil => rfl
  | cons op ops ih => simp only [PSys.run, Spec.Persist.run, exec_eq_spec, ih]

/-! ### association lists as maps -/

/-- the two association lists denote the same map -/
def StoreEq (a b : Store) : Prop := ∀ k, a.get k = b.get k

/-- every binding of `a` is a binding of `b` -/
def SubMap (a b : Store) : Prop := ∀ k r, a.get k = some r → b.get k = some r

def NodupKeys (s : Store) : Prop := s.Pairwise (fun a b => a.1 ≠ b.1)

/-- well-formed: one binding per key, and every resource sits under its own key -/
structure WF (cfg : Cfg) (s : Store) : Prop where
  nodup : NodupKeys s
  keyed : ∀ k r, (k, r) ∈ s → k = r.key cfg

theorem StoreEq.refl (a : Store) : StoreEq a a := fun _ => rfl
theorem StoreEq.symm {a b : Store} (h : StoreEq a b) : StoreEq b a := fun k => (h k).symm
theorem StoreEq.trans {a b c : Store} (h1 : StoreEq a b) (h2 : StoreEq b c) : StoreEq a c :=
  fun k => (h1 k).trans (h2 k)

theorem mem_of_get {s : Store} {k : Key} {r : Res} (h : s.get k = some r) : (k, r) ∈ s := by
  induction s with
  | nil => simp at h
  | cons p s ih =>
    obtain ⟨k', r'⟩ := p
    rw [get_cons] at h
    by_cases e : k' = k
    · simp only [e, if_true, Option.some.injEq] at h
      subst h; subst e; exact List.mem_cons_self
    · simp only [e, if_false] at h
      exact List.mem_cons_of_mem _ (ih h)

theorem get_of_mem {s : Store} (h : NodupKeys s) {k : Key} {r : Res} (hm : (k, r) ∈ s) :
    s.get k = some r := by
  induction s with
  | nil => cases hm
  | cons p s ih =>
    obtain ⟨k', r'⟩ := p
    have hp := List.pairwise_cons.1 h
    rw [get_cons]
    rcases List.mem_cons.1 hm with e | hm'
    · cases e; simp
    · have hne : ¬ k' = k := fun e => hp.1 (k, r) hm' e
      simp only [hne, if_false]
      exact ih hp.2 hm'

theorem mem_del {s : Store} {k : Key} {p : Key × Res} : p ∈ s.del k ↔ p ∈ s ∧ p.1 ≠ k := by
  simp [Store.del, List.mem_filter]

theorem nodupKeys_del {s : Store} (h : NodupKeys s) (k : Key) : NodupKeys (s.del k) :=
  List.Pairwise.filter _ h

theorem nodupKeys_put {s : Store} (h : NodupKeys s) (k : Key) (r : Res) : NodupKeys (s.put k r) := by
  refine List.pairwise_cons.2 ⟨?_, nodupKeys_del h k⟩
  intro p hp e
  exact (mem_del.1 hp).2 e.symm

theorem wf_nil (cfg : Cfg) : WF cfg [] := ⟨List.Pairwise.nil, fun _ _ h => by cases h⟩

theorem wf_del {cfg : Cfg} {s : Store} (h : WF cfg s) (k : Key) : WF cfg (s.del k) :=
  ⟨nodupKeys_del h.nodup k, fun k' r hm => h.keyed k' r (mem_del.1 hm).1⟩

theorem wf_put {cfg : Cfg} {s : Store} (h : WF cfg s) (r : Res) : WF cfg (s.put (r.key cfg) r) := by
  refine ⟨nodupKeys_put h.nodup _ _, ?_⟩
  intro k' r' hm
  rcases List.mem_cons.1 hm with e | hm'
  · cases e; rfl
  · exact h.keyed k' r' (mem_del.1 hm').1

theorem storeEq_put {a b : Store} (h : StoreEq a b) (k : Key) (r : Res) : StoreEq (a.put k r) (b.put k r) := by
  intro k2
  by_cases e : k2 = k
  · subst e; rw [get_put_self, get_put_self]
  · rw [get_put_other _ _ _ _ e, get_put_other _ _ _ _ e]; exact h k2

theorem storeEq_del {a b : Store} (h : StoreEq a b) (k : Key) : StoreEq (a.del k) (b.del k) := by
  intro k2
  by_cases e : k2 = k
  · subst e; rw [get_del_self, get_del_self]
  · rw [get_del_other _ _ _ e, get_del_other _ _ _ e]; exact h k2

theorem nodup_of_nodupKeys {s : Store} (h : NodupKeys s) : s.Nodup :=
  List.Pairwise.imp (fun hab e => hab (by rw [e])) h

/-- two well-formed lists that denote the same map are permutations of each other -/
theorem perm_of_storeEq {a b : Store} (ha : NodupKeys a) (hb : NodupKeys b) (h : StoreEq a b) :
    a.Perm b := by
  rw [List.perm_iff_count]
  intro x
  rw [(nodup_of_nodupKeys ha).count, (nodup_of_nodupKeys hb).count]
  have hx : x ∈ a ↔ x ∈ b := by
    obtain ⟨k, r⟩ := x
    constructor
    · intro hm; exact mem_of_get (by rw [← h k]; exact get_of_mem ha hm)
    · intro hm; exact mem_of_get (by rw [h k]; exact get_of_mem hb hm)
  simp [hx]

theorem nodupKeys_perm {a b : Store} (h : a.Perm b) (ha : NodupKeys a) : NodupKeys b :=
  (h.pairwise_iff (fun hxy e => hxy e.symm)).1 ha

/-- a permutation of a duplicate-free association list denotes the same map -/
theorem storeEq_of_perm {a b : Store} (h : a.Perm b) (ha : NodupKeys a) : StoreEq a b := by
  have hb := nodupKeys_perm h ha
  intro k
  cases hg : a.get k with
  | some r => exact (get_of_mem hb (h.mem_iff.1 (mem_of_get hg))).symm
  | none =>
    cases hg' : b.get k with
    | none => rfl
    | some r =>
      have := get_of_mem ha (h.mem_iff.2 (mem_of_get hg'))
      rw [hg] at this; cases this

/-! ### `sortBy` is a permutation; a sorted listing depends only on the map -/

theorem perm_insertBy {α} (lt : α → α → Bool) (x : α) (l : List α) : (insertBy lt x l).Perm (x :: l) := by
  induction l with
  | nil => exact List.Perm.refl _
  | cons y ys ih =>
    unfold insertBy
    by_cases h : lt x y = true
    · simp [h]
    · simp only [h]
      exact (List.Perm.cons y ih).trans (List.Perm.swap x y ys)

theorem perm_sortBy {α} (lt : α → α → Bool) (l : List α) : (sortBy lt l).Perm l := by
  induction l with
  | nil => exact List.Perm.refl _
  | cons x xs ih =>
    show (insertBy lt x (sortBy lt xs)).Perm (x :: xs)
    exact (perm_insertBy lt x _).trans (List.Perm.cons x ih)

abbrev ltId (a b : Res) : Bool := decide (a.id < b.id)

theorem sortById_eq (l : List Res) : sortById l = sortBy ltId l := rfl

abbrev Ascending (l : List Res) : Prop := l.Pairwise (fun a b => a.id ≤ b.id)

theorem ascending_insertBy (x : Res) (l : List Res) (h : Ascending l) : Ascending (insertBy ltId x l) := by
  induction l with
  | nil => simp [insertBy, Ascending]
  | cons y ys ih =>
    have hy := List.pairwise_cons.1 h
    unfold insertBy
    by_cases hxy : x.id < y.id
    · have : ltId x y = true := by simp [ltId, hxy]
      simp only [this, if_true]
      refine List.pairwise_cons.2 ⟨?_, h⟩
      intro z hz
      rcases List.mem_cons.1 hz with rfl | hz
      · exact String.not_lt.1 (String.lt_asymm hxy)
      · have hyz : y.id ≤ z.id := hy.1 z hz
        exact String.not_lt.1 (fun hzx => (String.not_lt.2 hyz) (String.lt_trans hzx hxy))
    · have : ltId x y = false := by simp [ltId, hxy]
      simp only [this]
      refine List.pairwise_cons.2 ⟨?_, ih hy.2⟩
      intro z hz
      have hz' : z ∈ x :: ys := (perm_insertBy ltId x ys).mem_iff.1 hz
      rcases List.mem_cons.1 hz' with rfl | hz'
      · exact String.not_lt.1 hxy
      · exact hy.1 z hz'

theorem ascending_sortById (l : List Res) : Ascending (sortById l) := by
  induction l with
  | nil => simp [sortById, sortBy, Ascending]
  | cons x xs ih => exact ascending_insertBy x _ ih

/-- sorting by id forgets the order of a list whose ids are pairwise distinct -/
theorem sortById_congr {l1 l2 : List Res} (hp : l1.Perm l2)
    (hinj : ∀ a b, a ∈ l1 → b ∈ l1 → a.id = b.id → a = b) : sortById l1 = sortById l2 := by
  have p1 : (sortById l1).Perm l1 := perm_sortBy _ _
  have p2 : (sortById l2).Perm l2 := perm_sortBy _ _
  refine List.Perm.eq_of_pairwise (le := fun a b => a.id ≤ b.id) ?_ (ascending_sortById l1)
    (ascending_sortById l2) (p1.trans (hp.trans p2.symm))
  intro a b ha hb hab hba
  exact hinj a b (p1.mem_iff.1 ha) (hp.mem_iff.2 (p2.mem_iff.1 hb)) (String.le_antisymm hab hba)

/-- the unsorted listing of one kind (collection.go:101 before the sort) -/
def view (cfg : Cfg) (s : Store) (ns typ : String) (sel : Res → Bool) : List Res :=
  ((s.filter fun p => p.1.1 = (if cfg.nsAware then ns else "") ∧ p.1.2.1 = typ).map (·.2)).filter sel

theorem view_inj {cfg : Cfg} {s : Store} (h : WF cfg s) (ns typ : String) (sel : Res → Bool) :
    ∀ a b, a ∈ view cfg s ns typ sel → b ∈ view cfg s ns typ sel → a.id = b.id → a = b := by
  intro a b ha hb hid
  simp only [view, List.mem_filter, List.mem_map, decide_eq_true_eq] at ha hb
  obtain ⟨⟨⟨ka, ra⟩, ⟨hma, hka1, hka2⟩, rfl⟩, _⟩ := ha
  obtain ⟨⟨⟨kb, rb⟩, ⟨hmb, hkb1, hkb2⟩, rfl⟩, _⟩ := hb
  have ea := h.keyed ka ra hma
  have eb := h.keyed kb rb hmb
  have hk : ka = kb := by
    obtain ⟨a1, a2, a3⟩ := ka
    obtain ⟨b1, b2, b3⟩ := kb
    simp only [Res.key, Cfg.key, Prod.mk.injEq] at ea eb
    simp only at hka1 hka2 hkb1 hkb2 hid
    simp only [Prod.mk.injEq]
    refine ⟨hka1.trans hkb1.symm, hka2.trans hkb2.symm, ?_⟩
    rw [ea.2.2, eb.2.2]; exact hid
  subst hk
  have g1 := get_of_mem h.nodup hma
  have g2 := get_of_mem h.nodup hmb
  rw [g1] at g2
  exact Option.some.inj g2

theorem view_perm {cfg : Cfg} {a b : Store} (ha : NodupKeys a) (hb : NodupKeys b) (h : StoreEq a b)
    (ns typ : String) (sel : Res → Bool) : (view cfg a ns typ sel).Perm (view cfg b ns typ sel) :=
  (((perm_of_storeEq ha hb h).filter _).map _).filter _

/-! ### the sequential step only looks at the map -/

theorem list_out_eq (cfg : Cfg) (s : Store) (now : Nat) (ns typ : String) (sel : Res → Bool) :
    (Spec.step cfg s now (.list ns typ sel)).2 = .items (sortById (view cfg s ns typ sel)) := rfl

/-- outputs agree on equal maps -/
theorem step_congr_out {cfg : Cfg} {a b : Store} (ha : WF cfg a) (hb : WF cfg b) (h : StoreEq a b)
    (now : Nat) (op : Op) : (step cfg a now op).2 = (step cfg b now op).2 := by
  rw [step_eq_spec, step_eq_spec]
  cases op with
  | create r owner =>
    simp only [Spec.step, h (r.key cfg)]
    split
    · rfl
    · split <;> rfl
  | update r owner exp =>
    simp only [Spec.step, h (r.key cfg)]
    split
    · rfl
    · split
      · rfl
      · split
        · rfl
        · split <;> rfl
  | destroy ns typ id owner =>
    simp only [Spec.step, h (cfg.key ns typ id)]
    split
    · rfl
    · split
      · rfl
      · split <;> rfl
  | get ns typ id =>
    simp only [Spec.step, h (cfg.key ns typ id)]
    split <;> rfl
  | list ns typ sel =>
    rw [list_out_eq, list_out_eq]
    congr 1
    exact sortById_congr (view_perm ha.nodup hb.nodup h ns typ sel) (view_inj ha ns typ sel)

/-- … and so do the resulting maps -/
theorem step_congr_store {cfg : Cfg} {a b : Store} (h : StoreEq a b) (now : Nat) (op : Op) :
    StoreEq (step cfg a now op).1 (step cfg b now op).1 := by
  rw [step_eq_spec, step_eq_spec]
  cases op with
  | create r owner =>
    simp only [Spec.step, h (r.key cfg)]
    split
    · exact h
    · split
      · exact h
      · exact storeEq_put h _ _
  | update r owner exp =>
    simp only [Spec.step, h (r.key cfg)]
    split
    · exact h
    · split
      · exact h
      · split
        · exact h
        · split
          · exact h
          · exact storeEq_put h _ _
  | destroy ns typ id owner =>
    simp only [Spec.step, h (cfg.key ns typ id)]
    split
    · exact h
    · split
      · exact h
      · split
        · exact h
        · exact storeEq_del h _
  | get ns typ id =>
    simp only [Spec.step]
    split <;> split <;> exact h
  | list ns typ sel => exact h

theorem step_wf {cfg : Cfg} {s : Store} (h : WF cfg s) (now : Nat) (op : Op) :
    WF cfg (step cfg s now op).1 := by
  rw [step_eq_spec]
  cases op with
  | create r owner =>
    simp only [Spec.step]
    split
    · exact h
    · split
      · exact h
      · exact wf_put (r := { r with owner := owner, ver := some 1, created := now }) h
  | update r owner exp =>
    simp only [Spec.step]
    split
    · exact h
    · split
      · exact h
      · split
        · exact h
        · split
          · exact h
          · rename_i cur _ _ _ _
            exact wf_put (r := { r with ver := some (r.ver.getD 0 + 1), updated := now, created := cur.created }) h
  | destroy ns typ id owner =>
    simp only [Spec.step]
    split
    · exact h
    · split
      · exact h
      · split
        · exact h
        · exact wf_del h _
  | get ns typ id =>
    simp only [Spec.step]
    split <;> exact h
  | list ns typ sel => exact h

theorem step_read (cfg : Cfg) (s : Store) (now : Nat) (op : Op) (h : isWrite op = false) :
    (step cfg s now op).1 = s := by
  rw [step_eq_spec]
  cases op <;> simp [isWrite] at h
  · simp only [Spec.step]; split <;> rfl
  · rfl

/-- what the backing store is asked to write is exactly what the sequential step does -/
theorem dWrite_eq_step (cfg : Cfg) (S : Store) (now : Nat) (op : Op) (hw : isWrite op = true)
    (hok : (step cfg S now op).2.isErr = false) :
    dWrite cfg S op (step cfg S now op).2 = (step cfg S now op).1 := by
  rw [dWrite_eq_spec]
  rw [step_eq_spec] at *
  cases op with
  | create r owner =>
    simp only [Spec.step] at hok ⊢
    split
    · rename_i h1; simp [h1, Spec.err, Out.isErr] at hok
    · rename_i h1
      split
      · rename_i h2; simp [h1, h2, Spec.err, Out.isErr] at hok
      · rfl
  | update r owner exp =>
    simp only [Spec.step] at hok ⊢
    split
    · rename_i h1; simp [h1, Spec.err, Out.isErr] at hok
    · rename_i cur h1
      split
      · rename_i h2; simp [h1, h2, Spec.err, Out.isErr] at hok
      · rename_i h2
        split
        · rename_i h3; simp [h1, h2, h3, Spec.err, Out.isErr] at hok
        · rename_i h3
          split
          · rename_i h4; simp [h1, h2, h3, h4, Spec.err, Out.isErr] at hok
          · rfl
  | destroy ns typ id owner =>
    simp only [Spec.step] at hok ⊢
    split
    · rename_i h1; simp [h1, Spec.err, Out.isErr] at hok
    · rename_i cur h1
      split
      · rename_i h2; simp [h1, h2, Spec.err, Out.isErr] at hok
      · rename_i h2
        split
        · rename_i h3; simp [h1, h2, h3, Spec.err, Out.isErr] at hok
        · rfl
  | get ns typ id => simp [isWrite] at hw
  | list ns typ sel => simp [isWrite] at hw

/-! ### the volatile part: what the `WSys` operations do to the storage map -/

theorem storeOp_store (m : WSys) (now : Nat) (op : Op) :
    (m.storeOp now op).1.store = (step m.cfg m.store now op).1 := by
  unfold WSys.storeOp
  cases op <;> simp only [] <;> split <;> (try split) <;> rfl

theorem storeOp_cfg (m : WSys) (now : Nat) (op : Op) : (m.storeOp now op).1.cfg = m.cfg := by
  unfold WSys.storeOp
  cases op <;> simp only [] <;> split <;> (try split) <;> rfl

theorem startWatch_store (m : WSys) (wid : Nat) (ns typ : String) (wk : WKind)
    (sel : Option (String × String)) (cap : Nat) (o : StartOpts) :
    (m.startWatch wid ns typ wk sel cap o).1.store = m.store ∧
    (m.startWatch wid ns typ wk sel cap o).1.cfg = m.cfg := by
  unfold WSys.startWatch
  simp only []
  split <;> exact ⟨rfl, rfl⟩

theorem recv_store (m : WSys) (wid : Nat) :
    (m.recv wid).1.store = m.store ∧ (m.recv wid).1.cfg = m.cfg ∧
    (m.watchers = [] → (m.recv wid).1.watchers = []) := by
  unfold WSys.recv
  split
  · exact ⟨rfl, rfl, fun h => h⟩
  · refine ⟨rfl, rfl, fun h => ?_⟩
    simp [h]

theorem inject_store (m : WSys) (bt : String) (r : Res) :
    (m.inject bt r).store = m.store.put (m.cfg.key r.ns bt r.id) r := rfl
theorem inject_cfg (m : WSys) (bt : String) (r : Res) : (m.inject bt r).cfg = m.cfg := rfl
theorem inject_watchers (m : WSys) (bt : String) (r : Res) : (m.inject bt r).watchers = m.watchers := rfl

/-! ### Load -/

theorem loadEntries_frame {E} (c : Codec E) (m : WSys) (l : List (Key × Res)) (b : Option Nat) :
    (Spec.Persist.loadEntries c m l b).1.cfg = m.cfg ∧
    (Spec.Persist.loadEntries c m l b).1.watchers = m.watchers := by
  induction l generalizing m b with
  | nil => exact ⟨rfl, rfl⟩
  | cons e es ih =>
    simp only [Spec.Persist.loadEntries]
    split
    · exact ⟨rfl, rfl⟩
    · split
      · exact ⟨rfl, rfl⟩
      · rename_i r _
        have := ih (m.inject e.1.2.1 r) (b.map (· - 1))
        rw [inject_cfg, inject_watchers] at this
        exact this

/-- the key under which the Load handler stores an entry is the entry's own key -/
theorem inject_key {cfg : Cfg} {k : Key} {r : Res} (h : k = r.key cfg) : cfg.key r.ns k.2.1 r.id = k := by
  subst h; rfl

/-- whatever prefix of the entries a Load got through, the image stays well-formed and inside `S` -/
theorem loadEntries_partial {E} (c : Codec E) (hrt : ∀ r, c.dec (c.enc r) = some r) (S : Store)
    (m : WSys) (l : List (Key × Res)) (b : Option Nat)
    (hl : ∀ k r, (k, r) ∈ l → k = r.key m.cfg ∧ S.get k = some r)
    (hwf : WF m.cfg m.store) (hsub : SubMap m.store S) :
    WF m.cfg (Spec.Persist.loadEntries c m l b).1.store ∧
    SubMap (Spec.Persist.loadEntries c m l b).1.store S := by
  induction l generalizing m b with
  | nil => exact ⟨hwf, hsub⟩
  | cons e es ih =>
    obtain ⟨k, r⟩ := e
    simp only [Spec.Persist.loadEntries, hrt]
    split
    · exact ⟨hwf, hsub⟩
    · have hk := hl k r List.mem_cons_self
      have hst : (m.inject k.2.1 r).store = m.store.put (r.key m.cfg) r := by
        rw [inject_store, inject_key hk.1, hk.1]
      refine ih (m.inject k.2.1 r) _ (fun k' r' hm => hl k' r' (List.mem_cons_of_mem _ hm)) ?_ ?_
      · rw [hst]; exact wf_put hwf r
      · rw [hst]
        intro k2 r2 hg
        by_cases e : k2 = r.key m.cfg
        · subst e; rw [get_put_self] at hg; rw [← hk.1, ← hg]; exact hk.2
        · rw [get_put_other _ _ _ _ e] at hg; exact hsub k2 r2 hg

/-- a Load that returned nil went through every entry: each key holds the entry's resource
    (re-injection overwrites by id), all other keys are untouched -/
theorem loadEntries_complete {E} (c : Codec E) (hrt : ∀ r, c.dec (c.enc r) = some r)
    (m : WSys) (l : Store) (b : Option Nat)
    (hl : ∀ k r, (k, r) ∈ l → k = r.key m.cfg) (hnd : NodupKeys l)
    (hok : (Spec.Persist.loadEntries c m l b).2 = true) (k : Key) :
    (Spec.Persist.loadEntries c m l b).1.store.get k =
      match l.get k with
      | some r => some r
      | none => m.store.get k := by
  induction l generalizing m b with
  | nil => rfl
  | cons e es ih =>
    obtain ⟨ke, re⟩ := e
    have hp := List.pairwise_cons.1 hnd
    simp only [Spec.Persist.loadEntries, hrt] at hok ⊢
    split
    · rename_i hb; simp [hb] at hok
    · rename_i hb
      simp only [hb, if_false] at hok
      have hk := hl ke re List.mem_cons_self
      rw [ih (m.inject ke.2.1 re) _ (fun k' r' hm => hl k' r' (List.mem_cons_of_mem _ hm)) hp.2 hok]
      rw [inject_store, inject_key hk, get_cons]
      by_cases e : ke = k
      · subst e
        have hnone : Store.get es ke = none := by
          cases hg : Store.get es ke with
          | none => rfl
          | some r' => exact absurd rfl (hp.1 (ke, r') (mem_of_get hg))
        simp [hnone, get_put_self]
      · have e' : k ≠ ke := fun h => e h.symm
        simp only [e, if_false, get_put_other _ _ _ _ e']

theorem loadOrder_perm (D : Store) : (loadOrder D).Perm D := perm_sortBy _ _

/-- **Load yields the durable contents.** From any partial image that lies inside `D`, a Load
    that returns nil leaves exactly `D` in memory. -/
theorem load_complete {E} (c : Codec E) (hrt : ∀ r, c.dec (c.enc r) = some r)
    (m : WSys) (D : Store) (b : Option Nat) (hD : WF m.cfg D) (hsub : SubMap m.store D)
    (hok : (Spec.Persist.loadEntries c m (loadOrder D) b).2 = true) :
    StoreEq (Spec.Persist.loadEntries c m (loadOrder D) b).1.store D := by
  have hp := loadOrder_perm D
  have hnd : NodupKeys (loadOrder D) := nodupKeys_perm hp.symm hD.nodup
  have heq : StoreEq (loadOrder D) D := storeEq_of_perm hp hnd
  intro k
  rw [loadEntries_complete c hrt m (loadOrder D) b
    (fun k' r' hm => hD.keyed k' r' (hp.mem_iff.1 hm)) hnd hok k, heq k]
  cases hg : D.get k with
  | some r => rfl
  | none =>
    cases hm : m.store.get k with
    | none => rfl
    | some r => have := hsub k r hm; rw [hg] at this; cases this

/-! ### the invariant: durable contents = reference store; memory = it (loaded) or inside it -/

/-- `S` is the fault-free, restart-free reference store (the run of the acknowledged ops). -/
structure Inv (s : PSys) (S : Store) : Prop where
  wfS : WF s.mem.cfg S
  dEq : s.D = S
  wfM : WF s.mem.cfg s.mem.store
  ld : s.loaded = true → StoreEq s.mem.store S
  nl : s.loaded = false → SubMap s.mem.store S ∧ s.mem.watchers = []

theorem ensureLoaded_cfg {E} (c : Codec E) (s : PSys) :
    (Spec.Persist.ensureLoaded c s).1.mem.cfg = s.mem.cfg := by
  unfold Spec.Persist.ensureLoaded
  split
  · rfl
  · exact (loadEntries_frame c s.mem (loadOrder s.D) _).1

theorem ensureLoaded_ok {E} (c : Codec E) (s : PSys) (h : (Spec.Persist.ensureLoaded c s).2 = true) :
    (Spec.Persist.ensureLoaded c s).1.loaded = true := by
  unfold Spec.Persist.ensureLoaded at h ⊢
  split
  · assumption
  · rename_i hl; simp only [hl] at h ⊢; exact h

theorem ensureLoaded_fail {E} (c : Codec E) (s : PSys) (h : (Spec.Persist.ensureLoaded c s).2 = false) :
    (Spec.Persist.ensureLoaded c s).1.loaded = false := by
  unfold Spec.Persist.ensureLoaded at h ⊢
  split
  · rename_i hl; simp [hl] at h
  · rename_i hl; simp only [hl] at h ⊢; exact h

theorem ensureLoaded_D {E} (c : Codec E) (s : PSys) : (Spec.Persist.ensureLoaded c s).1.D = s.D := by
  unfold Spec.Persist.ensureLoaded
  split <;> rfl

/-- a Load (failed or not) keeps the invariant -/
theorem inv_ensureLoaded {E} (c : Codec E) (hrt : ∀ r, c.dec (c.enc r) = some r) {s : PSys} {S : Store}
    (h : Inv s S) : Inv (Spec.Persist.ensureLoaded c s).1 S := by
  unfold Spec.Persist.ensureLoaded
  split
  · exact h
  · rename_i hl
    have hl' : s.loaded = false := by simpa using hl
    obtain ⟨hsub, hw⟩ := h.nl hl'
    have hfr := loadEntries_frame c s.mem (loadOrder s.D) (popLoad s.faults.load).1
    have hp := loadOrder_perm s.D
    have hent : ∀ k r, (k, r) ∈ loadOrder s.D → k = r.key s.mem.cfg ∧ S.get k = some r := by
      intro k r hm
      have hm' : (k, r) ∈ S := by rw [← h.dEq]; exact hp.mem_iff.1 hm
      exact ⟨h.wfS.keyed k r hm', get_of_mem h.wfS.nodup hm'⟩
    have hpart := loadEntries_partial c hrt S s.mem (loadOrder s.D) (popLoad s.faults.load).1 hent h.wfM hsub
    refine ⟨?_, h.dEq, ?_, ?_, ?_⟩
    · show WF (Spec.Persist.loadEntries c s.mem (loadOrder s.D) _).1.cfg S
      rw [hfr.1]; exact h.wfS
    · show WF (Spec.Persist.loadEntries c s.mem (loadOrder s.D) _).1.cfg _
      rw [hfr.1]; exact hpart.1
    · intro hok
      have hok' : (Spec.Persist.loadEntries c s.mem (loadOrder s.D) (popLoad s.faults.load).1).2 = true := hok
      have := load_complete c hrt s.mem s.D _ (by rw [h.dEq]; exact h.wfS) (by rw [h.dEq]; exact hsub) hok'
      exact fun k => (this k).trans (by rw [h.dEq])
    · intro _
      exact ⟨hpart.2, by show (Spec.Persist.loadEntries c s.mem (loadOrder s.D) _).1.watchers = []; rw [hfr.2]; exact hw⟩

/-- the reference store after one history step -/
def refStep (cfg : Cfg) (S : Store) : POp → POut → Store
  | .store now op, o => if o.acked then (step cfg S now op).1 else S
  | _, _ => S

theorem spec_storeOp_cfg {E} (c : Codec E) (s : PSys) (now : Nat) (op : Op) :
    (Spec.Persist.storeOp c s now op).1.mem.cfg = s.mem.cfg := by
  unfold Spec.Persist.storeOp
  simp only []
  split
  · exact ensureLoaded_cfg c s
  · split
    · exact ensureLoaded_cfg c s
    · split
      · exact ensureLoaded_cfg c s
      · show ((Spec.Persist.ensureLoaded c s).1.mem.storeOp now op).1.cfg = _
        rw [storeOp_cfg]; exact ensureLoaded_cfg c s

/-- **One store operation keeps the invariant**, and moves the reference store exactly when it
    is acknowledged as successful. -/
theorem inv_storeOp {E} (c : Codec E) (hrt : ∀ r, c.dec (c.enc r) = some r) {s : PSys} {S : Store}
    (h : Inv s S) (now : Nat) (op : Op) :
    Inv (Spec.Persist.storeOp c s now op).1
      (refStep s.mem.cfg S (.store now op) (Spec.Persist.storeOp c s now op).2) := by
  have h1 := inv_ensureLoaded c hrt h
  have hcfg := ensureLoaded_cfg c s
  unfold Spec.Persist.storeOp
  simp only []
  generalize hs1 : Spec.Persist.ensureLoaded c s = e at h1 hcfg
  obtain ⟨s1, ok⟩ := e
  simp only at h1 hcfg ⊢
  cases ok with
  | false => simpa [refStep, POut.acked] using h1
  | true =>
    have hld : s1.loaded = true := by
      have := ensureLoaded_ok c s (by rw [hs1])
      rw [hs1] at this; exact this
    have heq := h1.ld hld
    have hout : (Spec.step s1.mem.cfg s1.mem.store now op).2 = (step s.mem.cfg S now op).2 := by
      rw [← step_eq_spec, hcfg]
      exact step_congr_out (by rw [← hcfg]; exact h1.wfM) (by rw [← hcfg]; exact h1.wfS) heq now op
    simp only [Bool.not_true, Bool.false_eq_true, if_false, hout]
    by_cases hw : isWrite op = true
    · cases herr : (step s.mem.cfg S now op).2.isErr with
      | true =>
        simp only [hw, Bool.not_true, Bool.false_or, if_true, refStep, POut.acked, Out.isOk, herr,
          Bool.not_true, Bool.false_eq_true, if_false]
        exact h1
      | false =>
        simp only [hw, Bool.not_true, Bool.false_or, Bool.false_eq_true, if_false]
        split
        · simpa [refStep, POut.acked] using
            (show Inv { s1 with faults := (s1.faults.forWrite op).2 } S from
              ⟨h1.wfS, h1.dEq, h1.wfM, h1.ld, h1.nl⟩)
        · simp only [refStep, POut.acked, Out.isOk, herr, Bool.not_false, if_true]
          refine ⟨?_, ?_, ?_, ?_, ?_⟩
          · show WF (s1.mem.storeOp now op).1.cfg _
            rw [storeOp_cfg, hcfg]; exact step_wf (by rw [← hcfg]; exact h1.wfS) now op
          · show Spec.Persist.dWrite s1.mem.cfg s1.D op _ = _
            rw [h1.dEq, hcfg, ← dWrite_eq_spec]
            exact dWrite_eq_step s.mem.cfg S now op hw herr
          · show WF (s1.mem.storeOp now op).1.cfg (s1.mem.storeOp now op).1.store
            rw [storeOp_cfg, storeOp_store]; exact step_wf h1.wfM now op
          · intro _
            show StoreEq (s1.mem.storeOp now op).1.store _
            rw [storeOp_store, hcfg]; exact step_congr_store heq now op
          · intro hf; exact absurd hld (by simpa using hf)
    · have hw' : isWrite op = false := by simpa using hw
      simp only [hw', Bool.not_false, Bool.true_or, if_true, refStep, POut.acked]
      split
      · rw [step_read _ _ _ _ hw']; exact h1
      · exact h1

theorem exec_cfg {E} (c : Codec E) (s : PSys) (pop : POp) :
    (Spec.Persist.exec c s pop).1.mem.cfg = s.mem.cfg := by
  cases pop with
  | store now op => exact spec_storeOp_cfg c s now op
  | wstart wid ns typ wk sel cap o =>
    simp only [Spec.Persist.exec]
    split
    · exact ensureLoaded_cfg c s
    · show ((Spec.Persist.ensureLoaded c s).1.mem.startWatch wid ns typ wk sel cap o).1.cfg = _
      rw [(startWatch_store _ _ _ _ _ _ _ _).2]; exact ensureLoaded_cfg c s
  | recv wid => exact (recv_store s.mem wid).2.1
  | wstop wid => rfl
  | crash => rfl
  | arm f => rfl

theorem inv_crash {s : PSys} {S : Store} (h : Inv s S) : Inv s.crash S :=
  ⟨h.wfS, h.dEq, wf_nil _, fun hl => by simp [PSys.crash] at hl,
    fun _ => ⟨fun k r hg => by simp [PSys.crash, WSys.fresh] at hg, rfl⟩⟩

/-- **Every history step keeps the invariant** (store ops, watch ops, crashes, fault arming). -/
theorem inv_exec {E} (c : Codec E) (hrt : ∀ r, c.dec (c.enc r) = some r) {s : PSys} {S : Store}
    (h : Inv s S) (pop : POp) :
    Inv (Spec.Persist.exec c s pop).1 (refStep s.mem.cfg S pop (Spec.Persist.exec c s pop).2) := by
  cases pop with
  | store now op => exact inv_storeOp c hrt h now op
  | wstart wid ns typ wk sel cap o =>
    have h1 := inv_ensureLoaded c hrt h
    simp only [Spec.Persist.exec, refStep]
    split
    · exact h1
    · rename_i hok
      have hok' : (Spec.Persist.ensureLoaded c s).2 = true := by simpa using hok
      have hld := ensureLoaded_ok c s hok'
      have hst := startWatch_store (Spec.Persist.ensureLoaded c s).1.mem wid ns typ wk sel cap o
      refine ⟨?_, h1.dEq, ?_, ?_, ?_⟩
      · show WF ((Spec.Persist.ensureLoaded c s).1.mem.startWatch wid ns typ wk sel cap o).1.cfg S
        rw [hst.2]; exact h1.wfS
      · show WF ((Spec.Persist.ensureLoaded c s).1.mem.startWatch wid ns typ wk sel cap o).1.cfg
          ((Spec.Persist.ensureLoaded c s).1.mem.startWatch wid ns typ wk sel cap o).1.store
        rw [hst.1, hst.2]; exact h1.wfM
      · intro _
        show StoreEq ((Spec.Persist.ensureLoaded c s).1.mem.startWatch wid ns typ wk sel cap o).1.store S
        rw [hst.1]; exact h1.ld hld
      · intro hf; exact absurd hld (by simpa using hf)
  | recv wid =>
    have hr := recv_store s.mem wid
    simp only [Spec.Persist.exec, refStep]
    refine ⟨?_, h.dEq, ?_, ?_, ?_⟩
    · show WF (s.mem.recv wid).1.cfg S
      rw [hr.2.1]; exact h.wfS
    · show WF (s.mem.recv wid).1.cfg (s.mem.recv wid).1.store
      rw [hr.1, hr.2.1]; exact h.wfM
    · intro hl
      show StoreEq (s.mem.recv wid).1.store S
      rw [hr.1]; exact h.ld hl
    · intro hl
      show SubMap (s.mem.recv wid).1.store S ∧ (s.mem.recv wid).1.watchers = []
      rw [hr.1]; exact ⟨(h.nl hl).1, hr.2.2 (h.nl hl).2⟩
  | wstop wid =>
    simp only [Spec.Persist.exec, refStep]
    exact ⟨h.wfS, h.dEq, h.wfM, h.ld, fun hl => ⟨(h.nl hl).1, by
      show (s.mem.stopWatch wid).watchers = []
      simp [WSys.stopWatch, (h.nl hl).2]⟩⟩
  | crash => exact inv_crash h
  | arm f => exact ⟨h.wfS, h.dEq, h.wfM, h.ld, h.nl⟩

/-- the reference run continued from `S` -/
def refFrom (cfg : Cfg) (S : Store) (l : List (Nat × Op)) : Store :=
  l.foldl (fun st p => (step cfg st p.1 p.2).1) S

theorem refRun_eq (cfg : Cfg) (l : List (Nat × Op)) : refRun cfg l = refFrom cfg [] l := rfl

theorem refFrom_append (cfg : Cfg) (S : Store) (l : List (Nat × Op)) (now : Nat) (op : Op) :
    refFrom cfg S (l ++ [(now, op)]) = (step cfg (refFrom cfg S l) now op).1 := by
  simp [refFrom, List.foldl_append]

theorem run_cfg {E} (c : Codec E) (s : PSys) (ops : List POp) :
    (Spec.Persist.run c s ops).1.mem.cfg = s.mem.cfg := by
  induction ops generalizing s with
  | nil => rfl
  | cons op ops ih =>
    simp only [Spec.Persist.run]
    rw [ih, exec_cfg]

/-- **Every history keeps the invariant**: after any history, from any state satisfying it, the
    durable contents are the reference run of the acknowledged store operations. -/
theorem inv_run {E} (c : Codec E) (hrt : ∀ r, c.dec (c.enc r) = some r) {s : PSys} {S : Store}
    (h : Inv s S) (ops : List POp) :
    Inv (Spec.Persist.run c s ops).1
      (refFrom s.mem.cfg S (ackedOps ops (Spec.Persist.run c s ops).2)) := by
  induction ops generalizing s S with
  | nil => exact h
  | cons op ops ih =>
    have h1 := inv_exec c hrt h op
    have h2 := ih h1
    rw [exec_cfg] at h2
    simp only [Spec.Persist.run]
    cases op with
    | store now o =>
      simp only [ackedOps]
      split
      · rename_i ha
        simp only [refStep, ha, if_true] at h2
        simpa [refFrom] using h2
      · rename_i ha
        simp only [refStep, ha] at h2
        exact h2
    | wstart wid ns typ wk sel cap o => simpa [ackedOps, refStep] using h2
    | recv wid => simpa [ackedOps, refStep] using h2
    | wstop wid => simpa [ackedOps, refStep] using h2
    | crash => simpa [ackedOps, refStep] using h2
    | arm f => simpa [ackedOps, refStep] using h2

/-! ### Load attempts -/

theorem loadAttempts_eq_spec {E} (c : Codec E) (k : Nat) (s : PSys) :
    PSys.loadAttempts c (k + 1) s = PSys.loadAttempts c k (Spec.Persist.ensureLoaded c s).1 := by
  simp only [PSys.loadAttempts, ensureLoaded_eq_spec]

theorem inv_loadAttempts {E} (c : Codec E) (hrt : ∀ r, c.dec (c.enc r) = some r) {s : PSys} {S : Store}
    (h : Inv s S) (k : Nat) : Inv (PSys.loadAttempts c k s) S := by
  induction k generalizing s with
  | zero => exact h
  | succ k ih => rw [loadAttempts_eq_spec]; exact ih (inv_ensureLoaded c hrt h)

theorem ensureLoaded_faults {E} (c : Codec E) (s : PSys) :
    (Spec.Persist.ensureLoaded c s).1.faults.put = s.faults.put ∧
    (Spec.Persist.ensureLoaded c s).1.faults.destroy = s.faults.destroy := by
  unfold Spec.Persist.ensureLoaded
  split <;> exact ⟨rfl, rfl⟩

theorem loadAttempts_frame {E} (c : Codec E) (k : Nat) (s : PSys) :
    (PSys.loadAttempts c k s).mem.cfg = s.mem.cfg ∧ (PSys.loadAttempts c k s).D = s.D ∧
    (PSys.loadAttempts c k s).faults.put = s.faults.put ∧
    (PSys.loadAttempts c k s).faults.destroy = s.faults.destroy := by
  induction k generalizing s with
  | zero => exact ⟨rfl, rfl, rfl, rfl⟩
  | succ k ih =>
    rw [loadAttempts_eq_spec]
    obtain ⟨a, b, c1, d⟩ := ih (Spec.Persist.ensureLoaded c s).1
    rw [a, b, c1, d, ensureLoaded_cfg, ensureLoaded_D]
    exact ⟨rfl, rfl, ensureLoaded_faults c s⟩

/-! ## C10.1 — `load_retry` -/

/-- **While the state is not loaded nothing is served from the partial image.** If the Load an
    operation triggers fails, the operation — any store operation and any of the three watch
    calls — returns the load error; its only effect is what that Load attempt injected; the
    durable contents, the (empty) watcher set and `loaded = false` are as before. -/
theorem not_loaded_serves_nothing {E} (c : Codec E) (s : PSys)
    (hfail : (s.ensureLoaded c).2 = false) :
    (∀ now op, s.exec c (.store now op) = ((s.ensureLoaded c).1, .loadErr)) ∧
    (∀ wid ns typ wk sel cap o, s.exec c (.wstart wid ns typ wk sel cap o) = ((s.ensureLoaded c).1, .loadErr)) ∧
    (s.ensureLoaded c).1.loaded = false ∧ (s.ensureLoaded c).1.D = s.D ∧
    (s.ensureLoaded c).1.mem.watchers = s.mem.watchers := by
  rw [ensureLoaded_eq_spec] at hfail ⊢
  refine ⟨?_, ?_, ensureLoaded_fail c s hfail, ensureLoaded_D c s, ?_⟩
  · intro now op
    rw [exec_eq_spec]
    simp [Spec.Persist.exec, Spec.Persist.storeOp, hfail]
  · intro wid ns typ wk sel cap o
    rw [exec_eq_spec]
    simp [Spec.Persist.exec, hfail]
  · unfold Spec.Persist.ensureLoaded
    split
    · rfl
    · exact (loadEntries_frame c s.mem (loadOrder s.D) _).2

/-- **After the first successful Load memory is exactly the durable contents**, whatever the
    earlier failed attempts injected (`Inv` with `loaded = false` only says that the partial
    image lies inside `D`), after any number `k` of attempts and for every fault schedule. -/
theorem load_retry {E} (c : Codec E) (hrt : ∀ r, c.dec (c.enc r) = some r) {s : PSys} {S : Store}
    (h : Inv s S) (k : Nat) (hl : (PSys.loadAttempts c k s).loaded = true) :
    StoreEq (PSys.loadAttempts c k s).mem.store s.D ∧ (PSys.loadAttempts c k s).D = s.D := by
  have hk := inv_loadAttempts c hrt h k
  rw [h.dEq]
  exact ⟨hk.ld hl, hk.dEq⟩

/-! ## C10.2 — `store_error_invisible` -/

theorem ensureLoaded_loaded {E} (c : Codec E) (s : PSys) (h : s.loaded = true) :
    Spec.Persist.ensureLoaded c s = (s, true) := by
  simp [Spec.Persist.ensureLoaded, h]

/-- **A rejected backing-store write fails the operation.** A write that passed its
    preconditions and whose Put/Destroy the backing store rejects returns the store error. -/
theorem store_error_fails {E} (c : Codec E) (s : PSys) (now : Nat) (op : Op)
    (hl : s.loaded = true) (hw : isWrite op = true)
    (hpre : (step s.mem.cfg s.mem.store now op).2.isErr = false)
    (hrej : (s.faults.forWrite op).1 = true) :
    (s.storeOp c now op).2 = .storeErr ∧ (s.storeOp c now op).2.acked = false := by
  rw [storeOp_eq_spec]
  rw [step_eq_spec] at hpre
  simp [Spec.Persist.storeOp, ensureLoaded_loaded c s hl, hw, hpre, hrej, POut.acked]

/-- **… and is invisible.** Whenever an operation reports the store error, the whole volatile
    state — memory contents, every event ring with its log, every watcher with everything it has
    buffered or is about to send — and the durable contents are exactly what they were when the
    operation started (after its Load, if it was the first one). Depends on
    `Gen.Store.storeBeforeMemory` through the tie. -/
theorem store_error_invisible {E} (c : Codec E) (s : PSys) (now : Nat) (op : Op)
    (h : (s.storeOp c now op).2 = .storeErr) :
    (s.storeOp c now op).1.mem = (s.ensureLoaded c).1.mem ∧
    (s.storeOp c now op).1.D = (s.ensureLoaded c).1.D ∧
    (s.storeOp c now op).1.loaded = (s.ensureLoaded c).1.loaded := by
  rw [storeOp_eq_spec] at h ⊢
  rw [ensureLoaded_eq_spec]
  unfold Spec.Persist.storeOp at h ⊢
  simp only [] at h ⊢
  split
  · exact ⟨rfl, rfl, rfl⟩
  · rename_i h1
    simp only [h1] at h
    split
    · exact ⟨rfl, rfl, rfl⟩
    · rename_i h2
      simp only [h2] at h
      split
      · exact ⟨rfl, rfl, rfl⟩
      · rename_i h3
        simp [h3] at h

/-- no watcher observes a rejected write: what any watcher can receive afterwards is what it
    could receive before -/
theorem store_error_no_delivery {E} (c : Codec E) (s : PSys) (now : Nat) (op : Op)
    (hl : s.loaded = true) (h : (s.storeOp c now op).2 = .storeErr) (wid : Nat) :
    ((s.storeOp c now op).1.mem.settle.recv wid).2 = (s.mem.settle.recv wid).2 := by
  have := (store_error_invisible c s now op h).1
  rw [ensureLoaded_eq_spec, ensureLoaded_loaded c s hl] at this
  rw [this]

/-! ## C10.3 — `crash_prefix` -/

/-- the reference store if the operation in flight took effect -/
def afterInFlight (cfg : Cfg) (S : Store) : POp → Store
  | .store now op => (step cfg S now op).1
  | _ => S

/-- **The backing-store commit is the only thing a crash can split an operation at.** At every
    step boundary of the operation in flight the durable contents are the reference store
    either without or with that operation. -/
theorem boundaries_durable {E} (c : Codec E) (hrt : ∀ r, c.dec (c.enc r) = some r) {s : PSys} {S : Store}
    (h : Inv s S) (pop : POp) (p : PSys) (hp : p ∈ s.boundaries c pop) :
    p.mem.cfg = s.mem.cfg ∧ (p.D = S ∨ p.D = afterInFlight s.mem.cfg S pop) := by
  have hE : ∀ q : PSys, q = (Spec.Persist.exec c s pop).1 →
      q.mem.cfg = s.mem.cfg ∧ (q.D = S ∨ q.D = afterInFlight s.mem.cfg S pop) := by
    intro q hq
    subst hq
    refine ⟨exec_cfg c s pop, ?_⟩
    have hi := (inv_exec c hrt h pop).dEq
    cases pop with
    | store now op =>
      simp only [refStep] at hi
      split at hi
      · exact Or.inr hi
      · exact Or.inl hi
    | _ => exact Or.inl hi
  cases pop with
  | store now op =>
    have h1 := inv_ensureLoaded c hrt h
    have hcfg := ensureLoaded_cfg c s
    have hlast := hE (Spec.Persist.storeOp c s now op).1 rfl
    simp only [PSys.boundaries, List.mem_cons] at hp
    rcases hp with rfl | hp
    · exact ⟨rfl, Or.inl h.dEq⟩
    · -- the trace, with the regenerated order fact
      simp only [PSys.storeTrace, ensureLoaded_eq_spec, step_eq_spec, dWrite_eq_spec,
        Gen.Store.storeBeforeMemory, if_true] at hp
      unfold Spec.Persist.storeOp at hlast
      simp only [] at hlast
      split at hp
      · simp only [List.mem_singleton] at hp; subst hp; exact ⟨hcfg, Or.inl h1.dEq⟩
      · rename_i hok
        simp only [hok] at hlast
        split at hp
        · simp only [List.mem_singleton] at hp; subst hp; exact ⟨hcfg, Or.inl h1.dEq⟩
        · rename_i hwr
          simp only [hwr] at hlast
          split at hp
          · simp only [List.mem_cons, List.not_mem_nil, or_false] at hp
            rcases hp with rfl | rfl
            · exact ⟨hcfg, Or.inl h1.dEq⟩
            · exact ⟨hcfg, Or.inl h1.dEq⟩
          · rename_i hrej
            simp only [hrej] at hlast
            simp only [List.mem_cons, List.not_mem_nil, or_false] at hp
            rcases hp with rfl | rfl | rfl
            · exact ⟨hcfg, Or.inl h1.dEq⟩
            · exact ⟨hcfg, hlast.2⟩
            · exact hlast
  | wstart wid ns typ wk sel cap o =>
    simp only [PSys.boundaries, List.mem_cons, List.not_mem_nil, or_false] at hp
    rcases hp with rfl | rfl
    · exact ⟨rfl, Or.inl h.dEq⟩
    · exact hE _ (by rw [exec_eq_spec])
  | recv wid =>
    simp only [PSys.boundaries, List.mem_cons, List.not_mem_nil, or_false] at hp
    rcases hp with rfl | rfl
    · exact ⟨rfl, Or.inl h.dEq⟩
    · exact hE _ (by rw [exec_eq_spec])
  | wstop wid =>
    simp only [PSys.boundaries, List.mem_cons, List.not_mem_nil, or_false] at hp
    rcases hp with rfl | rfl
    · exact ⟨rfl, Or.inl h.dEq⟩
    · exact hE _ (by rw [exec_eq_spec])
  | crash =>
    simp only [PSys.boundaries, List.mem_cons, List.not_mem_nil, or_false] at hp
    rcases hp with rfl | rfl
    · exact ⟨rfl, Or.inl h.dEq⟩
    · exact hE _ (by rw [exec_eq_spec])
  | arm f =>
    simp only [PSys.boundaries, List.mem_cons, List.not_mem_nil, or_false] at hp
    rcases hp with rfl | rfl
    · exact ⟨rfl, Or.inl h.dEq⟩
    · exact hE _ (by rw [exec_eq_spec])

/-- a crash leaves a state that satisfies the invariant for whatever is durable -/
theorem inv_crash_of_durable {cfg : Cfg} {p : PSys} {S : Store} (hc : p.mem.cfg = cfg) (hS : WF cfg S)
    (hD : p.D = S) : Inv p.crash S :=
  ⟨by show WF p.mem.cfg S; rw [hc]; exact hS, hD, wf_nil _, fun hl => by simp [PSys.crash] at hl,
    fun _ => ⟨fun k r hg => by simp [PSys.crash, WSys.fresh] at hg, rfl⟩⟩

/-- **C10 `crash_prefix`.** Take any state `s0` whose durable contents are the reference store
    `S0` (for a fresh file: `S0 = []`, see `inv_fresh`), any history `pre` of completed
    operations (store ops, watch ops, earlier crashes, changes of the fault schedule — under any
    fault schedule), any operation `pop` in flight, any step boundary `p` of it at which the
    process is killed, any number `k` of Load attempts of the restarted process after which it is
    loaded. Then the memory it serves is, as a map with every field of every resource
    (version, owner, phase, finalizers, labels, payload = spec and annotations, creation and
    update time), the reference run of exactly the acknowledged store operations of `pre` —
    or of those plus the operation in flight. -/
theorem crash_prefix {E} (c : Codec E) (hrt : ∀ r, c.dec (c.enc r) = some r) {s0 : PSys} {S0 : Store}
    (h0 : Inv s0 S0) (pre : List POp) (pop : POp) (p : PSys)
    (hp : p ∈ (s0.run c pre).1.boundaries c pop) (k : Nat)
    (hl : (PSys.loadAttempts c k p.crash).loaded = true) :
    let acked := ackedOps pre (s0.run c pre).2
    let M := (PSys.loadAttempts c k p.crash).mem.store
    StoreEq M (refFrom s0.mem.cfg S0 acked) ∨
    (∃ now op, pop = .store now op ∧ StoreEq M (refFrom s0.mem.cfg S0 (acked ++ [(now, op)]))) := by
  intro acked M
  have hn := inv_run c hrt h0 pre
  rw [← run_eq_spec] at hn
  have hcfg : (s0.run c pre).1.mem.cfg = s0.mem.cfg := by rw [run_eq_spec]; exact run_cfg c s0 pre
  obtain ⟨hpc, hpd⟩ := boundaries_durable c hrt hn pop p hp
  rw [hcfg] at hpc hpd
  have hwfS : WF s0.mem.cfg (refFrom s0.mem.cfg S0 acked) := by
    have := hn.wfS; rw [hcfg] at this; exact this
  rcases hpd with hd | hd
  · left
    have hi := inv_loadAttempts c hrt (inv_crash_of_durable hpc hwfS hd) k
    exact hi.ld hl
  · cases pop with
    | store now op =>
      right
      refine ⟨now, op, rfl, ?_⟩
      rw [refFrom_append]
      have hi := inv_loadAttempts c hrt
        (inv_crash_of_durable (S := (step s0.mem.cfg (refFrom s0.mem.cfg S0 acked) now op).1) hpc
          (step_wf hwfS now op) hd) k
      exact hi.ld hl
    | _ =>
      left
      have hi := inv_loadAttempts c hrt (inv_crash_of_durable hpc hwfS hd) k
      exact hi.ld hl

/-- a state object on a fresh (empty) file satisfies the invariant with the empty reference -/
theorem inv_fresh (m0 : WSys) (f : Faults) (hs : m0.store = []) (hw : m0.watchers = []) :
    Inv { mem := m0, D := [], loaded := false, faults := f } [] :=
  ⟨wf_nil _, rfl, by show WF m0.cfg m0.store; rw [hs]; exact wf_nil _, fun hl => by simp at hl,
    fun _ => ⟨fun k r hg => by simp [hs] at hg, hw⟩⟩

/-- `crash_prefix` in the form of DESIGN.md: on a fresh file, reopen yields
    `run ∅ (filter ok prefix)` for the prefix without or with the operation in flight. -/
theorem crash_prefix_fresh {E} (c : Codec E) (hrt : ∀ r, c.dec (c.enc r) = some r) (m0 : WSys) (f : Faults)
    (hs : m0.store = []) (hw : m0.watchers = []) (pre : List POp) (pop : POp) (p : PSys)
    (hp : p ∈ (PSys.run c { mem := m0, D := [], loaded := false, faults := f } pre).1.boundaries c pop)
    (k : Nat) (hl : (PSys.loadAttempts c k p.crash).loaded = true) :
    let acked := ackedOps pre (PSys.run c { mem := m0, D := [], loaded := false, faults := f } pre).2
    let M := (PSys.loadAttempts c k p.crash).mem.store
    StoreEq M (refRun m0.cfg acked) ∨
    (∃ now op, pop = .store now op ∧ StoreEq M (refRun m0.cfg (acked ++ [(now, op)]))) :=
  crash_prefix c hrt (inv_fresh m0 f hs hw) pre pop p hp k hl

/-! ## C10.4 — `restart_transparent` -/

/-- two loaded states that hold the same map, the same durable contents and the same
    Put/Destroy fault schedule -/
structure Sim (a b : PSys) : Prop where
  la : a.loaded = true
  lb : b.loaded = true
  cfg : a.mem.cfg = b.mem.cfg
  D : a.D = b.D
  put : a.faults.put = b.faults.put
  destroy : a.faults.destroy = b.faults.destroy
  wfa : WF a.mem.cfg a.mem.store
  wfb : WF b.mem.cfg b.mem.store
  eq : StoreEq a.mem.store b.mem.store

theorem forWrite_congr {f g : Faults} (hp : f.put = g.put) (hd : f.destroy = g.destroy) (op : Op) :
    (f.forWrite op).1 = (g.forWrite op).1 ∧ (f.forWrite op).2.put = (g.forWrite op).2.put ∧
    (f.forWrite op).2.destroy = (g.forWrite op).2.destroy := by
  cases op <;> simp [Faults.forWrite, hp, hd]

theorem sim_storeOp {E} (c : Codec E) {a b : PSys} (h : Sim a b) (now : Nat) (op : Op) :
    (Spec.Persist.storeOp c a now op).2 = (Spec.Persist.storeOp c b now op).2 ∧
    Sim (Spec.Persist.storeOp c a now op).1 (Spec.Persist.storeOp c b now op).1 := by
  have hout : (Spec.step a.mem.cfg a.mem.store now op).2 = (Spec.step b.mem.cfg b.mem.store now op).2 := by
    rw [← step_eq_spec, ← step_eq_spec, h.cfg]
    exact step_congr_out (by rw [← h.cfg]; exact h.wfa) h.wfb h.eq now op
  obtain ⟨hf1, hf2, hf3⟩ := forWrite_congr h.put h.destroy op
  unfold Spec.Persist.storeOp
  simp only [ensureLoaded_loaded c a h.la, ensureLoaded_loaded c b h.lb, Bool.not_true, Bool.false_eq_true,
    if_false, hout, hf1]
  split
  · exact ⟨rfl, h⟩
  · split
    · exact ⟨rfl, ⟨h.la, h.lb, h.cfg, h.D, hf2, hf3, h.wfa, h.wfb, h.eq⟩⟩
    · refine ⟨rfl, ⟨h.la, h.lb, ?_, ?_, hf2, hf3, ?_, ?_, ?_⟩⟩
      · show (a.mem.storeOp now op).1.cfg = (b.mem.storeOp now op).1.cfg
        rw [storeOp_cfg, storeOp_cfg]; exact h.cfg
      · show Spec.Persist.dWrite a.mem.cfg a.D op _ = Spec.Persist.dWrite b.mem.cfg b.D op _
        rw [h.cfg, h.D]
      · show WF (a.mem.storeOp now op).1.cfg (a.mem.storeOp now op).1.store
        rw [storeOp_cfg, storeOp_store]; exact step_wf h.wfa now op
      · show WF (b.mem.storeOp now op).1.cfg (b.mem.storeOp now op).1.store
        rw [storeOp_cfg, storeOp_store]; exact step_wf h.wfb now op
      · show StoreEq (a.mem.storeOp now op).1.store (b.mem.storeOp now op).1.store
        rw [storeOp_store, storeOp_store, h.cfg]; exact step_congr_store h.eq now op

def storeOps (l : List (Nat × Op)) : List POp := l.map fun p => .store p.1 p.2

theorem sim_run {E} (c : Codec E) {a b : PSys} (h : Sim a b) (ops : List (Nat × Op)) :
    (Spec.Persist.run c a (storeOps ops)).2 = (Spec.Persist.run c b (storeOps ops)).2 ∧
    Sim (Spec.Persist.run c a (storeOps ops)).1 (Spec.Persist.run c b (storeOps ops)).1 := by
  induction ops generalizing a b with
  | nil => exact ⟨rfl, h⟩
  | cons op ops ih =>
    obtain ⟨h1, h2⟩ := sim_storeOp c h op.1 op.2
    obtain ⟨h3, h4⟩ := ih h2
    simp only [storeOps, List.map_cons, Spec.Persist.run, Spec.Persist.exec] at h3 h4 ⊢
    exact ⟨by rw [h1, h3], h4⟩

/-- a restarted and reloaded state simulates the state that never restarted -/
theorem sim_restart {E} (c : Codec E) (hrt : ∀ r, c.dec (c.enc r) = some r) {s : PSys} {S : Store}
    (h : Inv s S) (hl : s.loaded = true) (k : Nat)
    (hk : (PSys.loadAttempts c k s.crash).loaded = true) : Sim (PSys.loadAttempts c k s.crash) s := by
  have hi := inv_loadAttempts c hrt (inv_crash h) k
  obtain ⟨f1, f2, f3, f4⟩ := loadAttempts_frame c k s.crash
  have hc : (PSys.loadAttempts c k s.crash).mem.cfg = s.mem.cfg := f1
  exact ⟨hk, hl, hc, f2, f3, f4, hi.wfM, h.wfM, (hi.ld hk).trans (h.ld hl).symm⟩

/-- **C10 `restart_transparent`, one step.** After a crash at a quiescent point and a reload
    (after any number of failed Load attempts), a store operation returns what it would have
    returned without the restart, writes the same durable contents and leaves the same map in
    memory. -/
theorem restart_transparent {E} (c : Codec E) (hrt : ∀ r, c.dec (c.enc r) = some r) {s : PSys} {S : Store}
    (h : Inv s S) (hl : s.loaded = true) (k : Nat)
    (hk : (PSys.loadAttempts c k s.crash).loaded = true) (now : Nat) (op : Op) :
    ((PSys.loadAttempts c k s.crash).storeOp c now op).2 = (s.storeOp c now op).2 ∧
    ((PSys.loadAttempts c k s.crash).storeOp c now op).1.D = (s.storeOp c now op).1.D ∧
    StoreEq ((PSys.loadAttempts c k s.crash).storeOp c now op).1.mem.store (s.storeOp c now op).1.mem.store := by
  rw [storeOp_eq_spec, storeOp_eq_spec]
  obtain ⟨h1, h2⟩ := sim_storeOp c (sim_restart c hrt h hl k hk) now op
  exact ⟨h1, h2.D, h2.eq⟩

/-- **… and every later operation**: whole runs of store operations after the restart are
    indistinguishable (outputs, durable contents, memory map) from the run without it. -/
theorem restart_transparent_run {E} (c : Codec E) (hrt : ∀ r, c.dec (c.enc r) = some r) {s : PSys} {S : Store}
    (h : Inv s S) (hl : s.loaded = true) (k : Nat)
    (hk : (PSys.loadAttempts c k s.crash).loaded = true) (ops : List (Nat × Op)) :
    ((PSys.loadAttempts c k s.crash).run c (storeOps ops)).2 = (s.run c (storeOps ops)).2 ∧
    ((PSys.loadAttempts c k s.crash).run c (storeOps ops)).1.D = (s.run c (storeOps ops)).1.D ∧
    StoreEq ((PSys.loadAttempts c k s.crash).run c (storeOps ops)).1.mem.store
      (s.run c (storeOps ops)).1.mem.store := by
  rw [run_eq_spec, run_eq_spec]
  obtain ⟨h1, h2⟩ := sim_run c (sim_restart c hrt h hl k hk) ops
  exact ⟨h1, h2.D, h2.eq⟩

/-- with a backing store whose next Load works, the restart needs no separate step: the first
    operation on the restarted state loads lazily and already answers as if nothing happened -/
theorem restart_transparent_lazy {E} (c : Codec E) (hrt : ∀ r, c.dec (c.enc r) = some r) {s : PSys} {S : Store}
    (h : Inv s S) (hl : s.loaded = true) (hk : (s.crash.ensureLoaded c).1.loaded = true)
    (now : Nat) (op : Op) :
    (s.crash.storeOp c now op).2 = (s.storeOp c now op).2 ∧
    (s.crash.storeOp c now op).1.D = (s.storeOp c now op).1.D := by
  have hk' : (PSys.loadAttempts c 1 s.crash).loaded = true := hk
  obtain ⟨h1, h2, _⟩ := restart_transparent c hrt h hl 1 hk' now op
  have hs : (PSys.loadAttempts c 1 s.crash).storeOp c now op = s.crash.storeOp c now op := by
    show ((s.crash.ensureLoaded c).1).storeOp c now op = s.crash.storeOp c now op
    rw [storeOp_eq_spec, storeOp_eq_spec, ensureLoaded_eq_spec]
    rw [ensureLoaded_eq_spec] at hk
    unfold Spec.Persist.storeOp
    rw [ensureLoaded_loaded c _ hk]
    have : (Spec.Persist.ensureLoaded c s.crash).2 = true := by
      unfold Spec.Persist.ensureLoaded at hk ⊢
      simp only [PSys.crash, Bool.false_eq_true, if_false] at hk ⊢
      exact hk
    generalize Spec.Persist.ensureLoaded c s.crash = e at this ⊢
    obtain ⟨e1, e2⟩ := e
    simp only at this
    subst this
    rfl
  rw [← hs]
  exact ⟨h1, h2⟩

/-! ### non-vacuity: concrete histories meet the hypotheses above -/

def exCodec : Codec Res := { enc := id, dec := some }

def exR (id : String) : Res :=
  { ns := "n1", typ := "T1", id := id, ver := none, owner := "", phase := .running, fins := [],
    labels := [("k", "v")], created := 0, updated := 0, spec := "x|a=a1:y" }

/-- a state object on a fresh file -/
def ex0 : PSys := { mem := { cfg := { nsAware := false } } }

example : Inv ex0 [] := inv_fresh _ _ rfl rfl

def isStoreErr : POut → Bool
  | .storeErr => true
  | _ => false

def isLoadErr : POut → Bool
  | .loadErr => true
  | _ => false

/-- the second Put is rejected: create a ✓, create b ✗ (store error), create b again ✓ -/
def exHist : List POp :=
  [.arm (fun f => { f with put := [false, true] }), .store 1 (.create (exR "a") ""),
   .store 2 (.create (exR "b") ""), .store 3 (.create (exR "b") "")]

example : (ex0.run exCodec exHist).2.map POut.acked = [false, true, false, true] := by decide
example : (ex0.run exCodec exHist).2.map isStoreErr = [false, false, true, false] := by decide
example : (ackedOps exHist (ex0.run exCodec exHist).2).map (·.1) = [1, 3] := by decide

/-- `store_error_invisible` / `store_error_fails`: the state before the rejected create -/
def exS1 : PSys := (ex0.run exCodec (exHist.take 2)).1

example : exS1.loaded = true ∧ isWrite (.create (exR "b") "") = true ∧
    (step exS1.mem.cfg exS1.mem.store 2 (.create (exR "b") "")).2.isErr = false ∧
    (exS1.faults.forWrite (.create (exR "b") "")).1 = true := by decide
example : isStoreErr (exS1.storeOp exCodec 2 (.create (exR "b") "")).2 = true := by decide

/-- `crash_prefix`: killed between the durable write of `create b` and the memory write — the
    op in flight is durable, unacknowledged, and comes back after the reload -/
def exS2 : PSys := (ex0.run exCodec [.store 1 (.create (exR "a") "")]).1
def exP : PSys := (exS2.boundaries exCodec (.store 2 (.create (exR "b") ""))).getD 2 ex0

example : (exS2.boundaries exCodec (.store 2 (.create (exR "b") ""))).length = 4 := by decide
example : exP ∈ exS2.boundaries exCodec (.store 2 (.create (exR "b") "")) := by
  have hlen : 2 < (exS2.boundaries exCodec (.store 2 (.create (exR "b") ""))).length := by decide
  simp only [exP, List.getD, List.getElem?_eq_getElem hlen, Option.getD_some]
  exact List.getElem_mem hlen
example : exP.D.map (·.1) = [("", "T1", "b"), ("", "T1", "a")] ∧
    exP.mem.store.map (·.1) = [("", "T1", "a")] := by decide
example : (PSys.loadAttempts exCodec 1 exP.crash).loaded = true ∧
    (PSys.loadAttempts exCodec 1 exP.crash).mem.store.map (·.2.id) = ["b", "a"] ∧
    (PSys.loadAttempts exCodec 1 exP.crash).mem.store.map (·.2.ver) = [some 1, some 1] ∧
    (PSys.loadAttempts exCodec 1 exP.crash).mem.store.map (·.2.created) = [2, 1] := by decide

/-- `load_retry`: two durable resources, the first Load of the restarted process fails after
    one of them: partial image, not loaded, operations get the load error; the second Load
    succeeds and memory is the durable contents -/
def exS3 : PSys :=
  (ex0.run exCodec [.store 1 (.create (exR "a") ""), .store 2 (.create (exR "b") ""), .crash,
    .arm (fun f => { f with load := [some 1] })]).1

example : (exS3.ensureLoaded exCodec).2 = false ∧
    (exS3.ensureLoaded exCodec).1.mem.store.map (·.2.id) = ["a"] ∧
    isLoadErr (exS3.exec exCodec (.store 3 (.get "n1" "T1" "a"))).2 = true := by decide
example : (PSys.loadAttempts exCodec 1 exS3).loaded = false ∧
    (PSys.loadAttempts exCodec 2 exS3).loaded = true ∧
    (PSys.loadAttempts exCodec 2 exS3).mem.store.map (·.2.id) = ["b", "a"] := by decide
/-- the residue outside C10's statement: the retried Load published `a` a second time -/
example : ((PSys.loadAttempts exCodec 2 exS3).mem.ring ("", "T1")).log.map (·.res.id) = ["a", "a", "b"] := by
  decide

/-- `restart_transparent`: a loaded state that satisfies the invariant and whose restart loads -/
def exS4 : PSys := (ex0.run exCodec exHist).1

example : exS4.loaded = true ∧ (PSys.loadAttempts exCodec 1 exS4.crash).loaded = true := by decide
example : ∃ S, Inv exS4 S := ⟨_, by
  have := inv_run exCodec (fun _ => rfl) (inv_fresh ex0.mem ex0.faults rfl rfl) exHist
  rw [← run_eq_spec] at this
  exact this⟩

end Cosi.C10
