/-
  Property C02, second part — the watch log is the history of the store.

    log_replays_to_store     after ANY sequence of store operations the ghost log of each kind replays to
                             that kind's current contents (the publish of every successful write happens
                             in the same atomic step as the write, collection.go:166/221/262)
    replay_reproduces_state  replaying what a kind watcher receives after its start position over the
                             snapshot it was given reproduces the store's current contents
    updated_old_is_previous  an Updated event's old value is the previously stored (= previously logged)
                             value and the new version is exactly one higher
  Together with C02.delivered_is_log_segment (what a watcher receives IS the log segment) these are the
  remaining clauses of the property statement.
-/
import Cosi.Props.C02
import Cosi.Props.C04
open Cosi
namespace Cosi.C02

theorem find_filter_ne {β : Type} (l : List ((String × String) × β)) (k k' : String × String) (h : k' ≠ k) :
    (l.filter (fun x => x.1 ≠ k)).find? (fun x => x.1 = k') = l.find? (fun x => x.1 = k') := by
  induction l with
  | nil => rfl
  | cons x xs ih =>
    by_cases h1 : x.1 = k
    · have h2 : ¬ x.1 = k' := by rw [h1]; exact fun e => h e.symm
      rw [List.filter_cons, if_neg (by simpa using h1), List.find?_cons, ih]
      simp [h2]
    · rw [List.filter_cons, if_pos (by simpa using h1), List.find?_cons, List.find?_cons, ih]

theorem ring_setRing_self (s : WSys) (k : String × String) (r : Ring) : (s.setRing k r).ring k = r := by
  simp [WSys.ring, WSys.setRing]

theorem ring_setRing_other (s : WSys) (k k' : String × String) (r : Ring) (h : k' ≠ k) :
    (s.setRing k r).ring k' = s.ring k' := by
  unfold WSys.ring WSys.setRing
  have hne : ¬ k = k' := fun e => h e.symm
  simp only [List.find?_cons, hne, decide_false]
  rw [find_filter_ne s.rings k k' h]

/-- apply one change event to a map id ↦ resource -/
def applyEv (m : String → Option Res) (e : Event) : String → Option Res :=
  match e.typ with
  | .created | .updated => fun id => if id = e.res.id then some e.res else m id
  | .destroyed => fun id => if id = e.res.id then none else m id
  | _ => m

/-- replaying a log over the empty collection -/
def replayF (log : List Event) : String → Option Res := log.foldl applyEv (fun _ => none)

theorem replayF_snoc (log : List Event) (e : Event) : replayF (log ++ [e]) = applyEv (replayF log) e := by
  simp [replayF, List.foldl_append]

/-- the ghost log of every kind replays to that kind's current contents, and every stored
    value sits under its own id -/
structure LogInv (s : WSys) : Prop where
  replay : ∀ nk typ id, replayF (s.ring (nk, typ)).log id = s.store.get (nk, typ, id)
  ids : ∀ nk typ id r, s.store.get (nk, typ, id) = some r → r.id = id

theorem publish_log_stamp (r : Ring) (e : Event) : (r.publish e).log = r.log ++ [stamp r e] := publish_log r e

theorem stamp_fields (r : Ring) (e : Event) : (stamp r e).typ = e.typ ∧ (stamp r e).res = e.res ∧ (stamp r e).old = e.old := by
  simp [stamp]

theorem applyEv_stamp (m : String → Option Res) (r : Ring) (e : Event) : applyEv m (stamp r e) = applyEv m e := rfl

/-- the effect of publishing an event into kind `k` and replacing the store, on the invariant -/
theorem loginv_write (s : WSys) (k : String × String) (ev : Event) (st' : Store) (hinv : LogInv s)
    (hstore : ∀ nk typ id, st'.get (nk, typ, id) =
      if (nk, typ) = k then applyEv (fun i => s.store.get (k.1, k.2, i)) ev id else s.store.get (nk, typ, id))
    (hids : ∀ nk typ id r, st'.get (nk, typ, id) = some r → r.id = id) :
    LogInv (({ s with store := st' } : WSys).setRing k ((s.ring k).publish ev)) := by
  refine ⟨?_, ?_⟩
  · intro nk typ id
    show replayF ((WSys.setRing { s with store := st' } k ((s.ring k).publish ev)).ring (nk, typ)).log id = st'.get (nk, typ, id)
    rw [hstore]
    by_cases hk : (nk, typ) = k
    · rw [if_pos hk, hk, ring_setRing_self, publish_log_stamp, replayF_snoc, applyEv_stamp]
      have : replayF (s.ring k).log = fun i => s.store.get (k.1, k.2, i) := by
        funext i; exact hinv.replay k.1 k.2 i
      rw [this]
    · rw [if_neg hk, ring_setRing_other _ _ _ _ hk]
      exact hinv.replay nk typ id
  · exact hids

theorem destroy_ok_or_err (cfg : Cfg) (s : Store) (now : Nat) (ns typ id o : String) :
    (∃ cur, s.get (cfg.key ns typ id) = some cur ∧ (step cfg s now (.destroy ns typ id o)) = (s.del (cfg.key ns typ id), .ok)) ∨
    (∃ e, (step cfg s now (.destroy ns typ id o)) = (s, .err e)) := by
  rw [C01.step_eq_spec]
  simp only [Spec.step]
  cases hg : s.get (cfg.key ns typ id) with
  | none => exact Or.inr ⟨_, rfl⟩
  | some cur =>
    simp only
    by_cases h1 : cur.owner ≠ o
    · rw [if_pos h1]; exact Or.inr ⟨_, rfl⟩
    · rw [if_neg h1]
      by_cases h2 : cur.fins ≠ []
      · rw [if_pos h2]; exact Or.inr ⟨_, rfl⟩
      · rw [if_neg h2]; exact Or.inl ⟨cur, rfl, rfl⟩

theorem storeOp_read (s : WSys) (now : Nat) (op : Op)
    (hop : (∃ ns typ id, op = .get ns typ id) ∨ (∃ ns typ sel, op = .list ns typ sel)) :
    (s.storeOp now op).1 = { s with store := (step s.cfg s.store now op).1 } := by
  unfold WSys.storeOp
  rcases hop with ⟨ns, typ, id, rfl⟩ | ⟨ns, typ, sel, rfl⟩ <;>
    (cases h : step s.cfg s.store now _ with
     | mk st' out => cases out <;> rfl)

theorem storeOp_loginv (s : WSys) (now : Nat) (op : Op) (hinv : LogInv s) : LogInv (s.storeOp now op).1 := by
  cases op with
  | get ns typ id =>
    rw [storeOp_read s now _ (Or.inl ⟨ns, typ, id, rfl⟩)]
    have : (step s.cfg s.store now (.get ns typ id)).1 = s.store := by
      rw [C01.step_eq_spec]; simp only [Spec.step]; split <;> rfl
    rw [this]
    exact ⟨hinv.replay, hinv.ids⟩
  | list ns typ sel =>
    rw [storeOp_read s now _ (Or.inr ⟨ns, typ, sel, rfl⟩)]
    exact ⟨hinv.replay, hinv.ids⟩
  | create r o =>
    rcases C04.create_err_or_wrote s.cfg s.store now r o with ⟨r', hw⟩ | ⟨e, he, hst⟩
    · obtain ⟨habs, hr', hst⟩ := C04.create_wrote s.cfg s.store now r o r' hw
      have hso : (s.storeOp now (.create r o)).1 =
          ({ s with store := s.store.put (r.key s.cfg) r' } : WSys).setRing (s.rkey r.ns r.typ)
            ((s.ring (s.rkey r.ns r.typ)).publish { typ := .created, res := r' }) := by
        unfold WSys.storeOp
        cases h : step s.cfg s.store now (.create r o) with
        | mk st' out => rw [h] at hw hst; simp only at hw hst; subst hw; subst hst; rfl
      rw [hso]
      subst hr'
      apply loginv_write s _ _ _ hinv
      · intro nk typ id
        by_cases hk : (nk, typ) = s.rkey r.ns r.typ
        · rw [if_pos hk]
          have hk1 : nk = (s.rkey r.ns r.typ).1 := by rw [← hk]
          have hk2 : typ = (s.rkey r.ns r.typ).2 := by rw [← hk]
          subst hk1; subst hk2
          unfold applyEv
          simp only
          by_cases hid : id = r.id
          · subst hid
            rw [if_pos rfl]
            have : ((s.rkey r.ns r.typ).1, (s.rkey r.ns r.typ).2, r.id) = r.key s.cfg := by
              simp [WSys.rkey, Res.key, Cfg.key]
            rw [this, C01.get_put_self]
          · rw [if_neg hid]
            have : ((s.rkey r.ns r.typ).1, (s.rkey r.ns r.typ).2, id) ≠ r.key s.cfg := by
              simp [WSys.rkey, Res.key, Cfg.key, hid]
            rw [C01.get_put_other _ _ _ _ this]
        · rw [if_neg hk]
          have : (nk, typ, id) ≠ r.key s.cfg := by
            intro e; apply hk
            simp only [Res.key, Cfg.key, Prod.mk.injEq] at e
            simp [WSys.rkey, e.1, e.2.1]
          rw [C01.get_put_other _ _ _ _ this]
      · intro nk typ id x hx
        by_cases hkey : (nk, typ, id) = r.key s.cfg
        · rw [hkey, C01.get_put_self] at hx
          injection hx with hx; subst hx
          simp only [Res.key, Cfg.key, Prod.mk.injEq] at hkey
          exact hkey.2.2.symm
        · rw [C01.get_put_other _ _ _ _ hkey] at hx; exact hinv.ids nk typ id x hx
    · have hso : (s.storeOp now (.create r o)).1 = s := by
        unfold WSys.storeOp
        cases h : step s.cfg s.store now (.create r o) with
        | mk st' out => rw [h] at he hst; simp only at he hst; subst he; subst hst; rfl
      rw [hso]; exact hinv
  | update r o e =>
    rcases C04.update_err_or_wrote s.cfg s.store now r o e with ⟨r', hw⟩ | ⟨e', he, hst⟩
    · obtain ⟨c, hget, _, _, hr', hst⟩ := C04.update_wrote s.cfg s.store now r o e r' hw
      have hso : (s.storeOp now (.update r o e)).1 =
          ({ s with store := s.store.put (r.key s.cfg) r' } : WSys).setRing (s.rkey r.ns r.typ)
            ((s.ring (s.rkey r.ns r.typ)).publish { typ := .updated, res := r', old := s.store.get (r.key s.cfg) }) := by
        unfold WSys.storeOp
        cases h : step s.cfg s.store now (.update r o e) with
        | mk st' out => rw [h] at hw hst; simp only at hw hst; subst hw; subst hst; rfl
      rw [hso]
      subst hr'
      apply loginv_write s _ _ _ hinv
      · intro nk typ id
        by_cases hk : (nk, typ) = s.rkey r.ns r.typ
        · rw [if_pos hk]
          have hk1 : nk = (s.rkey r.ns r.typ).1 := by rw [← hk]
          have hk2 : typ = (s.rkey r.ns r.typ).2 := by rw [← hk]
          subst hk1; subst hk2
          unfold applyEv
          simp only
          by_cases hid : id = r.id
          · subst hid
            rw [if_pos rfl]
            have : ((s.rkey r.ns r.typ).1, (s.rkey r.ns r.typ).2, r.id) = r.key s.cfg := by
              simp [WSys.rkey, Res.key, Cfg.key]
            rw [this, C01.get_put_self]
          · rw [if_neg hid]
            have : ((s.rkey r.ns r.typ).1, (s.rkey r.ns r.typ).2, id) ≠ r.key s.cfg := by
              simp [WSys.rkey, Res.key, Cfg.key, hid]
            rw [C01.get_put_other _ _ _ _ this]
        · rw [if_neg hk]
          have : (nk, typ, id) ≠ r.key s.cfg := by
            intro e; apply hk
            simp only [Res.key, Cfg.key, Prod.mk.injEq] at e
            simp [WSys.rkey, e.1, e.2.1]
          rw [C01.get_put_other _ _ _ _ this]
      · intro nk typ id x hx
        by_cases hkey : (nk, typ, id) = r.key s.cfg
        · rw [hkey, C01.get_put_self] at hx
          injection hx with hx; subst hx
          simp only [Res.key, Cfg.key, Prod.mk.injEq] at hkey
          exact hkey.2.2.symm
        · rw [C01.get_put_other _ _ _ _ hkey] at hx; exact hinv.ids nk typ id x hx
    · have hso : (s.storeOp now (.update r o e)).1 = s := by
        unfold WSys.storeOp
        cases h : step s.cfg s.store now (.update r o e) with
        | mk st' out => rw [h] at he hst; simp only at he hst; subst he; subst hst; rfl
      rw [hso]; exact hinv
  | destroy ns typ id o =>
    rcases destroy_ok_or_err s.cfg s.store now ns typ id o with ⟨cur, hget, hstep⟩ | ⟨e, hstep⟩
    · have hso : (s.storeOp now (.destroy ns typ id o)).1 =
          ({ s with store := s.store.del (s.cfg.key ns typ id) } : WSys).setRing (s.rkey ns typ)
            ((s.ring (s.rkey ns typ)).publish { typ := .destroyed, res := cur }) := by
        unfold WSys.storeOp
        rw [hstep]; simp only [hget]
      rw [hso]
      have hcid : cur.id = id := hinv.ids _ _ _ cur hget
      apply loginv_write s _ _ _ hinv
      · intro nk typ' id'
        by_cases hk : (nk, typ') = s.rkey ns typ
        · rw [if_pos hk]
          have hk1 : nk = (s.rkey ns typ).1 := by rw [← hk]
          have hk2 : typ' = typ := by
            have : typ' = (s.rkey ns typ).2 := by rw [← hk]
            exact this
          rw [hk1, hk2]
          unfold applyEv
          simp only [hcid]
          have hkey : ((s.rkey ns typ).1, typ, id) = s.cfg.key ns typ id := by
            simp [WSys.rkey, Cfg.key]
          by_cases hid : id' = id
          · subst hid; rw [if_pos rfl, hkey, C01.get_del_self]
          · rw [if_neg hid]
            have : ((s.rkey ns typ).1, typ, id') ≠ s.cfg.key ns typ id := by
              simp [WSys.rkey, Cfg.key, hid]
            rw [C01.get_del_other _ _ _ this]
            rfl
        · rw [if_neg hk]
          have : (nk, typ', id') ≠ s.cfg.key ns typ id := by
            intro e; apply hk
            simp only [Cfg.key, Prod.mk.injEq] at e
            simp [WSys.rkey, e.1, e.2.1]
          rw [C01.get_del_other _ _ _ this]
      · intro nk typ' id' x hx
        by_cases hkey : (nk, typ', id') = s.cfg.key ns typ id
        · rw [hkey, C01.get_del_self] at hx; cases hx
        · rw [C01.get_del_other _ _ _ hkey] at hx; exact hinv.ids nk typ' id' x hx
    · have hso : (s.storeOp now (.destroy ns typ id o)).1 = s := by
        unfold WSys.storeOp
        rw [hstep]
      rw [hso]; exact hinv

theorem empty_loginv (cfg : Cfg) (i m g : Nat) : LogInv { cfg := cfg, initCap := i, maxCap := m, gap := g } := by
  refine ⟨?_, ?_⟩
  · intro nk typ id; simp [WSys.ring, Ring.new, replayF, Store.get]
  · intro nk typ id r h; simp [Store.get] at h

/-- run a sequence of store operations on the state with its rings -/
def WSys.runOps (s : WSys) (t0 : Nat) : List Op → WSys
  | [] => s
  | op :: ops => WSys.runOps (s.storeOp t0 op).1 (t0 + 1) ops

/-- **The log of a kind is the history of that kind**: after ANY sequence of store
    operations, replaying the ghost log of each kind over the empty collection yields
    exactly that kind's current contents. -/
theorem log_replays_to_store (ops : List Op) : ∀ (s : WSys) (t0 : Nat), LogInv s → LogInv (WSys.runOps s t0 ops) := by
  induction ops with
  | nil => intro s _ h; exact h
  | cons op ops ih => intro s t0 h; exact ih _ _ (storeOp_loginv s t0 op h)

/-- **replay_reproduces_state**: replaying the events a kind watcher receives after its
    start position `p0` (C02.delivered_is_log_segment: exactly `log[p0, writePos)` at
    quiescence) over the snapshot it was given at `p0` (the replay of `log[0, p0)`, by this
    same theorem at the time the watch started) reproduces the current contents. -/
theorem replay_reproduces_state (s : WSys) (hinv : LogInv s) (nk typ : String) (p0 : Nat) :
    (seg (s.ring (nk, typ)).log p0 (s.ring (nk, typ)).log.length).foldl applyEv
        (replayF ((s.ring (nk, typ)).log.take p0)) = fun id => s.store.get (nk, typ, id) := by
  rw [seg_to_end]
  have : ((s.ring (nk, typ)).log.drop p0).foldl applyEv (replayF ((s.ring (nk, typ)).log.take p0))
      = replayF (s.ring (nk, typ)).log := by
    unfold replayF
    rw [← List.foldl_append, List.take_append_drop]
  rw [this]
  funext id
  exact hinv.replay nk typ id

/-- **updated_old_is_previous**: the event a successful Update publishes carries as `old`
    the value stored (= the value last logged for that id) immediately before, and the new
    version is exactly one higher. -/
theorem updated_old_is_previous (s : WSys) (hinv : LogInv s) (now : Nat) (r : Res) (o : String) (e : Option Phase)
    (r' : Res) (hw : (step s.cfg s.store now (.update r o e)).2 = .wrote r') :
    ∃ cur, replayF (s.ring (s.rkey r.ns r.typ)).log r.id = some cur ∧
      ((s.storeOp now (.update r o e)).1.ring (s.rkey r.ns r.typ)).log =
        (s.ring (s.rkey r.ns r.typ)).log ++
          [stamp (s.ring (s.rkey r.ns r.typ)) { typ := .updated, res := r', old := some cur }] ∧
      r'.ver = some (cur.ver.getD 0 + 1) := by
  obtain ⟨c, hget, _, hver, hr', hst⟩ := C04.update_wrote s.cfg s.store now r o e r' hw
  have hkey : r.key s.cfg = ((s.rkey r.ns r.typ).1, (s.rkey r.ns r.typ).2, r.id) := by
    simp [WSys.rkey, Res.key, Cfg.key]
  refine ⟨c, ?_, ?_, ?_⟩
  · rw [hinv.replay, ← hkey]; exact hget
  · have hso : (s.storeOp now (.update r o e)).1 =
        ({ s with store := s.store.put (r.key s.cfg) r' } : WSys).setRing (s.rkey r.ns r.typ)
          ((s.ring (s.rkey r.ns r.typ)).publish { typ := .updated, res := r', old := s.store.get (r.key s.cfg) }) := by
      unfold WSys.storeOp
      cases h : step s.cfg s.store now (.update r o e) with
      | mk st' out => rw [h] at hw hst; simp only at hw hst; subst hw; subst hst; rfl
    rw [hso, ring_setRing_self, publish_log_stamp, hget]
  · rw [hr', hver]


/-! ### writes rejected by the backing store -/

/-- **A write the backing store rejects leaves the state, every watch log and every watcher
    untouched** (and fails): nothing is published for it, so replaying any watch stream still
    reproduces the state. Rests on the regenerated order of collection.go's Create/Update/Destroy
    (backing store call before the memory write and the publish). -/
theorem rejected_write_untouched (s : WSys) (now : Nat) (op : Op) :
    (s.storeOpBS true now op).1 = s ∨ (s.storeOpBS true now op) = s.storeOp now op := by
  unfold WSys.storeOpBS
  by_cases hc : (true && op.isWrite && (s.storeOp now op).2.isWrite) = true
  · left; simp only [hc, if_true, Gen.Store.storeBeforeMemory]
  · right; simp only [hc]; rfl

/-- a rejected write is reported as an error, never as success -/
theorem rejected_write_fails (s : WSys) (now : Nat) (op : Op)
    (h : (s.storeOpBS true now op).1 ≠ (s.storeOp now op).1) :
    (s.storeOpBS true now op).2.isErr = true := by
  unfold WSys.storeOpBS at *
  by_cases hc : (true && op.isWrite && (s.storeOp now op).2.isWrite) = true
  · simp only [hc, if_true]; rfl
  · simp only [hc] at h; exact absurd rfl h

/-- without a rejection the backing store is invisible -/
theorem accepted_write_same (s : WSys) (now : Nat) (op : Op) :
    s.storeOpBS false now op = s.storeOp now op := by
  simp [WSys.storeOpBS]

end Cosi.C02
