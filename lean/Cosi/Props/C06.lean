/-
  Property C06 — generic transform controllers converge to the mapped image of their inputs.

  About the QTransform machine of Cosi.Model.QTransform (per input/output pair; mapping
  functions are injective on ids, transforms are pure — both hypotheses of the property's
  setting). The specification `QT.specOk` is the property's statement on the abstract pair:
    input treated as running   ⇒ the output exists, is running and carries the latest
                                  transformed content — unless an old output is still held by a
                                  foreign finalizer while tearing down;
    input torn down or absent  ⇒ no output — unless a foreign finalizer still holds it;
    input torn down, output gone ⇒ the controller's finalizer is no longer on the input.

    pass_returns_idle            a reconcile with nobody interfering always terminates (≤ 6 actions)
    one_pass_reaches_spec        from ANY safe quiet state one reconcile pass reaches a state satisfying
                                 the spec (bounded convergence, bound = 1 pass per pair)
    spec_state_is_fixpoint       … and a further pass changes nothing (the spec states are fixpoints)
    reconcile_fixpoint_is_spec   conversely, a state that a pass leaves unchanged satisfies the spec
    quiescent_is_spec            with C05 (every change is followed by a reconcile of that item after it
                                 is visible): when the system is quiet, every pair satisfies the spec

  The REAL Transform/QTransform/Destroy/Cleanup controllers are checked against the same
  specification (`Ctrl.specViolations`) at every quiescence point of the recorded runs of
  engine `ctrl`.
-/
import Cosi.Props.C07

namespace Cosi.C06
open Cosi Cosi.QT Cosi.C07

/-- a quiet, safe pair state: the controller is idle and the C07 guard holds -/
def quietSafe (p : Pair) : Bool :=
  p.out.isNone || (match p.inp with
    | some i => i.ctlFin
    | none => false)

def mk (p : Pair) (ign : Bool) : Sys := { p := p, ignoreTeardown := ign }

theorem pass_returns_idle (p : Pair) (ign : Bool) : (pass (mk p ign)).pc = .idle := by
  obtain ⟨inp, out⟩ := p
  rcases inp with _ | ⟨ph, cf, fo⟩ <;> rcases out with _ | ⟨oph, ofo, ofr⟩ <;>
    cases ign <;> (try cases ph) <;> (try cases cf) <;> (try cases fo) <;>
    (try cases oph) <;> (try cases ofo) <;> (try cases ofr) <;> decide

/-- **Bounded convergence.** From any quiet safe state, with no further external change
    and no transient error, ONE reconcile pass reaches a state that satisfies the
    specification. -/
theorem one_pass_reaches_spec (p : Pair) (ign : Bool) (h : quietSafe p = true) :
    specOk (pass (mk p ign)) = true := by
  obtain ⟨inp, out⟩ := p
  rcases inp with _ | ⟨ph, cf, fo⟩ <;> rcases out with _ | ⟨oph, ofo, ofr⟩ <;>
    cases ign <;> (try cases ph) <;> (try cases cf) <;> (try cases fo) <;>
    (try cases oph) <;> (try cases ofo) <;> (try cases ofr) <;>
    first | decide | (exact absurd h (by decide))

/-- the state reached is a fixpoint: reconciling again writes nothing -/
theorem spec_state_is_fixpoint (p : Pair) (ign : Bool) (h : quietSafe p = true) :
    (pass (mk (pass (mk p ign)).p ign)).p = (pass (mk p ign)).p := by
  obtain ⟨inp, out⟩ := p
  rcases inp with _ | ⟨ph, cf, fo⟩ <;> rcases out with _ | ⟨oph, ofo, ofr⟩ <;>
    cases ign <;> (try cases ph) <;> (try cases cf) <;> (try cases fo) <;>
    (try cases oph) <;> (try cases ofo) <;> (try cases ofr) <;>
    first | decide | (exact absurd h (by decide))

/-- **reconcile_fixpoint_is_spec**: if reconciling the item performs no write and returns
    neither an error nor "pending", the pair satisfies the specification. -/
theorem reconcile_fixpoint_is_spec (p : Pair) (ign : Bool) (h : quietSafe p = true)
    (hfix : (pass (mk p ign)).p = p) : specOk (mk p ign) = true := by
  obtain ⟨inp, out⟩ := p
  rcases inp with _ | ⟨ph, cf, fo⟩ <;> rcases out with _ | ⟨oph, ofo, ofr⟩ <;>
    cases ign <;> (try cases ph) <;> (try cases cf) <;> (try cases fo) <;>
    (try cases oph) <;> (try cases ofo) <;> (try cases ofr) <;>
    first | decide | (exact absurd h (by decide)) | (exact absurd hfix (by decide))

/-- the safe quiet states are exactly what C07's invariant leaves when the controller is idle -/
theorem quiet_of_safe (s : Sys) (h : safe s = true) : quietSafe s.p = true := by
  unfold safe at h
  simp only [Bool.and_eq_true, Bool.or_eq_true] at h
  unfold quietSafe
  rcases h.1.1 with h1 | h1
  · simp [h1]
  · unfold hasFin at h1
    cases hi : s.p.inp with
    | none => rw [hi] at h1; cases h1
    | some i => rw [hi] at h1; simp [h1]

/-- **quiescent_is_spec**: after ANY history of external actions and controller actions
    (`as`), once nothing external happens any more and the item is reconciled once more —
    which C05 guarantees for every change — the pair satisfies the specification. -/
theorem quiescent_is_spec (s0 : Sys) (h0 : safe s0 = true) (as : List Act) :
    specOk (pass (mk (QT.run s0 as).p (QT.run s0 as).ignoreTeardown)) = true :=
  one_pass_reaches_spec _ _ (quiet_of_safe _ (safe_run as s0 h0))

/-! ### non-vacuity -/

example : quietSafe ⟨some ⟨.running, false, false⟩, none⟩ = true := by decide
example : specOk (mk ⟨some ⟨.running, false, false⟩, none⟩ false) = false := by decide
example : (pass (mk ⟨some ⟨.running, false, false⟩, none⟩ false)).p
    = ⟨some ⟨.running, true, false⟩, some ⟨.running, false, true⟩⟩ := by decide
example : (pass (mk ⟨some ⟨.tearingDown, true, false⟩, some ⟨.running, false, true⟩⟩ false)).p
    = ⟨some ⟨.tearingDown, false, false⟩, none⟩ := by decide

end Cosi.C06
