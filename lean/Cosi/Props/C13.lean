/-
  Property C13 — remote watches survive transport failures without gaps or duplicates.

  The machine is `Cosi.rstepCore` (Cosi.Model.RWatch): the client's `recvMessage` loop with its
  retry loop over a server whose inner watch is the watcher machine of Cosi.Model.Watch.
  A schedule is any `List RStep`: writes, server goroutine steps, receives, transport
  failures (with or without a replaced server process) AND clean ends of stream (io.EOF: the
  server side finished the stream with status OK), retry-loop iterations that fail
  to dial, fail on the first message (either way), or reach the server — in any order and number.

  The event loop's error branch — is the error that ends the watch handed to `sendError`? — is
  the rule parameter `RRules.reports` of `withRules`; `rstep = withRules genRRules rstepFacts`
  reads it (and every other fact) off the current source. `genRRules_sound` + `facts_as_modelled`
  give `code_as_modelled : rstep = rstepCore`; `watch_never_silent` / `recv_error_retried_or_reported`
  state the clause "…or terminates with an Errored event"; `seeded_rule_*` are kernel-checked
  witnesses that a rule which swallows a clean end of stream makes the watch go silent.
-/
import Cosi.Props.C12
import Cosi.Model.RWatch
open Cosi
namespace Cosi.C13
open Cosi.C02 Cosi.C12

/-! ### small list facts -/

theorem prefix_filterMap {α β} (f : α → Option β) :
    ∀ (l : List α) (p : List β), p <+: l.filterMap f → ∃ k, k ≤ l.length ∧ p = (l.take k).filterMap f := by
  intro l
  induction l with
  | nil =>
    intro p hp
    have : p = [] := by simpa using hp
    exact ⟨0, Nat.le_refl _, by simp [this]⟩
  | cons a l ih =>
    intro p hp
    cases hfa : f a with
    | none =>
      rw [List.filterMap_cons_none hfa] at hp
      obtain ⟨k, hk, e⟩ := ih p hp
      exact ⟨k + 1, by simp; omega, by rw [List.take_succ_cons, List.filterMap_cons_none hfa]; exact e⟩
    | some y =>
      rw [List.filterMap_cons_some hfa] at hp
      cases p with
      | nil => exact ⟨0, Nat.zero_le _, by simp⟩
      | cons x p' =>
        rw [List.cons_prefix_cons] at hp
        obtain ⟨hx, hp'⟩ := hp
        obtain ⟨k, hk, e⟩ := ih p' hp'
        exact ⟨k + 1, by simp; omega, by rw [List.take_succ_cons, List.filterMap_cons_some hfa, hx, e]⟩

/-- a non-empty prefix of a `filterMap` ends with the image of a definite element, and
    is the image of everything up to and including that element -/
theorem prefix_filterMap_last {α β} (f : α → Option β) :
    ∀ (l : List α) (p : List β) (x : β), p ++ [x] <+: l.filterMap f →
      ∃ k, ∃ (hk : k < l.length), f l[k] = some x ∧ p ++ [x] = (l.take (k + 1)).filterMap f := by
  intro l
  induction l with
  | nil =>
    intro p x hp
    simp at hp
  | cons a l ih =>
    intro p x hp
    cases hfa : f a with
    | none =>
      rw [List.filterMap_cons_none hfa] at hp
      obtain ⟨k, hk, e1, e2⟩ := ih p x hp
      refine ⟨k + 1, by simp; omega, by simpa using e1, ?_⟩
      rw [List.take_succ_cons, List.filterMap_cons_none hfa]; exact e2
    | some y =>
      rw [List.filterMap_cons_some hfa] at hp
      cases p with
      | nil =>
        simp only [List.nil_append, List.cons_prefix_cons] at hp
        refine ⟨0, by simp, by simpa [hp.1] using hfa, ?_⟩
        simp [hfa, hp.1]
      | cons z p' =>
        simp only [List.cons_append, List.cons_prefix_cons] at hp
        obtain ⟨hz, hp'⟩ := hp
        obtain ⟨k, hk, e1, e2⟩ := ih p' x hp'
        refine ⟨k + 1, by simp; omega, by simpa using e1, ?_⟩
        rw [List.take_succ_cons, List.filterMap_cons_some hfa, hz, List.cons_append, e2]

theorem seg_take (l : List Event) (a b k : Nat) (h : a + k ≤ b) : (seg l a b).take k = seg l a (a + k) := by
  unfold seg
  rw [List.take_take]
  congr 1
  omega

theorem seg_length (l : List Event) (a b : Nat) (h1 : a ≤ b) (h2 : b ≤ l.length) : (seg l a b).length = b - a := by
  unfold seg
  simp
  omega

theorem seg_get (l : List Event) (a b k : Nat) (h : a + k < b) : (seg l a b)[k]? = l[a + k]? := by
  unfold seg
  rw [List.getElem?_take, if_pos (by omega), List.getElem?_drop]

/-- the bookmark the client remembers: that of the last event it was handed (client.go:711) -/
def lastBmOf (l : List Event) : Option Int := l.getLast?.bind (·.bm)

theorem lastBmAfter_eq (D : List Event) (d : Delivery) : lastBmAfter (lastBmOf D) d = lastBmOf (D ++ d) := by
  induction d generalizing D with
  | nil => simp [lastBmAfter]
  | cons e d ih =>
    have h1 : lastBmAfter (lastBmOf D) (e :: d) = lastBmAfter (lastBmOf (D ++ [e])) d := by
      simp [lastBmAfter, lastBmOf]
    rw [h1, ih (D ++ [e])]
    simp

theorem lastBmOf_some (D : List Event) (p : Int) (h : lastBmOf D = some p) :
    ∃ D' x, D = D' ++ [x] ∧ x.bm = some p := by
  unfold lastBmOf at h
  cases hl : D.getLast? with
  | none => rw [hl] at h; cases h
  | some x =>
    rw [hl] at h
    obtain ⟨D', hD⟩ : ∃ D', D = D' ++ [x] := by
      have := List.getLast?_eq_some_iff.1 hl
      exact this
    exact ⟨D', x, hD, h⟩


/-! ### the client's view of the log -/

/-- a watcher carrying the client's kind and selector: `view (proto c)` is what the
    server's inner watch makes of one logged event -/
def proto (c : RClient) : Watcher := { wid := 0, rkey := ("", c.typ), kind := c.kind, sel := c.sel, pos := 0 }

def cview (c : RClient) : Event → Option Event := view (proto c)

theorem cview_of (c : RClient) (w : Watcher) (hk : w.kind = c.kind) (hs : w.sel = c.sel) : view w = cview c :=
  (view_congr (proto c) w hk hs)

theorem cview_congr (c c' : RClient) (hk : c'.kind = c.kind) (hs : c'.sel = c.sel) : cview c' = cview c := by
  unfold cview
  exact view_congr (proto c) (proto c') hk hs

/-- the view never changes an event's bookmark (C12.rewrite_bm) -/
theorem cview_bm (c : RClient) (e e' : Event) (h : cview c e = some e') : e'.bm = e.bm := by
  unfold cview view at h
  split at h
  · split at h
    · cases h; rfl
    · cases h
  · exact rewrite_bm _ _ _ h

/-- the view of a kind / aggregated watch only lets created / updated / destroyed through;
    a single-resource watch passes the event unchanged -/
theorem cview_typ (c : RClient) (e e' : Event) (h : cview c e = some e') (ht : e.typ ≠ .bootstrapped) :
    e'.typ ≠ .bootstrapped := by
  unfold cview view at h
  split at h
  · split at h
    · cases h; exact ht
    · cases h
  · unfold rewrite at h
    cases hty : e.typ <;> rw [hty] at h <;> simp only at h <;> (repeat' split at h) <;>
      first
      | (cases h; simp [hty])
      | (cases h; simp)
      | cases h

/-! ### what the first establishment announces -/

/-- everything of `init` has been handed over, except possibly the bootstrap-bookmark Noop -/
def InitTail (I init : List Event) : Prop := I = init ∨ ∃ n, n.typ = .noop ∧ init = I ++ [n]

theorem InitTail.prefix {I init : List Event} (h : InitTail I init) : I <+: init := by
  rcases h with h | ⟨n, _, h⟩
  · rw [h]; exact List.prefix_refl _
  · exact ⟨[n], h.symm⟩

/-- shape of the initial deliveries (collection.go:346-355 and :521-587): an event of
    `init` that carries a bookmark belongs to a kind / aggregated watch, its bookmark is
    `start - 1`, and at most the bootstrap-bookmark Noop follows it -/
def InitShape (kind : WKind) (init : List Event) (start : Nat) : Prop :=
  ∀ P x S, init = P ++ x :: S → x.bm ≠ none →
    (∀ id, kind ≠ .single id) ∧ x.bm = some ((start : Int) - 1) ∧ (S = [] ∨ ∃ n, n.typ = .noop ∧ S = [n])

theorem created_no_bm (contents : List Res) :
    ∀ x ∈ contents.map (fun c => ({ typ := .created, res := c } : Event)), x.bm = none := by
  intro x hx
  simp only [List.mem_map] at hx
  obtain ⟨c, _, rfl⟩ := hx
  rfl

/-- split `A ++ B = P ++ x :: S` where no element of `A` qualifies -/
theorem split_after {A B P S : List Event} {x : Event} (h : A ++ B = P ++ x :: S) (hA : ∀ y ∈ A, y.bm = none)
    (hx : x.bm ≠ none) : ∃ P', B = P' ++ x :: S := by
  rcases List.append_eq_append_iff.1 h with ⟨a', h1, h2⟩ | ⟨c', h1, h2⟩
  · exact ⟨a', h2⟩
  · -- A = P ++ c', c' ++ B = x :: S
    cases c' with
    | nil => exact ⟨[], by simpa using h2.symm⟩
    | cons y ys =>
      simp only [List.cons_append, List.cons.injEq] at h2
      have : x ∈ A := by rw [h1, ← h2.1]; simp
      exact absurd (hA x this) hx

theorem flatten_map_singleton_comp {α} (f : α → Event) (l : List α) :
    (l.map ((fun e => [e]) ∘ f)).flatten = l.map f := by
  induction l with
  | nil => rfl
  | cons x xs ih => simp [ih]

theorem kindInit_shape (contents : List Res) (ns typ : String) (agg : Bool) (o : StartOpts) (pos : Nat)
    (kind : WKind) (hk : ∀ id, kind ≠ .single id) :
    InitShape kind (kindInit contents ns typ agg o pos).flatten pos := by
  intro P x S h hx
  refine ⟨hk, ?_⟩
  have hflat : (kindInit contents ns typ agg o pos).flatten =
      (if o.bootstrap then contents.map (fun c => ({ typ := .created, res := c } : Event)) ++
          [{ typ := .bootstrapped, res := tombstone ns typ "", bm := some ((pos : Int) - 1) }] else []) ++
      (if o.bootstrapBookmark then [{ typ := .noop, res := tombstone ns typ "", bm := some ((pos : Int) - 1) }] else []) := by
    unfold kindInit
    cases o.bootstrap <;> cases o.bootstrapBookmark <;> cases agg <;> simp [flatten_map_singleton_comp]
  rw [hflat] at h
  cases hb : o.bootstrap <;> cases hbb : o.bootstrapBookmark <;> simp only [hb, hbb, if_true, if_false, Bool.false_eq_true] at h
  · simp at h
  · -- only the Noop
    cases P with
    | nil => simp at h; obtain ⟨rfl, rfl⟩ := h; exact ⟨rfl, Or.inl rfl⟩
    | cons p ps => simp at h
  · -- contents ++ [Bootstrapped]
    rw [List.append_nil] at h
    obtain ⟨P', h'⟩ := split_after h (created_no_bm contents) hx
    cases P' with
    | nil => simp at h'; obtain ⟨rfl, rfl⟩ := h'; exact ⟨rfl, Or.inl rfl⟩
    | cons p ps => simp at h'
  · -- contents ++ [Bootstrapped] ++ [Noop]
    rw [List.append_assoc] at h
    obtain ⟨P', h'⟩ := split_after h (created_no_bm contents) hx
    cases P' with
    | nil =>
      simp at h'; obtain ⟨rfl, rfl⟩ := h'
      exact ⟨rfl, Or.inr ⟨_, rfl, rfl⟩⟩
    | cons p ps =>
      simp at h'; obtain ⟨_, h2⟩ := h'
      cases ps with
      | nil => simp at h2; obtain ⟨rfl, rfl⟩ := h2; exact ⟨rfl, Or.inl rfl⟩
      | cons q qs => simp at h2

theorem no_bm_shape (kind : WKind) (init : List Event) (start : Nat) (h : ∀ x ∈ init, x.bm = none) :
    InitShape kind init start := by
  intro P x S hi hx
  exact absurd (h x (by rw [hi]; simp)) hx


/-! ### invariants -/

/-- exactness: `D` is (a prefix of) what the first establishment announced, then the view of
    the contiguous log segment `[start, pos)` in commit order, then at most the server's own
    overrun error. Log events are only delivered once the announcement is complete (up to
    the bootstrap-bookmark Noop). -/
def Final (start : Nat) (init : List Event) (r : Ring) (c : RClient) (D : List Event) : Prop :=
  ∃ (I : List Event) (pos : Nat) (srvErr : List Event),
    I <+: init ∧ (pos = start ∨ InitTail I init) ∧ start ≤ pos ∧ pos ≤ r.writePos ∧
    (srvErr = [] ∨ srvErr = [erroredEvent]) ∧
    D = I ++ (seg r.log start pos).filterMap (cview c) ++ srvErr

structure LiveInv (start : Nat) (init : List Event) (r : Ring) (c : RClient) (w : Watcher) : Prop where
  ex : ∃ (gstart : Nat) (ginit gdel base I : List Event),
      GInv ⟨w, gstart, ginit, gdel⟩ r ∧ c.delivered = base ++ gdel ∧
      base ++ ginit = I ++ (seg r.log start gstart).filterMap (cview c) ∧
      InitTail I init ∧ start ≤ gstart
  kind : w.kind = c.kind
  sel : w.sel = c.sel
  lb : c.lastBm = lastBmOf c.delivered

structure RetryInv (start : Nat) (init : List Event) (r : Ring) (c : RClient) : Prop where
  ex : ∃ (p : Int) (I : List Event), c.lastBm = some p ∧ -1 ≤ p ∧ ((∃ id, c.kind = .single id) → 0 ≤ p) ∧
      (start : Int) ≤ p + 1 ∧ p + 1 ≤ (r.writePos : Int) ∧
      c.delivered = I ++ (seg r.log start (p + 1).toNat).filterMap (cview c) ∧ InitTail I init
  lb : c.lastBm = lastBmOf c.delivered

def PhaseInv (start : Nat) (init : List Event) (r : Ring) (c : RClient) : Prop :=
  match c.phase with
  | .streaming w => LiveInv start init r c w
  | .waitFirst w => LiveInv start init r c w ∧ ∃ p, c.lastBm = some p
  | .retrying => RetryInv start init r c
  | .done _ => ∃ D, c.delivered = D ++ [erroredEvent] ∧ Final start init r c D

structure CInv (start : Nat) (init : List Event) (s : Ring × RClient) : Prop where
  ring : RingInv s.1
  shape : InitShape s.2.kind init start
  ph : PhaseInv start init s.1 s.2

/-- what a live stream may have produced so far, in terms of the FIRST establishment -/
theorem live_expected {start : Nat} {init : List Event} {r : Ring} {c : RClient} {w : Watcher}
    (h : LiveInv start init r c w) :
    ∃ (I E : List Event), InitTail I init ∧ (E = [] ∨ E = [erroredEvent]) ∧ start ≤ w.pos ∧ w.pos ≤ r.writePos ∧
      c.delivered <+: I ++ ((seg r.log start w.pos).filterMap (cview c) ++ E) := by
  obtain ⟨gstart, ginit, gdel, base, I, hg, hd, hb, hI, hs⟩ := h.ex
  have hv : view w = cview c := cview_of c w h.kind h.sel
  have hsl : gstart ≤ w.pos := hg.start_le
  have hpl : w.pos ≤ r.writePos := hg.pos_le
  refine ⟨I, (if w.dead then [erroredEvent] else []), hI, ?_, by omega, hpl, ?_⟩
  · cases w.dead <;> simp
  · refine ⟨(w.chan ++ w.pending).flatten, ?_⟩
    have hf := hg.flow
    simp only [GW.expected] at hf
    rw [hd, List.append_assoc, hf, hv, seg_append r.log start gstart w.pos hs hsl, List.filterMap_append]
    simp only [← List.append_assoc]
    rw [hb]

theorem prefix_singleton_cases {Y : List Event} {e : Event} (h : Y <+: [e]) : Y = [] ∨ Y = [e] := by
  cases Y with
  | nil => exact Or.inl rfl
  | cons y ys =>
    rw [List.cons_prefix_cons] at h
    obtain ⟨h1, h2⟩ := h
    have : ys = [] := by simpa using h2
    exact Or.inr (by rw [h1, this])

/-- **Exactness from the flow invariant.** -/
theorem live_final {start : Nat} {init : List Event} {r : Ring} {c : RClient} {w : Watcher}
    (hr : RingInv r) (h : LiveInv start init r c w) : Final start init r c c.delivered := by
  obtain ⟨I, E, hI, hE, hs, hp, X, hX⟩ := live_expected h
  have hlen : w.pos ≤ r.log.length := by have := hr.wp; omega
  rcases List.append_eq_append_iff.1 hX with ⟨a', h1, _⟩ | ⟨Y, h1, h2⟩
  · -- still inside the announcement
    refine ⟨c.delivered, start, [], ?_, Or.inl rfl, Nat.le_refl _, by omega, Or.inl rfl, by simp [seg_self]⟩
    exact List.IsPrefix.trans ⟨a', h1.symm⟩ hI.prefix
  · -- c.delivered = I ++ Y, Y ++ X = V ++ E
    rcases List.append_eq_append_iff.1 h2.symm with ⟨b', h3, _⟩ | ⟨Z, h3, h4⟩
    · -- Y inside the view part
      obtain ⟨k, hk, e⟩ := prefix_filterMap (cview c) _ Y ⟨b', h3.symm⟩
      rw [seg_length _ _ _ hs hlen] at hk
      rw [seg_take _ _ _ _ (by omega)] at e
      exact ⟨I, start + k, [], hI.prefix, Or.inr hI, by omega, by omega, Or.inl rfl, by rw [h1, e]; simp⟩
    · -- Y = V ++ Z, Z a prefix of E
      have hZ : Z <+: E := ⟨X, h4.symm⟩
      have hZ' : Z = [] ∨ Z = [erroredEvent] := by
        rcases hE with rfl | rfl
        · left; simpa using hZ
        · exact prefix_singleton_cases hZ
      exact ⟨I, w.pos, Z, hI.prefix, Or.inr hI, hs, hp, hZ', by rw [h1, h3, List.append_assoc]⟩

/-- **The remembered bookmark pins the delivered stream**: if the last event handed to
    the subscriber carries the bookmark `p`, the subscriber has received exactly the
    announcement and the view of `log[start, p+1)` — nothing less, nothing more. -/
theorem live_to_retry {start : Nat} {init : List Event} {r : Ring} {c : RClient} {w : Watcher}
    (hr : RingInv r) (hsh : InitShape c.kind init start) (h : LiveInv start init r c w) (p : Int)
    (hp : c.lastBm = some p) :
    ∃ I, -1 ≤ p ∧ ((∃ id, c.kind = .single id) → 0 ≤ p) ∧ (start : Int) ≤ p + 1 ∧ p + 1 ≤ (r.writePos : Int) ∧
      c.delivered = I ++ (seg r.log start (p + 1).toNat).filterMap (cview c) ∧ InitTail I init := by
  obtain ⟨I, E, hI, hE, hs, hpw, X, hX⟩ := live_expected h
  have hlen : w.pos ≤ r.log.length := by have := hr.wp; omega
  have hlb := h.lb
  rw [hp] at hlb
  obtain ⟨D', x, hD, hxb⟩ := lastBmOf_some _ _ hlb.symm
  -- the case "inside the announcement"
  have inside : c.delivered <+: I → ∃ I, -1 ≤ p ∧ ((∃ id, c.kind = .single id) → 0 ≤ p) ∧ (start : Int) ≤ p + 1 ∧
      p + 1 ≤ (r.writePos : Int) ∧
      c.delivered = I ++ (seg r.log start (p + 1).toNat).filterMap (cview c) ∧ InitTail I init := by
    intro hpre
    obtain ⟨S, hS⟩ := List.IsPrefix.trans hpre hI.prefix
    have hinit : init = D' ++ x :: S := by rw [← hS, hD]; simp
    obtain ⟨hk, hb, hS'⟩ := hsh D' x S hinit (by rw [hxb]; simp)
    have hpe : p = (start : Int) - 1 := by rw [hxb] at hb; exact Option.some.inj hb
    have htn : (p + 1).toNat = start := by omega
    refine ⟨c.delivered, by omega, fun ⟨id, hid⟩ => absurd hid (hk id), by omega, by omega, ?_, ?_⟩
    · rw [htn, seg_self]; simp
    · rcases hS' with rfl | ⟨n, hn, rfl⟩
      · left; rw [← hS]; simp
      · right; exact ⟨n, hn, hS.symm⟩
  rcases List.append_eq_append_iff.1 hX with ⟨a', h1, _⟩ | ⟨Y, h1, h2⟩
  · exact inside ⟨a', h1.symm⟩
  · by_cases hY : Y = []
    · exact inside (by rw [h1, hY]; simp)
    · -- the last delivered event lies beyond the announcement
      obtain ⟨Y0, hY0⟩ : ∃ Y0, Y = Y0 ++ [x] := by
        rcases List.eq_nil_or_concat Y with h | ⟨Y0, b, hb⟩
        · exact absurd h hY
        · rw [List.concat_eq_append] at hb
          have e : (I ++ Y0) ++ [b] = D' ++ [x] := by rw [List.append_assoc, ← hb, ← h1, hD]
          have := (List.append_inj' e rfl).2
          exact ⟨Y0, by rw [hb, List.cons.inj this |>.1]⟩
      have hinV : Y <+: (seg r.log start w.pos).filterMap (cview c) := by
        rcases List.append_eq_append_iff.1 h2.symm with ⟨b', h3, _⟩ | ⟨Z, h3, h4⟩
        · exact ⟨b', h3.symm⟩
        · have hZ : Z <+: E := ⟨X, h4.symm⟩
          have hZ' : Z = [] := by
            rcases hE with rfl | rfl
            · simpa using hZ
            · rcases prefix_singleton_cases hZ with h | h
              · exact h
              · -- then the last delivered event would be the server's Errored, which has no bookmark
                exfalso
                have : Y.getLast? = some erroredEvent := by rw [h3, h]; simp
                rw [hY0] at this
                simp at this
                rw [this] at hxb
                cases hxb
          rw [h3, hZ']; simp
      rw [hY0] at hinV
      obtain ⟨k, hk, e1, e2⟩ := prefix_filterMap_last (cview c) _ Y0 x hinV
      rw [seg_length _ _ _ hs hlen] at hk
      have hget : (seg r.log start w.pos)[k]? = r.log[start + k]? := seg_get _ _ _ _ (by omega)
      have hkl : k < (seg r.log start w.pos).length := by rw [seg_length _ _ _ hs hlen]; exact hk
      have hsome : r.log[start + k]? = some (seg r.log start w.pos)[k] := by
        rw [← hget, List.getElem?_eq_getElem hkl]
      have hbm := hr.bm (start + k) _ hsome
      have hxb' := cview_bm c _ _ e1
      rw [hbm, hxb] at hxb'
      have hpe : p = ((start + k : Nat) : Int) := Option.some.inj hxb'
      have htn : (p + 1).toNat = start + (k + 1) := by omega
      refine ⟨I, by omega, fun _ => by omega, by omega, by omega, ?_, hI⟩
      rw [h1, hY0, e2, seg_take _ _ _ _ (by omega), htn]


/-! ### transport of the invariants -/

theorem LiveInv.congr {start : Nat} {init : List Event} {r : Ring} {c c' : RClient} {w : Watcher}
    (h : LiveInv start init r c w) (hd : c'.delivered = c.delivered) (hl : c'.lastBm = c.lastBm)
    (hk : c'.kind = c.kind) (hs : c'.sel = c.sel) : LiveInv start init r c' w := by
  have hv : cview c' = cview c := cview_congr c c' hk hs
  refine ⟨?_, by rw [hk]; exact h.kind, by rw [hs]; exact h.sel, by rw [hl, hd]; exact h.lb⟩
  obtain ⟨gstart, ginit, gdel, base, I, hg, hdd, hb, hI, hst⟩ := h.ex
  exact ⟨gstart, ginit, gdel, base, I, hg, by rw [hd]; exact hdd, by rw [hv]; exact hb, hI, hst⟩

/-- a step of the server's goroutine that keeps the C02 flow invariant -/
theorem LiveInv.srv {start : Nat} {init : List Event} {r : Ring} {c : RClient} {w w' : Watcher}
    (h : LiveInv start init r c w) (hk : w'.kind = w.kind) (hs : w'.sel = w.sel)
    (hg : ∀ gstart ginit gdel, GInv ⟨w, gstart, ginit, gdel⟩ r → GInv ⟨w', gstart, ginit, gdel⟩ r) :
    LiveInv start init r c w' := by
  refine ⟨?_, by rw [hk]; exact h.kind, by rw [hs]; exact h.sel, h.lb⟩
  obtain ⟨gstart, ginit, gdel, base, I, hg0, hdd, hb, hI, hst⟩ := h.ex
  exact ⟨gstart, ginit, gdel, base, I, hg _ _ _ hg0, hdd, hb, hI, hst⟩

theorem LiveInv.publish {start : Nat} {init : List Event} {r : Ring} {c : RClient} {w : Watcher}
    (hr : RingInv r) (h : LiveInv start init r c w) (e : Event) : LiveInv start init (r.publish e) c w := by
  refine ⟨?_, h.kind, h.sel, h.lb⟩
  obtain ⟨gstart, ginit, gdel, base, I, hg, hdd, hb, hI, hst⟩ := h.ex
  have h1 : gstart ≤ r.log.length := by
    have := hg.start_le; have := hg.pos_le; have := hr.wp
    show gstart ≤ r.log.length
    simp only at *
    omega
  refine ⟨gstart, ginit, gdel, base, I, ginv_publish _ r e hr hg, hdd, ?_, hI, hst⟩
  rw [publish_log, seg_snoc _ _ _ _ h1]; exact hb

theorem LiveInv.recv {start : Nat} {init : List Event} {r : Ring} {c c' : RClient} {w w' : Watcher} {d : Delivery}
    (h : LiveInv start init r c w) (hrecv : w.recv = (some d, w'))
    (hd : c'.delivered = c.delivered ++ d) (hl : c'.lastBm = lastBmAfter c.lastBm d)
    (hk : c'.kind = c.kind) (hs : c'.sel = c.sel) : LiveInv start init r c' w' := by
  have hv : cview c' = cview c := cview_congr c c' hk hs
  have hw : w'.kind = w.kind ∧ w'.sel = w.sel := by
    unfold Watcher.recv at hrecv
    split at hrecv
    · injection hrecv with _ h2; subst h2; exact ⟨rfl, rfl⟩
    · split at hrecv
      · injection hrecv with _ h2; subst h2; exact ⟨rfl, rfl⟩
      · injection hrecv with h1 _; cases h1
  refine ⟨?_, by rw [hw.1, hk]; exact h.kind, by rw [hw.2, hs]; exact h.sel, ?_⟩
  · obtain ⟨gstart, ginit, gdel, base, I, hg, hdd, hb, hI, hst⟩ := h.ex
    have := ginv_recv ⟨w, gstart, ginit, gdel⟩ r d w' hrecv hg
    exact ⟨gstart, ginit, gdel ++ d, base, I, this, by rw [hd, hdd, List.append_assoc],
      by rw [hv]; exact hb, hI, hst⟩
  · rw [hl, hd, h.lb]; exact lastBmAfter_eq _ _

theorem RetryInv.congr {start : Nat} {init : List Event} {r : Ring} {c c' : RClient}
    (h : RetryInv start init r c) (hd : c'.delivered = c.delivered) (hl : c'.lastBm = c.lastBm)
    (hk : c'.kind = c.kind) (hs : c'.sel = c.sel) : RetryInv start init r c' := by
  have hv : cview c' = cview c := cview_congr c c' hk hs
  refine ⟨?_, by rw [hl, hd]; exact h.lb⟩
  obtain ⟨p, I, h1, h2, h3, h4, h5, h6, h7⟩ := h.ex
  exact ⟨p, I, by rw [hl]; exact h1, h2, by rw [hk]; exact h3, h4, h5, by rw [hd, hv]; exact h6, h7⟩

theorem RetryInv.publish {start : Nat} {init : List Event} {r : Ring} {c : RClient}
    (hr : RingInv r) (h : RetryInv start init r c) (e : Event) : RetryInv start init (r.publish e) c := by
  refine ⟨?_, h.lb⟩
  obtain ⟨p, I, h1, h2, h3, h4, h5, h6, h7⟩ := h.ex
  have hl : (p + 1).toNat ≤ r.log.length := by have := hr.wp; omega
  refine ⟨p, I, h1, h2, h3, h4, by rw [publish_wp]; omega, ?_, h7⟩
  rw [publish_log, seg_snoc _ _ _ _ hl]; exact h6

theorem Final.congr {start : Nat} {init : List Event} {r : Ring} {c c' : RClient} {D : List Event}
    (h : Final start init r c D) (hk : c'.kind = c.kind) (hs : c'.sel = c.sel) : Final start init r c' D := by
  have hv : cview c' = cview c := cview_congr c c' hk hs
  obtain ⟨I, pos, se, a, b, cc, d, e, f⟩ := h
  exact ⟨I, pos, se, a, b, cc, d, e, by rw [hv]; exact f⟩

theorem Final.publish {start : Nat} {init : List Event} {r : Ring} {c : RClient} {D : List Event}
    (hr : RingInv r) (h : Final start init r c D) (e : Event) : Final start init (r.publish e) c D := by
  obtain ⟨I, pos, se, a, b, cc, d, ee, f⟩ := h
  have hl : pos ≤ r.log.length := by have := hr.wp; omega
  refine ⟨I, pos, se, a, b, cc, by rw [publish_wp]; omega, ee, ?_⟩
  rw [publish_log, seg_snoc _ _ _ _ hl]; exact f

theorem retry_final {start : Nat} {init : List Event} {r : Ring} {c : RClient}
    (h : RetryInv start init r c) : Final start init r c c.delivered := by
  obtain ⟨p, I, _, _, _, h4, h5, h6, h7⟩ := h.ex
  exact ⟨I, (p + 1).toNat, [], h7.prefix, Or.inr h7, by omega, by omega, Or.inl rfl, by rw [h6]; simp⟩

theorem fetch_kind_sel (w : Watcher) (r : Ring) : (w.fetch r).kind = w.kind ∧ (w.fetch r).sel = w.sel := by
  unfold Watcher.fetch
  split
  · exact ⟨rfl, rfl⟩
  · split
    · exact ⟨rfl, rfl⟩
    · split
      · cases (scanSingle r _ (r.writePos - w.pos) w.pos) with
        | mk p oe => cases oe <;> exact ⟨rfl, rfl⟩
      · exact ⟨rfl, rfl⟩
      · exact ⟨rfl, rfl⟩

theorem settle_kind_sel (r : Ring) : ∀ (fuel : Nat) (w : Watcher),
    (w.settle r fuel).kind = w.kind ∧ (w.settle r fuel).sel = w.sel := by
  intro fuel
  induction fuel with
  | zero => intro w; exact ⟨rfl, rfl⟩
  | succ n ih =>
    intro w
    unfold Watcher.settle
    split
    · rename_i d ds _
      split
      · exact ih { w with chan := w.chan ++ [d], pending := ds }
      · exact ⟨rfl, rfl⟩
    · split
      · exact ⟨rfl, rfl⟩
      · have h1 := ih (w.fetch r)
        have h2 := fetch_kind_sel w r
        exact ⟨h1.1.trans h2.1, h1.2.trans h2.2⟩


/-! ### re-establishment: the server's verdict on `lastBookmark` -/

def bmArg (c : RClient) (p : Int) : BookmarkArg := { len := 16, cookieOk := c.cookieOk, pos := p }

/-- lowest position a watch of this flavour accepts (collection.go:339 `pos < 0`, :502 `pos < -1`) -/
def low (c : RClient) : Int :=
  match c.kind with
  | .single _ => 0
  | _ => -1

/-- the range test of Watch / WatchAll on the bookmark position -/
def Stale (c : RClient) (r : Ring) (p : Int) : Prop :=
  p < (r.writePos : Int) - r.cap + r.gap ∨ p < low c ∨ p ≥ r.writePos

theorem reqOpts_eq (c : RClient) (p : Int) (h : c.lastBm = some p) : c.reqOpts = bmOpts (bmArg c p) false := by
  unfold RClient.reqOpts bmOpts bmArg
  rw [h]; rfl

theorem decode_bmArg (c : RClient) (p : Int) : decodeBm (bmArg c p) = if c.cookieOk then some p else none := by
  unfold decodeBm bmArg
  cases c.cookieOk <;> simp

theorem kindInit_resume (ns typ : String) (agg : Bool) (b : BookmarkArg) (pos : Nat) :
    kindInit [] ns typ agg (bmOpts b false) pos = [] := by
  unfold kindInit bmOpts
  simp

/-- **Invalid bookmark ⇒ FailedPrecondition** (C12.kind_reject_invalid / single_reject_invalid) -/
theorem reconnect_reject (c : RClient) (r : Ring) (cur : Option Res) (p : Int) (h : c.lastBm = some p)
    (hbad : c.cookieOk = false ∨ Stale c r p) : c.reconnect r cur = .error .invalidBookmark := by
  have hdec : decodeBm (bmArg c p) = none ∨ ∃ q, decodeBm (bmArg c p) = some q ∧ Stale c r q := by
    rw [decode_bmArg]
    cases hc : c.cookieOk with
    | false => left; simp
    | true =>
      right
      rcases hbad with hb | hb
      · rw [hc] at hb; cases hb
      · exact ⟨p, by simp, hb⟩
  unfold RClient.reconnect
  rw [reqOpts_eq c p h]
  unfold Stale low at hdec
  cases hk : c.kind with
  | single id =>
    rw [hk] at hdec
    exact single_reject_invalid r cur c.ns c.typ id (bmArg c p) hdec
  | kind =>
    rw [hk] at hdec
    exact kind_reject_invalid r [] c.ns c.typ false false (bmArg c p) hdec
  | agg =>
    rw [hk] at hdec
    exact kind_reject_invalid r [] c.ns c.typ true false (bmArg c p) hdec

/-- **Valid bookmark ⇒ the stream resumes at `lastBookmark + 1` and announces nothing**
    (C12.kind_accept / single_accept) -/
theorem reconnect_accept (c : RClient) (r : Ring) (cur : Option Res) (p : Int) (h : c.lastBm = some p)
    (hc : c.cookieOk = true) (hok : ¬ Stale c r p) : c.reconnect r cur = .ok ((p + 1).toNat, []) := by
  have hdec : decodeBm (bmArg c p) = some p := by rw [decode_bmArg, hc]; simp
  unfold RClient.reconnect
  rw [reqOpts_eq c p h]
  unfold Stale low at hok
  cases hk : c.kind with
  | single id =>
    rw [hk] at hok
    exact single_accept r cur c.ns c.typ id (bmArg c p) p hdec hok
  | kind =>
    rw [hk] at hok
    rw [kind_accept r [] c.ns c.typ false false (bmArg c p) p hdec hok, kindInit_resume]
  | agg =>
    rw [hk] at hok
    rw [kind_accept r [] c.ns c.typ true false (bmArg c p) p hdec hok, kindInit_resume]

instance (c : RClient) (r : Ring) (p : Int) : Decidable (Stale c r p) := by unfold Stale; infer_instance

theorem reconnect_dichotomy (c : RClient) (r : Ring) (cur : Option Res) (p : Int) (h : c.lastBm = some p) :
    (c.reconnect r cur = .error .invalidBookmark ∧ (c.cookieOk = false ∨ Stale c r p)) ∨
    (c.reconnect r cur = .ok ((p + 1).toNat, []) ∧ c.cookieOk = true ∧ ¬ Stale c r p) := by
  by_cases hbad : c.cookieOk = false ∨ Stale c r p
  · exact Or.inl ⟨reconnect_reject c r cur p h hbad, hbad⟩
  · have h1 : c.cookieOk = true := by
      cases hc : c.cookieOk with
      | true => rfl
      | false => exact absurd (Or.inl hc) hbad
    have h2 : ¬ Stale c r p := fun hs => hbad (Or.inr hs)
    exact Or.inr ⟨reconnect_accept c r cur p h h1 h2, h1, h2⟩

/-! ### every step preserves the invariant -/

theorem terminate_inv {start : Nat} {init : List Event} {r : Ring} {c : RClient} (cause : RCause)
    (hf : Final start init r c c.delivered) : PhaseInv start init r (c.terminate cause) := by
  unfold PhaseInv RClient.terminate
  exact ⟨c.delivered, rfl, hf.congr rfl rfl⟩

theorem srv_inv {start : Nat} {init : List Event} (r : Ring) (c : RClient) (f : Watcher → Watcher)
    (hr : RingInv r) (hk : ∀ w, (f w).kind = w.kind ∧ (f w).sel = w.sel)
    (hg : ∀ w gstart ginit gdel, GInv ⟨w, gstart, ginit, gdel⟩ r → GInv ⟨f w, gstart, ginit, gdel⟩ r)
    (h : CInv start init (r, c)) : CInv start init (r, c.withSrv f) := by
  obtain ⟨_, hsh, hph⟩ := h
  simp only at hsh hph
  unfold PhaseInv at hph
  unfold RClient.withSrv
  cases hp : c.phase with
  | streaming w =>
    simp only [hp] at hph ⊢
    refine ⟨hr, hsh, ?_⟩
    show PhaseInv start init r { c with phase := .streaming (f w) }
    unfold PhaseInv
    exact (hph.srv (hk w).1 (hk w).2 (hg w)).congr rfl rfl rfl rfl
  | waitFirst w =>
    simp only [hp] at hph ⊢
    refine ⟨hr, hsh, ?_⟩
    show PhaseInv start init r { c with phase := .waitFirst (f w) }
    unfold PhaseInv
    exact ⟨(hph.1.srv (hk w).1 (hk w).2 (hg w)).congr rfl rfl rfl rfl, hph.2⟩
  | retrying =>
    simp only [hp] at hph
    exact ⟨hr, hsh, by unfold PhaseInv; simp only [hp]; exact hph⟩
  | done cause =>
    simp only [hp] at hph
    exact ⟨hr, hsh, by unfold PhaseInv; simp only [hp]; exact hph⟩

theorem rstep_inv {start : Nat} {init : List Event} (s : Ring × RClient) (st : RStep)
    (h : CInv start init s) : CInv start init (rstepCore s st) := by
  obtain ⟨r, c⟩ := s
  have h0 := h
  obtain ⟨hr, hsh, hph⟩ := h
  simp only at hr hsh hph
  cases st with
  | write e =>
    refine ⟨publish_inv r e hr, hsh, ?_⟩
    show PhaseInv start init (r.publish e) c
    unfold PhaseInv at hph ⊢
    cases hp : c.phase with
    | streaming w => simp only [hp] at hph ⊢; exact hph.publish hr e
    | waitFirst w => simp only [hp] at hph ⊢; exact ⟨hph.1.publish hr e, hph.2⟩
    | retrying => simp only [hp] at hph ⊢; exact hph.publish hr e
    | done cause =>
      simp only [hp] at hph ⊢
      obtain ⟨D, h1, h2⟩ := hph
      exact ⟨D, h1, h2.publish hr e⟩
  | srvFetch =>
    refine srv_inv r c _ hr ?_ ?_ h0
    · intro w
      by_cases hp : w.pending = []
      · simp only [hp, if_true]; exact fetch_kind_sel w r
      · simp [hp]
    · intro w gstart ginit gdel hg
      by_cases hp : w.pending = []
      · simp only [hp, if_true]; exact ginv_fetch ⟨w, gstart, ginit, gdel⟩ r hr hp hg
      · simp only [hp, if_false]; exact hg
  | srvPush =>
    refine srv_inv r c _ hr ?_ ?_ h0
    · intro w
      cases hp : w.pending with
      | nil => exact ⟨rfl, rfl⟩
      | cons d ds =>
        simp only
        by_cases hc : w.chan.length < w.chanCap
        · simp [hc]
        · simp [hc]
    · intro w gstart ginit gdel hg
      cases hp : w.pending with
      | nil => exact hg
      | cons d ds =>
        simp only
        by_cases hc : w.chan.length < w.chanCap
        · simp only [hc, if_true]; exact ginv_push ⟨w, gstart, ginit, gdel⟩ r d ds hp hg
        · simp only [hc, if_false]; exact hg
  | srvSettle fuel =>
    refine srv_inv r c _ hr (fun w => settle_kind_sel r fuel w) ?_ h0
    intro w gstart ginit gdel hg
    exact ginv_settle r hr fuel ⟨w, gstart, ginit, gdel⟩ hg
  | recv now =>
    simp only [rstepCore]
    unfold PhaseInv at hph
    cases hp : c.phase with
    | streaming w =>
      simp only [hp] at hph ⊢
      cases hrv : w.recv with
      | mk od w' =>
        cases od with
        | none => exact h0
        | some d =>
          refine ⟨hr, hsh, ?_⟩
          show PhaseInv start init r { c with phase := .streaming w', lastBm := lastBmAfter c.lastBm d,
                                              delivered := c.delivered ++ d }
          unfold PhaseInv
          exact hph.recv hrv rfl rfl rfl rfl
    | waitFirst w =>
      simp only [hp] at hph ⊢
      cases hrv : w.recv with
      | mk od w' =>
        cases od with
        | none => exact h0
        | some d =>
          refine ⟨hr, hsh, ?_⟩
          show PhaseInv start init r { c with phase := .streaming w', lastBm := lastBmAfter c.lastBm d,
                                              delivered := c.delivered ++ d, boStart := now }
          unfold PhaseInv
          exact hph.1.recv hrv rfl rfl rfl rfl
    | retrying => dsimp only; exact h0
    | done cause => dsimp only; exact h0
  | fail restart e =>
    simp only [rstepCore]
    -- a replaced server process only makes the bookmarks foreign
    generalize hcd : (if restart then { c with cookieOk := false } else c) = c'
    have hc' : c'.delivered = c.delivered ∧ c'.lastBm = c.lastBm ∧ c'.kind = c.kind ∧ c'.sel = c.sel ∧
        c'.phase = c.phase := by
      rw [← hcd]; cases restart <;> simp
    obtain ⟨e1, e2, e3, e4, e5⟩ := hc'
    unfold PhaseInv at hph
    have hsh' : InitShape c'.kind init start := by rw [e3]; exact hsh
    cases hp : c.phase with
    | streaming w =>
      rw [hp] at e5
      simp only [hp] at hph
      simp only [e5]
      have hl : LiveInv start init r c' w := hph.congr e1 e2 e3 e4
      by_cases hre : c'.retry = true
      · simp only [hre, Bool.not_true, Bool.false_eq_true, if_false]
        by_cases hnone : c'.lastBm.isNone = true
        · simp only [hnone, if_true]
          exact ⟨hr, hsh', terminate_inv _ (live_final hr hl)⟩
        · simp only [hnone, Bool.false_eq_true, if_false]
          obtain ⟨p, hlb⟩ : ∃ p, c'.lastBm = some p := by
            cases hh : c'.lastBm with
            | none => rw [hh] at hnone; simp at hnone
            | some p => exact ⟨p, rfl⟩
          obtain ⟨I, a1, a2, a3, a4, a5, a6⟩ := live_to_retry hr hsh' hl p hlb
          have hri : RetryInv start init r c' := ⟨⟨p, I, hlb, a1, a2, a3, a4, a5, a6⟩, hl.lb⟩
          refine ⟨hr, hsh', ?_⟩
          dsimp only
          unfold PhaseInv
          dsimp only
          exact hri.congr rfl rfl rfl rfl
      · have hre' : c'.retry = false := by cases hh : c'.retry <;> simp_all
        simp only [hre', Bool.not_false, if_true]
        exact ⟨hr, hsh', terminate_inv _ (live_final hr hl)⟩
    | waitFirst w =>
      rw [hp] at e5
      simp only [hp] at hph
      simp only [e5]
      have hl : LiveInv start init r c' w := hph.1.congr e1 e2 e3 e4
      obtain ⟨p, hlb⟩ := hph.2
      rw [← e2] at hlb
      obtain ⟨I, a1, a2, a3, a4, a5, a6⟩ := live_to_retry hr hsh' hl p hlb
      have hri : RetryInv start init r c' := ⟨⟨p, I, hlb, a1, a2, a3, a4, a5, a6⟩, hl.lb⟩
      refine ⟨hr, hsh', ?_⟩
      dsimp only
      unfold PhaseInv
      dsimp only
      exact hri.congr rfl rfl rfl rfl
    | retrying =>
      rw [hp] at e5
      simp only [hp] at hph
      simp only [e5]
      refine ⟨hr, hsh', ?_⟩
      dsimp only
      unfold PhaseInv
      simp only [e5]
      exact hph.congr e1 e2 e3 e4
    | done cause =>
      rw [hp] at e5
      simp only [hp] at hph
      simp only [e5]
      refine ⟨hr, hsh', ?_⟩
      dsimp only
      unfold PhaseInv
      simp only [e5]
      obtain ⟨D, h1, h2⟩ := hph
      exact ⟨D, by rw [e1]; exact h1, h2.congr e3 e4⟩
  | attempt now next a =>
    simp only [rstepCore]
    unfold PhaseInv at hph
    cases hp : c.phase with
    | streaming w => dsimp only; exact h0
    | waitFirst w => dsimp only; exact h0
    | done cause => dsimp only; exact h0
    | retrying =>
      simp only [hp] at hph ⊢
      by_cases hstop : now - c.boStart + next > c.maxElapsed
      · simp only [hstop, if_true]
        exact ⟨hr, hsh, terminate_inv _ (retry_final hph)⟩
      · simp only [hstop, if_false]
        cases a with
        | dialFail =>
          refine ⟨hr, hsh, ?_⟩
          show PhaseInv start init r { c with lastErr := .status, phase := .retrying }
          unfold PhaseInv
          dsimp only
          exact hph.congr rfl rfl rfl rfl
        | firstRecvFail e =>
          refine ⟨hr, hsh, ?_⟩
          show PhaseInv start init r { c with lastErr := e, phase := .retrying }
          unfold PhaseInv
          dsimp only
          exact hph.congr rfl rfl rfl rfl
        | connect cur =>
          simp only
          obtain ⟨p, I, b1, b2, b3, b4, b5, b6, b7⟩ := hph.ex
          rcases reconnect_dichotomy c r cur p b1 with ⟨hrej, _⟩ | ⟨hacc, _, hns⟩
          · rw [hrej]
            exact ⟨hr, hsh, terminate_inv _ (retry_final hph)⟩
          · rw [hacc]
            refine ⟨hr, hsh, ?_⟩
            show PhaseInv start init r { c with phase := .waitFirst (c.newSrv (p + 1).toNat []) }
            unfold PhaseInv
            have hpos : (c.newSrv (p + 1).toNat []).pos ≤ r.writePos := by
              show (p + 1).toNat ≤ r.writePos
              omega
            have hg := started_ginv r (c.newSrv (p + 1).toNat []) hpos rfl rfl
            refine ⟨⟨⟨(p + 1).toNat, [], [], c.delivered, I, hg, by simp, ?_, b7, by omega⟩, rfl, rfl, hph.lb⟩,
              ⟨p, b1⟩⟩
            rw [List.append_nil]; exact b6


/-! ### every schedule -/

theorem rrun_inv {start : Nat} {init : List Event} (steps : List RStep) :
    ∀ (s : Ring × RClient), CInv start init s → CInv start init (rrunCore s steps) := by
  induction steps with
  | nil => intro s h; exact h
  | cons st rest ih => intro s h; exact ih _ (rstep_inv s st h)

/-- kind and selector of the watch never change -/
theorem rstep_static (s : Ring × RClient) (st : RStep) :
    (rstepCore s st).2.kind = s.2.kind ∧ (rstepCore s st).2.sel = s.2.sel := by
  cases st with
  | write e => exact ⟨rfl, rfl⟩
  | srvFetch => simp only [rstepCore, RClient.withSrv]; split <;> exact ⟨rfl, rfl⟩
  | srvPush => simp only [rstepCore, RClient.withSrv]; split <;> exact ⟨rfl, rfl⟩
  | srvSettle fuel => simp only [rstepCore, RClient.withSrv]; split <;> exact ⟨rfl, rfl⟩
  | recv now =>
    simp only [rstepCore]
    split
    · split <;> exact ⟨rfl, rfl⟩
    · split <;> exact ⟨rfl, rfl⟩
    · exact ⟨rfl, rfl⟩
  | fail restart e =>
    simp only [rstepCore, RClient.terminate]
    cases restart <;> simp only [if_true, if_false, Bool.false_eq_true] <;> split <;>
      (try split) <;> (try split) <;> exact ⟨rfl, rfl⟩
  | attempt now next a =>
    simp only [rstepCore, RClient.terminate]
    split
    · split
      · exact ⟨rfl, rfl⟩
      · split
        · exact ⟨rfl, rfl⟩
        · exact ⟨rfl, rfl⟩
        · split <;> exact ⟨rfl, rfl⟩
    · exact ⟨rfl, rfl⟩

theorem rrun_static (steps : List RStep) : ∀ (s : Ring × RClient),
    (rrunCore s steps).2.kind = s.2.kind ∧ (rrunCore s steps).2.sel = s.2.sel := by
  induction steps with
  | nil => intro s; exact ⟨rfl, rfl⟩
  | cons st rest ih =>
    intro s
    have h1 := ih (rstepCore s st)
    have h2 := rstep_static s st
    exact ⟨h1.1.trans h2.1, h1.2.trans h2.2⟩

/-- the state right after the first establishment satisfies the invariant -/
theorem establish_inv (r : Ring) (hr : RingInv r) (ns typ : String) (kind : WKind) (sel : Option (String × String))
    (srvCap : Nat) (retry : Bool) (now pos : Nat) (init : List Delivery) (hpos : pos ≤ r.writePos)
    (hsh : InitShape kind init.flatten pos) :
    CInv pos init.flatten (r, RClient.establish ns typ kind sel srvCap retry now pos init) := by
  refine ⟨hr, hsh, ?_⟩
  unfold PhaseInv RClient.establish
  dsimp only
  have hg := started_ginv r
    ({ wid := 0, rkey := ("", typ), kind := kind, sel := sel, pos := pos, pending := init, chanCap := srvCap } : Watcher)
    hpos rfl rfl
  exact ⟨⟨pos, init.flatten, [], [], init.flatten, hg, rfl, by simp [seg_self], Or.inl rfl, Nat.le_refl _⟩, rfl, rfl, rfl⟩

/-- the client's own terminal error -/
def cliErr (c : RClient) : List Event :=
  match c.phase with
  | .done _ => [erroredEvent]
  | _ => []

theorem stream_of_inv {start : Nat} {init : List Event} {s : Ring × RClient} (h : CInv start init s) :
    ∃ D, Final start init s.1 s.2 D ∧ s.2.delivered = D ++ cliErr s.2 := by
  obtain ⟨hr, _, hph⟩ := h
  unfold PhaseInv at hph
  unfold cliErr
  cases hp : s.2.phase with
  | streaming w => simp only [hp] at hph; exact ⟨_, live_final hr hph, by simp⟩
  | waitFirst w => simp only [hp] at hph; exact ⟨_, live_final hr hph.1, by simp⟩
  | retrying => simp only [hp] at hph; exact ⟨_, retry_final hph, by simp⟩
  | done cause => simp only [hp] at hph; obtain ⟨D, h1, h2⟩ := hph; exact ⟨D, h2, h1⟩

/-- **C13 — the client-side stream is the server's log.** For EVERY write history and EVERY
    failure schedule (any number of transport failures at any message index, failed
    re-establishments, replaced server processes, interleaved with server goroutine steps
    and writes), what the subscriber has been handed is EXACTLY

        I ++ view(log[start, pos)) ++ srvErr ++ cliErr

    where `I` is (a prefix of) what the first establishment announced — complete, up to the
    bootstrap-bookmark Noop, as soon as any log event has been delivered —, `view(log[start,pos))`
    is the watch's view of ONE contiguous log segment starting where the first establishment
    started, in commit order (no loss, no duplicate, no reordering across any number of
    re-establishments), `srvErr` is at most the server's own overrun `Errored`, and `cliErr`
    is the client's single terminal `Errored`, present iff the client has given up. -/
theorem client_stream_is_server_log_core (r0 : Ring) (c0 : RClient) (start : Nat) (init : List Event)
    (h0 : CInv start init (r0, c0)) (steps : List RStep) :
    let s := rrunCore (r0, c0) steps
    ∃ (I : List Event) (pos : Nat) (srvErr : List Event),
      I <+: init ∧ (pos = start ∨ InitTail I init) ∧ start ≤ pos ∧ pos ≤ s.1.writePos ∧
      (srvErr = [] ∨ srvErr = [erroredEvent]) ∧
      s.2.delivered = I ++ (seg s.1.log start pos).filterMap (cview c0) ++ srvErr ++ cliErr s.2 := by
  intro s
  have hinv : CInv start init s := rrun_inv steps _ h0
  have hst := rrun_static steps (r0, c0)
  have hv : cview s.2 = cview c0 := cview_congr c0 s.2 hst.1 hst.2
  obtain ⟨D, ⟨I, pos, se, a, b, cc, d, e, f⟩, hD⟩ := stream_of_inv hinv
  exact ⟨I, pos, se, a, b, cc, d, e, by rw [hD, f, hv]⟩


/-! ### when may the client give up -/

/-- the circumstances under which step `st` from state `s` may end the watch with `cause` -/
def Allowed (s : Ring × RClient) (st : RStep) : RCause → Prop
  | .retryDisabled =>
    -- a Recv error (transport failure or clean end of stream) while retries are disabled
    (∃ b e, st = .fail b e) ∧ (∃ w, s.2.phase = .streaming w) ∧ s.2.retry = false
  | .noBookmark =>
    -- a Recv error while the last event handed to the subscriber (if any) carried no bookmark
    (∃ b e, st = .fail b e) ∧ (∃ w, s.2.phase = .streaming w) ∧ s.2.retry = true ∧
      s.2.lastBm = none ∧ lastBmOf s.2.delivered = none
  | .exhausted =>
    -- the back-off's MaxElapsedTime test (NextBackOff = Stop)
    ∃ now next a, st = .attempt now next a ∧ s.2.phase = .retrying ∧ now - s.2.boStart + next > s.2.maxElapsed
  | .invalidBookmark =>
    -- the server refused the remembered bookmark: it belongs to another server process, or
    -- it has left the retained window of the history
    ∃ now next cur p, st = .attempt now next (.connect cur) ∧ s.2.phase = .retrying ∧
      s.2.lastBm = some p ∧ lastBmOf s.2.delivered = some p ∧
      (s.2.cookieOk = false ∨ p < (s.1.writePos : Int) - s.1.cap + s.1.gap)

theorem withSrv_not_done (c : RClient) (f : Watcher → Watcher) (cause : RCause)
    (h : (c.withSrv f).phase = .done cause) : c.phase = .done cause := by
  unfold RClient.withSrv at h
  split at h
  · cases h
  · cases h
  · exact h

/-- **C13 — the terminal error occurs only when allowed**: no bookmark seen on the last
    event, the bookmark is no longer valid (left the retained window / foreign process),
    retries disabled, or the back-off exhausted. -/
theorem errored_only_when_allowed_core {start : Nat} {init : List Event} (s : Ring × RClient) (st : RStep)
    (cause : RCause) (hinv : CInv start init s) (hnot : ∀ x, s.2.phase ≠ .done x)
    (hdone : (rstepCore s st).2.phase = .done cause) : Allowed s st cause := by
  obtain ⟨r, c⟩ := s
  obtain ⟨hr, hsh, hph⟩ := hinv
  simp only at hr hsh hph hnot
  cases st with
  | write e => exact absurd hdone (hnot cause)
  | srvFetch => exact absurd (withSrv_not_done _ _ _ hdone) (hnot cause)
  | srvPush => exact absurd (withSrv_not_done _ _ _ hdone) (hnot cause)
  | srvSettle fuel => exact absurd (withSrv_not_done _ _ _ hdone) (hnot cause)
  | recv now =>
    simp only [rstepCore] at hdone
    cases hp : c.phase with
    | streaming w =>
      simp only [hp] at hdone
      cases hrv : w.recv with
      | mk od w' =>
        rw [hrv] at hdone
        cases od with
        | none => dsimp only at hdone; rw [hp] at hdone; cases hdone
        | some d => cases hdone
    | waitFirst w =>
      simp only [hp] at hdone
      cases hrv : w.recv with
      | mk od w' =>
        rw [hrv] at hdone
        cases od with
        | none => dsimp only at hdone; rw [hp] at hdone; cases hdone
        | some d => cases hdone
    | retrying => simp only [hp] at hdone; cases hdone
    | done x => exact absurd hp (hnot x)
  | fail restart e =>
    simp only [rstepCore] at hdone
    generalize hcd : (if restart then { c with cookieOk := false } else c) = c' at hdone
    have hc' : c'.delivered = c.delivered ∧ c'.lastBm = c.lastBm ∧ c'.phase = c.phase ∧ c'.retry = c.retry := by
      rw [← hcd]; cases restart <;> simp
    obtain ⟨e1, e2, e5, e6⟩ := hc'
    unfold PhaseInv at hph
    cases hp : c.phase with
    | streaming w =>
      rw [hp] at e5
      simp only [hp] at hph
      simp only [e5] at hdone
      by_cases hre : c'.retry = true
      · simp only [hre, Bool.not_true, Bool.false_eq_true, if_false] at hdone
        by_cases hnone : c'.lastBm.isNone = true
        · simp only [hnone, if_true, RClient.terminate] at hdone
          injection hdone with hc
          subst hc
          have hlb : c.lastBm = none := by
            rw [← e2]; cases hh : c'.lastBm with
            | none => rfl
            | some p => rw [hh] at hnone; simp at hnone
          exact ⟨⟨restart, e, rfl⟩, ⟨w, hp⟩, by rw [← e6]; exact hre, hlb, by rw [← hph.lb]; exact hlb⟩
        · simp only [hnone, Bool.false_eq_true, if_false] at hdone
          cases hdone
      · have hre' : c'.retry = false := by cases hh : c'.retry <;> simp_all
        simp only [hre', Bool.not_false, if_true, RClient.terminate] at hdone
        injection hdone with hc
        subst hc
        exact ⟨⟨restart, e, rfl⟩, ⟨w, hp⟩, by rw [← e6]; exact hre'⟩
    | waitFirst w =>
      rw [hp] at e5
      simp only [e5] at hdone
      cases hdone
    | retrying =>
      rw [hp] at e5
      simp only [e5] at hdone
      cases hdone
    | done x => exact absurd hp (hnot x)
  | attempt now next a =>
    simp only [rstepCore] at hdone
    unfold PhaseInv at hph
    cases hp : c.phase with
    | streaming w => simp only [hp] at hdone; cases hdone
    | waitFirst w => simp only [hp] at hdone; cases hdone
    | done x => exact absurd hp (hnot x)
    | retrying =>
      simp only [hp] at hph hdone
      by_cases hstop : now - c.boStart + next > c.maxElapsed
      · simp only [hstop, if_true, RClient.terminate] at hdone
        injection hdone with hc
        subst hc
        exact ⟨now, next, a, rfl, hp, hstop⟩
      · simp only [hstop, if_false] at hdone
        cases a with
        | dialFail => dsimp only at hdone; cases hdone
        | firstRecvFail e => dsimp only at hdone; cases hdone
        | connect cur =>
          simp only at hdone
          obtain ⟨p, I, b1, b2, b3, b4, b5, b6, b7⟩ := hph.ex
          rcases reconnect_dichotomy c r cur p b1 with ⟨hrej, hbad⟩ | ⟨hacc, _, _⟩
          · rw [hrej] at hdone
            simp only [RClient.terminate] at hdone
            injection hdone with hc
            subst hc
            refine ⟨now, next, cur, p, rfl, hp, b1, by rw [← hph.lb]; exact b1, ?_⟩
            rcases hbad with hb | hb
            · exact Or.inl hb
            · right
              unfold Stale low at hb
              rcases hb with hb | hb | hb
              · exact hb
              · exfalso
                cases hk : c.kind with
                | single id => rw [hk] at hb; have := b3 ⟨id, hk⟩; simp only at hb; omega
                | kind => rw [hk] at hb; simp only at hb; omega
                | agg => rw [hk] at hb; simp only at hb; omega
              · exfalso; omega
          · rw [hacc] at hdone
            cases hdone

theorem done_stays (s : Ring × RClient) (st : RStep) (cause : RCause) (h : s.2.phase = .done cause) :
    (rstepCore s st).2.phase = .done cause := by
  cases st with
  | write e => exact h
  | srvFetch => simp only [rstepCore, RClient.withSrv, h]
  | srvPush => simp only [rstepCore, RClient.withSrv, h]
  | srvSettle fuel => simp only [rstepCore, RClient.withSrv, h]
  | recv now => simp only [rstepCore, h]
  | fail restart e =>
    simp only [rstepCore]
    cases restart <;> simp only [if_true, if_false, Bool.false_eq_true, h]
  | attempt now next a => simp only [rstepCore, h]

/-- … for whole schedules: if the watch has ended with `cause`, the schedule contains the step
    at which it ended, and at that step the circumstances were the allowed ones -/
theorem errored_only_when_allowed_run_core {start : Nat} {init : List Event} (steps : List RStep) :
    ∀ (s : Ring × RClient) (cause : RCause), CInv start init s → (∀ x, s.2.phase ≠ .done x) →
      (rrunCore s steps).2.phase = .done cause →
      ∃ pre st post, steps = pre ++ st :: post ∧ (∀ x, (rrunCore s pre).2.phase ≠ .done x) ∧
        Allowed (rrunCore s pre) st cause := by
  induction steps with
  | nil => intro s cause _ hnot hd; exact absurd hd (hnot cause)
  | cons st rest ih =>
    intro s cause hinv hnot hd
    by_cases hnow : ∃ x, (rstepCore s st).2.phase = .done x
    · obtain ⟨x, hx⟩ := hnow
      have hall : ∀ (l : List RStep) (t : Ring × RClient), t.2.phase = .done x → (rrunCore t l).2.phase = .done x := by
        intro l
        induction l with
        | nil => intro t ht; exact ht
        | cons a l ihl => intro t ht; exact ihl _ (done_stays t a x ht)
      have := hall rest (rstepCore s st) hx
      have hcx : cause = x := by
        have e : (rrunCore s (st :: rest)).2.phase = (rrunCore (rstepCore s st) rest).2.phase := rfl
        rw [e, this] at hd
        injection hd with hd
        exact hd.symm
      subst hcx
      exact ⟨[], st, rest, rfl, hnot, errored_only_when_allowed_core s st cause hinv hnot hx⟩
    · have hnot' : ∀ x, (rstepCore s st).2.phase ≠ .done x := fun x hx => hnow ⟨x, hx⟩
      obtain ⟨pre, st', post, e, h1, h2⟩ := ih (rstepCore s st) cause (rstep_inv s st hinv) hnot' hd
      exact ⟨st :: pre, st', post, by rw [e]; rfl, h1, h2⟩


/-! ### a re-established stream starts exactly at lastBookmark + 1 -/

/-- **C13 — no silent gap.** Whenever a retry reaches the server and is accepted, the new
    inner watch starts exactly at `lastBookmark + 1` with nothing announced and nothing in
    flight; acceptance means (C12.accepted_has_no_gap) that every log position from there to
    the write position is still retained and the watcher is not overrun; and the subscriber
    has received exactly everything before that position. -/
theorem no_silent_gap_core {start : Nat} {init : List Event} (s : Ring × RClient) (now next : Nat) (cur : Option Res)
    (w : Watcher) (hinv : CInv start init s) (hph : s.2.phase = .retrying)
    (hok : (rstepCore s (.attempt now next (.connect cur))).2.phase = .waitFirst w) :
    ∃ p : Int, s.2.lastBm = some p ∧ lastBmOf s.2.delivered = some p ∧
      w.pos = (p + 1).toNat ∧ w.pending = [] ∧ w.chan = [] ∧ w.dead = false ∧
      w.pos ≤ s.1.writePos ∧ s.1.writePos - w.pos ≤ s.1.cap ∧
      (∀ q, w.pos ≤ q → q < s.1.writePos → s.1.at q = s.1.log[q]?) ∧
      ∃ I, InitTail I init ∧ s.2.delivered = I ++ (seg s.1.log start w.pos).filterMap (cview s.2) := by
  obtain ⟨r, c⟩ := s
  obtain ⟨hr, hsh, hpi⟩ := hinv
  simp only at hr hsh hpi hph
  unfold PhaseInv at hpi
  simp only [hph] at hpi
  simp only [rstepCore, hph] at hok
  obtain ⟨p, I, b1, b2, b3, b4, b5, b6, b7⟩ := hpi.ex
  by_cases hstop : now - c.boStart + next > c.maxElapsed
  · simp only [hstop, if_true, RClient.terminate] at hok; cases hok
  · simp only [hstop, if_false] at hok
    rcases reconnect_dichotomy c r cur p b1 with ⟨hrej, _⟩ | ⟨hacc, _, hns⟩
    · rw [hrej] at hok; simp only [RClient.terminate] at hok; cases hok
    · rw [hacc] at hok
      simp only at hok
      injection hok with hw
      subst hw
      have hc : ¬ (p < (r.writePos : Int) - r.cap + r.gap ∨ p < -1 ∨ p ≥ r.writePos) := by
        unfold Stale at hns
        intro h
        rcases h with h | h | h
        · exact hns (Or.inl h)
        · omega
        · exact hns (Or.inr (Or.inr h))
      obtain ⟨g1, g2, g3⟩ := accepted_has_no_gap r hr p hc
      exact ⟨p, b1, by rw [← hpi.lb]; exact b1, rfl, rfl, rfl, rfl, g1, g2, g3, I, b7, b6⟩

/-! ### the announcement is never repeated -/

theorem mem_seg (l : List Event) (a b : Nat) (e : Event) (h : e ∈ seg l a b) : e ∈ l := by
  unfold seg at h
  exact List.mem_of_mem_drop (List.mem_of_mem_take h)

theorem filter_prefix_length (p : Event → Bool) (I init : List Event) (h : I <+: init) :
    (I.filter p).length ≤ (init.filter p).length := by
  obtain ⟨t, rfl⟩ := h
  simp [List.filter_append]

/-- **C13 — no bootstrap twice.** (i) After any schedule the delivered stream contains no more
    `Bootstrapped` events than the first establishment announced (at most one), and (ii) no
    more bookmark-less non-error events (bootstrap contents, the initial event of a
    single-resource watch) than that announcement: a re-established stream never announces
    anything (see also `no_silent_gap_core`: `pending = []`). -/
theorem no_bootstrap_twice_core (r0 : Ring) (c0 : RClient) (start : Nat) (init : List Event)
    (h0 : CInv start init (r0, c0)) (steps : List RStep)
    (hlog : ∀ e ∈ (rrunCore (r0, c0) steps).1.log, e.typ ≠ .bootstrapped) :
    let s := rrunCore (r0, c0) steps
    (s.2.delivered.filter (fun e => e.typ == .bootstrapped)).length ≤
        (init.filter (fun e => e.typ == .bootstrapped)).length ∧
    (s.2.delivered.filter (fun e => e.bm.isNone && e.typ != .errored)).length ≤
        (init.filter (fun e => e.bm.isNone && e.typ != .errored)).length := by
  intro s
  have hinv : CInv start init s := rrun_inv steps _ h0
  obtain ⟨I, pos, se, hI, _, _, _, hse, hd⟩ := client_stream_is_server_log_core r0 c0 start init h0 steps
  have herr1 : ∀ (l : List Event), (l = [] ∨ l = [erroredEvent]) →
      l.filter (fun e => e.typ == .bootstrapped) = [] ∧ l.filter (fun e => e.bm.isNone && e.typ != .errored) = [] := by
    intro l hl
    rcases hl with rfl | rfl
    · exact ⟨rfl, rfl⟩
    · exact ⟨by decide, by decide⟩
  have hcli : cliErr s.2 = [] ∨ cliErr s.2 = [erroredEvent] := by
    unfold cliErr; split <;> simp
  have hV1 : ((seg s.1.log start pos).filterMap (cview c0)).filter (fun e => e.typ == .bootstrapped) = [] := by
    rw [List.filter_eq_nil_iff]
    intro x hx
    rw [List.mem_filterMap] at hx
    obtain ⟨e, he, hv⟩ := hx
    have := cview_typ c0 e x hv (hlog e (mem_seg _ _ _ _ he))
    simpa using this
  have hV2 : ((seg s.1.log start pos).filterMap (cview c0)).filter (fun e => e.bm.isNone && e.typ != .errored) = [] := by
    rw [List.filter_eq_nil_iff]
    intro x hx
    rw [List.mem_filterMap] at hx
    obtain ⟨e, he, hv⟩ := hx
    have hmem := mem_seg _ _ _ _ he
    obtain ⟨q, hq⟩ := List.getElem?_of_mem hmem
    have hb := hinv.ring.bm q e hq
    have := cview_bm c0 e x hv
    rw [this, hb]
    simp
  have hd' : s.2.delivered = I ++ ((seg s.1.log start pos).filterMap (cview c0) ++ (se ++ cliErr s.2)) := by
    show (rrunCore (r0, c0) steps).2.delivered = _
    rw [hd]; simp only [List.append_assoc]; rfl
  rw [hd']
  simp only [List.filter_append, hV1, hV2, (herr1 se hse).1, (herr1 se hse).2, (herr1 _ hcli).1, (herr1 _ hcli).2,
    List.append_nil]
  exact ⟨filter_prefix_length _ I init hI, filter_prefix_length _ I init hI⟩

/-! ### every way to establish a watch satisfies the hypotheses -/

theorem startKind_init (r : Ring) (c : List Res) (ns typ : String) (agg : Bool) (o : StartOpts)
    (pos : Nat) (init : List Delivery) (h : startKind r c ns typ agg o = .ok (pos, init)) :
    init = kindInit c ns typ agg o pos := by
  unfold startKind at h
  split at h
  · cases h
  · split at h
    · cases h
    · cases hk : kindStartPos r o with
      | error e => rw [hk] at h; cases h
      | ok p =>
        rw [hk] at h
        injection h with h; injection h with h1 h2; subst h1; exact h2.symm

/-- Adapter.WatchKind / WatchKindAggregated with any accepted options -/
theorem establish_kind (r : Ring) (hr : RingInv r) (hg : r.gap ≤ r.cap) (contents : List Res) (ns typ : String)
    (agg : Bool) (o : StartOpts) (sel : Option (String × String)) (srvCap : Nat) (retry : Bool) (now pos : Nat)
    (init : List Delivery) (h : startKind r contents ns typ agg o = .ok (pos, init)) :
    CInv pos init.flatten
      (r, RClient.establish ns typ (if agg then .agg else .kind) sel srvCap retry now pos init) := by
  refine establish_inv r hr ns typ _ sel srvCap retry now pos init (startKind_pos_le r contents ns typ agg o pos init hg h) ?_
  rw [startKind_init r contents ns typ agg o pos init h]
  exact kindInit_shape contents ns typ agg o pos _ (by intro id; cases agg <;> simp)

theorem tailBack_le (r : Ring) (id : String) (tail : Nat) (minPos : Int) :
    ∀ (fuel pos found : Nat), tailBack r id tail minPos fuel pos found ≤ pos := by
  intro fuel
  induction fuel with
  | zero => intro pos found; simp [tailBack]
  | succ n ih =>
    intro pos found
    simp only [tailBack]
    split
    · exact Nat.le_trans (ih _ _) (Nat.sub_le _ _)
    · exact Nat.le_refl _

/-- Adapter.Watch (single resource) with any accepted options -/
theorem establish_single (r : Ring) (hr : RingInv r) (cur : Option Res) (ns typ id : String) (o : StartOpts)
    (srvCap : Nat) (retry : Bool) (now pos : Nat) (init : List Delivery)
    (h : startSingle r cur ns typ id o = .ok (pos, init)) :
    CInv pos init.flatten (r, RClient.establish ns typ (.single id) none srvCap retry now pos init) := by
  have hboth : pos ≤ r.writePos ∧ ∀ x ∈ init.flatten, x.bm = none := by
    unfold startSingle at h
    split at h
    · cases h
    · split at h
      · injection h with h; injection h with h1 h2; subst h1; subst h2
        exact ⟨tailBack_le _ _ _ _ _ _ _, by simp⟩
      · split at h
        · split at h
          · cases h
          · split at h
            · cases h
            · rename_i hc
              injection h with h; injection h with h1 h2; subst h1; subst h2
              exact ⟨by omega, by simp⟩
        · injection h with h; injection h with h1 h2; subst h1; subst h2
          refine ⟨Nat.le_refl _, ?_⟩
          intro x hx
          simp only [List.flatten_cons, List.flatten_nil, List.append_nil, List.mem_singleton] at hx
          subst hx
          split <;> rfl
  exact establish_inv r hr ns typ _ none srvCap retry now pos init hboth.1 (no_bm_shape _ _ _ hboth.2)


/-! ### the tie to the regenerated facts

Everything above is about `rstepCore`, the machine with every extracted fact of
`Cosi.Gen.RWatch` true. The driver (and the correspondence engine `rwatch`) runs `rstep`,
which READS those facts. They coincide exactly when the anchored code still has the
recognised shape; if `tools/extract` regenerates a fact as `false`, this theorem — and
with it the four property theorems below — no longer builds. -/

theorem facts_as_modelled : rstepFacts = rstepCore := by
  funext s st
  cases st <;>
    simp [rstepFacts, rstepCore, gLastBmAfter, RClient.gReconnect, RClient.reconnect, RClient.gReqOpts, RClient.reqOpts,
      Gen.RWatch.checksDisable, Gen.RWatch.checksNilBookmark, Gen.RWatch.stopsOnBackoffStop,
      Gen.RWatch.clearsBootstrapContents, Gen.RWatch.clearsBootstrapBookmark, Gen.RWatch.clearsTail,
      Gen.RWatch.resumesFromLastBookmark, Gen.RWatch.requestRewrittenBeforeDial, Gen.RWatch.dialErrorContinues,
      Gen.RWatch.abortsOnFailedPrecondition, Gen.RWatch.otherCodesContinue, Gen.RWatch.resetsBackoffOnMessage,
      Gen.RWatch.bookmarkPerEvent, Gen.RWatch.forwardsBeforeNextRecv, Gen.RWatch.backoffDefaultCtor,
      Gen.RWatch.serverInvalidBookmarkIsFailedPrecondition, Gen.RWatch.backoffStopShape]

/-- a rule for the event loop's error branch is sound when EVERY error that ends the watch —
    a status error or a clean end of stream — is handed to `sendError` -/
def Sound (r : RRules) : Prop := ∀ e, r.reports e = true

theorem goodRules_sound : Sound goodRRules := fun _ => rfl

/-- the CURRENT source reports every error (rests on `Gen.RWatch.eventLoopReportsStatus`,
    `eventLoopReportsEOF`, `sendErrorSendsErrored`): stops building when the error branch of
    the event loop swallows a kind of error -/
theorem genRRules_sound : Sound genRRules := by
  intro e
  cases e <;> rfl

/-- under a sound rule the error branch changes nothing -/
theorem withRules_sound (r : RRules) (hr : Sound r) (f : Ring × RClient → RStep → Ring × RClient) :
    withRules r f = f := by
  funext s st
  unfold withRules
  dsimp only
  cases hp : (f s st).2.phase with
  | done cause => simp [hr _]
  | streaming w => rfl
  | waitFirst w => rfl
  | retrying => rfl

theorem code_as_modelled : rstep = rstepCore := by
  unfold rstep rstepW
  rw [withRules_sound genRRules genRRules_sound, facts_as_modelled]

theorem rrun_eq : rrun = rrunCore := by
  funext s steps
  unfold rrun rrunCore
  rw [code_as_modelled]

/-- the back-off limit the driver uses is the pinned library's default (15 min) -/
theorem max_elapsed_is_default : Gen.RWatch.maxElapsedS = 900 := by decide

/-- **C13 — the client-side stream is the server's log** (statement: see `client_stream_is_server_log_core`),
    for the machine that reads the regenerated facts. -/
theorem client_stream_is_server_log (r0 : Ring) (c0 : RClient) (start : Nat) (init : List Event)
    (h0 : CInv start init (r0, c0)) (steps : List RStep) :
    let s := rrun (r0, c0) steps
    ∃ (I : List Event) (pos : Nat) (srvErr : List Event),
      I <+: init ∧ (pos = start ∨ InitTail I init) ∧ start ≤ pos ∧ pos ≤ s.1.writePos ∧
      (srvErr = [] ∨ srvErr = [erroredEvent]) ∧
      s.2.delivered = I ++ (seg s.1.log start pos).filterMap (cview c0) ++ srvErr ++ cliErr s.2 := by
  rw [rrun_eq]
  exact client_stream_is_server_log_core r0 c0 start init h0 steps

/-- **C13 — the terminal error occurs only when allowed** (one step) -/
theorem errored_only_when_allowed {start : Nat} {init : List Event} (s : Ring × RClient) (st : RStep)
    (cause : RCause) (hinv : CInv start init s) (hnot : ∀ x, s.2.phase ≠ .done x)
    (hdone : (rstep s st).2.phase = .done cause) : Allowed s st cause := by
  rw [code_as_modelled] at hdone
  exact errored_only_when_allowed_core s st cause hinv hnot hdone

/-- … and for whole schedules -/
theorem errored_only_when_allowed_run {start : Nat} {init : List Event} (steps : List RStep)
    (s : Ring × RClient) (cause : RCause) (hinv : CInv start init s) (hnot : ∀ x, s.2.phase ≠ .done x)
    (hdone : (rrun s steps).2.phase = .done cause) :
    ∃ pre st post, steps = pre ++ st :: post ∧ (∀ x, (rrun s pre).2.phase ≠ .done x) ∧
      Allowed (rrun s pre) st cause := by
  rw [rrun_eq] at hdone ⊢
  exact errored_only_when_allowed_run_core steps s cause hinv hnot hdone

/-- **C13 — no silent gap** (statement: see `no_silent_gap_core`) -/
theorem no_silent_gap {start : Nat} {init : List Event} (s : Ring × RClient) (now next : Nat) (cur : Option Res)
    (w : Watcher) (hinv : CInv start init s) (hph : s.2.phase = .retrying)
    (hok : (rstep s (.attempt now next (.connect cur))).2.phase = .waitFirst w) :
    ∃ p : Int, s.2.lastBm = some p ∧ lastBmOf s.2.delivered = some p ∧
      w.pos = (p + 1).toNat ∧ w.pending = [] ∧ w.chan = [] ∧ w.dead = false ∧
      w.pos ≤ s.1.writePos ∧ s.1.writePos - w.pos ≤ s.1.cap ∧
      (∀ q, w.pos ≤ q → q < s.1.writePos → s.1.at q = s.1.log[q]?) ∧
      ∃ I, InitTail I init ∧ s.2.delivered = I ++ (seg s.1.log start w.pos).filterMap (cview s.2) := by
  rw [code_as_modelled] at hok
  exact no_silent_gap_core s now next cur w hinv hph hok

/-- **C13 — no bootstrap twice** (statement: see `no_bootstrap_twice_core`) -/
theorem no_bootstrap_twice (r0 : Ring) (c0 : RClient) (start : Nat) (init : List Event)
    (h0 : CInv start init (r0, c0)) (steps : List RStep)
    (hlog : ∀ e ∈ (rrun (r0, c0) steps).1.log, e.typ ≠ .bootstrapped) :
    let s := rrun (r0, c0) steps
    (s.2.delivered.filter (fun e => e.typ == .bootstrapped)).length ≤
        (init.filter (fun e => e.typ == .bootstrapped)).length ∧
    (s.2.delivered.filter (fun e => e.bm.isNone && e.typ != .errored)).length ≤
        (init.filter (fun e => e.bm.isNone && e.typ != .errored)).length := by
  rw [rrun_eq] at hlog ⊢
  exact no_bootstrap_twice_core r0 c0 start init h0 steps hlog

/-- every schedule of the fact-reading machine keeps the invariant -/
theorem rrun_inv_gen {start : Nat} {init : List Event} (steps : List RStep) (s : Ring × RClient)
    (h : CInv start init s) : CInv start init (rrun s steps) := by
  rw [rrun_eq]; exact rrun_inv steps s h

/-! ### the watch never goes silent

The clause "…or terminates with an Errored event (no bookmark seen yet, retries disabled or
exhausted)": whenever the client-side goroutine has returned, the LAST thing it handed to the
subscriber is its `Errored` event — for every schedule, whatever ended the stream (a transport
error or a clean end of stream), at whatever point of the retry loop. -/

/-- **C13 — a finished watch has said so.** In every reachable state: if the client goroutine has
    returned (`done`), what the subscriber was handed ends with the client's `Errored` event. -/
theorem terminal_error_delivered {start : Nat} {init : List Event} (steps : List RStep) (s : Ring × RClient)
    (cause : RCause) (hinv : CInv start init s) (hdone : (rrun s steps).2.phase = .done cause) :
    ∃ D, (rrun s steps).2.delivered = D ++ [erroredEvent] := by
  have h := (rrun_inv_gen steps s hinv).ph
  unfold PhaseInv at h
  rw [hdone] at h
  obtain ⟨D, hD, _⟩ := h
  exact ⟨D, hD⟩

/-- the client goroutine is blocked in `Recv`, inside its retry loop, or has returned -/
def alive (c : RClient) : Bool :=
  match c.phase with
  | .done _ => false
  | _ => true

/-- **C13 — the watch never goes silent**: after any schedule the client is still working on the
    stream (blocked in Recv or in its retry loop) or the subscriber's last event is `Errored`. -/
theorem watch_never_silent {start : Nat} {init : List Event} (steps : List RStep) (s : Ring × RClient)
    (hinv : CInv start init s) :
    alive (rrun s steps).2 = true ∨ (rrun s steps).2.delivered.getLast? = some erroredEvent := by
  cases hp : (rrun s steps).2.phase with
  | done cause =>
    obtain ⟨D, hD⟩ := terminal_error_delivered steps s cause hinv hp
    right
    rw [hD]
    simp
  | streaming w => left; simp [alive, hp]
  | waitFirst w => left; simp [alive, hp]
  | retrying => left; simp [alive, hp]

/-- **C13 — a Recv error is retried or reported, whatever its kind.** When `cli.Recv` of an
    established stream fails — with a status error OR with io.EOF — the client either enters its
    retry loop (then retries are enabled and it holds a bookmark) or hands `Errored` to the
    subscriber and returns. There is no third outcome. -/
theorem recv_error_retried_or_reported (s : Ring × RClient) (b : Bool) (e : RecvErr) (w : Watcher)
    (hp : s.2.phase = .streaming w) :
    ((rstep s (.fail b e)).2.phase = .retrying ∧ s.2.retry = true ∧ s.2.lastBm.isSome = true) ∨
    (∃ cause, (rstep s (.fail b e)).2.phase = .done cause ∧
      (rstep s (.fail b e)).2.delivered = s.2.delivered ++ [erroredEvent]) := by
  rw [code_as_modelled]
  obtain ⟨r, c⟩ := s
  simp only at hp
  simp only [rstepCore]
  generalize hcd : (if b then { c with cookieOk := false } else c) = c'
  have hc' : c'.delivered = c.delivered ∧ c'.lastBm = c.lastBm ∧ c'.phase = c.phase ∧ c'.retry = c.retry := by
    rw [← hcd]; cases b <;> simp
  obtain ⟨e1, e2, e5, e6⟩ := hc'
  rw [hp] at e5
  simp only [e5]
  by_cases hre : c'.retry = true
  · simp only [hre, Bool.not_true, Bool.false_eq_true, if_false]
    by_cases hnone : c'.lastBm.isNone = true
    · simp only [hnone, if_true, RClient.terminate]
      exact Or.inr ⟨.noBookmark, rfl, by rw [e1]⟩
    · simp only [hnone, Bool.false_eq_true, if_false]
      refine Or.inl ⟨by first | rfl | trivial, by rw [← e6]; exact hre, ?_⟩
      rw [← e2]
      cases hh : c'.lastBm with
      | none => rw [hh] at hnone; simp at hnone
      | some p => rfl
  · have hre' : c'.retry = false := by cases hh : c'.retry <;> simp_all
    simp only [hre', Bool.not_false, if_true, RClient.terminate]
    exact Or.inr ⟨.retryDisabled, rfl, by rw [e1]⟩

/-- what an UNSOUND rule does (general form of the witnesses below): a step that ends the watch
    with an error the rule does not report leaves the subscriber's stream exactly as it was — the
    client is `done` and nothing says so -/
theorem unreported_end_is_silent (r : RRules) (f : Ring × RClient → RStep → Ring × RClient) (s : Ring × RClient)
    (st : RStep) (cause : RCause) (hnot : isDonePhase s.2.phase = false) (hd : (f s st).2.phase = .done cause)
    (hr : r.reports (endErr s.2 st cause) = false) :
    (withRules r f s st).2.phase = .done cause ∧ (withRules r f s st).2.delivered = s.2.delivered := by
  unfold withRules
  simp only [hd, hnot, hr, Bool.not_false, Bool.and_self, if_true]
  constructor <;> first | exact hd | rfl | trivial

/-! ### non-vacuity: concrete schedules -/

def exRes (id : String) : Res :=
  { ns := "n1", typ := "T", id := id, ver := some 1, owner := "", phase := .running, fins := [], labels := [],
    created := 0, updated := 0, spec := "s" }

def exEv (id : String) : Event := { typ := .created, res := exRes id }

/-- history of capacity 4, gap 1, one event `a` already written -/
def exRing : Ring := (Ring.new 4 4 1).publish (exEv "a")

/-- WatchKind with bootstrap contents on it: starts at position 1 -/
def exClient : RClient :=
  RClient.establish "n1" "T" .kind none 1 true 0 1 (kindInit [exRes "a"] "n1" "T" false { bootstrap := true } 1)

example : startKind exRing [exRes "a"] "n1" "T" false { bootstrap := true } =
    .ok (1, kindInit [exRes "a"] "n1" "T" false { bootstrap := true } 1) := by rfl

/-- the hypotheses of all theorems hold for this start (RingInv by `publish_inv`, the rest by `establish_kind`) -/
example : CInv 1 (kindInit [exRes "a"] "n1" "T" false { bootstrap := true } 1).flatten (exRing, exClient) :=
  establish_kind exRing (publish_inv _ _ (new_inv 4 4 1 (by decide))) (by decide) [exRes "a"] "n1" "T" false
    { bootstrap := true } none 1 true 0 1 _ (by rfl)

/-- bootstrap, a failure after the Bootstrapped event, two writes (one during the outage), a
    re-establishment that first fails to dial and then resumes from bookmark 0: the subscriber
    gets contents, Bootstrapped, b@1, c@2 — each exactly once, in order; the watch is streaming -/
def exSched : List RStep :=
  [.srvSettle 9, .recv 0, .srvSettle 9, .recv 0, .write (exEv "b"), .fail false .status, .write (exEv "c"),
   .attempt 1 1 .dialFail, .attempt 2 1 (.connect none), .srvSettle 9, .recv 3, .srvSettle 9, .recv 3]

example : (rrun (exRing, exClient) exSched).2.delivered.map (fun e => (e.typ, e.res.id, e.bm)) =
    [(.created, "a", none), (.bootstrapped, "", some 0), (.created, "b", some 1), (.created, "c", some 2)] ∧
    (rrun (exRing, exClient) exSched).2.lastBm = some 2 ∧
    (match (rrun (exRing, exClient) exSched).2.phase with | .streaming _ => true | _ => false) = true := by
  decide

/-- four writes during the outage push bookmark 0 out of the retained window (4 - 1 = 3 events):
    the retry is refused and the watch ends with ONE Errored after exactly what it had delivered -/
example :
    let s := rrun (exRing, exClient)
      [.srvSettle 9, .recv 0, .srvSettle 9, .recv 0, .fail false .status, .write (exEv "b"), .write (exEv "c"),
       .write (exEv "d"), .write (exEv "e"), .attempt 1 1 (.connect none)]
    s.2.delivered.map (fun e => (e.typ, e.bm)) = [(.created, none), (.bootstrapped, some 0), (.errored, none)] ∧
    (match s.2.phase with | .done .invalidBookmark => true | _ => false) = true := by
  decide

/-- a failure before any bookmarked event (only a bootstrap Created received): Errored, no retry -/
example :
    let s := rrun (exRing, exClient) [.srvSettle 9, .recv 0, .fail false .status]
    s.2.delivered.map (fun e => e.typ) = [.created, .errored] ∧
    (match s.2.phase with | .done .noBookmark => true | _ => false) = true := by
  decide

/-- the back-off gives up WITHOUT a single attempt when the watch has been up for longer than
    MaxElapsedTime (15 min) since it was established / last reset: `now - boStart = 1000 s` -/
example :
    let s := rrun (exRing, exClient) [.srvSettle 9, .recv 0, .srvSettle 9, .recv 0, .fail false .status, .attempt 1000 1 (.connect none)]
    (match s.2.phase with | .done .exhausted => true | _ => false) = true := by
  decide

/-- a replaced server process refuses the old bookmark although its position is in range -/
example :
    let s := rrun (exRing, exClient) [.srvSettle 9, .recv 0, .srvSettle 9, .recv 0, .fail true .status, .attempt 1 1 (.connect none)]
    (match s.2.phase with | .done .invalidBookmark => true | _ => false) = true := by
  decide

/-- the bootstrap-bookmark Noop can be the one announced event that is never delivered: failure
    between Bootstrapped and Noop, resumption from the same bookmark without re-announcing -/
example :
    let c : RClient := RClient.establish "n1" "T" .kind none 1 true 0 1
      (kindInit [exRes "a"] "n1" "T" false { bootstrap := true, bootstrapBookmark := true } 1)
    let s := rrun (exRing, c)
      [.srvSettle 9, .recv 0, .srvSettle 9, .recv 0, .fail false .status, .write (exEv "b"), .attempt 1 1 (.connect none),
       .srvSettle 9, .recv 2]
    s.2.delivered.map (fun e => (e.typ, e.bm)) = [(.created, none), (.bootstrapped, some 0), (.created, some 1)] := by
  decide

/-! ### kernel-checked negative witnesses: a rule that swallows a clean end of stream

`seededRules` is the rule of an event loop whose error branch reads
`if !errors.Is(err, io.EOF) { sendError(err) }; return` (io.EOF taken for a regular end, as in
List). The property's clause fails in exactly the three non-retryable situations it names; with
a bookmark and retries enabled the watch still resumes (the fourth example), which is why such a
change survives every test that only restarts servers. -/

def seededRules : RRules := { reports := fun | .eof => false | .status => true }

def rrunW (r : RRules) (s : Ring × RClient) (steps : List RStep) : Ring × RClient := steps.foldl (withRules r rstepCore) s

theorem seededRules_unsound : ¬ Sound seededRules := fun h => by have := h .eof; cases this

/-- no bookmark seen yet (only a bootstrap Created received), the server ends the stream cleanly:
    the client goroutine has returned and the subscriber was told NOTHING -/
theorem seeded_rule_silent_without_bookmark :
    let s := rrunW seededRules (exRing, exClient) [.srvSettle 9, .recv 0, .fail false .eof]
    s.2.delivered.map (fun e => e.typ) = [.created] ∧ alive s.2 = false ∧
    s.2.delivered.getLast? ≠ some erroredEvent := by
  decide

/-- retries disabled, bookmark seen: same silence -/
theorem seeded_rule_silent_with_retries_disabled :
    let c : RClient := RClient.establish "n1" "T" .kind none 1 false 0 1
      (kindInit [exRes "a"] "n1" "T" false { bootstrap := true } 1)
    let s := rrunW seededRules (exRing, c) [.srvSettle 9, .recv 0, .srvSettle 9, .recv 0, .fail false .eof]
    s.2.delivered.map (fun e => e.typ) = [.created, .bootstrapped] ∧ alive s.2 = false := by
  decide

/-- back-off exhausted while the error being retried was a clean end of stream (`%w` keeps it
    visible to errors.Is): silence again -/
theorem seeded_rule_silent_when_exhausted :
    let s := rrunW seededRules (exRing, exClient)
      [.srvSettle 9, .recv 0, .srvSettle 9, .recv 0, .fail false .status, .attempt 1 1 (.firstRecvFail .eof),
       .attempt 1000 1 .dialFail]
    s.2.delivered.map (fun e => e.typ) = [.created, .bootstrapped] ∧ alive s.2 = false := by
  decide

/-- … whereas a retryable clean end of stream (bookmark seen, retries enabled) resumes under the
    seeded rule exactly as under the sound one, and so does every status error -/
theorem seeded_rule_still_resumes :
    let sched : List RStep := [.srvSettle 9, .recv 0, .srvSettle 9, .recv 0, .write (exEv "b"), .fail false .eof,
      .attempt 1 1 (.connect none), .srvSettle 9, .recv 2]
    (rrunW seededRules (exRing, exClient) sched).2.delivered = (rrunCore (exRing, exClient) sched).2.delivered ∧
    (rrunW seededRules (exRing, exClient) [.srvSettle 9, .recv 0, .fail false .status]).2.delivered.map (fun e => e.typ) =
      [.created, .errored] := by
  decide

/-- the machine of the CURRENT source on the same schedules: one `Errored`, last (reads the
    regenerated facts: fails to check when the source swallows a clean end of stream) -/
theorem current_source_reports_clean_end :
    (rrun (exRing, exClient) [.srvSettle 9, .recv 0, .fail false .eof]).2.delivered.map (fun e => e.typ) =
      [.created, .errored] ∧
    (rrun (exRing, exClient) [.srvSettle 9, .recv 0, .srvSettle 9, .recv 0, .fail false .status,
      .attempt 1 1 (.firstRecvFail .eof), .attempt 1000 1 .dialFail]).2.delivered.map (fun e => e.typ) =
      [.created, .bootstrapped, .errored] := by
  decide

end Cosi.C13
