/-
  Property C12 for the bookmark codec, acceptance windows, initial bookmark, rewriting and tails REGENERATED from
  the source text (`…With genRules`, Cosi.Model.WatchRules — what the driver of engine `watch` runs in model mode).
  Every theorem evaluates regenerated facts of collection.go (Cosi.Gen.Watch) by `decide`; leaf module.

    src_bookmark_roundtrip, src_foreign_rejected, src_decode_only_encoded, src_decodeBm_bytes    (dec… / enc… / cookieLen)
    src_kind_reject_invalid, src_kind_accept, src_kind_accepted_has_no_gap                       (kindBm…)
    src_single_reject_invalid, src_single_accept                                                 (singleBm…)
    src_recent_accepted            the whole window of the last (initial capacity − gap) bookmarks is accepted
    src_rewrite_bm                 a rewritten event keeps its bookmark                          (kindRewrite)
    src_initial_bookmark_precedes_replay                                                         (kindInitBm)
    src_kind_tail_pos, src_tailBack_is_tailBack                                                  (kindTail, singleTail…)
-/
import Cosi.Props.C12Rules
open Cosi
namespace Cosi.C12
open Cosi.C02

/-! ### byte level -/

/-- bookmark round trip for the encode / decode of the current source text (Gen.Watch.enc… / dec…) -/
theorem src_bookmark_roundtrip (cookie : List UInt8) (hc : cookie.length = 8) (p : Int)
    (h1 : -(2^63 : Int) ≤ p) (h2 : p < 2^63) :
    decodeBookmarkWith genBmRules cookie (encodeBookmarkWith genBmRules cookie p) = some p := by
  have hg : genBmRules = goodBmRules := by decide
  rw [hg, decodeWith_good, encodeWith_good]; exact bookmark_roundtrip cookie hc p h1 h2

/-- a bookmark of the wrong length or with another process' cookie never decodes, in the current source text -/
theorem src_foreign_rejected (cookie b : List UInt8) (h : b.length ≠ 16 ∨ b.take 8 ≠ cookie) :
    decodeBookmarkWith genBmRules cookie b = none := by
  have hg : genBmRules = goodBmRules := by decide
  rw [hg, decodeWith_good]; exact foreign_rejected cookie b h

/-- **decodeBookmark of the current source text accepts only encodeBookmark's image** (exact length, cookie
    comparison over exactly the first 8 bytes: Gen.Watch.decLen / decCookie) -/
theorem src_decode_only_encoded (cookie : List UInt8) (b : List UInt8) (p : Int)
    (h : decodeBookmarkWith genBmRules cookie b = some p) : b = encodeBookmarkWith genBmRules cookie p := by
  have hg : genBmRules = goodBmRules := by decide
  rw [hg, decodeWith_good] at h
  rw [hg, encodeWith_good]; exact decode_only_encoded cookie b p h

/-- the position-level decoding the start functions of the current source use is the byte-level one -/
theorem src_decodeBm_bytes (cookie bs : List UInt8) :
    decodeBmWith genRules { len := bs.length, cookieOk := bs.take 8 == cookie, pos := toI64 (fromBe64 ((bs.drop 8).take 8)) }
      = decodeBookmarkWith genBmRules cookie bs := by
  have hg : genBmRules = goodBmRules := by decide
  rw [decodeBmWith_good genRules (by decide), hg, decodeWith_good]
  unfold decodeBm decodeBookmark
  by_cases h1 : bs.length ≠ 16
  · simp [h1]
  · have hl16 : bs.length = 16 := by omega
    have : (bs.drop 8).take 8 = bs.drop 8 := List.take_of_length_le (by simp [hl16])
    by_cases h2 : bs.take 8 = cookie <;> simp [h1, h2, this]

/-! ### acceptance windows -/

/-- WatchAll of the current source rejects what `kind_reject_invalid` says (Gen.Watch.kindBm…, dec…) -/
theorem src_kind_reject_invalid (r : Ring) (c : List Res) (ns typ : String) (agg bb : Bool) (b : BookmarkArg)
    (h : decodeBm b = none ∨ ∃ p, decodeBm b = some p ∧
      (p < (r.writePos : Int) - r.cap + r.gap ∨ p < -1 ∨ p ≥ r.writePos)) :
    startKindWith genRules r c ns typ agg (bmOpts b bb) = .error .invalidBookmark := by
  apply startKindWith_bm_error
  rw [kindStartPosWith_bm_good genRules (by decide) (by decide), kindStartPos_bm]
  rcases h with h | ⟨p, hp, hc⟩
  · rw [h]
  · rw [hp]; simp only [hc, if_true]

theorem src_kind_accept (r : Ring) (c : List Res) (ns typ : String) (agg bb : Bool) (b : BookmarkArg) (p : Int)
    (hp : decodeBm b = some p)
    (hc : ¬ (p < (r.writePos : Int) - r.cap + r.gap ∨ p < -1 ∨ p ≥ r.writePos)) :
    startKindWith genRules r c ns typ agg (bmOpts b bb) =
      .ok ((p + 1).toNat, kindInit c ns typ agg (bmOpts b bb) (p + 1).toNat) := by
  rw [startKindWith_good genRules (by decide) (by decide) (by decide) (by decide)]
  exact kind_accept r c ns typ agg bb b p hp hc

/-- **A bookmark WatchAll of the current source accepts names a logged event (or -1), and everything after it is
    still retained**: the resumed watcher starts inside the log, is not overrun and reads `log[p+1 ..)` — no gap. -/
theorem src_kind_accepted_has_no_gap (r : Ring) (hr : RingInv r) (c : List Res) (ns typ : String) (agg bb : Bool)
    (b : BookmarkArg) (pos : Nat) (init : List Delivery)
    (h : startKindWith genRules r c ns typ agg (bmOpts b bb) = .ok (pos, init)) :
    ∃ p : Int, decodeBm b = some p ∧ -1 ≤ p ∧ p < r.writePos ∧ pos = (p + 1).toNat ∧ pos ≤ r.writePos ∧
      r.writePos - pos ≤ r.cap ∧ ∀ q, pos ≤ q → q < r.writePos → r.at q = r.log[q]? := by
  have hp := startKindWith_pos genRules r c ns typ agg (bmOpts b bb) pos init h
  rw [kindStartPosWith_bm_good genRules (by decide) (by decide), kindStartPos_bm] at hp
  cases hd : decodeBm b with
  | none => rw [hd] at hp; cases hp
  | some p =>
    rw [hd] at hp
    by_cases hc : p < (r.writePos : Int) - r.cap + r.gap ∨ p < -1 ∨ p ≥ r.writePos
    · simp only [hc, if_true] at hp; cases hp
    · simp only [hc, if_false] at hp
      injection hp with hp
      obtain ⟨a1, a2, a3⟩ := accepted_has_no_gap r hr p hc
      subst hp
      exact ⟨p, rfl, by omega, by omega, rfl, a1, a2, a3⟩

theorem src_single_reject_invalid (r : Ring) (cur : Option Res) (ns typ id : String) (b : BookmarkArg)
    (h : decodeBm b = none ∨ ∃ p, decodeBm b = some p ∧
      (p < (r.writePos : Int) - r.cap + r.gap ∨ p < 0 ∨ p ≥ r.writePos)) :
    startSingleWith genRules r cur ns typ id { bookmark := some b } = .error .invalidBookmark := by
  rw [startSingleWith_good genRules (by decide) (by decide) (by decide)]
  exact single_reject_invalid r cur ns typ id b h

theorem src_single_accept (r : Ring) (cur : Option Res) (ns typ id : String) (b : BookmarkArg) (p : Int)
    (hp : decodeBm b = some p)
    (hc : ¬ (p < (r.writePos : Int) - r.cap + r.gap ∨ p < 0 ∨ p ≥ r.writePos)) :
    startSingleWith genRules r cur ns typ id { bookmark := some b } = .ok ((p + 1).toNat, []) := by
  rw [startSingleWith_good genRules (by decide) (by decide) (by decide)]
  exact single_accept r cur ns typ id b p hp hc

/-- **Recent bookmarks are accepted by Watch and WatchAll of the current source**: the bookmarks of the most recent
    (initial capacity − gap) events — down to and INCLUDING the oldest of that window — whatever growth happened. -/
theorem src_recent_accepted (r : Ring) (initCap : Nat) (hcap : initCap ≤ r.cap) (p : Nat)
    (h1 : p < r.writePos) (h2 : r.writePos ≤ p + (initCap - r.gap)) (hg : r.gap ≤ initCap)
    (b : BookmarkArg) (hb : decodeBm b = some (p : Int)) (cur : Option Res) (c : List Res) (ns typ id : String) (agg bb : Bool) :
    startSingleWith genRules r cur ns typ id { bookmark := some b } = .ok (p + 1, []) ∧
    startKindWith genRules r c ns typ agg (bmOpts b bb) = .ok (p + 1, kindInit c ns typ agg (bmOpts b bb) (p + 1)) := by
  have hk := recent_accepted r initCap hcap p h1 h2 hg
  have hs : ¬ ((p : Int) < (r.writePos : Int) - r.cap + r.gap ∨ (p : Int) < 0 ∨ (p : Int) ≥ r.writePos) := by omega
  have e : ((p : Int) + 1).toNat = p + 1 := by omega
  rw [startSingleWith_good genRules (by decide) (by decide) (by decide),
    startKindWith_good genRules (by decide) (by decide) (by decide) (by decide),
    single_accept r cur ns typ id b p hb hs, kind_accept r c ns typ agg bb b p hb hk, e]
  exact ⟨rfl, rfl⟩

/-! ### rewriting, initial bookmark, tails -/

/-- the filter closure of the current source keeps the bookmark of every event it lets through, rewritten or not
    (Gen.Watch.kindRewrite: in place) -/
theorem src_rewrite_bm (sel : Option (String × String)) (e e' : Event) (h : rewriteWith genRules sel e = some e') :
    e'.bm = e.bm := by
  rw [rewriteWith_good genRules (by decide)] at h; exact rewrite_bm sel e e' h

/-- **the initial bookmark of WatchAll of the current source names the position right before the first replayed
    event** (Gen.Watch.kindInitBm: evaluated after the TailEvents / StartFromBookmark switch) -/
theorem src_initial_bookmark_precedes_replay (r : Ring) (c : List Res) (ns typ : String) (agg : Bool) (o : StartOpts)
    (pos : Nat) (init : List Delivery) (h : startKindWith genRules r c ns typ agg o = .ok (pos, init)) :
    ∀ e ∈ init.flatten, (e.typ = .bootstrapped ∨ e.typ = .noop) → e.bm = some ((pos : Int) - 1) := by
  rw [startKindWith_init genRules (by decide) r c ns typ agg o pos init h]
  exact kindInit_bm c ns typ agg o pos

theorem src_kind_tail_pos (r : Ring) (n : Nat) (hn : 0 < n) (hg : r.gap ≤ r.cap) :
    kindStartPosWith genRules r { tail := n } = .ok (r.writePos - min (min n (r.cap - r.gap)) r.writePos) := by
  rw [kindStartPosWith_tail_good genRules (by decide) r n hn]; exact kind_tail_pos r n hn hg

/-- the tail walk-back of Watch of the current source is the intended one (`tailBack_spec` applies to it) -/
theorem src_tailBack_is_tailBack (r : Ring) (id : String) (tail : Nat) (minPos : Int) (fuel pos found : Nat) :
    tailBackWith genRules r id tail minPos fuel pos found = tailBack r id tail minPos fuel pos found :=
  tailBackWith_good genRules (by decide) r id tail minPos fuel pos found

end Cosi.C12
