/-
  Cosi.Model.Transform — one reconcile pass of the Transform controller configured
  WithInputFinalizers (/repo/pkg/controller/generic/transform/controller.go: Run :209,
  processInputs :289, reconcileTearingDownInput :366, cleanupOutputs :401) as a machine over
  `n` input/output pairs (ids `Fin n`, the mapping function is the identity on ids: mapping
  functions are injective, hypothesis of C06/C07).

  Granularity. The atomic actions are the controller's List reads and its helper calls
  (AddFinalizer, Modify, Teardown, Destroy, RemoveFinalizer), exactly as in
  Cosi.Model.QTransform and for the same reason (C04: a helper's single committed write is
  its mutator applied to the value stored immediately before; an erroring helper writes
  nothing). Between any two of them the environment may do anything C07's `EnvOk` allows.

  Stale reads. Every decision of a pass uses the value READ by the pass's List calls
  (`Pc.inputs todo` / `Pc.outputs todo` carry the listed values), while every helper acts on
  the store as it is when the helper runs.

  Per-pass bookkeeping (runState :198): `touched` = touchedOutputIDs, `rel` =
  removeInputFinalizers (keyed by OUTPUT id = input id here).

  The decision points are PARAMETERS (`Rules`); `genRules` instantiates them from the
  regenerated facts of Cosi.Gen.Ctrl (fail closed), `step := stepWith genRules`.
-/
import Cosi.Base
import Cosi.Gen.Ctrl

namespace Cosi.TF

inductive Ph where
  | running | tearingDown
deriving DecidableEq, Repr, Inhabited

structure AIn where
  phase : Ph
  ctlFin : Bool      -- the controller's finalizer is on the input
  foreign : Bool     -- some other finalizer is on the input
deriving DecidableEq, Repr, Inhabited

structure AOut where
  owned : Bool       -- owner = the controller (an id of the output type may also be taken by somebody else)
  phase : Ph
  foreign : Bool     -- a foreign finalizer holds the output
  fresh : Bool       -- content = transform of the input's CURRENT spec
deriving DecidableEq, Repr, Inhabited

/-- the exits of one iteration of cleanupOutputs' per-output loop (fixed vocabulary, Cosi.GenTypes) -/
abbrev Exit := Gen.CleanupExit

/-- the decision points of the pass that come from the source text -/
structure Rules where
  /-- cleanupOutputs: leaving the loop body through this exit does NOT `delete(runState.removeInputFinalizers, id)` -/
  keepsRelease : Exit → Bool
  /-- processInputs: AddFinalizer(input) precedes Modify(output) for an input read as running (:321-337) -/
  finFirst : Bool
  /-- where `removeInputFinalizers[id] = in` happens: (phase read, finalizer read, FinalizerRemovalFunc succeeded) -/
  populates : Ph → Bool → Bool → Bool

/-- the rules the code is meant to implement: only a successful Destroy keeps the pending release (:417, :429,
    :440, :455, :461); finalizer first; only a tearing-down input carrying the finalizer whose removal func
    returned nil is entered (:380-398) -/
def goodRules : Rules :=
  { keepsRelease := fun e => e == .destroyOk,
    finFirst := true,
    populates := fun ph fin ok => ph == .tearingDown && fin && ok }

/-- the rules of the CURRENT source text; an unrecognised shape gives the worst rule -/
def genRules : Rules :=
  { keepsRelease := fun e => if Gen.Ctrl.cleanupLoopShape then Gen.Ctrl.cleanupExitKeepsRelease e else true,
    finFirst := Gen.Ctrl.transformFinBeforeModify,
    populates := fun ph fin ok =>
      match Gen.Ctrl.transformReleaseSource with
      | .tornDownFinRemovalOk => goodRules.populates ph fin ok
      | .unknown => true }

/-- the controller's program counter inside a pass; the lists are what is left of a List result -/
inductive Pc (n : Nat) where
  | idle
  | inputs (todo : List (Fin n × AIn))                          -- processInputs loop :302
  | modify (k : Fin n) (finAfter : Bool) (todo : List (Fin n × AIn))   -- about to Modify(output k) :337
  | addFin (k : Fin n) (todo : List (Fin n × AIn))              -- only with `finFirst = false`
  | outputs (todo : List (Fin n × AOut))                        -- cleanupOutputs loop :414
  | destroy (k : Fin n) (todo : List (Fin n × AOut))            -- Teardown said ready: about to Destroy :460
  | release (todo : List (Fin n))                               -- RemoveFinalizer loop :470
deriving DecidableEq, Repr, Inhabited

structure Sys (n : Nat) where
  inp : Fin n → Option AIn
  out : Fin n → Option AOut
  pc : Pc n := .idle
  touched : List (Fin n) := []       -- runState.touchedOutputIDs
  rel : List (Fin n) := []           -- runState.removeInputFinalizers
  /-- the input's spec changed after this pass listed it: what Modify writes is already stale -/
  staleRead : Fin n → Bool := fun _ => false
  errs : Bool := false               -- runState.multiErr != nil
  -- ghosts
  /-- outputs found absent by this pass's List, or destroyed by the controller in this pass -/
  gone : List (Fin n) := []
  /-- the controller destroyed an output that was not tearing down -/
  badDestroy : Bool := false
  /-- an input was entered into removeInputFinalizers that was not read tearing-down, with the finalizer, after a
      successful FinalizerRemovalFunc -/
  badPopulate : Bool := false

/-- point update -/
def upd {α : Type} {n : Nat} (f : Fin n → α) (k : Fin n) (v : α) : Fin n → α :=
  fun j => if j = k then v else f j

/-- `[0, …, m-1]` as elements of `Fin n` (the order of a List result: sorted by id) -/
def finsBelow (n : Nat) : (m : Nat) → m ≤ n → List (Fin n)
  | 0, _ => []
  | m + 1, h => finsBelow n m (Nat.le_of_succ_le h) ++ [⟨m, h⟩]

def allFin (n : Nat) : List (Fin n) := finsBelow n n (Nat.le_refl n)

/-- safe.ReaderList: the existing resources with the value they have NOW -/
def listOf {α : Type} {n : Nat} (f : Fin n → Option α) : List (Fin n × α) :=
  (allFin n).filterMap fun k => (f k).map fun v => (k, v)

/-! every id is listed; `listOf` lists exactly what exists (used by the proofs in Cosi.Props.C07Transform / C07Cleanup) -/

theorem mem_finsBelow (k : Fin n) : ∀ (m : Nat) (h : m ≤ n), k.val < m → k ∈ finsBelow n m h := by
  intro m
  induction m with
  | zero => intro _ hk; exact absurd hk (Nat.not_lt_zero _)
  | succ m ih =>
    intro h hk
    unfold finsBelow
    rw [List.mem_append]
    by_cases hlt : k.val < m
    · exact Or.inl (ih _ hlt)
    · right
      have : k.val = m := by omega
      simp [Fin.ext_iff, this]

theorem mem_allFin (k : Fin n) : k ∈ allFin n := mem_finsBelow k n (Nat.le_refl n) k.isLt

theorem mem_listOf {α : Type} (f : Fin n → Option α) (k : Fin n) (v : α) :
    (k, v) ∈ listOf f ↔ f k = some v := by
  unfold listOf
  rw [List.mem_filterMap]
  constructor
  · rintro ⟨j, _, hj⟩
    cases hf : f j with
    | none => rw [hf] at hj; cases hj
    | some w =>
      rw [hf] at hj
      simp only [Option.map_some, Option.some.injEq, Prod.mk.injEq] at hj
      obtain ⟨rfl, rfl⟩ := hj
      exact hf
  · intro h
    exact ⟨k, mem_allFin k, by simp [h]⟩

/-- what the scheduler / the user callbacks decide for one controller action -/
structure Choice where
  frf : Bool := true     -- FinalizerRemovalFunc returns nil (false: an error, tagged or not)
  fail : Bool := false   -- the helper call fails for an outside reason (rate limiter, context, transient): no write
  pick : Nat := 0        -- which entry of removeInputFinalizers the (randomly ordered) map iteration yields next
deriving DecidableEq, Repr, Inhabited

variable {n : Nat}

/-- leave one iteration of cleanupOutputs' loop through exit `e` -/
def exitLoop (r : Rules) (s : Sys n) (e : Exit) (k : Fin n) (rest : List (Fin n × AOut)) (err : Bool) : Sys n :=
  { s with rel := if r.keepsRelease e then s.rel else s.rel.filter (fun j => j ≠ k),
           pc := .outputs rest, errs := s.errs || err }

/-- the content Modify writes for output `k` is the transform of the input as LISTED -/
def writesFresh (s : Sys n) (k : Fin n) : Bool :=
  (s.inp k).isSome && !s.staleRead k

/-- one atomic action of the controller -/
def ctlWith (r : Rules) (s : Sys n) (c : Choice) : Sys n :=
  match s.pc with
  | .idle =>
    -- Run :246-257: fresh runState, processInputs: List inputs :296
    { s with pc := .inputs (listOf s.inp), touched := [], rel := [], gone := [], errs := false,
             staleRead := fun _ => false }
  | .inputs [] =>
    -- cleanupOutputs: List outputs :409
    { s with pc := .outputs (listOf s.out), gone := (allFin n).filter fun k => (s.out k).isNone }
  | .inputs ((k, i) :: rest) =>
    if i.phase = .tearingDown then
      -- reconcileTearingDownInput :366 (no store operation: the removal func only reads)
      let pop := r.populates .tearingDown i.ctlFin c.frf
      { s with pc := .inputs rest,
               rel := if pop then k :: s.rel else s.rel,
               touched := if i.ctlFin && !c.frf then k :: s.touched else s.touched,     -- :392
               badPopulate := s.badPopulate || (pop && !(i.ctlFin && c.frf)) }
    else
      let pop := r.populates .running i.ctlFin true
      let s1 := { s with touched := k :: s.touched,                                      -- :318
                         rel := if pop then k :: s.rel else s.rel,
                         badPopulate := s.badPopulate || pop }
      if r.finFirst && !i.ctlFin then
        -- `in.Metadata().Finalizers().Add(name)` on the LISTED value :322, AddFinalizer on the current one :323
        match s.inp k with
        | none => { s1 with pc := .inputs rest, errs := true }                           -- NotFound → continue :326
        | some cur =>
          if c.fail then { s1 with pc := .inputs rest, errs := true }
          else { s1 with inp := upd s.inp k (some { cur with ctlFin := true }), pc := .modify k false rest }
      else { s1 with pc := .modify k (!r.finFirst && !i.ctlFin) rest }
  | .modify k after rest =>
    -- safe.WriterModify :337 = state.Modify (wrap.go:311): create if absent, else update in phase running
    let next : Pc n := if after then .addFin k rest else .inputs rest
    -- a failing Modify (the transform function failed, a write inside it was refused, …) ends the pass with an error;
    -- the only error that is skipped is a conflict on the mapped output itself (`Gen.Ctrl.conflictSkipQualified`:
    -- with an unqualified test a conflict on ANY resource would be swallowed and the input never retried)
    if c.fail then { s with pc := next, errs := Gen.Ctrl.conflictSkipQualified || s.errs }
    else
      match s.out k with
      | none =>
        { s with out := upd s.out k (some { owned := true, phase := .running, foreign := false, fresh := writesFresh s k }),
                 pc := next }
      | some o =>
        if !o.owned then { s with pc := next, errs := true }                             -- owner conflict
        else if o.phase = .tearingDown then { s with pc := next }                        -- phase conflict → skip :340-347
        else { s with out := upd s.out k (some { o with fresh := writesFresh s k }), pc := next }
  | .addFin k rest =>
    match s.inp k with
    | none => { s with pc := .inputs rest, errs := true }
    | some cur =>
      if c.fail then { s with pc := .inputs rest, errs := true }
      else { s with inp := upd s.inp k (some { cur with ctlFin := true }), pc := .inputs rest }
  | .outputs [] =>
    -- :470: iterate what is left in removeInputFinalizers
    { s with pc := .release s.rel }
  | .outputs ((k, o) :: rest) =>
    if !o.owned then exitLoop r s .notOwned k rest false                                 -- :416
    else if o.phase ≠ .tearingDown && s.touched.contains k then exitLoop r s .touched k rest false   -- :426-432
    else if c.fail then exitLoop r s .teardownErr k rest true
    else
      -- Teardown(out) :438 (wrap.go:117): Get; unless already tearing down, update the phase (owner checked);
      -- ready = the finalizer set of the value read / written is empty
      match s.out k with
      | none => exitLoop r s .teardownErr k rest true                                    -- NotFound :439
      | some cur =>
        if cur.phase = .tearingDown then
          -- no write (and no owner check: wrap.go:133)
          if cur.foreign then exitLoop r s .notReady k rest false else { s with pc := .destroy k rest }
        else if !cur.owned then exitLoop r s .teardownErr k rest true                    -- owner conflict
        else
          let s1 := { s with out := upd s.out k (some { cur with phase := .tearingDown }) }
          if cur.foreign then exitLoop r s1 .notReady k rest false                       -- :453
          else { s1 with pc := .destroy k rest }
  | .destroy k rest =>
    -- Destroy(out) :460 (inmem collection.go:235): NotFound, owner conflict, pending finalizers; NO phase check
    if c.fail then exitLoop r s .destroyErr k rest true
    else
      match s.out k with
      | none => exitLoop r s .destroyErr k rest true
      | some cur =>
        if !cur.owned || cur.foreign then exitLoop r s .destroyErr k rest true
        else
          exitLoop r { s with out := upd s.out k none, gone := k :: s.gone,
                              badDestroy := s.badDestroy || cur.phase ≠ .tearingDown } .destroyOk k rest false
  | .release [] => { s with pc := .idle }
  | .release (h :: t) =>
    -- RemoveFinalizer(input) :471; NotFound is swallowed by the adapter (controllerstate/adapter.go:258)
    let k := ((h :: t)[c.pick]?).getD h
    let rest := (h :: t).erase k
    if c.fail then { s with pc := .release rest, errs := true }
    else
      match s.inp k with
      | none => { s with pc := .release rest }
      | some cur => { s with inp := upd s.inp k (some { cur with ctlFin := false }), pc := .release rest }

/-- external actors (C07's `EnvOk`): they never remove the controller's finalizer and never create, write, tear
    down or destroy a resource owned by the controller; everything else at any time -/
inductive Env (n : Nat) where
  | createIn (k : Fin n) (foreign : Bool)
  | updateIn (k : Fin n)                     -- new spec: an existing output becomes stale
  | teardownIn (k : Fin n)
  | destroyIn (k : Fin n)                    -- succeeds only with an empty finalizer set
  | setForeignIn (k : Fin n) (b : Bool)
  | setForeignOut (k : Fin n) (b : Bool)
  | createOtherOut (k : Fin n)               -- somebody else takes the output's id (not owned by the controller)
  | destroyOtherOut (k : Fin n)
deriving DecidableEq, Repr

def env (s : Sys n) : Env n → Sys n
  | .createIn k f =>
    match s.inp k with
    | none => { s with inp := upd s.inp k (some { phase := .running, ctlFin := false, foreign := f }),
                       out := upd s.out k ((s.out k).map fun o => { o with fresh := false }),
                       staleRead := upd s.staleRead k true }
    | some _ => s
  | .updateIn k =>
    match s.inp k with
    | some _ => { s with out := upd s.out k ((s.out k).map fun o => { o with fresh := false }),
                         staleRead := upd s.staleRead k true }
    | none => s
  | .teardownIn k =>
    match s.inp k with
    | some i => { s with inp := upd s.inp k (some { i with phase := .tearingDown }) }
    | none => s
  | .destroyIn k =>
    match s.inp k with
    | some i => if i.ctlFin || i.foreign then s else { s with inp := upd s.inp k none }
    | none => s
  | .setForeignIn k b =>
    match s.inp k with
    | some i => { s with inp := upd s.inp k (some { i with foreign := b }) }
    | none => s
  | .setForeignOut k b =>
    match s.out k with
    | some o => { s with out := upd s.out k (some { o with foreign := b }) }
    | none => s
  | .createOtherOut k =>
    match s.out k with
    | none => { s with out := upd s.out k (some { owned := false, phase := .running, foreign := false, fresh := false }) }
    | some _ => s
  | .destroyOtherOut k =>
    match s.out k with
    | some o => if o.owned || o.foreign then s else { s with out := upd s.out k none }
    | none => s

inductive Act (n : Nat) where
  | ctl (c : Choice)
  | env (e : Env n)
deriving DecidableEq, Repr

def stepWith (r : Rules) (s : Sys n) : Act n → Sys n
  | .ctl c => ctlWith r s c
  | .env e => env s e

def runWith (r : Rules) (s : Sys n) (as : List (Act n)) : Sys n := as.foldl (stepWith r) s

/-- the model of the current source text -/
def step (s : Sys n) (a : Act n) : Sys n := stepWith genRules s a

def run (s : Sys n) (as : List (Act n)) : Sys n := runWith genRules s as

/-- nothing exists, the controller is between two passes -/
def init (n : Nat) : Sys n := { inp := fun _ => none, out := fun _ => none }

/-- the output at `k` exists and is owned by the controller -/
def ownedOut (s : Sys n) (k : Fin n) : Bool :=
  match s.out k with
  | some o => o.owned
  | none => false

/-- the input at `k` exists and carries the controller's finalizer -/
def hasFin (s : Sys n) (k : Fin n) : Bool :=
  match s.inp k with
  | some i => i.ctlFin
  | none => false

/-! ### trace inclusion: which store changes are writes of this machine

  `writeOk` is a decidable predicate on the abstract store before and after ONE write. Cosi.Props.C07Transform
  proves that it describes the machine's writes exactly (`machine_writes_ok`, `writeOk_is_machine_write`); the
  driver of engine `ctrl` evaluates it on every recorded controller write of a real transform run
  (Cosi.Model.CtrlMachine). -/

/-- two maps agree everywhere except possibly at `k` -/
def sameExcept {α : Type} [DecidableEq α] (f g : Fin n → α) (k : Fin n) : Bool :=
  (allFin n).all fun j => j == k || f j == g j

def finOn (inp : Fin n → Option AIn) (k : Fin n) : Bool :=
  match inp k with
  | some i => i.ctlFin
  | none => false

def ownedOn (out : Fin n → Option AOut) (k : Fin n) : Bool :=
  match out k with
  | some o => o.owned
  | none => false

/-- the change is one of the controller's writes, at pair `k` -/
def writeAt (inp inp' : Fin n → Option AIn) (out out' : Fin n → Option AOut) (k : Fin n) : Bool :=
  sameExcept inp inp' k && sameExcept out out' k &&
  ((out k == out' k &&
      match inp k, inp' k with
      | some i, some i' =>
        i' == { i with ctlFin := true } ||                                      -- AddFinalizer
        (i.ctlFin && i' == { i with ctlFin := false } && !ownedOn out k)         -- RemoveFinalizer: output gone
      | _, _ => false) ||
   (inp k == inp' k &&
      match out k, out' k with
      | none, some o' => o'.owned && o'.phase == .running && !o'.foreign && finOn inp k          -- Modify creates
      | some o, some o' =>
        o.owned && o.phase == .running &&
          ((o' == { o with fresh := o'.fresh } && finOn inp k) ||                                 -- Modify updates
           o' == { o with phase := .tearingDown })                                                -- Teardown
      | some o, none => o.owned && o.phase == .tearingDown && !o.foreign                          -- Destroy
      | none, none => false))

def writeOk (inp inp' : Fin n → Option AIn) (out out' : Fin n → Option AOut) : Bool :=
  (allFin n).any (writeAt inp inp' out out')

end Cosi.TF
