/-
  Cosi.Model.Cache — M7: the controller runtime's read cache and its place in the watch
  pipeline (property C15).

  Written 1:1 after
    /repo/pkg/controller/runtime/internal/cache/handler.go
        cacheHandler :30, markBootstrapped :54, get :58, contextWithTeardown :86, list :140,
        append :176, put :184, remove :208, len :228
    /repo/pkg/controller/runtime/internal/cache/cache.go   (dispatch by (namespace, type); one handler = one kind)
    /repo/pkg/controller/runtime/runtime.go
        setupWatches :234 (cached kinds are watched with BootstrapContents), processEvents :318,
        deduplicateWatchEvents :375, deliverDeduplicatedEvents :432
    Go's slices.BinarySearchFunc (slices/sort.go): the loop is transcribed, not assumed correct.

  NOT written here but consumed from the REGENERATED `Cosi.Gen.Cache`:
    * which cache call an event type gets before / after the Bootstrapped event and which
      events reach the dedup map (`actBeforeBoot/actAfterBoot/notifyBeforeBoot/notifyAfterBoot`),
    * whether get / list / contextWithTeardown wait for the bootstrapped channel,
    * whether put closes the teardown waiter only for the tearing-down phase and remove always,
    * whether the cache calls of a group of events precede the hand-off of the dedup map to the
      delivery stage (`cacheBeforeHandoff`).
  The selector of a cached list is `Cosi.Selector.Sel` applied through the regenerated
  `Gen.Selector.cachePred` (C14).

  Blocking reads are modelled as partial: `none` = "not enabled" (the goroutine is parked on
  `<-h.bootstrapped`). Core Lean only.
-/
import Cosi.Model.Watch
import Cosi.Model.Selector
import Cosi.Gen.Cache

namespace Cosi.Cache
open Cosi

/-! ### slices.BinarySearchFunc -/

/-- the loop of `slices.BinarySearchFunc(x, id, cmp)` with `cmp = cmp.Compare(r.ID, id)`:
    `for i < j { h := (i+j)/2; if cmp(x[h], id) < 0 { i = h+1 } else { j = h } }`.
    `fuel` bounds the iterations (`j - i` strictly decreases; `bsearch` passes the length). -/
def bsLoop (l : List Res) (id : String) : (fuel : Nat) → (i j : Nat) → Nat
  | 0, i, _ => i
  | fuel + 1, i, j =>
    if i < j then
      let h := (i + j) / 2
      match l[h]? with
      | some x => if x.id < id then bsLoop l id fuel (h + 1) j else bsLoop l id fuel i h
      | none => i
    else i

/-- `slices.BinarySearchFunc`: `(i, i < n && cmp(x[i], id) == 0)`. Total on ANY slice, sorted
    or not — on an unsorted slice it returns what the loop happens to reach. -/
def bsearch (l : List Res) (id : String) : Nat × Bool :=
  let i := bsLoop l id l.length 0 l.length
  (i, match l[i]? with
      | some x => x.id == id
      | none => false)

/-! ### the handler -/

/-- a context handed out by `contextWithTeardown` (ghost: the code keeps no list of them;
    `cancelled` is what `ctx.Err() != nil` says once every goroutine has settled) -/
structure TCtx where
  cid : Nat
  id : String
  cancelled : Bool
deriving DecidableEq, Repr, Inhabited

/-- `cacheHandler` (handler.go:30). `bootstrapped` = "the channel is closed"; `waiters` = the key
    set of the `teardownWaiters` map (one channel per ID, shared by all contexts of that ID). -/
structure Handler where
  bootstrapped : Bool := false
  resources : List Res := []
  waiters : List String := []
  ctxs : List TCtx := []
deriving Repr, Inhabited

/-- markBootstrapped (handler.go:54): `close(h.bootstrapped)` -/
def Handler.mark (h : Handler) : Handler := { h with bootstrapped := true }

/-- closing a closed channel panics -/
def Handler.markPanics (h : Handler) : Bool := h.bootstrapped

/-- append (handler.go:176): blind append, no search, no ordering check -/
def Handler.append (h : Handler) (r : Res) : Handler := { h with resources := h.resources ++ [r] }

/-- `if ch, ok := h.teardownWaiters[id]; ok { close(ch); delete(h.teardownWaiters, id) }`
    (handler.go:200, :223): every context waiting on that channel is cancelled -/
def Handler.closeWaiter (h : Handler) (id : String) : Handler :=
  if h.waiters.contains id then
    { h with waiters := h.waiters.filter (· ≠ id),
             ctxs := h.ctxs.map fun c => if c.id = id then { c with cancelled := true } else c }
  else h

/-- the slice after `put`: replace at the found index, else `slices.Insert` at the index -/
def putRes (l : List Res) (r : Res) : List Res :=
  let (idx, found) := bsearch l r.id
  if found then l.set idx r else l.take idx ++ r :: l.drop idx

/-- put (handler.go:184) -/
def Handler.put (h : Handler) (r : Res) : Handler :=
  let h' := { h with resources := putRes h.resources r }
  if Gen.Cache.putClosesWhenTearingDown then
    (if r.phase = .tearingDown then h'.closeWaiter r.id else h')
  else h'

/-- the slice after `remove`: `slices.Delete(idx, idx+1)` when found -/
def removeRes (l : List Res) (id : String) : List Res :=
  let (idx, found) := bsearch l id
  if found then l.take idx ++ l.drop (idx + 1) else l

/-- remove (handler.go:208) -/
def Handler.remove (h : Handler) (r : Res) : Handler :=
  let h' := { h with resources := removeRes h.resources r.id }
  if Gen.Cache.removeClosesWaiter then h'.closeWaiter r.id else h'

/-- a read that waits (`waits`, regenerated per method) is enabled only once bootstrapped -/
def Handler.enabled (h : Handler) (waits : Bool) : Bool := !waits || h.bootstrapped

/-- what the binary search of get / contextWithTeardown finds -/
def getRes (l : List Res) (id : String) : Option Res :=
  let (idx, found) := bsearch l id
  if found then l[idx]? else none

/-- get (handler.go:58): `none` = blocked; `some none` = ErrNotFound -/
def Handler.get (h : Handler) (id : String) : Option (Option Res) :=
  if h.enabled Gen.Cache.getWaits then some (getRes h.resources id) else none

def toItem (r : Res) : Selector.Item := { id := r.id, labels := r.labels, ver := r.ver.getD 0 }

/-- the filter of list (handler.go:164-168), applied only when some query is present -/
def listRes (l : List Res) (s : Selector.Sel) : List Res :=
  if s.idQ.isSome || !s.queries.isEmpty then
    l.filter fun r => s.matchesAt Gen.Selector.cachePred (toItem r)
  else l

/-- list (handler.go:140): `none` = blocked -/
def Handler.list (h : Handler) (s : Selector.Sel) : Option (List Res) :=
  if h.enabled Gen.Cache.listWaits then some (listRes h.resources s) else none

/-- contextWithTeardown (handler.go:86): `none` = blocked. Absent or tearing down at call time:
    cancelled at once, nothing registered; else a waiter channel for the ID exists afterwards. -/
def Handler.ctxTeardown (h : Handler) (cid : Nat) (id : String) : Option Handler :=
  if h.enabled Gen.Cache.ctxWaits then
    match getRes h.resources id with
    | none => some { h with ctxs := h.ctxs ++ [{ cid := cid, id := id, cancelled := true }] }
    | some r =>
      if r.phase = .tearingDown then
        some { h with ctxs := h.ctxs ++ [{ cid := cid, id := id, cancelled := true }] }
      else
        some { h with waiters := if h.waiters.contains id then h.waiters else h.waiters ++ [id],
                      ctxs := h.ctxs ++ [{ cid := cid, id := id, cancelled := false }] }
  else none

/-- the caller cancels the parent context of `cid`: the derived context is cancelled, the waiter
    goroutine leaves; the map entry stays (handler.go:128-135 has no clean-up) -/
def Handler.cancelParent (h : Handler) (cid : Nat) : Handler :=
  { h with ctxs := h.ctxs.map fun c => if c.cid = cid then { c with cancelled := true } else c }

/-! ### operations of the white-box engine -/

inductive Op where
  | append (r : Res)
  | put (r : Res)
  | remove (r : Res)
  | mark
  | ctx (cid : Nat) (id : String)
  | cancel (cid : Nat)

/-- one mutating operation (a blocked `ctx` changes nothing: the caller is parked) -/
def Handler.step (h : Handler) : Op → Handler
  | .append r => h.append r
  | .put r => h.put r
  | .remove r => h.remove r
  | .mark => h.mark
  | .ctx cid id => (h.ctxTeardown cid id).getD h
  | .cancel cid => h.cancelParent cid

def Handler.run (h : Handler) (ops : List Op) : Handler := ops.foldl Handler.step h

/-! ### processEvents: watch events → cache calls -/

def evKind : EvType → Gen.EvKind
  | .created => .created | .updated => .updated | .destroyed => .destroyed
  | .bootstrapped => .bootstrapped | .noop => .noop | .errored => .errored

/-- the cache call `processEvents` makes for `e` (runtime.go:339-365), by the regenerated tables;
    the bootstrapped flag is read per event (`IsHandledBootstrapped`, :352) -/
def actOf (h : Handler) (e : Event) : Gen.CacheAct :=
  if h.bootstrapped then Gen.Cache.actAfterBoot (evKind e.typ) else Gen.Cache.actBeforeBoot (evKind e.typ)

/-- the event is entered into the dedup map (runtime.go:367-368) -/
def notifies (h : Handler) (e : Event) : Bool :=
  if h.bootstrapped then Gen.Cache.notifyAfterBoot (evKind e.typ) else Gen.Cache.notifyBeforeBoot (evKind e.typ)

def applyEv (h : Handler) (e : Event) : Handler :=
  match actOf h e with
  | .append => h.append e.res
  | .put => h.put e.res
  | .remove => h.remove e.res
  | .mark => h.mark
  | _ => h

def applyAll (h : Handler) (evs : List Event) : Handler := evs.foldl applyEv h

/-- `processEvents` (runtime.go:318) over the events of one cached kind: the cache afterwards,
    the IDs entered into the dedup map (in order), and `false` if the loop aborted (`return false`,
    the rest of the batch is not processed) -/
def processEvents (h : Handler) : List Event → Handler × List String × Bool
  | [] => (h, [], true)
  | e :: es =>
    match actOf h e with
    | .abort => (h, [], false)
    | .unknown => (h, [], false)
    | _ =>
      let n := notifies h e
      let (h', keys, ok) := processEvents (applyEv h e) es
      (h', if n then e.res.id :: keys else keys, ok)

/-- what the delivery stage (and every reader it wakes) is given at one hand-off of the map -/
structure Handoff where
  upTo : Nat            -- ghost: number of events of the stream consumed when the map was sent
  keys : List String
  view : Handler        -- the cache as it is at that moment
deriving Repr

/-- `deduplicateWatchEvents` (runtime.go:375) seen from one cached kind -/
structure Pipe where
  h : Handler := {}
  applied : Nat := 0        -- ghost: events consumed from the watch channel
  handoffs : List Handoff := []
  aborted : Bool := false
deriving Repr

/-- one iteration of the loop of `deduplicateWatchEvents`: `evs` = the batch received plus the
    batches drained right after it (:409-422). The cache calls are made inside `processEvents`;
    the map is sent afterwards (:425) unless it is empty (:401). When the regenerated
    `cacheBeforeHandoff` is false the order is not established and the model is pessimistic: the
    delivery stage sees the cache as it was BEFORE the group. -/
def Pipe.group (p : Pipe) (evs : List Event) : Pipe :=
  if p.aborted then p else
  let (h', keys, ok) := processEvents p.h evs
  let n := p.applied + evs.length
  if !ok then { p with h := h', aborted := true }
  else
    let seen := if Gen.Cache.cacheBeforeHandoff then h' else p.h
    { p with h := h', applied := n,
             handoffs := if keys.isEmpty then p.handoffs
                         else p.handoffs ++ [{ upTo := n, keys := keys.eraseDups, view := seen }] }

def Pipe.run (p : Pipe) (groups : List (List Event)) : Pipe := groups.foldl Pipe.group p

/-! ### the state behind the cache: a kind as an ID-sorted list, writes and their events -/

def find (l : List Res) (id : String) : Option Res := l.find? (fun x => x.id == id)

/-- insert or replace by ID in an ID-sorted list (the linear specification of `putRes`) -/
def ins : List Res → Res → List Res
  | [], r => [r]
  | x :: xs, r =>
    if r.id < x.id then r :: x :: xs
    else if x.id = r.id then r :: xs
    else x :: ins xs r

/-- delete by ID (the linear specification of `removeRes`) -/
def del (l : List Res) (id : String) : List Res := l.filter (fun x => x.id ≠ id)

/-- a write to the state; failed writes (Create of an existing ID, Update / Teardown / Destroy of
    a missing one) change nothing and publish nothing (collection.go Create :138, Update :180,
    Destroy :235) -/
inductive Write where
  | create (id : String) (labels : List (String × String)) (spec : String)
  | update (id : String) (labels : List (String × String)) (spec : String)
  | teardown (id : String) (spec : String)
  | destroy (id : String)
deriving Repr, Inhabited

def Write.id : Write → String
  | .create id _ _ => id | .update id _ _ => id | .teardown id _ => id | .destroy id => id

def mkRes (ns typ id : String) (ver : Nat) (phase : Phase) (labels : List (String × String)) (spec : String) : Res :=
  { ns := ns, typ := typ, id := id, ver := some ver, owner := "", phase := phase, fins := [],
    labels := labels, created := 0, updated := 0, spec := spec }

/-- one write on the kind `(ns, typ)`: the new contents and the published event; versions as
    `Version.Next`, a re-created resource starts again at version 1 -/
def applyWrite (ns typ : String) (stg : List Res) : Write → List Res × Option Event
  | .create id labels spec =>
    match find stg id with
    | some _ => (stg, none)
    | none =>
      let r := mkRes ns typ id 1 .running labels spec
      (ins stg r, some { typ := .created, res := r })
  | .update id labels spec =>
    match find stg id with
    | none => (stg, none)
    | some old =>
      let r := mkRes ns typ id (old.ver.getD 0 + 1) old.phase labels spec
      (ins stg r, some { typ := .updated, res := r, old := some old })
  | .teardown id spec =>
    match find stg id with
    | none => (stg, none)
    | some old =>
      let r := mkRes ns typ id (old.ver.getD 0 + 1) .tearingDown old.labels spec
      (ins stg r, some { typ := .updated, res := r, old := some old })
  | .destroy id =>
    match find stg id with
    | none => (stg, none)
    | some old => (del stg id, some { typ := .destroyed, res := old })

def runWrites (ns typ : String) (stg : List Res) : List Write → List Res
  | [] => stg
  | w :: ws => runWrites ns typ (applyWrite ns typ stg w).1 ws

/-- the change log of a history -/
def logWrites (ns typ : String) (stg : List Res) : List Write → List Event
  | [] => []
  | w :: ws =>
    match (applyWrite ns typ stg w).2 with
    | none => logWrites ns typ (applyWrite ns typ stg w).1 ws
    | some e => e :: logWrites ns typ (applyWrite ns typ stg w).1 ws

/-- what a consumer of the change log reconstructs (cf. C02/C14: replay of the log) -/
def replayEv (view : List Res) (e : Event) : List Res :=
  match e.typ with
  | .created | .updated => ins view e.res
  | .destroyed => del view e.res.id
  | _ => view

def replay (view : List Res) (evs : List Event) : List Res := evs.foldl replayEv view

/-- the bootstrap delivery of an aggregated kind watch with BootstrapContents (collection.go:545-561,
    `Cosi.kindInit`): one batch, the snapshot as Created events in ID order, then Bootstrapped -/
def bootBatch (ns typ : String) (snapshot : List Res) : List Event :=
  snapshot.map (fun c => ({ typ := .created, res := c } : Event)) ++
    [{ typ := .bootstrapped, res := tombstone ns typ "" }]

end Cosi.Cache
