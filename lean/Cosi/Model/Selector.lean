/-
  Cosi.Model.Selector — M3: label / ID selectors, the selector-filtered List and the
  event-rewriting closure of a selector-filtered kind watch, and the translation of a
  label query client → wire → server (property C14).

  Written 1:1 after
    /repo/pkg/resource/labels.go                      (Labels.Matches :31, matches :47)
    /repo/pkg/resource/label_query.go                 (LabelOp :15, isComparison :32, LabelQueries.Matches :58, LabelQuery.Matches :78)
    /repo/pkg/resource/id_query.go                    (IDQuery.Matches :17 — the regexp match bit is a parameter)
    /repo/pkg/resource/internal/compare/compare.go    (GetNumbers :14, parseValue :28, getMultiplier :62)
    /repo/pkg/resource/internal/kv/kv.go              (Get :70, Empty :89)
    /repo/pkg/state/impl/inmem/collection.go          (List :101, WatchAll: matches :447, bootstrap :462, rewrite closure :651)
    /repo/pkg/controller/runtime/internal/cache/handler.go (list :140, put :184, remove :208)
    /repo/pkg/state/protobuf/client/label_query.go    (transformLabelQuery :14)
    /repo/pkg/state/protobuf/server/helpers.go        (ConvertLabelQuery :18)

  The operator translation tables of the last two files are NOT written here: `viaWire`
  consumes `Gen.Selector.clientTable / serverTable / ctorTable`, regenerated from the
  source on every run. So are the case table of the watch filter closure and the arguments of its two
  match bits (`rewrite` consumes `Gen.Selector.rewriteAct`, `updatedOldArg`, `updatedNewArg`) and which predicate List / WatchAll / the cache list apply
  (`Sel.matchesAt` over `Gen.Selector.listPred / watchPred / cachePred`). Core Lean only.

  Domain: label keys, label values and term operands are ASCII strings (`asciiStr`).
  Go compares bytes, trims Unicode white space and lower-cases Unicode letters; on ASCII
  those are the functions below. Non-ASCII operands are outside this model (the harness
  still feeds them to the implementation sites and requires those to agree).
-/
import Cosi.Base
import Cosi.Gen.Selector

namespace Cosi.Selector
open Cosi

/-! ### terms, queries, labels -/

/-- `resource.LabelOp` (label_query.go:15-30), in iota order -/
inductive LabelOp where
  | opExists | opEqual | opIn | opLT | opLTE | opLTNumeric | opLTENumeric
deriving DecidableEq, Repr, Inhabited

/-- `LabelOp.isComparison` (label_query.go:32) -/
def LabelOp.isComparison : LabelOp → Bool
  | .opLT | .opLTE | .opLTNumeric | .opLTENumeric => true
  | _ => false

/-- `resource.LabelTerm` (label_query.go:47) -/
structure Term where
  key : String
  value : List String
  op : LabelOp
  invert : Bool
deriving DecidableEq, Repr, Inhabited

/-- `resource.LabelQuery`: terms under AND -/
abbrev Query := List Term

/-- `resource.LabelQueries`: queries under OR -/
abbrev Queries := List Query

/-- `resource.Labels` = `kv.KV`: a Go map; here an association list, `lookup` = `KV.Get` -/
abbrev Labels := List (String × String)

def asciiStr (s : String) : Bool := s.toList.all (fun c => c.toNat < 128)

/-! ### compare.go — numbers with unit suffixes -/

/-- ASCII part of `unicode.IsSpace` as used by `strings.TrimSpace`: \t \n \v \f \r and space -/
def isSpace (c : Char) : Bool :=
  c == ' ' || c == '\t' || c == '\n' || c == '\r' || c.toNat == 11 || c.toNat == 12

/-- `strings.TrimSpace` on ASCII -/
def trimSpace (cs : List Char) : List Char :=
  ((cs.dropWhile isSpace).reverse.dropWhile isSpace).reverse

/-- compare.go:34 `c >= '0' && c <= '9' || c == '-'` -/
def isNumChar (c : Char) : Bool := c.isDigit || c == '-'

def digitsVal (cs : List Char) : Nat := cs.foldl (fun n c => 10 * n + (c.toNat - 48)) 0

/-- `strconv.ParseInt(digits, 10, 64)` on a string over `[0-9-]` (that is all compare.go:49
    can pass): optional leading `-`, then at least one digit and only digits; a value
    outside [-2^63, 2^63-1] is a range error. `none` = `err != nil`. -/
def parseInt64 (cs : List Char) : Option Int :=
  match cs with
  | [] => none
  | '-' :: ds =>
    if ds.isEmpty || !ds.all Char.isDigit then none
    else if digitsVal ds ≤ 9223372036854775808 then some (-(digitsVal ds : Int)) else none
  | ds =>
    if !ds.all Char.isDigit then none
    else if digitsVal ds < 9223372036854775808 then some (digitsVal ds : Int) else none

/-- int64 wrap-around of a mathematical integer (Go's `res * multiplier` at compare.go:59) -/
def wrap64 (x : Int) : Int := (x + 9223372036854775808) % 18446744073709551616 - 9223372036854775808

/-- compare.go:69-82, the two-letter binary units -/
def mult2 (a b : Char) : Option Int :=
  if b == 'i' then
    if a == 'p' then some 1125899906842624
    else if a == 't' then some 1099511627776
    else if a == 'g' then some 1073741824
    else if a == 'm' then some 1048576
    else if a == 'k' then some 1024
    else none
  else none

/-- compare.go:84-95, the one-letter decimal units -/
def mult1 (a : Char) : Option Int :=
  if a == 'p' then some 1000000000000000
  else if a == 't' then some 1000000000000
  else if a == 'g' then some 1000000000
  else if a == 'm' then some 1000000
  else if a == 'k' then some 1000
  else none

/-- `getMultiplier` (compare.go:62): lower-case, trim, empty ⇒ 1, else the first two
    bytes, else the first byte; whatever follows the unit is ignored -/
def getMultiplier (units : List Char) : Option Int :=
  match trimSpace (units.map Char.toLower) with
  | [] => some 1
  | [a] => mult1 a
  | a :: b :: _ =>
    match mult2 a b with
    | some m => some m
    | none => mult1 a

/-- `parseValue` (compare.go:28) on the characters of the operand -/
def parseValueChars (cs : List Char) : Option Int :=
  let v := trimSpace cs
  let digits := v.takeWhile isNumChar
  let units := v.dropWhile isNumChar
  if digits.isEmpty then none
  else
    match parseInt64 digits with
    | none => none
    | some res =>
      match getMultiplier units with
      | none => none
      | some m => some (wrap64 (res * m))

def parseValue (s : String) : Option Int := parseValueChars s.toList

/-- `compare.GetNumbers` (compare.go:14) -/
def getNumbers (left right : String) : Option (Int × Int) :=
  match parseValue left with
  | none => none
  | some a =>
    match parseValue right with
    | none => none
    | some b => some (a, b)

/-! ### labels.go — term evaluation -/

/-- `Labels.matches` (labels.go:47). `none` is the nil `*bool`: the term is undefined. -/
def matchesCore (l : Labels) (t : Term) : Option Bool :=
  if l.isEmpty && t.op == .opExists then some false              -- :48
  else
    match l.lookup t.key with                                     -- :52
    | none => if t.op.isComparison then none else some false     -- :54-60
    | some v =>
      match t.op, t.value with
      | .opExists, _ => some true                                  -- :67
      | _, [] => some false                                        -- :62  (op ≠ Exists, no value)
      | .opEqual, v0 :: _ => some (v == v0)                        -- :69
      | .opIn, vs => some (vs.contains v)                          -- :71
      | .opLTE, v0 :: _ => some (!decide (v0 < v))                 -- :73  value <= Value[0]
      | .opLT, v0 :: _ => some (decide (v < v0))                   -- :75
      | .opLTNumeric, v0 :: _ =>                                   -- :77
        match getNumbers v v0 with
        | none => none
        | some (a, b) => some (decide (a < b))
      | .opLTENumeric, v0 :: _ =>                                  -- :84
        match getNumbers v v0 with
        | none => none
        | some (a, b) => some (decide (a ≤ b))

/-- `Labels.Matches` (labels.go:31): undefined ⇒ false, even when inverted -/
def termMatches (l : Labels) (t : Term) : Bool :=
  match matchesCore l t with
  | none => false
  | some m => if t.invert then !m else m

/-- `LabelQuery.Matches` (label_query.go:78): AND, empty ⇒ true -/
def queryMatches (q : Query) (l : Labels) : Bool := q.all (termMatches l)

/-- `LabelQueries.Matches` (label_query.go:58): OR, empty ⇒ true -/
def queriesMatch (qs : Queries) (l : Labels) : Bool :=
  if qs.isEmpty then true else qs.any (fun q => queryMatches q l)

/-! ### selectors and the filtered List -/

/-- what a selector looks at: ID and labels (`ver` only identifies revisions in events) -/
structure Item where
  id : String
  labels : Labels
  ver : Nat
deriving DecidableEq, Repr, Inhabited

/-- `state.ListOptions` / `state.WatchKindOptions` as far as selection goes. `idQ = none`
    is a nil regexp; otherwise the regexp's match bit per ID (regexp is trusted). -/
structure Sel where
  idQ : Option (String → Bool)
  queries : Queries

/-- `IDQuery.Matches` (id_query.go:17) -/
def Sel.idMatches (s : Sel) (id : String) : Bool :=
  match s.idQ with
  | none => true
  | some f => f id

/-- the one predicate: collection.go:447 (`matches` of WatchAll), :108-114 (List),
    handler.go:166 (cache list) -/
def Sel.matches (s : Sel) (r : Item) : Bool := s.idMatches r.id && queriesMatch s.queries r.labels

/-- the predicate a site really applies, by the REGENERATED fact about that site
    (`Gen.Selector.listPred / watchPred / cachePred`); an unrecognised site matches nothing -/
def Sel.matchesAt (p : Gen.SelPred) (s : Sel) (r : Item) : Bool :=
  match p with
  | .idAndLabels => s.matches r
  | .unknown => false

def sortById (l : List Item) : List Item := sortBy (fun a b => decide (a.id < b.id)) l

/-- `ResourceCollection.List` (collection.go:101): filter the map's values, sort by ID.
    `stg` is the map's values in any order. -/
def listSel (stg : List Item) (s : Sel) : List Item :=
  sortById (stg.filter (s.matchesAt Gen.Selector.listPred))

/-- `cacheHandler.list` (handler.go:140) over its ID-sorted slice: the filter is applied
    only when some query is present (`!IsZero(IDQuery) || LabelQueries != nil`) -/
def cacheList (resources : List Item) (s : Sel) : List Item :=
  if s.idQ.isSome || !s.queries.isEmpty then resources.filter (s.matchesAt Gen.Selector.cachePred)
  else resources

/-! ### storage as an ID-sorted list; mutations and the event log -/

def find (stg : List Item) (id : String) : Option Item := stg.find? (fun x => x.id == id)

/-- insert or replace by ID, keeping the list sorted by ID (= `cacheHandler.put`,
    handler.go:184: binary search, replace if found, else `slices.Insert`) -/
def put : List Item → Item → List Item
  | [], r => [r]
  | x :: xs, r =>
    if r.id < x.id then r :: x :: xs
    else if x.id = r.id then r :: xs
    else x :: put xs r

/-- delete by ID (= `cacheHandler.remove`, handler.go:208) -/
def del (stg : List Item) (id : String) : List Item := stg.filter (fun x => x.id ≠ id)

/-- `state.Event` as published by the collection (Created / Updated with Old / Destroyed) -/
inductive Ev where
  | created (r : Item)
  | updated (old new : Item)
  | destroyed (r : Item)
deriving DecidableEq, Repr, Inhabited

/-- a successful or failed write; a failed one (Create of an existing ID, Update / Destroy
    of a missing one) changes nothing and publishes nothing -/
inductive Mut where
  | create (id : String) (labels : Labels)
  | update (id : String) (labels : Labels)
  | destroy (id : String)
deriving Repr, Inhabited

/-- one write: new storage and the published event (collection.go Create :138,
    Update :180, Destroy :235; versions as `Version.Next`) -/
def applyMut (stg : List Item) : Mut → List Item × Option Ev
  | .create id labels =>
    match find stg id with
    | some _ => (stg, none)
    | none =>
      let r : Item := { id := id, labels := labels, ver := 1 }
      (put stg r, some (.created r))
  | .update id labels =>
    match find stg id with
    | none => (stg, none)
    | some old =>
      let r : Item := { id := id, labels := labels, ver := old.ver + 1 }
      (put stg r, some (.updated old r))
  | .destroy id =>
    match find stg id with
    | none => (stg, none)
    | some old => (del stg id, some (.destroyed old))

def run (stg : List Item) : List Mut → List Item
  | [] => stg
  | m :: ms => run (applyMut stg m).1 ms

/-- the unfiltered change log of a history -/
def log (stg : List Item) : List Mut → List Ev
  | [] => []
  | m :: ms =>
    match (applyMut stg m).2 with
    | none => log (applyMut stg m).1 ms
    | some e => e :: log (applyMut stg m).1 ms

/-- the filter closure of `WatchAll` (collection.go:651-683) with the three predicates it evaluates as
    parameters: `m` on the resource of a Created / Destroyed event, `mo` on the OLD and `mn` on the NEW version
    of an Updated one. Its case table is REGENERATED (`Gen.Selector.createdDestroyedByMatch`,
    `Gen.Selector.rewriteAct`): on the unchanged tree Created/Destroyed pass iff the resource matches, and
    Updated is rewritten by (old matches, new matches): out→in ⇒ Created, in→out ⇒ Destroyed (carrying the NEW
    resource, Old dropped), in→in ⇒ unchanged, out→out ⇒ dropped -/
def rewriteBy (m mo mn : Item → Bool) : Ev → Option Ev
  | .created r => if Gen.Selector.createdDestroyedByMatch && m r then some (.created r) else none
  | .destroyed r => if Gen.Selector.createdDestroyedByMatch && m r then some (.destroyed r) else none
  | .updated old new =>
    match Gen.Selector.rewriteAct (mo old) (mn new) with
    | .toDestroyed => some (.destroyed new)
    | .toCreated => some (.created new)
    | .pass => some (.updated old new)
    | .drop => none
    | .unknown => none

/-- a match bit of the Updated branch is the selector applied to the version the source text names
    (`matches(event.Old)` / `matches(event.Resource)`, REGENERATED: `Gen.Selector.updatedOldArg / updatedNewArg`);
    computed any other way it is unknown, and an unknown bit never holds -/
def updPred (have_ want : Gen.UpdArg) (m : Item → Bool) : Item → Bool :=
  if have_ = want then m else fun _ => false

/-- the filter closure as the current source text has it: all three predicates are the one selector `m` -/
def rewrite (m : Item → Bool) : Ev → Option Ev :=
  rewriteBy m (updPred Gen.Selector.updatedOldArg .old m) (updPred Gen.Selector.updatedNewArg .resource m)

/-- what a consumer does with an event: put / remove by ID (the runtime cache does
    exactly this: `CachePut` on Created/Updated, `CacheRemove` on Destroyed) -/
def viewApply (view : List Item) : Ev → List Item
  | .created r => put view r
  | .updated _ r => put view r
  | .destroyed r => del view r.id

def replay (view : List Item) (evs : List Ev) : List Item := evs.foldl viewApply view

/-- the events a selector-filtered kind watch started (with bootstrap) on `stg` delivers
    for the history `ms`: bootstrap list (collection.go:462-474, filtered and sorted),
    then the rewritten log -/
def bootstrap (stg : List Item) (s : Sel) : List Ev :=
  (sortById (stg.filter (s.matchesAt Gen.Selector.watchPred))).map .created

def filteredLog (stg : List Item) (s : Sel) (ms : List Mut) : List Ev :=
  (log stg ms).filterMap (rewrite (s.matchesAt Gen.Selector.watchPred))

/-! ### translation client → wire → server over the regenerated tables -/

/-- outcome of a conversion step: a value, a Go panic (index out of range), an error
    return, or `.unknown` — a table entry the extractor did not recognise -/
inductive Conv (α : Type) where
  | ok (a : α)
  | panic
  | error
  | unknown
deriving Repr

def Conv.bind {α β} : Conv α → (α → Conv β) → Conv β
  | .ok a, f => f a
  | .panic, _ => .panic
  | .error, _ => .error
  | .unknown, _ => .unknown

/-- sequential conversion of a list, stopping at the first non-ok (both Go loops do) -/
def Conv.mapM {α β} (f : α → Conv β) : List α → Conv (List β)
  | [] => .ok []
  | a :: as => (f a).bind fun b => (Conv.mapM f as).bind fun bs => .ok (b :: bs)

def LabelOp.toGen : LabelOp → Gen.LOp
  | .opExists => .opExists | .opEqual => .opEqual | .opIn => .opIn | .opLT => .opLT
  | .opLTE => .opLTE | .opLTNumeric => .opLTNumeric | .opLTENumeric => .opLTENumeric

def LabelOp.ofGen : Gen.LOp → Option LabelOp
  | .opExists => some .opExists | .opEqual => some .opEqual | .opIn => some .opIn
  | .opLT => some .opLT | .opLTE => some .opLTE | .opLTNumeric => some .opLTNumeric
  | .opLTENumeric => some .opLTENumeric | .unknown => none

/-- `v1alpha1.LabelTerm` -/
structure WTerm where
  key : String
  value : List String
  op : Gen.WireOp
  invert : Bool
deriving DecidableEq, Repr, Inhabited

abbrev WQuery := List WTerm

/-- one iteration of `transformLabelQuery` (client/label_query.go:19-72): the first `case`
    naming the operator decides which wire constant and which fields are set -/
def clientTerm (t : Term) : Conv WTerm :=
  match Gen.Selector.clientTable.find? (fun r => r.op == t.op.toGen) with
  | none => if Gen.Selector.clientDefaultErrors then .error else .unknown
  | some r =>
    if r.wire == .unknown || r.key == .unknown || r.value == .unknown || r.invert == .unknown then .unknown
    else .ok {
      key := if r.key == .copied then t.key else ""
      value := if r.value == .copied then t.value else []
      op := r.wire
      invert := if r.invert == .copied then t.invert else false }

/-- the loop over `opts.LabelQueries` in client List / WatchKind / WatchKindAggregated: every query is transformed
    and sent (`Gen.Selector.clientForwardsEveryQuery`; any other loop is outside the model) -/
def clientTransform (qs : Queries) : Conv (List WQuery) :=
  if Gen.Selector.clientForwardsEveryQuery then Conv.mapM (Conv.mapM clientTerm) qs else .unknown

/-- one iteration of `ConvertLabelQuery` (server/helpers.go:22-49) followed by the
    constructor it calls (label_query.go:108-188). Go evaluates the arguments first, so
    `term.Value[0]` on an empty list panics before anything else happens. -/
def serverTerm (w : WTerm) : Conv Term :=
  if w.op == .unknown then .unknown else
  match Gen.Selector.serverTable.find? (fun r => r.wire == w.op) with
  | none => if Gen.Selector.serverDefaultErrors then .error else .unknown
  | some r =>
    match Gen.Selector.ctorTable.find? (fun c => c.ctor == r.ctor) with
    | none => .unknown
    | some c =>
      match LabelOp.ofGen c.op with
      | none => .unknown
      | some op =>
        if r.ctor == .unknown || r.key != .copied || c.key != .copied then .unknown else
        -- the option list handed to the constructor, then `getInvert`
        let inv : Conv Bool :=
          match r.invert, c.invert with
          | .fromTerm, .copied =>
            if Gen.Selector.serverOptsFromInvert && Gen.Selector.getInvertIsContains then .ok w.invert else .unknown
          | .always, .copied => if Gen.Selector.getInvertIsContains then .ok true else .unknown
          | .never, .copied => if Gen.Selector.getInvertIsContains then .ok false else .unknown
          | .unknown, _ => .unknown
          | _, .absent => .ok false
          | _, .unknown => .unknown
        -- the value argument against the constructor's parameter
        let val : Conv (List String) :=
          match r.value, c.value with
          | .first, .single =>
            match w.value with
            | [] => .panic                      -- term.Value[0], index out of range
            | v0 :: _ => .ok [v0]
          | .all, .set => .ok w.value
          | .noValue, .noValue => .ok []
          | _, _ => .unknown
        val.bind fun vs => inv.bind fun i => .ok { key := w.key, value := vs, op := op, invert := i }

/-- the loop over `req.GetOptions().GetLabelQuery()` in server List / Watch: every wire query is converted and handed
    to the state (`Gen.Selector.serverForwardsEveryQuery`; any other loop is outside the model) -/
def serverConvert (ws : List WQuery) : Conv Queries :=
  if Gen.Selector.serverForwardsEveryQuery then Conv.mapM (Conv.mapM serverTerm) ws else .unknown

/-- the label queries the remote state evaluates for a client-side `qs` -/
def viaWire (qs : Queries) : Conv Queries := (clientTransform qs).bind serverConvert

/-- what a remote List/Watch answers for one resource: the verdict, or how it fails -/
def grpcVerdict (qs : Queries) (l : Labels) : Conv Bool :=
  (viaWire qs).bind fun qs' => .ok (queriesMatch qs' l)

end Cosi.Selector
