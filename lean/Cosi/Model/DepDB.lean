/-
  Cosi.Model.DepDB — executable model of the controller dependency database and of the
  registration procedures that write to it (property C17). Core Lean only.

  Transcribed from
    /repo/pkg/controller/runtime/internal/dependency/database.go   (tables and operations)
    /repo/pkg/controller/runtime.go                                 (Input, Compare, EqualKeys, Output)
    /repo/pkg/controller/runtime/internal/rruntime/rruntime.go      (NewAdapter, UpdateInputs)
    /repo/pkg/controller/runtime/internal/qruntime/qruntime.go      (NewAdapter), watch.go (WatchTrigger)
    /repo/pkg/controller/runtime/runtime.go                         (Register*, deliverDeduplicatedEvents)

  Representation. Go maps whose iteration order is random are association/relation
  lists whose order is never observable (every reader sorts); slices whose order IS
  observable keep it:
    exclusiveOutputs map[Type]string           excl     : (type, controller), at most one per type
    sharedOutputs    map[Type][]string         shared   : (type, controller) pairs (the per-type slice is
                                                          kept sorted by BinarySearch+Insert; only membership
                                                          is ever observed)
    controllerInputs map[string][]Input        inputs   : controller ↦ slice, exact order (binary search!)
    inputLookup      map[nsType][]string       lookup   : (key, controller) in append order; the slice of a
                                                          key is the filtered sub-list, order preserved
    inputLookupID    map[nsTypeID][]string     lookupID : same
  `acc` is a ghost field (not in the Go struct): the declarations the database accepted
  and has not deleted since; `Cosi.C17.export_is_accepted` ties the tables to it.
-/
import Cosi.Base
import Cosi.Gen.DepDB

namespace Cosi.DepDB

/-- controller.Input (pkg/controller/runtime.go:66). `kind` is Go's `InputKind = int`:
    0 Weak, 1 Strong, 2 DestroyReady, 3 QPrimary, 4 QMapped, 5 QMappedDestroyReady.
    `id = none` is `optional.None`, `some ""` is `optional.Some("")`: different values. -/
structure Input where
  ns : String
  typ : String
  id : Option String
  kind : Nat
deriving DecidableEq, Repr, Inhabited

/-- controller.Output (runtime.go:107): kind 0 Exclusive, 1 Shared. -/
structure Output where
  typ : String
  kind : Nat
deriving DecidableEq, Repr, Inhabited

/-- `optional.Optional.ValueOrZero` -/
def Input.idVal (a : Input) : String := a.id.getD ""

/-- controller.Input.Compare (runtime.go:74). NB: when the IDs differ as *optionals*
    the result is the comparison of their zero-defaulted values, so `none` and `some ""`
    compare EQUAL and the kind is never looked at: only a pre-order. -/
def Input.cmp (a b : Input) : Ordering :=
  if a.ns ≠ b.ns then compare a.ns b.ns
  else if a.typ ≠ b.typ then compare a.typ b.typ
  else if a.id ≠ b.id then compare a.idVal b.idVal
  else compare a.kind b.kind

/-- controller.Input.EqualKeys (runtime.go:91) -/
def Input.equalKeys (a b : Input) : Bool :=
  decide (a.ns = b.ns) && decide (a.typ = b.typ) && decide (a.id = b.id)

/-- the loop of slices.BinarySearchFunc (Go 1.26 slices/sort.go): smallest-index search
    under the invariant `cmp(x[i-1]) < 0 ≤ cmp(x[j])`; `p h` is `cmp(x[h], target) < 0`.
    Fuel `n` suffices since `j - i` strictly decreases. -/
def bsearchAux (p : Nat → Bool) : Nat → Nat → Nat → Nat
  | 0, i, _ => i
  | fuel + 1, i, j =>
    if i < j then
      let h := (i + j) / 2
      if p h then bsearchAux p fuel (h + 1) j else bsearchAux p fuel i h
    else i

def ltAt (l : List Input) (d : Input) (h : Nat) : Bool :=
  match l[h]? with
  | some e => e.cmp d == .lt
  | none => false

/-- `idx, _ := slices.BinarySearchFunc(existingInputs, dep, controller.Input.Compare)` (database.go:137,182) -/
def searchInputs (l : List Input) (d : Input) : Nat :=
  bsearchAux (ltAt l d) l.length 0 l.length

def keyAt (l : List Input) (k : Nat) (d : Input) : Bool :=
  match l[k]? with
  | some e => e.equalKeys d
  | none => false

/-- database.go:140-146 / 185-195: shifts −1, 0, +1 in this order, bounds checked; index of the first hit -/
def nearHit (l : List Input) (idx : Nat) (d : Input) : Option Nat :=
  if 1 ≤ idx && keyAt l (idx - 1) d then some (idx - 1)
  else if keyAt l idx d then some idx
  else if keyAt l (idx + 1) d then some (idx + 1)
  else none

/-- slices.Insert(s, i, v) -/
def insertAt (l : List Input) (i : Nat) (d : Input) : List Input := l.take i ++ d :: l.drop i

inductive Decl where
  | out (o : Output)
  | inp (i : Input)
deriving DecidableEq, Repr

/-! ### association list for controllerInputs -/

def alGet (m : List (String × List Input)) (k : String) : Option (List Input) :=
  match m with
  | [] => none
  | (k', v) :: rest => if k' = k then some v else alGet rest k

def alPut (m : List (String × List Input)) (k : String) (v : List Input) : List (String × List Input) :=
  (k, v) :: m.filter (fun p => !decide (p.1 = k))

structure DB where
  excl : List (String × String) := []
  shared : List (String × String) := []
  inputs : List (String × List Input) := []
  lookup : List ((String × String) × String) := []
  lookupID : List ((String × String × String) × String) := []
  acc : List (String × Decl) := []
deriving DecidableEq, Repr

def DB.empty : DB := {}

def DB.getInputs (db : DB) (c : String) : List Input := (alGet db.inputs c).getD []

/-- the slice `db.inputLookup[key]` -/
def DB.lookupFor (db : DB) (ns typ : String) : List String :=
  (db.lookup.filter (fun p => p.1 = (ns, typ))).map (·.2)

/-- the slice `db.inputLookupID[key]` -/
def DB.lookupIDFor (db : DB) (ns typ id : String) : List String :=
  (db.lookupID.filter (fun p => p.1 = (ns, typ, id))).map (·.2)

def DB.hasExcl (db : DB) (t : String) : Bool := db.excl.any (fun p => p.1 = t)
def DB.hasShared (db : DB) (t : String) : Bool := db.shared.any (fun p => p.1 = t)

/-- Database.AddControllerOutput (database.go:53). The `switch out.Kind` has no default:
    an out-of-range kind returns nil and records nothing. -/
def addOutput (db : DB) (c : String) (o : Output) : DB × Bool :=
  if db.hasExcl o.typ then (db, false)
  else if o.kind = 0 then
    if db.hasShared o.typ then (db, false)
    else ({ db with excl := db.excl ++ [(o.typ, c)], acc := db.acc ++ [(c, .out o)] }, true)
  else if o.kind = 1 then
    if db.shared.any (fun p => p.1 = o.typ ∧ p.2 = c) then (db, false)
    else ({ db with shared := db.shared ++ [(o.typ, c)], acc := db.acc ++ [(c, .out o)] }, true)
  else (db, true)

/-- Database.AddControllerInput (database.go:131) -/
def addInput (db : DB) (c : String) (d : Input) : DB × Bool :=
  let l := db.getInputs c
  let idx := searchInputs l d
  if (nearHit l idx d).isSome then (db, false)
  else
    let inputs' := alPut db.inputs c (insertAt l idx d)
    match d.id with
    | none =>
      ({ db with inputs := inputs', lookup := db.lookup ++ [((d.ns, d.typ), c)],
                 acc := db.acc ++ [(c, .inp d)] }, true)
    | some id =>
      ({ db with inputs := inputs', lookupID := db.lookupID ++ [((d.ns, d.typ, id), c)],
                 acc := db.acc ++ [(c, .inp d)] }, true)

def accIsInputKey (c : String) (d : Input) (p : String × Decl) : Bool :=
  decide (p.1 = c) && (match p.2 with
    | .inp i => i.equalKeys d
    | .out _ => false)

/-- Database.DeleteControllerInput (database.go:174): matches by KEYS (the kind of `dep`
    is irrelevant), deletes every occurrence of the controller from the lookup slice. -/
def deleteInput (db : DB) (c : String) (d : Input) : DB × Bool :=
  let l := db.getInputs c
  let idx := searchInputs l d
  match nearHit l idx d with
  | none => (db, false)
  | some k =>
    let inputs' := alPut db.inputs c (l.eraseIdx k)
    let acc' := db.acc.filter (fun p => !accIsInputKey c d p)
    match d.id with
    | none =>
      ({ db with inputs := inputs', acc := acc',
                 lookup := db.lookup.filter (fun p => !(decide (p.1 = (d.ns, d.typ)) && decide (p.2 = c))) }, true)
    | some id =>
      ({ db with inputs := inputs', acc := acc',
                 lookupID := db.lookupID.filter (fun p => !(decide (p.1 = (d.ns, d.typ, id)) && decide (p.2 = c))) }, true)

/-- Database.GetDependentControllers (database.go:237): error when the ID is absent,
    otherwise kind-wide slice ++ by-ID slice. -/
def getDependents (db : DB) (ns typ : String) (id : Option String) : Option (List String) :=
  match id with
  | none => none
  | some v => some (db.lookupFor ns typ ++ db.lookupIDFor ns typ v)

/-- Database.GetResourceExclusiveController (database.go:123) -/
def getExclusive (db : DB) (t : String) : String :=
  match db.excl.find? (fun p => p.1 = t) with
  | some p => p.2
  | none => ""

/-- Database.GetControllerOutputs (database.go:85): sorted by (kind, type) -/
def getOutputs (db : DB) (c : String) : List Output :=
  let ex := (db.excl.filter (fun p => p.2 = c)).map (fun p => ({ typ := p.1, kind := 0 } : Output))
  let sh := (db.shared.filter (fun p => p.2 = c)).map (fun p => ({ typ := p.1, kind := 1 } : Output))
  sortBy (fun a b => if a.kind ≠ b.kind then a.kind < b.kind else a.typ < b.typ) (ex ++ sh)

/-- controller.DependencyEdge (dependency.go:30); `etype` is DependencyEdgeType:
    0 OutputExclusive 1 OutputShared 2 InputStrong 3 InputWeak 4 InputDestroyReady
    5 InputQPrimary 6 InputQMapped 7 InputQMappedDestroyReady -/
structure Edge where
  ctrl : String
  etype : Nat
  ns : String
  typ : String
  id : String
deriving DecidableEq, Repr

/-- the `switch input.Kind` of Export (database.go:289); no default ⇒ zero value 0 -/
def edgeTypeOfKind : Nat → Nat
  | 0 => 3
  | 1 => 2
  | 2 => 4
  | 3 => 5
  | 4 => 6
  | 5 => 7
  | _ => 0

def edgeOfDecl (c : String) : Decl → Edge
  | .out o => { ctrl := c, etype := if o.kind = 0 then 0 else 1, ns := "", typ := o.typ, id := "" }
  | .inp i => { ctrl := c, etype := edgeTypeOfKind i.kind, ns := i.ns, typ := i.typ, id := i.idVal }

/-- the edges of Export before sorting (database.go:267-312) -/
def exportEdges (db : DB) : List Edge :=
  db.excl.map (fun p => edgeOfDecl p.2 (.out { typ := p.1, kind := 0 }))
  ++ db.shared.map (fun p => edgeOfDecl p.2 (.out { typ := p.1, kind := 1 }))
  ++ db.inputs.flatMap (fun p => p.2.map (fun i => edgeOfDecl p.1 (.inp i)))

/-- the comparator of Export's slices.SortFunc (database.go:314): edge types are only
    compared when one of them is an output edge; not a strict weak order either. -/
def edgeCmp (a b : Edge) : Ordering :=
  if a.etype ≠ b.etype ∧ (a.etype < 2 ∨ b.etype < 2) then compare a.etype b.etype
  else if a.ctrl ≠ b.ctrl then compare a.ctrl b.ctrl
  else if a.ns ≠ b.ns then compare a.ns b.ns
  else if a.typ ≠ b.typ then compare a.typ b.typ
  else compare a.id b.id

/-- Database.Export (database.go:261) -/
def exportGraph (db : DB) : List Edge := sortBy (fun a b => edgeCmp a b == .lt) (exportEdges db)

/-! ### registration (both adapter flavours) and UpdateInputs -/

/-- rruntime.NewAdapter:87 / qruntime.NewAdapter:70 — outputs one by one, stop at the first error
    (what was added before stays) -/
def addOutputs (db : DB) (c : String) : List Output → DB × Bool
  | [] => (db, true)
  | o :: os =>
    let r := addOutput db c o
    if r.2 then addOutputs r.1 c os else (r.1, false)

/-- one pass of Go's insertionSortCmpFunc on the reversed sorted prefix (head = right-most) -/
def insRev (x : Input) : List Input → List Input
  | [] => [x]
  | y :: ys => if x.cmp y == .lt then y :: insRev x ys else x :: y :: ys

/-- `slices.SortFunc(deps, controller.Input.Compare)` (rruntime.go:120). pdqsort runs plain
    insertion sort for ≤ 12 elements; for longer slices the order among Compare-equal
    elements is implementation defined (assumption recorded in checks.json). -/
def sortInputs (l : List Input) : List Input := (l.foldl (fun rev x => insRev x rev) []).reverse

/-- the merge loop of rruntime.UpdateInputs (rruntime.go:137-190): delete before add,
    return at the first database error (earlier edits stay). -/
def mergeLoop (c : String) : Nat → List Input → List Input → DB → DB × Bool
  | 0, _, _, db => (db, true)
  | fuel + 1, deps, dbDeps, db =>
    match deps, dbDeps with
    | [], [] => (db, true)
    | [], dJ :: js =>
      let r := deleteInput db c dJ
      if r.2 then mergeLoop c fuel [] js r.1 else (r.1, false)
    | dI :: is, [] =>
      let r := addInput db c dI
      if r.2 then mergeLoop c fuel is [] r.1 else (r.1, false)
    | dI :: is, dJ :: js =>
      if dI = dJ then mergeLoop c fuel is js db
      else if dI.equalKeys dJ then
        let r := deleteInput db c dJ
        if r.2 then
          let r2 := addInput r.1 c dI
          if r2.2 then mergeLoop c fuel is js r2.1 else (r2.1, false)
        else (r.1, false)
      else if dI.cmp dJ == .lt then
        let r := addInput db c dI
        if r.2 then mergeLoop c fuel is (dJ :: js) r.1 else (r.1, false)
      else
        let r := deleteInput db c dJ
        if r.2 then mergeLoop c fuel (dI :: is) js r.1 else (r.1, false)

/-- rruntime.(*Adapter).UpdateInputs (rruntime.go:119) on the database -/
def updateInputsDB (db : DB) (c : String) (inputs : List Input) : DB × Bool :=
  let deps := sortInputs inputs
  let bad := deps.any (fun d => Gen.DepDB.rRejectKinds.contains d.kind)
  if Gen.DepDB.rKindCheckBeforeWrites && bad then (db, false)
  else
    let dbDeps := db.getInputs c
    let r := mergeLoop c (deps.length + dbDeps.length + 1) deps dbDeps db
    if !Gen.DepDB.rKindCheckBeforeWrites && bad then (r.1, false) else r

/-- qruntime.NewAdapter:76-93 — inputs in DECLARED order (no sort, no merge): kind check,
    AddControllerInput, RegisterWatch per input; return at the first error. -/
def addInputsQ (db : DB) (c : String) : List Input → DB × Bool
  | [] => (db, true)
  | i :: is =>
    if Gen.DepDB.qRejectKinds.contains i.kind then (db, false)
    else
      let r := addInput db c i
      if r.2 then addInputsQ r.1 c is else (r.1, false)

/-- the adapter stored in `runtime.controllers`: flavour and, for the Q flavour, the
    `settings.Inputs` that qruntime.WatchTrigger iterates over -/
inductive Adapter where
  | r
  | q (inputs : List Input)
deriving DecidableEq, Repr

structure Sys where
  db : DB := {}
  ctrls : List (String × Adapter) := []
  started : Bool := false
deriving DecidableEq, Repr

def Sys.init : Sys := {}

def Sys.adapter? (s : Sys) (name : String) : Option Adapter :=
  (s.ctrls.find? (fun p => p.1 = name)).map (·.2)

def Sys.registered (s : Sys) (name : String) : Bool := s.ctrls.any (fun p => p.1 = name)

inductive Res where
  | accepted
  | rejected
  | nohandle
  | ok
  | already
deriving DecidableEq, Repr

/-- what a failed Register* leaves behind: `rb` = the regenerated fact
    `registrationRollsBack` (false on the current tree: the database keeps every write
    made before the failing step) -/
def failWith (rb : Bool) (s : Sys) (db' : DB) : Sys × Res :=
  (if rb then s else { s with db := db' }, .rejected)

/-- Runtime.RegisterController (runtime.go:103) + rruntime.NewAdapter (rruntime.go:55):
    name check; outputs; then UpdateInputs (sort, kind check, merge with whatever the
    database already holds under this name); only then `controllers[name] = adapter`. -/
def registerR (rb : Bool) (s : Sys) (name : String) (inputs : List Input) (outputs : List Output) : Sys × Res :=
  if s.registered name then (s, .rejected)
  else
    let r1 := addOutputs s.db name outputs
    if !r1.2 then failWith rb s r1.1
    else
      let r2 := updateInputsDB r1.1 name inputs
      if !r2.2 then failWith rb s r2.1
      else ({ s with db := r2.1, ctrls := s.ctrls ++ [(name, .r)] }, .accepted)

/-- Runtime.RegisterQController (runtime.go:134) + qruntime.NewAdapter (qruntime.go:57);
    `conc = some 0` is `Concurrency: optional.Some(0)`. -/
def registerQ (rb : Bool) (s : Sys) (name : String) (inputs : List Input) (outputs : List Output)
    (conc : Option Nat) : Sys × Res :=
  if s.registered name then (s, .rejected)
  else if Gen.DepDB.qConcurrencyBeforeWrites && conc == some 0 then (s, .rejected)
  else
    let r1 := addOutputs s.db name outputs
    if !r1.2 then failWith rb s r1.1
    else
      let r2 := addInputsQ r1.1 name inputs
      if !r2.2 then failWith rb s r2.1
      else if !Gen.DepDB.qConcurrencyBeforeWrites && conc == some 0 then failWith rb s r2.1
      else ({ s with db := r2.1, ctrls := s.ctrls ++ [(name, .q inputs)] }, .accepted)

/-- controller.Runtime.UpdateInputs through the handle a Controller receives in Run:
    available only for a registered R-flavour controller of a started runtime.
    A rejected call keeps the edits made before the failing one. -/
def updateInputs (s : Sys) (name : String) (inputs : List Input) : Sys × Res :=
  if s.started && s.adapter? name == some .r then
    let r := updateInputsDB s.db name inputs
    ({ s with db := r.1 }, if r.2 then .ok else .rejected)
  else (s, .nohandle)

inductive Op where
  | register (name : String) (inputs : List Input) (outputs : List Output)
  | registerQ (name : String) (inputs : List Input) (outputs : List Output) (conc : Option Nat)
  | updateInputs (name : String) (inputs : List Input)
  | start
deriving DecidableEq, Repr

def stepWith (rb : Bool) (s : Sys) : Op → Sys × Res
  | .register n i o => registerR rb s n i o
  | .registerQ n i o c => registerQ rb s n i o c
  | .updateInputs n i => updateInputs s n i
  | .start => if s.started then (s, .already) else ({ s with started := true }, .ok)

/-- the model of the code as it is: rollback behaviour from the regenerated fact -/
def step (s : Sys) (op : Op) : Sys × Res := stepWith Gen.DepDB.registrationRollsBack s op

def runWith (rb : Bool) (s : Sys) : List Op → Sys
  | [] => s
  | op :: ops => runWith rb (stepWith rb s op).1 ops

def run (s : Sys) (ops : List Op) : Sys := runWith Gen.DepDB.registrationRollsBack s ops

/-- outcome of delivering one change event of resource (ns,typ,id) -/
inductive Delivery where
  | woken (l : List String)
  | crash   -- `runtime.controllers[ctrl].WatchTrigger(&k)` on a nil adapter (runtime.go:468)
deriving DecidableEq, Repr

/-- does adapter `a` of controller `c` reconcile on an event that passes every filter?
    rruntime.WatchTrigger → triggerReconcile; qruntime.WatchTrigger queues a job iff one of
    ITS inputs has the (namespace,type) and a Q kind (watch.go:14-32). -/
def Adapter.wakes (a : Adapter) (ns typ : String) : Bool :=
  match a with
  | .r => true
  | .q ins => ins.any (fun i => i.ns = ns ∧ i.typ = typ ∧ (i.kind = 3 ∨ i.kind = 4 ∨ i.kind = 5))

/-- runtime.deliverDeduplicatedEvents (runtime.go:453-471) for one event of a resource that
    is destroy-ready (so that every watch filter passes). Before Run nothing is delivered. -/
def deliver (s : Sys) (ns typ id : String) : Delivery :=
  if !s.started then .woken []
  else
    match getDependents s.db ns typ (some id) with
    | none => .woken []
    | some deps =>
      if deps.any (fun c => !s.registered c) then .crash
      else .woken ((deps.filter (fun c => match s.adapter? c with
        | some a => a.wakes ns typ
        | none => false)).eraseDups)

end Cosi.DepDB
