/-
  Cosi.Model.AccessDecl — WHICH declaration the access guards of property C08 read.

  `checkReadAccess` / `checkFinalizerAccess` / `isOutput` (adapter.go:46-99, Cosi.Model.Access) range over
  `adapter.Inputs` / `adapter.Outputs`. Those are Go slices the adapter received from the controller:

    /repo/pkg/controller/runtime/internal/rruntime/rruntime.go
        NewAdapter :55        Outputs: slices.Clone(ctrl.Outputs()) :69;  UpdateInputs(ctrl.Inputs()) :92
        UpdateInputs :119     slices.SortFunc(deps, …) :120 (sorts the CALLER's slice in place); kind check :122-130;
                              merge with the dependency database :132-187 (may fail half-way: duplicate keys);
                              adapter.Inputs = slices.Clone(deps) :189 — the last statement before `return nil`
    /repo/pkg/controller/runtime/internal/qruntime/qruntime.go
        NewAdapter :57        Inputs: settings.Inputs :115, Outputs: settings.Outputs :116

  A Go slice is a view of a backing array; a controller that keeps the array it passed (the usual
  `buf = append(buf[:0], …)` idiom) can rewrite it later. So the model has a HEAP of controller-owned
  buffers, and what the adapter keeps is either a private list (`own`) or a view of such a buffer (`view`).
  Which of the two is decided per site by the REGENERATED `Gen.Access.declKeep` (fail closed: an
  unrecognised store is a view), whether the caller's slice is sorted in place by `updateSortsCaller`,
  whether a rejected update can touch the kept slice by `updateStoresOnSuccessOnly`; acceptance of an update
  is the dependency-database model of C17 (`DepDB.updateInputsDB`, incl. its regenerated kind check).

  `decl` is a ghost field: the declaration last ACCEPTED, by value — what property C08 calls "its declared
  inputs and outputs". `Cosi.C08D` proves `eff = decl` for every program when the sites clone, and exhibits
  the divergence for an aliasing site. Core Lean only.
-/
import Cosi.Model.Access
import Cosi.Model.DepDB

namespace Cosi.AccessDecl
open Cosi Cosi.Access

inductive Flavour where
  | r   -- controller.Controller (rruntime)
  | q   -- controller.QController (qruntime)
deriving DecidableEq, Repr, Inhabited

/-- what an adapter field holds: a list nobody else can reach, or the first `len` elements of the
    controller's buffer `buf` -/
inductive Kept (α : Type) where
  | own (l : List α)
  | view (buf len : Nat)
deriving Repr

/-- the controller's buffers (backing arrays), by number -/
abbrev Heap (α : Type) := List (List α)

def Heap.buf {α : Type} (h : Heap α) (b : Nat) : List α := h.getD b []

/-- the controller overwrites its buffer from index `i` on (`copy(buf[i:], vs)`, growing the slice inside its
    capacity; an index beyond the length appends) -/
def Heap.write {α : Type} (h : Heap α) (b i : Nat) (vs : List α) : Heap α :=
  h.set b ((h.buf b).take i ++ vs ++ (h.buf b).drop (i + vs.length))

def Kept.read {α : Type} (h : Heap α) : Kept α → List α
  | .own l => l
  | .view b n => (h.buf b).take n

/-- storing `buf[:n]`, whose elements are `content` at that moment, at a site -/
def keepAs {α : Type} (k : Gen.SliceKeep) (b n : Nat) (content : List α) : Kept α :=
  match k with
  | .clone => .own content
  | .alias | .unknown => .view b n

structure Rules where
  keep : Gen.DeclSite → Gen.SliceKeep
  /-- UpdateInputs sorts its argument in place -/
  sortsCaller : Option Bool
  /-- the store to adapter.Inputs is reached only by an accepted update -/
  storeOnSuccessOnly : Bool

/-- what the code is meant to do: private copies everywhere -/
def goodRules : Rules :=
  { keep := fun _ => .clone, sortsCaller := some true, storeOnSuccessOnly := true }

/-- the rules of the CURRENT source text -/
def genRules : Rules :=
  { keep := Gen.Access.declKeep, sortsCaller := Gen.Access.updateSortsCaller,
    storeOnSuccessOnly := Gen.Access.updateStoresOnSuccessOnly }

def toDep (i : AInput) : DepDB.Input := { ns := i.ns, typ := i.typ, id := i.id, kind := i.kind }
def ofDep (i : DepDB.Input) : AInput := { ns := i.ns, typ := i.typ, id := i.id, kind := i.kind }
def toDepOut (o : AOutput) : DepDB.Output := { typ := o.typ, kind := o.kind }

/-- `slices.SortFunc(deps, controller.Input.Compare)` -/
def sortInputs (l : List AInput) : List AInput := (DepDB.sortInputs (l.map toDep)).map ofDep

/-- one controller and its adapter -/
structure DSt where
  fl : Flavour := .r
  name : String := ""
  bufI : Heap AInput := []
  bufO : Heap AOutput := []
  inputs : Kept AInput := .own []
  outputs : Kept AOutput := .own []
  db : DepDB.DB := {}
  /-- ghost: the declaration last accepted, by value -/
  decl : Decl := default
deriving Repr

/-- the declaration the guards read NOW -/
def DSt.eff (s : DSt) : Decl :=
  { name := s.name, inputs := s.inputs.read s.bufI, outputs := s.outputs.read s.bufO }

inductive DOp where
  | writeI (b i : Nat) (vs : List AInput)     -- the controller rewrites one of its input buffers
  | writeO (b i : Nat) (vs : List AOutput)    -- … output buffers
  | updateBuf (b n : Nat)                     -- Runtime.UpdateInputs(buf[:n])
  | updateFresh (l : List AInput)             -- Runtime.UpdateInputs(<a slice nobody else holds>)
deriving Repr

/-- the end of rruntime.(*Adapter).UpdateInputs: `res` = what the merge with the dependency database gave
    (the database afterwards, accepted?), `stored` = what `adapter.Inputs = …` would keep -/
def updateWith (r : Rules) (s : DSt) (heap : Heap AInput) (arg : List AInput) (stored : Kept AInput)
    (res : DepDB.DB × Bool) : DSt :=
  if res.2 then { s with bufI := heap, db := res.1, inputs := stored, decl := { s.decl with inputs := arg } }
  else if r.storeOnSuccessOnly then { s with bufI := heap, db := res.1 }
  else { s with bufI := heap, db := res.1, inputs := stored }

/-- rruntime.(*Adapter).UpdateInputs with the (sorted) argument `arg` -/
def update (r : Rules) (s : DSt) (heap : Heap AInput) (arg : List AInput) (stored : Kept AInput) : DSt :=
  updateWith r s heap arg stored (DepDB.updateInputsDB s.db s.name (arg.map toDep))

/-- the argument of an UpdateInputs call as the merge sees it (sorted, when the code sorts) -/
def updateArg (r : Rules) (s : DSt) : DOp → List AInput
  | .updateBuf b n => if r.sortsCaller == some true then sortInputs ((s.bufI.buf b).take n) else (s.bufI.buf b).take n
  | .updateFresh l => if r.sortsCaller == some true then sortInputs l else l
  | _ => []

/-- does the dependency database accept this UpdateInputs call -/
def accepted (r : Rules) (s : DSt) (x : DOp) : Bool :=
  (DepDB.updateInputsDB s.db s.name ((updateArg r s x).map toDep)).2

def stepWith (r : Rules) (s : DSt) : DOp → DSt
  | .writeI b i vs => { s with bufI := s.bufI.write b i vs }
  | .writeO b i vs => { s with bufO := s.bufO.write b i vs }
  | .updateBuf b n =>
    match s.fl with
    | .q => s                                   -- controller.QRuntime has no UpdateInputs
    | .r =>
      let sorted := updateArg r s (.updateBuf b n)
      let heap := if r.sortsCaller == some true then s.bufI.write b 0 sorted else s.bufI
      update r s heap sorted (keepAs (r.keep .rInputs) b sorted.length sorted)
  | .updateFresh l =>
    match s.fl with
    | .q => s
    | .r =>
      let sorted := updateArg r s (.updateFresh l)
      update r s s.bufI sorted (.own sorted)

/-- the model of the current source text -/
def step (s : DSt) (x : DOp) : DSt := stepWith genRules s x

def runWith (r : Rules) (s : DSt) (xs : List DOp) : DSt := xs.foldl (stepWith r) s

def run (s : DSt) (xs : List DOp) : DSt := runWith genRules s xs

/-- registration: the controller hands `bufI[bi][:ni]` / `bufO[bo][:no]` (its Inputs() / Outputs(), or the slices
    of its Settings()). rruntime.NewAdapter :55 keeps the outputs, registers them, then calls UpdateInputs;
    qruntime.NewAdapter :57 keeps both as they are. (Registration is assumed to succeed: the engines generate
    valid declarations; a rejected registration is property C17.) -/
def registerWith (r : Rules) (fl : Flavour) (name : String) (bufI : Heap AInput) (bufO : Heap AOutput)
    (bi ni bo no : Nat) : DSt :=
  let outs := (bufO.buf bo).take no
  match fl with
  | .r =>
    let s0 : DSt := { fl := .r, name := name, bufI := bufI, bufO := bufO,
                      outputs := keepAs (r.keep .rOutputs) bo outs.length outs,
                      db := (DepDB.addOutputs {} name (outs.map toDepOut)).1,
                      decl := { name := name, inputs := [], outputs := outs } }
    stepWith r s0 (.updateBuf bi ni)
  | .q =>
    let ins := (bufI.buf bi).take ni
    { fl := .q, name := name, bufI := bufI, bufO := bufO,
      inputs := keepAs (r.keep .qInputs) bi ins.length ins,
      outputs := keepAs (r.keep .qOutputs) bo outs.length outs,
      decl := { name := name, inputs := ins, outputs := outs } }

def register (fl : Flavour) (name : String) (bufI : Heap AInput) (bufO : Heap AOutput) (bi ni bo no : Nat) : DSt :=
  registerWith genRules fl name bufI bufO bi ni bo no

end Cosi.AccessDecl
