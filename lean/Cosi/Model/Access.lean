/-
  Cosi.Model.Access — M6: the access guards of the controller state adapter and the
  owner injection of owned.State, ASSEMBLED FROM THE REGENERATED TABLES
  `Cosi.Gen.Access` (tools/extract/access.go reads adapter.go and owned/state.go on
  every run), composed with the store model of C01.

    /repo/pkg/controller/runtime/internal/controllerstate/adapter.go
        isOutput :46, checkReadAccess :56, checkFinalizerAccess :83, the 13 methods :101-285
    /repo/pkg/state/owned/state.go   Create :46, Update :65, ModifyWithResult :81, Teardown :104, Destroy :120
    /repo/pkg/controller/runtime/internal/rruntime/state.go  (output tracking only: forwards to StateAdapter)
    /repo/pkg/controller/runtime/internal/qruntime/qruntime.go:109 (same StateAdapter, Inputs/Outputs from QSettings)

  An `.unknown` table entry is read pessimistically: no guard, no owner check.
  `Cosi.Spec.Access` is the independent statement; `Cosi.C08.policy_eq_spec` ties them.
-/
import Cosi.Model.AccessTypes
import Cosi.Gen.Access

namespace Cosi.Access

open Cosi

def AdapterOp.toGen : AdapterOp → Gen.AMethod
  | .get => .get | .getUncached => .getUncached | .list => .list | .listUncached => .listUncached
  | .ctxTeardown => .ctxTeardown | .create => .create | .update => .update | .modify => .modify
  | .modifyWithResult => .modifyWithResult | .teardown => .teardown | .destroy => .destroy
  | .addFinalizer => .addFinalizer | .removeFinalizer => .removeFinalizer

def kindOk : Gen.KindSel → Nat → Bool
  | .all, _ => true
  | .only ks, k => ks.contains k
  | .unknown, _ => true

def idRule (r : Gen.IdMatch) (dep req : String) : Bool :=
  match r with
  | .allow => true
  | .ifEqual => dep == req
  | .skip => false
  | .unknown => true

/-- body of the `for _, dep := range adapter.Inputs` loops (adapter.go:62, :85) for one input -/
def inputLets (sel : Gen.KindSel) (noId idVsId idVsKind : Gen.IdMatch) (i : AInput) (t : Target) : Bool :=
  i.ns == t.ns && i.typ == t.typ && kindOk sel i.kind &&
  match i.id, t.id with
  | none, some req => idRule noId "" req
  | none, none => idRule noId "" ""
  | some dep, some req => idRule idVsId dep req
  | some dep, none => idRule idVsKind dep ""

/-- `isOutput` (adapter.go:46) -/
def isOutput (d : Decl) (typ : String) : Bool :=
  if Gen.Access.outputByTypeOnly then d.outputs.any (fun o => o.typ == typ) else true

/-- `checkReadAccess` (adapter.go:56) -/
def readOk (d : Decl) (t : Target) : Bool :=
  (Gen.Access.readAllowsOutputs && isOutput d t.typ) ||
  d.inputs.any (fun i => inputLets Gen.Access.readKindSel Gen.Access.readNoId Gen.Access.readIdVsId
    Gen.Access.readIdVsKind i t)

/-- `checkFinalizerAccess` (adapter.go:83); every such request carries an ID -/
def finOk (d : Decl) (t : Target) : Bool :=
  d.inputs.any (fun i => inputLets Gen.Access.finalizerKindSel Gen.Access.finNoId Gen.Access.finIdVsId .skip i t)

def guardAllows (d : Decl) (g : Gen.AGuard) (t : Target) : Bool :=
  match g with
  | .readId => readOk d t
  | .readKind => readOk d { t with id := none }
  | .output => isOutput d t.typ
  | .finalizer => finOk d t
  | .noGuard | .unknown => true

/-- does the adapter let the call reach the state -/
def allowed (d : Decl) (op : AdapterOp) (t : Target) : Bool :=
  !Gen.Access.guardFirst op.toGen || guardAllows d (Gen.Access.guardOf op.toGen) t

/-- the owner handed down by owned.State for the method the adapter delegates to -/
def effOwner (name : String) (op : AdapterOp) (a : OwnerArg) : Option String :=
  match Gen.Access.ownedInject (Gen.Access.delegateOf op.toGen), a with
  | .name, _ => some name
  | .nameOrNone, .noOwner => some ""
  | .nameOrNone, _ => some name
  | .explicitOrName, .explicit o => some o
  | .explicitOrName, _ => some name
  | .noOption, _ => some ""          -- no owner option: the zero value of options.Owner
  | .unknown, _ => none

/-- the model of the code -/
def modelPolicy : Policy := { allowed := allowed, owner := effOwner, step := Cosi.step }

def exec (cfg : Cfg) (s : Store) (now : Nat) (d : Decl) (c : Call) : Store × ARet × List String :=
  execCore modelPolicy cfg s now d c

def run (cfg : Cfg) (d : Decl) (s : Store) (t0 : Nat) (cs : List Call) : Store × List ARet :=
  runCore modelPolicy cfg d s t0 cs

/-- is this read served from the runtime cache (then no core-store operation is seen) -/
def fromCache (cached : List (String × String)) (c : Call) : Bool :=
  Gen.Access.cacheUse c.op.toGen == .ifHandled && cached.contains (c.ns, c.typ)

end Cosi.Access
