/-
  Cosi.Model.TaskLoop — task.runWithRestarts by the error VALUE `RunTask` returned (C16).

  Written after /repo/pkg/task/task.go (runWithRestarts :63, runWithPanicHandler :93).

  `Cosi.Model.Restart.tstep` knows three ways a run can end (`RunEnd`: finished / failed /
  panicked). For the controller adapters "finished" includes an error that wraps
  context.Canceled: rruntime.runOnce and qruntime.runWithPanicHandler turn it into nil BY DESIGN
  (a controller that gives up because its context went away is not a crash). pkg/task has no such
  conversion: `runWithPanicHandler` hands RunTask's error through, and the loop's only exit besides
  cancellation is `err == nil`. A task that returns an error wrapping context.Canceled while ITS OWN
  context is alive (an aborted sub-request under a derived context, an errgroup sibling, a gRPC
  status turned into context.Canceled) has failed and is restarted with backoff like any other.

  Which error values end the loop is a PARAMETER (`Rules.finishes`); `genRules` instantiates it
  from the regenerated facts `Cosi.Gen.Restart.taskFinish` / `taskPassesError`, fail closed.
-/
import Cosi.Model.Restart

namespace Cosi.TaskLoop

open Cosi Cosi.Restart

/-- what `task.spec.RunTask` did, as `runWithRestarts` gets to see it -/
inductive TaskEnd where
  | nil           -- returned nil
  | canceledErr   -- returned a non-nil error for which `errors.Is(err, context.Canceled)` holds
  | failed        -- returned any other error
  | panicked      -- panicked (recovered by runWithPanicHandler into `fmt.Errorf("panic: %v", p)`)
deriving DecidableEq, Repr, Inhabited

structure Rules where
  /-- on this value the loop logs "task finished" and returns -/
  finishes : TaskEnd → Bool

/-- the rule the code is meant to implement (task.go:74): only nil is "finished" -/
def goodRules : Rules := { finishes := fun e => e == .nil }

/-- the rule of the CURRENT source text. Unrecognised shape ⇒ the worst rule: whatever RunTask
    returned, the task is never restarted. -/
def genRules : Rules :=
  { finishes := fun e =>
      match Gen.Restart.taskFinish, Gen.Restart.taskPassesError with
      | .errNil, true => e == .nil
      | .errNilOrCanceled, true => e == .nil || e == .canceledErr
      | _, _ => true }

inductive TEv where
  | runEnds (e : TaskEnd)
  | timerFires
  | ctxDone
deriving DecidableEq, Repr, Inhabited

def TEv.enabled (s : BLoop) : TEv → Bool
  | .runEnds _ => s.phase == .running
  | .timerFires => s.phase.isBackingOff
  | .ctxDone => s.phase.isBackingOff

def stepOn (r : Rules) (s : BLoop) : TEv → BLoop
  | .runEnds e =>
    if e == .panicked && !Gen.Restart.taskRecovers then { s with phase := .crashed }
    else if r.finishes e then { s with phase := .stopped }                 -- task.go:74–78
    else s.failTask                                                        -- :80–88
  | .timerFires => { s with phase := .running }
  | .ctxDone => { s with phase := .stopped }

def stepWith (r : Rules) (s : BLoop) (e : TEv) : BLoop := if e.enabled s then stepOn r s e else s

def runWith (r : Rules) (s : BLoop) : List TEv → BLoop
  | [] => s
  | e :: rest => runWith r (stepWith r s e) rest

/-- the model of the current source text -/
def step (s : BLoop) (e : TEv) : BLoop := stepWith genRules s e

def run (s : BLoop) (evs : List TEv) : BLoop := runWith genRules s evs

/-- the coarse event of `Cosi.Model.Restart.tstep` an error value stands for, FOR A TASK: every
    non-nil error is a failure -/
def TaskEnd.coarse : TaskEnd → RunEnd
  | .nil => .finished
  | .canceledErr => .failed
  | .failed => .failed
  | .panicked => .panicked

def TEv.coarse : TEv → BEv
  | .runEnds e => .runEnds e.coarse 0
  | .timerFires => .timerFires
  | .ctxDone => .ctxDone

end Cosi.TaskLoop
