/-
  Cosi.Model.Store — M0/M1: resources and the sequential resource store.

  Written 1:1 after
    /repo/pkg/state/impl/inmem/collection.go  (Create :138, Update :180, Destroy :235, Get :88, List :101)
    /repo/pkg/state/impl/inmem/errors.go      (error constructors)
    /repo/pkg/state/errors.go                 (public error predicates incl. qualifiers)
    /repo/pkg/state/impl/namespaced/namespaced.go (dispatch by namespace)
    /repo/pkg/resource/metadata.go            (SetOwner :182), version.go (Next/Equal)

  The precondition chains of Create/Update/Destroy are NOT written here: `step`
  folds over `Gen.Store.createChecks/updateChecks/destroyChecks`, which the fact
  extractor regenerates from collection.go on every run. `Cosi.Spec.Store` holds
  the independent specification; `Cosi.Props.C01.step_eq_spec` ties the two.
-/
import Cosi.Base
import Cosi.Gen.Store

namespace Cosi

inductive Phase where
  | running | tearingDown
deriving DecidableEq, Repr, Inhabited

def Phase.str : Phase → String
  | .running => "running"
  | .tearingDown => "tearingDown"

def Phase.parse (s : String) : Phase :=
  if s == "tearingDown" then .tearingDown else .running

/-- A resource: metadata fields + an opaque spec. `ver = none` is `VersionUndefined`.
    Times are natural numbers (virtual clock ticks of the harness). -/
structure Res where
  ns : String
  typ : String
  id : String
  ver : Option Nat
  owner : String
  phase : Phase
  fins : List String
  labels : List (String × String)
  created : Nat
  updated : Nat
  spec : String
deriving DecidableEq, Repr, Inhabited

abbrev Key := String × String × String   -- (namespace, type, id)

/-- store flavour: `nsAware = true` for the namespaced wrapper (and everything
    built on it); `false` for a bare `inmem.State`, which ignores the resource's
    namespace and keys by (type,id) only. -/
structure Cfg where
  nsAware : Bool := true
deriving Repr, Inhabited

def Cfg.key (c : Cfg) (ns typ id : String) : Key :=
  (if c.nsAware then ns else "", typ, id)

def Res.key (c : Cfg) (r : Res) : Key := c.key r.ns r.typ r.id

/-- association list; `put` erases every older binding, so `get` is the last write -/
abbrev Store := List (Key × Res)

def Store.get (s : Store) (k : Key) : Option Res :=
  match s with
  | [] => none
  | (k', r) :: rest => if k' = k then some r else Store.get rest k

def Store.del (s : Store) (k : Key) : Store := s.filter (fun p => p.1 ≠ k)

def Store.put (s : Store) (k : Key) (r : Res) : Store := (k, r) :: s.del k

/-! ### errors -/

inductive ErrCtor where
  | notFound | alreadyExists | versionConflict | ownerConflict | phaseConflict
  | pendingFinalizers | ownerAlreadySet | backing
deriving DecidableEq, Repr, Inhabited

/-- an error value: constructor plus the (namespace,type) of the resource pointer the
    Go error carries (`none` = `GetResource()` returns nil) -/
structure Err where
  ctor : ErrCtor
  res : Option (String × String)
deriving DecidableEq, Repr, Inhabited

def ErrCtor.isNotFound : ErrCtor → Bool
  | .notFound => true | _ => false

/-- satisfies `state.ErrConflict` (embedding of eConflict) -/
def ErrCtor.isConflict : ErrCtor → Bool
  | .alreadyExists | .versionConflict | .ownerConflict | .phaseConflict | .pendingFinalizers => true
  | _ => false

def ErrCtor.isOwnerConflict : ErrCtor → Bool
  | .ownerConflict => true | _ => false

def ErrCtor.isPhaseConflict : ErrCtor → Bool
  | .phaseConflict => true | _ => false

/-- `state.IsConflictError(err, WithResourceNamespace(qns), WithResourceType(qtyp))`
    (errors.go:69). `none` = nil-pointer panic: a qualifier is present and the error
    carries no resource. Go's `&&` short-circuits, so the nil is only dereferenced
    when the qualifier is non-empty. -/
def Err.isConflictQ (e : Err) (qns qtyp : String) : Option Bool :=
  -- (`Gen.Store.conflictChecksBothQualifiers`: the body of `state.IsConflictError` is the one transcribed here;
  -- any other body is outside the model)
  if !Gen.Store.conflictChecksBothQualifiers then none else
  if !e.ctor.isConflict then some false else
  if qns ≠ "" then
    match e.res with
    | none => none
    | some (ns, typ) =>
      if ns ≠ qns then some false else
      if qtyp ≠ "" then (if typ ≠ qtyp then some false else some true) else some true
  else if qtyp ≠ "" then
    match e.res with
    | none => none
    | some (_, typ) => if typ ≠ qtyp then some false else some true
  else some true

/-- build an error the way inmem/errors.go does: the resource pointer is attached
    iff the constructor's struct literal sets `resource:` (regenerated fact) -/
def ErrCtor.goName : ErrCtor → String
  | .notFound => "ErrNotFound" | .alreadyExists => "ErrAlreadyExists"
  | .versionConflict => "ErrVersionConflict" | .ownerConflict => "ErrOwnerConflict"
  | .phaseConflict => "ErrPhaseConflict" | .pendingFinalizers => "ErrPendingFinalizers"
  | .ownerAlreadySet => "-" | .backing => "-"

def mkErr (c : ErrCtor) (ns typ : String) : Err :=
  { ctor := c, res := if Gen.Store.errHasResource c.goName then some (ns, typ) else none }

/-! ### operations -/

inductive Op where
  | create (r : Res) (owner : String)
  | update (r : Res) (owner : String) (expPhase : Option Phase)
  | destroy (ns typ id : String) (owner : String)
  | get (ns typ id : String)
  | list (ns typ : String) (sel : Res → Bool)

inductive Out where
  | ok                       -- destroy
  | wrote (r : Res)          -- create/update: the stored copy (= metadata written back)
  | res (r : Res)            -- get
  | items (l : List Res)     -- list, sorted by id
  | err (e : Err)
deriving Inhabited

def Out.isErr : Out → Bool
  | .err _ => true | _ => false

def Out.isOk (o : Out) : Bool := !o.isErr

/-- `Metadata.SetOwner` (metadata.go:182) -/
def setOwner (r : Res) (owner : String) : Option Res :=
  if r.owner = "" ∨ r.owner = owner then some { r with owner := owner } else none

/-- `Version.Next` (version.go:38): `SafeDeref + 1` -/
def nextVer (v : Option Nat) : Option Nat := some (v.getD 0 + 1)

/-- evaluate one regenerated precondition of `Update`; `none` = passes -/
def updateCheck (cur : Option Res) (new : Res) (owner : String) (exp : Option Phase)
    (c : Gen.Check) : Option ErrCtor :=
  match c, cur with
  | .present, none => some .notFound
  | .present, some _ => none
  | .ownerEq, some cur => if cur.owner ≠ owner then some .ownerConflict else none
  | .versionEq, some cur => if cur.ver ≠ new.ver then some .versionConflict else none
  | .phaseExpected, some cur =>
      match exp with
      | some p => if cur.phase ≠ p then some .phaseConflict else none
      | none => none
  | _, _ => none

def destroyCheck (cur : Option Res) (owner : String) (c : Gen.Check) : Option ErrCtor :=
  match c, cur with
  | .present, none => some .notFound
  | .present, some _ => none
  | .ownerEq, some cur => if cur.owner ≠ owner then some .ownerConflict else none
  | .finsEmpty, some cur => if cur.fins ≠ [] then some .pendingFinalizers else none
  | _, _ => none

def createCheck (cur : Option Res) (r : Res) (owner : String) (c : Gen.Check) : Option ErrCtor :=
  match c with
  | .setOwner => if (setOwner r owner).isNone then some .ownerAlreadySet else none
  | .absent => if cur.isSome then some .alreadyExists else none
  | _ => none

def firstErr (checks : List Gen.Check) (f : Gen.Check → Option ErrCtor) : Option ErrCtor :=
  match checks with
  | [] => none
  | c :: cs => match f c with
    | some e => some e
    | none => firstErr cs f

def sortById (l : List Res) : List Res := sortBy (fun a b => a.id < b.id) l

/-- One atomic store operation at virtual time `now`. -/
def step (cfg : Cfg) (s : Store) (now : Nat) : Op → Store × Out
  | .create r owner =>
    let k := r.key cfg
    match firstErr Gen.Store.createChecks (createCheck (s.get k) r owner) with
    | some e => (s, .err (mkErr e r.ns r.typ))
    | none =>
      let r' := { r with owner := owner, ver := some 1, created := now }
      (s.put k r', .wrote r')
  | .update r owner exp =>
    let k := r.key cfg
    let cur := s.get k
    match firstErr Gen.Store.updateChecks (updateCheck cur r owner exp) with
    | some e =>
      -- the error carries the *stored* metadata (collection.go:193/199/203), or the new one for not-found
      let m := cur.getD r
      (s, .err (mkErr e m.ns m.typ))
    | none =>
      match cur with
      | none => (s, .err (mkErr .notFound r.ns r.typ))   -- unreachable when `.exists` is checked
      | some c =>
        let r' := { r with ver := nextVer r.ver, updated := now, created := c.created }
        (s.put k r', .wrote r')
  | .destroy ns typ id owner =>
    let k := cfg.key ns typ id
    let cur := s.get k
    match firstErr Gen.Store.destroyChecks (destroyCheck cur owner) with
    | some e =>
      let (ens, etyp) := match e, cur with
        | .notFound, _ => (ns, typ)           -- ErrNotFound(ptr)
        | _, some c => (c.ns, c.typ)
        | _, none => (ns, typ)
      (s, .err (mkErr e ens etyp))
    | none =>
      match cur with
      | none => (s, .err (mkErr .notFound ns typ))
      | some _ => (s.del k, .ok)
  | .get ns typ id =>
    match s.get (cfg.key ns typ id) with
    | none => (s, .err (mkErr .notFound ns typ))
    | some r => (s, .res r)
  | .list ns typ sel =>
    let pre := (if cfg.nsAware then ns else "")
    (s, .items (sortById ((s.filter fun p => p.1.1 = pre ∧ p.1.2.1 = typ).map (·.2) |>.filter sel)))

/-- run a sequence; time advances by one tick per op, starting at `t0` -/
def run (cfg : Cfg) (s : Store) (t0 : Nat) : List Op → Store × List Out
  | [] => (s, [])
  | op :: ops =>
    let (s', o) := step cfg s t0 op
    let (s'', os) := run cfg s' (t0 + 1) ops
    (s'', o :: os)

/-! ### over a backing store (inmem.WithBackingStore) -/

def Op.isWrite : Op → Bool
  | .create .. => true | .update .. => true | .destroy .. => true | _ => false

/-- is this the outcome of a write that went through? -/
def Out.isWrite : Out → Bool
  | .wrote _ => true
  | .ok => true
  | _ => false

/-- a store operation over a backing store: the collection calls the backing store after its own
    checks and BEFORE it touches its memory (collection.go Create :161 / Update :214 / Destroy :255
    precede `collection.storage[...] =` / `delete`; regenerated as `Gen.Store.storeBeforeMemory`);
    when the backing store rejects the call the operation fails with that error and nothing else
    happens. `reject`: the backing store rejects the call this operation makes, if it makes one.
    Fail closed: with another order the memory write has already happened. -/
def stepBS (cfg : Cfg) (reject : Bool) (s : Store) (now : Nat) (op : Op) : Store × Out :=
  if reject && op.isWrite && (step cfg s now op).2.isWrite then
    ((if Gen.Store.storeBeforeMemory then s else (step cfg s now op).1), .err { ctor := .backing, res := none })
  else step cfg s now op

end Cosi
