/-
  Cosi.Model.Persist — the in-memory state with a persistent backing store (C10).

  One `PSys` is ONE `inmem.State` with its `inmem.BackingStore` (one bbolt namespace
  bucket). Written 1:1 after
    /repo/pkg/state/impl/inmem/inmem.go       loadStore :72 (lazy, under storeMu, `loaded` set only
                                               after a successful Load), every method :100-:206 calls
                                               loadStore first and returns its error
    /repo/pkg/state/impl/inmem/collection.go  Create :138 / Update :180 / Destroy :235 — preconditions on
                                               the in-memory map, then `store.Put/Destroy` (its error aborts
                                               the op), then the in-memory write, then publish; inject :130
    /repo/pkg/state/impl/inmem/backing_store.go  the BackingStore interface (Load/Put/Destroy)
    /repo/pkg/state/impl/store/bolt/namespaced.go Put :27 (bucket ns / bucket type / key id ↦ marshaled),
                                               Destroy :48 (delete key id), Load :67 (type buckets and ids in
                                               bbolt's byte order, unmarshal, handler; first error aborts)

  * `M` (volatile) is a whole `WSys` of Cosi.Model.Watch: the storage map, the per-kind event
    rings (their ghost `log` is the event log) and the watcher goroutines.
  * `D` (durable) is an association list key ↦ resource; the entry `(k, r)` stands for the bytes
    `codec.enc r` stored under `k`. Reading it back yields `codec.dec (codec.enc r)`; the
    marshaler stack (protobuf, compression, encryption — C18) is that parameter, and its
    round-trip law is a *hypothesis* of the C10 theorems, never assumed here.
  * the fault schedule says which Put / Destroy / Load calls the backing store rejects.
  * the order "backing store before memory" is NOT written here: `storeTrace` consumes the
    regenerated fact `Gen.Store.storeBeforeMemory`; when it is false the model performs the memory
    write and the publish first (and the C10 theorems no longer build). Likewise
    `Gen.Persist.loadedOnlyOnSuccess`, `loadInjects`, `loadGuardsEveryOp`, `boltSameKey`.
-/
import Cosi.Model.Watch
import Cosi.Gen.Persist

namespace Cosi

/-- a marshaler stack: `enc` = MarshalResource, `dec` = UnmarshalResource (`none` = error) -/
structure Codec (E : Type) where
  enc : Res → E
  dec : E → Option Res

/-- the fault schedule of the backing store. Each `Put` consumes the head of `put` (`true` =
    the call is rejected and nothing is written), each `Destroy` the head of `destroy`, each
    `Load` the head of `load`: `some k` = the Load fails after `k` resources went through the
    handler (or at its end if there are fewer). An exhausted list = no more faults. -/
structure Faults where
  put : List Bool := []
  destroy : List Bool := []
  load : List (Option Nat) := []
deriving Repr, Inhabited

structure PSys where
  mem : WSys := {}          -- M: storage map + rings (event log) + watchers; lost in a crash
  D : Store := []           -- the bbolt bucket of this state's namespace; survives
  loaded : Bool := false    -- inmem.go `State.loaded`
  faults : Faults := {}
deriving Inhabited

inductive POut where
  | loadErr                          -- loadStore's error (returned by every method while not loaded)
  | storeErr                         -- the backing store rejected the Put/Destroy
  | out (o : Out)                    -- the store operation's own result
  | started (e : Option StartErr)    -- Watch/WatchKind/WatchKindAggregated returned
  | delivery (d : Option Delivery)   -- a channel receive
  | done
deriving Inhabited

/-- the call was acknowledged to the caller as successful -/
def POut.acked : POut → Bool
  | .out o => o.isOk
  | _ => false

/-! ### Load -/

/-- bbolt iterates the type buckets, and the ids inside a bucket, in byte order (namespaced.go:73/82);
    on valid UTF-8 that is `String`'s order -/
def keyLt (a b : Key) : Bool := decide (a.2.1 < b.2.1) || (a.2.1 == b.2.1 && decide (a.2.2 < b.2.2))

def loadOrder (D : Store) : List (Key × Res) := sortBy (fun a b => keyLt a.1 b.1) D

/-- loadStore's handler (inmem.go:90): `getCollection(bucket type).inject(res)`; inject
    (collection.go:130) stores under the *resource's* id and publishes a Created event -/
def WSys.inject (m : WSys) (bucketTyp : String) (r : Res) : WSys :=
  let rk := m.rkey r.ns bucketTyp
  ({ m with store := m.store.put (m.cfg.key r.ns bucketTyp r.id) r }).setRing rk
    ((m.ring rk).publish { typ := .created, res := r })

/-- `NamespacedBackingStore.Load` driving the handler over the entries in order. `budget` is the
    fault (`some k`: fail after `k` handler calls, or at the end); an entry that does not
    unmarshal aborts the Load as well. Returns the (possibly partial) image and whether the Load
    returned nil. -/
def loadEntries {E} (c : Codec E) (m : WSys) : List (Key × Res) → Option Nat → WSys × Bool
  | [], budget => (m, budget.isNone)
  | e :: es, budget =>
    if budget = some 0 then (m, false) else
    match c.dec (c.enc e.2) with
    | none => (m, false)
    | some r => loadEntries c (if Gen.Persist.loadInjects then m.inject e.1.2.1 r else m) es (budget.map (· - 1))

def popLoad : List (Option Nat) → Option Nat × List (Option Nat)
  | [] => (none, [])
  | f :: fs => (f, fs)

/-- `State.loadStore` (inmem.go:72): nothing when already loaded; else one `Load`; `loaded`
    becomes true only when it returned nil (regenerated fact). Returns whether the caller may proceed. -/
def PSys.ensureLoaded {E} (c : Codec E) (s : PSys) : PSys × Bool :=
  if s.loaded then (s, true) else
  let (f, rest) := popLoad s.faults.load
  let (m', ok) := loadEntries c s.mem (loadOrder s.D) f
  ({ s with mem := m', loaded := ok || !Gen.Persist.loadedOnlyOnSuccess,
            faults := { s.faults with load := rest } },
   ok || !Gen.Persist.loadGuardsEveryOp)

/-! ### write operations -/

def isWrite : Op → Bool
  | .create .. | .update .. | .destroy .. => true
  | _ => false

def popFault : List Bool → Bool × List Bool
  | [] => (false, [])
  | f :: fs => (f, fs)

/-- the backing-store call of a write: (rejected?, remaining schedule) -/
def Faults.forWrite (f : Faults) : Op → Bool × Faults
  | .destroy .. => let (b, r) := popFault f.destroy; (b, { f with destroy := r })
  | _ => let (b, r) := popFault f.put; (b, { f with put := r })

/-- what a successful `Put` / `Destroy` does to the bucket (namespaced.go:27/:48): Put stores the
    *prepared copy* (version bumped, times set — `out`), Destroy deletes the pointer's id. If Put and
    Destroy do not address the same bucket path and key (regenerated fact) a Destroy removes nothing. -/
def dWrite (cfg : Cfg) (D : Store) : Op → Out → Store
  | .create r _, .wrote r' => D.put (r.key cfg) (if Gen.Store.preparedBeforeStore then r' else r)
  | .update r _ _, .wrote r' => D.put (r.key cfg) (if Gen.Store.preparedBeforeStore then r' else r)
  | .destroy ns typ id _, .ok => if Gen.Persist.boltSameKey then D.del (cfg.key ns typ id) else D
  | _, _ => D

/-- One store operation as the list of states at its step boundaries, in program order, plus its
    result. A crash can hit any of them. For a write that passed its preconditions:
    `[loaded, after the 1st write, after the 2nd write]` where the 1st write is the backing store
    iff `Gen.Store.storeBeforeMemory`. A rejected backing-store write aborts the op there. -/
def PSys.storeTrace {E} (c : Codec E) (s : PSys) (now : Nat) (op : Op) : List PSys × POut :=
  let (s1, ok) := s.ensureLoaded c
  if !ok then ([s1], .loadErr) else
  let out := (step s1.mem.cfg s1.mem.store now op).2
  if !isWrite op || out.isErr then ([s1], .out out) else
  let (rej, f') := s1.faults.forWrite op
  let sF : PSys := { s1 with faults := f' }
  let withD (x : PSys) : PSys := { x with D := dWrite x.mem.cfg x.D op out }
  let withM (x : PSys) : PSys := { x with mem := (x.mem.storeOp now op).1 }
  if Gen.Store.storeBeforeMemory then
    if rej then ([s1, sF], .storeErr) else ([s1, withD sF, withM (withD sF)], .out out)
  else
    if rej then ([s1, withM sF], .storeErr) else ([s1, withM sF, withD (withM sF)], .out out)

def PSys.storeOp {E} (c : Codec E) (s : PSys) (now : Nat) (op : Op) : PSys × POut :=
  let (tr, o) := s.storeTrace c now op
  (tr.getLast?.getD s, o)

/-! ### crash, watchers, histories -/

/-- the volatile part of a new process: same options, nothing else -/
def WSys.fresh (m : WSys) : WSys := { m with store := [], rings := [], watchers := [] }

/-- the process dies (M, rings, watchers are gone) and a new state object is built on the same
    bbolt file; it loads lazily -/
def PSys.crash (s : PSys) : PSys := { s with mem := s.mem.fresh, loaded := false }

inductive POp where
  | store (now : Nat) (op : Op)
  | wstart (wid : Nat) (ns typ : String) (wk : WKind) (sel : Option (String × String)) (chanCap : Nat)
      (o : StartOpts)
  | recv (wid : Nat)
  | wstop (wid : Nat)
  | crash
  | arm (f : Faults → Faults)     -- the environment changes the fault schedule

def PSys.exec {E} (c : Codec E) (s : PSys) : POp → PSys × POut
  | .store now op => s.storeOp c now op
  | .wstart wid ns typ wk sel cap o =>
    let (s1, ok) := s.ensureLoaded c
    if !ok then (s1, .loadErr) else
    let (m', e) := s1.mem.startWatch wid ns typ wk sel cap o
    ({ s1 with mem := m' }, .started e)
  | .recv wid =>
    let (m', d) := s.mem.recv wid
    ({ s with mem := m' }, .delivery d)
  | .wstop wid => ({ s with mem := s.mem.stopWatch wid }, .done)
  | .crash => (s.crash, .done)
  | .arm f => ({ s with faults := f s.faults }, .done)

def PSys.run {E} (c : Codec E) (s : PSys) : List POp → PSys × List POut
  | [] => (s, [])
  | op :: ops =>
    let (s', o) := s.exec c op
    let (s'', os) := PSys.run c s' ops
    (s'', o :: os)

/-- the states a crash can hit while `pop` is in flight: before it starts and at every step
    boundary of it (for a write: before the backing-store call, between the backing-store
    write and the memory write, after both) -/
def PSys.boundaries {E} (c : Codec E) (s : PSys) : POp → List PSys
  | .store now op => s :: (s.storeTrace c now op).1
  | pop => [s, (s.exec c pop).1]

/-- `k` Load attempts: what `k` operations do first while the state is not loaded (each one is
    a no-op once it is) -/
def PSys.loadAttempts {E} (c : Codec E) : Nat → PSys → PSys
  | 0, s => s
  | k + 1, s => PSys.loadAttempts c k (s.ensureLoaded c).1

/-- the store operations of a history that were acknowledged as successful, in order -/
def ackedOps : List POp → List POut → List (Nat × Op)
  | .store now op :: ops, o :: os => if o.acked then (now, op) :: ackedOps ops os else ackedOps ops os
  | _ :: ops, _ :: os => ackedOps ops os
  | _, _ => []

/-- the fault-free, restart-free reference: the sequential store of C01 -/
def refRun (cfg : Cfg) (l : List (Nat × Op)) : Store :=
  l.foldl (fun st p => (step cfg st p.1 p.2).1) []

end Cosi
