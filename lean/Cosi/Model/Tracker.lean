/-
  Cosi.Model.Tracker — the output tracker of a `controller.Controller` across restarts (C16).

  Written after
    /repo/pkg/controller/runtime/internal/rruntime/output_tracker.go
        (StartTrackingOutputs :23 — panics "output tracking already enabled" when `adapter.outputTracker != nil`,
         else takes a map from the pool; CleanupOutputs :32 — destroys the untouched outputs, clears the tracker,
         calls ResetRestartBackoff)
    /repo/pkg/controller/runtime/internal/rruntime/run.go
        (runOnce :48 — `adapter.outputTracker = nil` "on any exit from Run method")
    /repo/pkg/controller/runtime/internal/rruntime/state.go (Create/Update/Modify/Teardown record into the tracker)

  `adapter.outputTracker` outlives one execution of `ctrl.Run`: it is a field of the adapter, and
  the restart loop (`Cosi.Model.Restart.RLoop`) calls `ctrl.Run` again on the same adapter. A
  controller that tracks its outputs calls StartTrackingOutputs at the beginning of every reconcile
  and CleanupOutputs at its end; when it fails or panics in between, whoever restarts it has to have
  cleared the tracker — otherwise the first StartTrackingOutputs of the new run panics, and so does
  every later one: the controller never reconciles again.

  WHEN runOnce clears the tracker (on which ways of `ctrl.Run` ending), and what CleanupOutputs does
  on its way out, are PARAMETERS (`Rules`) of the step function; `genRules` instantiates them from the
  regenerated facts (`Cosi.Gen.Restart.trackerReset`, `trackerPrivate`, `cleanupClearsTracker`,
  `cleanupResetsBackoff`), fail closed. That StartTrackingOutputs panics on a set tracker is not a
  parameter: it is the pessimistic reading.
-/
import Cosi.Model.Restart

namespace Cosi.Tracker

open Cosi Cosi.Restart

structure Rules where
  /-- runOnce clears `adapter.outputTracker` when `ctrl.Run` ended this way -/
  clearsOn : RunEnd → Bool
  /-- CleanupOutputs clears the tracker before it returns nil -/
  cleanupClears : Bool
  /-- CleanupOutputs calls ResetRestartBackoff before it returns nil -/
  cleanupResets : Bool

/-- the rules the code is meant to implement (run.go:61 "on any exit", output_tracker.go:63, :65) -/
def goodRules : Rules := { clearsOn := fun _ => true, cleanupClears := true, cleanupResets := true }

/-- the rules of the CURRENT source text. Unrecognised shape ⇒ the worst rule: runOnce never clears
    the tracker, CleanupOutputs leaves it set. -/
def genRules : Rules :=
  { clearsOn := fun e =>
      match Gen.Restart.trackerPrivate, Gen.Restart.trackerReset with
      | true, .deferred => true                  -- a deferred function runs however ctrl.Run ended
      | true, .afterRun => e != .panicked        -- a statement after the call is skipped by a panic
      | _, _ => false,
    cleanupClears := Gen.Restart.cleanupClearsTracker,
    cleanupResets := Gen.Restart.cleanupResetsBackoff }

/-- the restart loop of the adapter plus its tracker field -/
structure TLoop where
  loop : RLoop := {}
  tracker : Bool := false     -- `adapter.outputTracker != nil`
  /-- ghost: the CURRENT execution of `ctrl.Run` has called StartTrackingOutputs and not yet CleanupOutputs -/
  mine : Bool := false
  /-- ghost: how often a controller that was NOT tracking was told "output tracking already enabled"
      (or one that was tracking "output tracking not enabled") -/
  spurious : Nat := 0
deriving DecidableEq, Repr, Inhabited

inductive TEv where
  | take                      -- the controller takes a reconcile event from EventCh
  | start                     -- … calls StartTrackingOutputs
  | cleanup                   -- … calls CleanupOutputs, which succeeds
  | ends (e : RunEnd)         -- `ctrl.Run` returns nil / an error, or panics
  | timer                     -- `<-time.After(interval)` of the restart loop
  | ctxDone                   -- `<-ctx.Done()` in the same select
  | trigger                   -- WatchTrigger / QueueReconcile
deriving DecidableEq, Repr, Inhabited

/-- a well-behaved tracking controller: StartTrackingOutputs only when it is not tracking,
    CleanupOutputs only when it is (per execution of `ctrl.Run`: a new execution starts afresh) -/
def TEv.enabled (s : TLoop) : TEv → Bool
  | .take => REv.takeEvent.enabled s.loop
  | .start => s.loop.phase == .running && !s.mine
  | .cleanup => s.loop.phase == .running && s.mine
  | .ends _ => s.loop.phase == .running
  | .timer => REv.timerFires.enabled s.loop
  | .ctxDone => REv.ctxDone.enabled s.loop
  | .trigger => true

/-- `ctrl.Run` is over: the loop backs off / stops, runOnce clears the tracker (or not), the
    controller's own bookkeeping is gone with its stack frame -/
def endRun (r : Rules) (s : TLoop) (e : RunEnd) : TLoop :=
  { s with loop := rstep s.loop (.runEnds e), tracker := if r.clearsOn e then false else s.tracker, mine := false }

def stepOn (r : Rules) (s : TLoop) : TEv → TLoop
  | .take => { s with loop := rstep s.loop .takeEvent }
  | .start =>
    if s.tracker then endRun r { s with spurious := s.spurious + 1 } .panicked    -- output_tracker.go:24
    else { s with tracker := true, mine := true }                                  -- :28
  | .cleanup =>
    if !s.tracker then endRun r { s with spurious := s.spurious + 1 } .panicked   -- :33
    else { s with tracker := if r.cleanupClears then false else s.tracker, mine := false,
                  loop := if r.cleanupResets then rstep s.loop .reset else s.loop }
  | .ends e => endRun r s e
  | .timer => { s with loop := rstep s.loop .timerFires }
  | .ctxDone => { s with loop := rstep s.loop .ctxDone }
  | .trigger => { s with loop := rstep s.loop .trigger }

/-- one step; an event that is not enabled changes nothing -/
def stepWith (r : Rules) (s : TLoop) (e : TEv) : TLoop := if e.enabled s then stepOn r s e else s

def runWith (r : Rules) (s : TLoop) : List TEv → TLoop
  | [] => s
  | e :: rest => runWith r (stepWith r s e) rest

/-- the model of the current source text -/
def step (s : TLoop) (e : TEv) : TLoop := stepWith genRules s e

def run (s : TLoop) (evs : List TEv) : TLoop := runWith genRules s evs

/-- the tracker after an execution of `ctrl.Run` that ended as `e` while the tracker was `t` (driver) -/
def afterEnd (r : Rules) (t : Bool) (e : RunEnd) : Bool := if r.clearsOn e then false else t

/-- one restart of a controller that starts every reconcile with StartTrackingOutputs -/
def round : List TEv := [.timer, .take, .start]

def rounds : Nat → List TEv
  | 0 => []
  | n + 1 => round ++ rounds n

end Cosi.Tracker
