/-
  Cosi.Model.WrapGen — the rules of the helper machines (Cosi.Model.WrapRules) REGENERATED from the current source
  text: `genRules` (wrap.go, condition.go) and `Owned.genORules` (owned/state.go, owned/owned.go) are built from the
  facts of Cosi.Gen.Wrap, fail closed; `RLocal.resume`, `RHSys.stepActor` are the model of the current source (what
  `driver helpers` runs in model mode).
-/
import Cosi.Model.WrapRules
import Cosi.Gen.Wrap

namespace Cosi.WR
open Cosi

/-! ### the rules of the CURRENT source text (fail closed) -/

/-- the one pass of UpdateWithConflicts the machine transcribes: Get · phase test · copy · mutate · no-op return · Update -/
def uwcPass : List Gen.UwcStmt := [.get, .phaseCheck, .copy, .mutate, .noopReturn, .update]

/-- the same pass without the phase test -/
def uwcPassNoPhase : List Gen.UwcStmt := [.get, .copy, .mutate, .noopReturn, .update]

/-- the guards that read `event.Resource` come after the nil test (an `Errored` event has no resource) -/
def guardsOrdered : List (Gen.MatchGuard × Gen.GuardExit) → Bool
  | [] => true
  | (.eventTypes, _) :: gs => guardsOrdered gs
  | (.resourceNil, .denyOnly) :: _ => true
  | _ => false

/-- the rules regenerated from the source. A shape the extractor does not recognise gives the worst rule of its
    decision point: the readiness / retry / create-error rule `.unknown`, no phase test on retry, every event ignored
    (`.unknown`), a guard list starting with `.unknown` (which matches nothing). -/
def genRules : Rules :=
  { rmw :=
      { readyFrom := if Gen.Wrap.teardownFrame then Gen.Wrap.teardownReadyFrom else .unknown,
        phaseCheckOnRetry :=
          Gen.Wrap.uwcFirstPass == uwcPass && Gen.Wrap.uwcRetryPass == uwcPass,
        retryOn :=
          if Gen.Wrap.uwcFirstPass == uwcPass && (Gen.Wrap.uwcRetryPass == uwcPass || Gen.Wrap.uwcRetryPass == uwcPassNoPhase)
          then Gen.Wrap.uwcRetryOn else .unknown,
        onCreateError :=
          if Gen.Wrap.modifyFrame && Gen.Wrap.modifyDefaultsRunning then Gen.Wrap.modifyOnCreateError else .unknown,
        finalizers := Gen.Wrap.addFinalizerFrame && Gen.Wrap.removeFinalizerFrame },
    wait := if Gen.Wrap.waitFrame && Gen.Wrap.tadFrame then EvActs.ofFn Gen.Wrap.waitAct else EvActs.const .unknown,
    ctx := if Gen.Wrap.ctxFrame then EvActs.ofFn Gen.Wrap.ctxAct else EvActs.const .unknown,
    guards :=
      if Gen.Wrap.watchForFrame && Gen.Wrap.matchFallthrough && guardsOrdered Gen.Wrap.matchGuards
      then Gen.Wrap.matchGuards else [(.unknown, .unknown)] }

/-- the model of the current source text -/
def RLocal.resume (x : RLocal) (resp : Resp) : RLocal := x.resumeWith genRules resp

/-- the model of the current source text -/
def RHSys.stepActor (s : RHSys) (a : Nat) (now : Nat) : RHSys × StepOut := s.stepActorWith genRules a now

end Cosi.WR

namespace Cosi.Owned
open Cosi

/-- the forwarding rules regenerated from owned/state.go, owned/owned.go (and the default of the wrapped ModifyWithResult) -/
def genORules : ORules :=
  { modifyOwner := Gen.Wrap.ownedOwner .modifyWithResult,
    modifyPhase := if Gen.Wrap.ownedOwner .modify = Gen.Wrap.ownedOwner .modifyWithResult then Gen.Wrap.ownedModifyPhase else .unknown,
    teardownOwner := Gen.Wrap.ownedOwner .teardown,
    destroyOwner := Gen.Wrap.ownedOwner .destroy,
    addFinOwner := Gen.Wrap.ownedOwner .addFinalizer,
    removeFinOwner := Gen.Wrap.ownedOwner .removeFinalizer,
    optionsFrame := Gen.Wrap.ownedOptionsFrame,
    wrappedDefaultRunning := Gen.Wrap.modifyFrame && Gen.Wrap.modifyDefaultsRunning }

end Cosi.Owned
