/-
  Cosi.Model.Wire — M8: every codec of a resource, over `List UInt8`.

  Written 1:1 after (file:line of the unchanged tree)
    /repo/api/v1alpha1/resource_vtproto.pb.go   Metadata.MarshalToSizedBufferVT :393, Spec :535, Resource :582,
                                                Metadata.UnmarshalVT :922, Spec :1523, Resource :1640
    vtprotobuf protohelpers/protohelpers.go     EncodeVarint :23, Skip :47
    vtprotobuf types/known/timestamppb          Timestamp.MarshalToSizedBufferVT :67, UnmarshalVT :142
    /repo/pkg/resource/protobuf/resource.go     Marshal :85, Unmarshal :211
    /repo/pkg/resource/metadata.go              MarshalYAML :207, UnmarshalYAML :311, NewMetadataFromProto :456
    /repo/pkg/resource/version.go               String :42, ParseVersion :60
    /repo/pkg/resource/phase.go                 String :25, ParsePhase :30
    /repo/pkg/resource/finalizer.go             Add :20          /repo/pkg/resource/internal/kv/kv.go Set :52, ToYAML :113
    /repo/pkg/state/impl/store/compression/compression.go  MarshalResource :41, UnmarshalResource :61
    /repo/pkg/state/impl/store/encryption/marshaler.go     Encrypt :93, Decrypt :114
    Go time: time.Unix (normalisation), Time.Format/Parse with layout RFC3339 (UTC, second precision)

  Strings are byte strings: vtproto does not validate UTF-8, so the decoders see
  arbitrary bytes. External primitives (zstd, AES-GCM) are function parameters.
  The regenerated facts `Cosi.Gen.Codec.*` (field numbers, version parser, phase
  strings, marker / version bytes, sizes, presence of the checks) are consumed here.
  Core Lean only.
-/
import Cosi.Base
import Cosi.Gen.Codec

namespace Cosi.Wire
open Cosi.Gen

abbrev Bytes := List UInt8

def asc (s : String) : Bytes := s.toList.map (fun c => UInt8.ofNat c.toNat)

/-! ### integers -/

def toInt64 (n : Nat) : Int := if n % 2 ^ 64 < 2 ^ 63 then (n % 2 ^ 64 : Nat) else ((n % 2 ^ 64 : Nat) : Int) - 2 ^ 64
def toInt32 (n : Nat) : Int := if n % 2 ^ 32 < 2 ^ 31 then (n % 2 ^ 32 : Nat) else ((n % 2 ^ 32 : Nat) : Int) - 2 ^ 32
/-- Go `uint64(x)` of a signed value (sign extension = reduction mod 2^64) -/
def ofInt64 (i : Int) : Nat := (i % 2 ^ 64).toNat

/-! ### base-128 varints -/

/-- protohelpers.EncodeVarint (protohelpers.go:23); the argument is a `uint64`, so at
    most 10 groups are ever written (fuel 9 + the final byte) -/
def encVarintF : Nat → Nat → Bytes
  | 0, n => [UInt8.ofNat n]
  | f + 1, n => if n < 128 then [UInt8.ofNat n] else UInt8.ofNat (n % 128 + 128) :: encVarintF f (n / 128)

def encVarint (n : Nat) : Bytes := encVarintF 9 n

/-- the inlined vtproto varint loop (`for shift := uint(0); ; shift += 7`): `none` on
    `shift >= 64` (ErrIntOverflow, i.e. an 11th byte) and on end of input. The value is
    written as low group + 128 * (value of the remaining groups), which is what
    `wire |= uint64(b&0x7F) << shift` accumulates; it is not yet truncated here. -/
def decVarintAux : Nat → Bytes → Option (Nat × Bytes)
  | 0, _ => none
  | _ + 1, [] => none
  | f + 1, b :: rest =>
    if b.toNat < 128 then some (b.toNat, rest)
    else match decVarintAux f rest with
      | none => none
      | some (w, r) => some (b.toNat % 128 + 128 * w, r)

/-- value as the `uint64` accumulator holds it: bits above 2^64 of the 10th byte are
    silently dropped by `uint64(b&0x7F) << 63` (no overflow check in vtproto) -/
def decVarint (bs : Bytes) : Option (Nat × Bytes) :=
  match decVarintAux 10 bs with
  | none => none
  | some (v, r) => some (v % 2 ^ 64, r)

/-! ### tags, length-delimited fields, skipping -/

def encTag (fn wt : Nat) : Bytes := encVarint (fn * 8 + wt)

/-- a length-delimited field: tag, length, payload -/
def encLen (fn : Nat) (p : Bytes) : Bytes := encTag fn 2 ++ encVarint p.length ++ p

/-- proto3 scalar string/bytes: omitted when empty (`if len(m.X) > 0`) -/
def encStr (fn : Nat) (s : Bytes) : Bytes := if s = [] then [] else encLen fn s

/-- field header of every vtproto message loop: `fieldNum := int32(wire >> 3)` (truncated!),
    `wireType := int(wire & 0x7)`; rejects wire type 4 and `fieldNum <= 0` -/
def decTag (buf : Bytes) : Option (Nat × Nat × Bytes) :=
  match decVarint buf with
  | none => none
  | some (wire, r) =>
    let wt := wire % 8
    let fn := (wire / 8) % 2 ^ 32
    if wt = 4 then none else if fn = 0 ∨ 2 ^ 31 ≤ fn then none else some (fn, wt, r)

/-- read a length varint and that many bytes (`intStringLen < 0`, `postIndex > l` are errors) -/
def takeLen (bs : Bytes) : Option (Bytes × Bytes) :=
  match decVarint bs with
  | none => none
  | some (n, r) => if 2 ^ 63 ≤ n then none else if r.length < n then none else some (r.take n, r.drop n)

def skipVarintBytes : Nat → Bytes → Option Bytes
  | 0, _ => none
  | _ + 1, [] => none
  | f + 1, b :: r => if b.toNat < 128 then some r else skipVarintBytes f r

/-- protohelpers.Skip (protohelpers.go:47) on `buf`: the rest after the first record,
    groups included (depth counter). Over-running the buffer is an error: Skip itself
    returns a too large offset there and every caller rejects it. -/
def skipLoop : Nat → Nat → Bytes → Option Bytes
  | 0, _, _ => none
  | _ + 1, _, [] => none
  | f + 1, depth, buf@(_ :: _) =>
    match decVarint buf with
    | none => none
    | some (wire, r) =>
      match wire % 8 with
      | 0 => match skipVarintBytes 10 r with
        | none => none
        | some r2 => if depth = 0 then some r2 else skipLoop f depth r2
      | 1 => if r.length < 8 then none else if depth = 0 then some (r.drop 8) else skipLoop f depth (r.drop 8)
      | 2 => match decVarint r with
        | none => none
        | some (n, r2) =>
          if 2 ^ 63 ≤ n then none else if r2.length < n then none
          else if depth = 0 then some (r2.drop n) else skipLoop f depth (r2.drop n)
      | 3 => skipLoop f (depth + 1) r
      | 4 => if depth = 0 then none else if depth = 1 then some r else skipLoop f (depth - 1) r
      | 5 => if r.length < 4 then none else if depth = 0 then some (r.drop 4) else skipLoop f depth (r.drop 4)
      | _ => none

def skipRecord (buf : Bytes) : Option Bytes := skipLoop buf.length 0 buf

/-- the `for iNdEx < l` loop of every UnmarshalVT. `step` parses one field and returns the
    rest. The progress test is a model artefact that is never false (every step consumes
    at least the tag byte); it makes the fuel irrelevant for any `step`. -/
def loop {σ : Type} (step : σ → Bytes → Option (σ × Bytes)) : Nat → σ → Bytes → Option σ
  | _, acc, [] => some acc
  | 0, _, _ :: _ => none
  | f + 1, acc, b :: bs =>
    match step acc (b :: bs) with
    | none => none
    | some (acc', rest) => if rest.length < (b :: bs).length then loop step f acc' rest else none

def run {σ : Type} (step : σ → Bytes → Option (σ × Bytes)) (acc : σ) (buf : Bytes) : Option σ :=
  loop step buf.length acc buf

/-! ### google.protobuf.Timestamp -/

/-- the proto message: `Seconds int64`, `Nanos int32` -/
structure Ts where
  secs : Int := 0
  nanos : Int := 0
deriving DecidableEq, Repr, Inhabited

/-- Timestamp.MarshalToSizedBufferVT (timestamp_vtproto.pb.go:67) -/
def encTs (t : Ts) : Bytes :=
  (if t.secs = 0 then [] else encTag 1 0 ++ encVarint (ofInt64 t.secs)) ++
  (if t.nanos = 0 then [] else encTag 2 0 ++ encVarint (ofInt64 t.nanos))

/-- one iteration of Timestamp.UnmarshalVT (:142) -/
def tsStep (acc : Ts) (buf : Bytes) : Option (Ts × Bytes) :=
  match decTag buf with
  | none => none
  | some (fn, wt, r) =>
    if fn = 1 then
      if wt ≠ 0 then none else
      match decVarint r with
      | none => none
      | some (v, r2) => some ({ acc with secs := toInt64 v }, r2)
    else if fn = 2 then
      if wt ≠ 0 then none else
      match decVarint r with
      | none => none
      | some (v, r2) => some ({ acc with nanos := toInt32 v }, r2)
    else match skipRecord buf with
      | none => none
      | some r2 => some (acc, r2)

def decTsInto (acc : Ts) (buf : Bytes) : Option Ts := run tsStep acc buf

/-! ### v1alpha1.Metadata / Spec / Resource (the protobuf messages) -/

abbrev KV := List (Bytes × Bytes)

/-- Go `m[k] = v` on an association list: replace in place, else append -/
def kvSet : KV → Bytes → Bytes → KV
  | [], k, v => [(k, v)]
  | (k', v') :: rest, k, v => if k' = k then (k', v) :: rest else (k', v') :: kvSet rest k v

def kvGet : KV → Bytes → Option Bytes
  | [], _ => none
  | (k', v') :: rest, k => if k' = k then some v' else kvGet rest k

structure PMeta where
  ns : Bytes := []
  typ : Bytes := []
  id : Bytes := []
  ver : Bytes := []
  owner : Bytes := []
  phase : Bytes := []
  created : Option Ts := none
  updated : Option Ts := none
  fins : List Bytes := []
  labels : KV := []
  annotations : KV := []
deriving DecidableEq, Repr, Inhabited

structure PSpec where
  proto : Bytes := []
  yaml : Bytes := []
deriving DecidableEq, Repr, Inhabited

structure PRes where
  md : Option PMeta := none
  spec : Option PSpec := none
deriving DecidableEq, Repr, Inhabited

/-- one map entry: both key and value are always written (resource_vtproto.pb.go:405-441) -/
def encEntry (fn : Nat) (kv : Bytes × Bytes) : Bytes := encLen fn (encLen 1 kv.1 ++ encLen 2 kv.2)

def encOptTs (fn : Nat) : Option Ts → Bytes
  | none => []
  | some t => encLen fn (encTs t)

/-- Metadata.MarshalToSizedBufferVT (:393; written back to front, so the result is in
    field order 1..9, labels (10), annotations (11)). Map entries appear in Go's map
    iteration order, here: the order of the association list. -/
def encPMeta (m : PMeta) : Bytes :=
  encStr Codec.fNamespace m.ns ++ (encStr Codec.fType m.typ ++ (encStr Codec.fId m.id ++
  (encStr Codec.fVersion m.ver ++ (encStr Codec.fOwner m.owner ++ (encStr Codec.fPhase m.phase ++
  (encOptTs Codec.fCreated m.created ++ (encOptTs Codec.fUpdated m.updated ++
  (m.fins.flatMap (encLen Codec.fFinalizers) ++ (m.labels.flatMap (encEntry Codec.fLabels) ++
  m.annotations.flatMap (encEntry Codec.fAnnotations))))))))))

/-- Spec.MarshalToSizedBufferVT (:535) -/
def encPSpec (s : PSpec) : Bytes := encStr Codec.fProtoSpec s.proto ++ encStr Codec.fYamlSpec s.yaml

/-- Resource.MarshalToSizedBufferVT (:582): a non-nil sub-message is written even when empty -/
def encPRes (r : PRes) : Bytes :=
  (match r.md with | none => [] | some m => encLen Codec.fMetadata (encPMeta m)) ++
  (match r.spec with | none => [] | some s => encLen Codec.fSpec (encPSpec s))

/-- the loop over one map entry (resource_vtproto.pb.go:1281-1371). `buf` reaches to the
    end of the enclosing Metadata buffer (`l`), `remaining` to the end of the entry
    (`postIndex`): the generated code tests key/value bounds against `l`, not against
    `postIndex`, and does not look at the wire type of fields 1 and 2. -/
def entryLoop : Nat → Bytes → Nat → Bytes → Bytes → Option (Bytes × Bytes)
  | 0, _, _, _, _ => none
  | f + 1, buf, remaining, k, v =>
    if remaining = 0 then some (k, v) else
    match decVarint buf with
    | none => none
    | some (wire, r) =>
      let fn := (wire / 8) % 2 ^ 32
      if fn = 1 ∨ fn = 2 then
        match takeLen r with
        | none => none
        | some (s, r2) =>
          let used := buf.length - r2.length
          if fn = 1 then entryLoop f r2 (remaining - used) s v else entryLoop f r2 (remaining - used) k s
      else
        match skipRecord buf with
        | none => none
        | some r2 =>
          let used := buf.length - r2.length
          if remaining < used then none else entryLoop f r2 (remaining - used) k v

/-- a map field: length, entry loop, `m[mapkey] = mapvalue`, `iNdEx = postIndex` -/
def decEntry (r : Bytes) : Option ((Bytes × Bytes) × Bytes) :=
  match decVarint r with
  | none => none
  | some (n, r2) =>
    if 2 ^ 63 ≤ n then none else if r2.length < n then none else
    match entryLoop (n + 1) r2 n [] [] with
    | none => none
    | some kv => some (kv, r2.drop n)

/-- one iteration of Metadata.UnmarshalVT (:925) -/
def metaStep (acc : PMeta) (buf : Bytes) : Option (PMeta × Bytes) :=
  match decTag buf with
  | none => none
  | some (fn, wt, r) =>
    let str (set : Bytes → PMeta) : Option (PMeta × Bytes) :=
      if wt ≠ 2 then none else
      match takeLen r with
      | none => none
      | some (s, r2) => some (set s, r2)
    if fn = Codec.fNamespace then str (fun s => { acc with ns := s })
    else if fn = Codec.fType then str (fun s => { acc with typ := s })
    else if fn = Codec.fId then str (fun s => { acc with id := s })
    else if fn = Codec.fVersion then str (fun s => { acc with ver := s })
    else if fn = Codec.fOwner then str (fun s => { acc with owner := s })
    else if fn = Codec.fPhase then str (fun s => { acc with phase := s })
    else if fn = Codec.fCreated then
      if wt ≠ 2 then none else
      match takeLen r with
      | none => none
      | some (s, r2) =>
        match decTsInto (acc.created.getD {}) s with
        | none => none
        | some t => some ({ acc with created := some t }, r2)
    else if fn = Codec.fUpdated then
      if wt ≠ 2 then none else
      match takeLen r with
      | none => none
      | some (s, r2) =>
        match decTsInto (acc.updated.getD {}) s with
        | none => none
        | some t => some ({ acc with updated := some t }, r2)
    else if fn = Codec.fFinalizers then str (fun s => { acc with fins := acc.fins ++ [s] })
    else if fn = Codec.fLabels then
      if wt ≠ 2 then none else
      match decEntry r with
      | none => none
      | some (kv, r2) => some ({ acc with labels := kvSet acc.labels kv.1 kv.2 }, r2)
    else if fn = Codec.fAnnotations then
      if wt ≠ 2 then none else
      match decEntry r with
      | none => none
      | some (kv, r2) => some ({ acc with annotations := kvSet acc.annotations kv.1 kv.2 }, r2)
    else match skipRecord buf with
      | none => none
      | some r2 => some (acc, r2)

def decPMetaInto (acc : PMeta) (buf : Bytes) : Option PMeta := run metaStep acc buf

/-- one iteration of Spec.UnmarshalVT (:1526) -/
def specStep (acc : PSpec) (buf : Bytes) : Option (PSpec × Bytes) :=
  match decTag buf with
  | none => none
  | some (fn, wt, r) =>
    if fn = Codec.fProtoSpec then
      if wt ≠ 2 then none else
      match takeLen r with
      | none => none
      | some (s, r2) => some ({ acc with proto := s }, r2)
    else if fn = Codec.fYamlSpec then
      if wt ≠ 2 then none else
      match takeLen r with
      | none => none
      | some (s, r2) => some ({ acc with yaml := s }, r2)
    else match skipRecord buf with
      | none => none
      | some r2 => some (acc, r2)

def decPSpecInto (acc : PSpec) (buf : Bytes) : Option PSpec := run specStep acc buf

/-- one iteration of Resource.UnmarshalVT (:1643): a repeated sub-message is merged into
    the one already present -/
def resStep (acc : PRes) (buf : Bytes) : Option (PRes × Bytes) :=
  match decTag buf with
  | none => none
  | some (fn, wt, r) =>
    if fn = Codec.fMetadata then
      if wt ≠ 2 then none else
      match takeLen r with
      | none => none
      | some (s, r2) =>
        match decPMetaInto (acc.md.getD {}) s with
        | none => none
        | some m => some ({ acc with md := some m }, r2)
    else if fn = Codec.fSpec then
      if wt ≠ 2 then none else
      match takeLen r with
      | none => none
      | some (s, r2) =>
        match decPSpecInto (acc.spec.getD {}) s with
        | none => none
        | some m => some ({ acc with spec := some m }, r2)
    else match skipRecord buf with
      | none => none
      | some r2 => some (acc, r2)

def decPRes (buf : Bytes) : Option PRes := run resStep {} buf

/-! ### text forms: version, phase -/

/-- strconv.FormatUint(v, 10) for a uint64 (at most 20 digits) -/
def fmtDigits : Nat → Nat → Bytes → Bytes
  | 0, _, acc => acc
  | f + 1, n, acc =>
    let acc' := UInt8.ofNat (48 + n % 10) :: acc
    if n < 10 then acc' else fmtDigits f (n / 10) acc'

def formatUint (n : Nat) : Bytes := fmtDigits 20 n []

def parseDigits : Bytes → Nat → Option Nat
  | [], acc => some acc
  | c :: rest, acc => if 48 ≤ c.toNat ∧ c.toNat ≤ 57 then parseDigits rest (acc * 10 + (c.toNat - 48)) else none

/-- strconv.ParseUint(s, 10, 64): empty, a non-digit (signs and `_` included) or a value
    above 2^64-1 are errors -/
def parseUint (s : Bytes) : Option Nat :=
  if s = [] then none else
  match parseDigits s 0 with
  | none => none
  | some n => if n < 2 ^ 64 then some n else none

/-- strconv.ParseInt(s, 10, 64): optional sign, then ParseUint; range [-2^63, 2^63-1] -/
def parseInt (s : Bytes) : Option Int :=
  match s with
  | [] => none
  | c :: rest =>
    let neg := c = 45
    let body := if c = 43 ∨ c = 45 then rest else s
    match parseUint body with
    | none => none
    | some un =>
      if !neg ∧ 2 ^ 63 ≤ un then none
      else if neg ∧ 2 ^ 63 < un then none
      else some (if neg then -(un : Int) else (un : Int))

/-- `Version.String()` (version.go:42); `none` = VersionUndefined -/
def formatVersion : Option Nat → Bytes
  | none => Codec.undefinedVersion
  | some v => if Codec.formatUnsigned then formatUint v else []

/-- `ParseVersion` (version.go:60): the parser is the regenerated fact `Codec.versionParser`;
    with ParseInt the result is `uint64(int64)`, so "-1" is accepted as 2^64-1 -/
def parseVersion (s : Bytes) : Option (Option Nat) :=
  if s = Codec.undefinedVersion then some none else
  match Codec.versionParser with
  | .parseInt => (parseInt s).map (fun i => some (ofInt64 i))
  | .parseUint => (parseUint s).map some
  | .unknown => none

inductive Phase where
  | running | tearingDown
deriving DecidableEq, Repr, Inhabited

def Phase.text : Phase → Bytes
  | .running => Codec.phaseRunning
  | .tearingDown => Codec.phaseTearingDown

/-- ParsePhase (phase.go:30) -/
def parsePhase (s : Bytes) : Option Phase :=
  if s = Codec.phaseRunning then some .running
  else if s = Codec.phaseTearingDown then some .tearingDown
  else none

/-! ### time -/

/-- a `time.Time` as the codecs observe it: `Unix()` and `Nanosecond()` -/
structure Time where
  sec : Int := 0
  nsec : Nat := 0
deriving DecidableEq, Repr, Inhabited

/-- `timestamppb.New(t)` -/
def Time.toTs (t : Time) : Ts := { secs := t.sec, nanos := t.nsec }

/-- `(*Timestamp).AsTime()` = `time.Unix(seconds, nanos).UTC()`: nanos outside [0,1e9) are
    carried into the seconds; `Unix()` of the result wraps like int64; a nil timestamp
    reads as 0/0 -/
def Ts.asTime (t : Ts) : Time :=
  { sec := toInt64 (ofInt64 (t.secs + t.nanos / 1000000000)), nsec := (t.nanos % 1000000000).toNat }

def optTsAsTime : Option Ts → Time
  | none => {}
  | some t => t.asTime

/-- the zero `time.Time{}` (January 1, year 1) as Unix seconds -/
def zeroTimeSec : Int := -62135596800

/-- day number → (year, month, day), proleptic Gregorian (the function `Time.Date` computes,
    written with the classic 400/100/4/1-year cycle decomposition). Day 0 is March 1st of
    year -400 (one 400-year era before 0000-03-01), so that every date of the years
    0000..9999 has a natural day number; years start in March, the leap day comes last. -/
def civilFromDays (z : Nat) : Nat × Nat × Nat :=
  let era := z / 146097
  let d1 := z % 146097
  let n100 := min (d1 / 36524) 3
  let d2 := d1 - n100 * 36524
  let n4 := d2 / 1461
  let d3 := d2 % 1461
  let n1 := min (d3 / 365) 3
  let doy := d3 - n1 * 365
  let yoe := n100 * 100 + n4 * 4 + n1
  let mp := (5 * doy + 2) / 153
  let d := doy - (153 * mp + 2) / 5 + 1
  let m := if mp < 10 then mp + 3 else mp - 9
  let y := yoe + era * 400 + (if m ≤ 2 then 1 else 0) - 400
  (y, m, d)

/-- (year, month, day) → day number (same origin) -/
def daysFromCivil (y m d : Nat) : Nat :=
  let y' := if m ≤ 2 then y + 399 else y + 400
  let era := y' / 400
  let yoe := y' % 400
  let mp := if m > 2 then m - 3 else m + 9
  let doy := (153 * mp + 2) / 5 + d - 1
  let doe := yoe * 365 + yoe / 4 - yoe / 100 + doy
  era * 146097 + doe

def isLeap (y : Nat) : Bool := y % 4 = 0 ∧ (y % 100 ≠ 0 ∨ y % 400 = 0)

def daysIn (y m : Nat) : Nat :=
  if m = 2 then (if isLeap y then 29 else 28)
  else if m = 4 ∨ m = 6 ∨ m = 9 ∨ m = 11 then 30 else 31

def dig (n : Nat) : UInt8 := UInt8.ofNat (48 + n % 10)
def pad2 (n : Nat) : Bytes := [dig (n / 10), dig n]
def pad4 (n : Nat) : Bytes := [dig (n / 1000), dig (n / 100), dig (n / 10), dig n]

/-- 1970-01-01 is day 719468 after 0000-03-01, which is day 146097 -/
def epochShift : Nat := (719468 + 146097) * 86400

/-- `t.Format(time.RFC3339)` for a UTC time whose year is within 0001..9999; the
    nanoseconds are not printed (the layout has no fractional seconds) -/
def formatRFC3339 (t : Time) : Bytes :=
  let s := (t.sec + epochShift).toNat
  let (y, m, d) := civilFromDays (s / 86400)
  let sod := s % 86400
  pad4 y ++ [45] ++ pad2 m ++ [45] ++ pad2 d ++ [84] ++ pad2 (sod / 3600) ++ [58] ++ pad2 (sod % 3600 / 60) ++ [58] ++
    pad2 (sod % 60) ++ [90]

def digVal (c : UInt8) : Option Nat := if 48 ≤ c.toNat ∧ c.toNat ≤ 57 then some (c.toNat - 48) else none

def num2 (a b : UInt8) : Option Nat :=
  match digVal a, digVal b with
  | some x, some y => some (x * 10 + y)
  | _, _ => none

def num4 (a b c d : UInt8) : Option Nat :=
  match num2 a b, num2 c d with
  | some x, some y => some (x * 100 + y)
  | _, _ => none

/-- `time.Parse(time.RFC3339, s)` restricted to the 20-byte UTC form
    `YYYY-MM-DDTHH:MM:SSZ` (the only form `formatRFC3339` produces). `none` = this model
    does not speak about the input (other lengths: numeric offsets, fractional seconds);
    `some none` = rejected; `some (some t)` = accepted. -/
def parseRFC3339 (s : Bytes) : Option (Option Time) :=
  match s with
  | [y1, y2, y3, y4, s1, m1, m2, s2, d1, d2, tt, h1, h2, c1, i1, i2, c2, e1, e2, z] =>
    if s1 ≠ 45 ∨ s2 ≠ 45 ∨ tt ≠ 84 ∨ c1 ≠ 58 ∨ c2 ≠ 58 ∨ z ≠ 90 then some none
    else
      match num4 y1 y2 y3 y4, num2 m1 m2, num2 d1 d2, num2 h1 h2, num2 i1 i2, num2 e1 e2 with
      | some y, some m, some d, some h, some mi, some se =>
        if m < 1 ∨ 12 < m ∨ d < 1 ∨ daysIn y m < d ∨ 24 ≤ h ∨ 60 ≤ mi ∨ 60 ≤ se then some none
        else some (some { sec := ((daysFromCivil y m d * 86400 + h * 3600 + mi * 60 + se : Nat) : Int) - epochShift, nsec := 0 })
      | _, _, _, _, _, _ => some none
  | _ => none

/-! ### resource.Metadata and the conversion to / from the protobuf message -/

structure Meta where
  ns : Bytes := []
  typ : Bytes := []
  id : Bytes := []
  ver : Option Nat := none
  owner : Bytes := []
  phase : Phase := .running
  created : Time := {}
  updated : Time := {}
  fins : List Bytes := []
  labels : KV := []
  annotations : KV := []
deriving DecidableEq, Repr, Inhabited

/-- a `protobuf.Resource`: metadata, protobuf spec bytes, YAML spec text -/
structure Res where
  md : Meta := {}
  spec : Bytes := []
  yaml : Bytes := []
deriving DecidableEq, Repr, Inhabited

/-- `(*protobuf.Resource).Marshal` (resource.go:85) -/
def Res.toProto (r : Res) : PRes :=
  { md := some
      { ns := r.md.ns, typ := r.md.typ, id := r.md.id, ver := formatVersion r.md.ver, owner := r.md.owner,
        phase := r.md.phase.text, created := some r.md.created.toTs, updated := some r.md.updated.toTs,
        fins := r.md.fins, labels := r.md.labels, annotations := r.md.annotations },
    spec := some { proto := r.spec, yaml := r.yaml } }

/-- `Finalizers.Add` (finalizer.go:20) folded over the list: duplicates are dropped -/
def addFins : List Bytes → List Bytes → List Bytes
  | acc, [] => acc
  | acc, f :: rest => if acc.contains f then addFins acc rest else addFins (acc ++ [f]) rest

/-- `KV.Set` folded over the entries of a Go map -/
def setAll : KV → KV → KV
  | acc, [] => acc
  | acc, (k, v) :: rest => setAll (kvSet acc k v) rest

/-- `resource.NewMetadataFromProto` (metadata.go:456) -/
def metaFromProto (p : PMeta) : Option Meta :=
  match parseVersion p.ver with
  | none => none
  | some ver =>
    match parsePhase p.phase with
    | none => none
    | some ph =>
      some { ns := p.ns, typ := p.typ, id := p.id, ver := ver, owner := p.owner, phase := ph,
             created := optTsAsTime p.created, updated := optTsAsTime p.updated,
             fins := addFins [] p.fins, labels := setAll [] p.labels, annotations := setAll [] p.annotations }

/-- `protobuf.Unmarshal` (resource.go:211): metadata and spec must be present -/
def resFromProto (p : PRes) : Option Res :=
  match p.md, p.spec with
  | some m, some s =>
    match metaFromProto m with
    | none => none
    | some md => some { md := md, spec := s.proto, yaml := s.yaml }
  | _, _ => none

/-- `ProtoMarshal(protoR.Marshal())` -/
def encodeResource (r : Res) : Bytes := encPRes r.toProto

/-- `ProtoUnmarshal` then `protobuf.Unmarshal` -/
def decodeResource (b : Bytes) : Option Res :=
  match decPRes b with
  | none => none
  | some p => resFromProto p

/-! ### store marshaler wrappers -/

/-- `compress prefix data` = `Compress(prefix, data)` -/
structure Compressor where
  id : UInt8
  compress : Bytes → Bytes → Bytes
  decompress : Bytes → Option Bytes

/-- `sealF nonce plaintext` = `Seal(nil, nonce, plaintext, nil)`,
    `openF nonce ciphertext` = `Open(nil, nonce, ciphertext, nil)` -/
structure Aead where
  sealF : Bytes → Bytes → Bytes
  openF : Bytes → Bytes → Option Bytes

def compMarker : UInt8 := UInt8.ofNat Codec.compMarker

/-- compression.Marshaler.MarshalResource (compression.go:41) on the inner encoding; the
    threshold test and the marker are regenerated facts (fail closed: `[]`) -/
def compEncode (c : Compressor) (minSize : Nat) (e : Bytes) : Bytes :=
  if !(Codec.compThresholdLt && Codec.compMarkerOK) then [] else
  if e.length < minSize then e else c.compress [compMarker, c.id] e

/-- compression.Marshaler.UnmarshalResource (compression.go:61): what is handed to the
    underlying marshaler -/
def compDecode (c : Compressor) (b : Bytes) : Option Bytes :=
  if !Codec.compDecodeShape then none else
  match b with
  | b0 :: b1 :: rest =>
    if b0 = compMarker then (if b1 ≠ c.id then none else c.decompress rest) else some b
  | _ => some b

def nonceSize : Nat := Codec.encHeader - 1

/-- Cipher.Encrypt (marshaler.go:93): version byte, nonce, sealed data -/
def encEncode (a : Aead) (nonce : Bytes) (e : Bytes) : Bytes :=
  if !Codec.encSplitOK then [] else
  UInt8.ofNat Codec.encVersion :: (nonce ++ a.sealF nonce e)

/-- Cipher.Decrypt (marshaler.go:114); the two guards are present iff the regenerated
    facts say so -/
def encDecode (a : Aead) (b : Bytes) : Option Bytes :=
  if !Codec.encSplitOK then none else
  if Codec.encChecksLength && b.length < Codec.encMinLen then none else
  if Codec.encChecksVersion && b.head? ≠ some (UInt8.ofNat Codec.encVersion) then none else
  a.openF ((b.drop 1).take nonceSize) (b.drop Codec.encHeader)

inductive Layer where
  | comp (c : Compressor) (minSize : Nat)
  | enc (a : Aead) (nonce : Bytes)

/-- a stack of wrappers around an inner marshaler, outermost first -/
def encodeStack : List Layer → Bytes → Bytes
  | [], p => p
  | .comp c m :: ls, p => compEncode c m (encodeStack ls p)
  | .enc a n :: ls, p => encEncode a n (encodeStack ls p)

def decodeStack : List Layer → Bytes → Option Bytes
  | [], b => some b
  | .comp c _ :: ls, b =>
    match compDecode c b with
    | none => none
    | some b' => decodeStack ls b'
  | .enc a _ :: ls, b =>
    match encDecode a b with
    | none => none
    | some b' => decodeStack ls b'

/-- the full store codec: wrappers around store.ProtobufMarshaler -/
def storeEncode (ls : List Layer) (r : Res) : Bytes := encodeStack ls (encodeResource r)

def storeDecode (ls : List Layer) (b : Bytes) : Option Res :=
  match decodeStack ls b with
  | none => none
  | some p => decodeResource p

/-! ### Metadata YAML at the yaml.Node level -/

inductive Node where
  | scalar (v : Bytes)
  | mapping (kids : List Node)
  | sequence (kids : List Node)
  | document (kids : List Node)
  | alias
deriving Repr, Inhabited

/-- lexicographic byte order = Go's string `<` (sort.Strings in KV.Keys) -/
def ltBytes : Bytes → Bytes → Bool
  | [], [] => false
  | [], _ :: _ => true
  | _ :: _, [] => false
  | a :: as, b :: bs => if a.toNat < b.toNat then true else if b.toNat < a.toNat then false else ltBytes as bs

def sortKV (m : KV) : KV := sortBy (fun a b => ltBytes a.1 b.1) m

def kNamespace : Bytes := asc "namespace"
def kType : Bytes := asc "type"
def kId : Bytes := asc "id"
def kVersion : Bytes := asc "version"
def kOwner : Bytes := asc "owner"
def kPhase : Bytes := asc "phase"
def kCreated : Bytes := asc "created"
def kUpdated : Bytes := asc "updated"
def kFinalizers : Bytes := asc "finalizers"
def kLabels : Bytes := asc "labels"
def kAnnotations : Bytes := asc "annotations"

/-- `KV.ToYAML(label)` (kv.go:113): nothing when empty, keys sorted -/
def kvToYaml (label : Bytes) (m : KV) : List Node :=
  if m = [] then [] else
  [.scalar label, .mapping ((sortKV m).flatMap (fun kv => [Node.scalar kv.1, Node.scalar kv.2]))]

/-- `(*Metadata).MarshalYAML` (metadata.go:207) -/
def metaToYaml (md : Meta) : Node :=
  .mapping (
    [.scalar kNamespace, .scalar md.ns, .scalar kType, .scalar md.typ, .scalar kId, .scalar md.id,
     .scalar kVersion, .scalar (formatVersion md.ver), .scalar kOwner, .scalar md.owner,
     .scalar kPhase, .scalar md.phase.text, .scalar kCreated, .scalar (formatRFC3339 md.created),
     .scalar kUpdated, .scalar (formatRFC3339 md.updated)] ++
    (kvToYaml kLabels md.labels ++ (kvToYaml kAnnotations md.annotations ++
    (if md.fins = [] then [] else [.scalar kFinalizers, .sequence (md.fins.map Node.scalar)]))))

/-- outcome of `UnmarshalYAML`: value, error, a Go runtime panic that is re-raised
    (index out of range on a mapping node with an odd number of children — not producible
    by the YAML parser), or `imprecise` where this model does not speak (timestamp text
    outside the 20-byte UTC form) -/
inductive YRes (α : Type) where
  | ok (a : α)
  | err
  | panic
  | imprecise
deriving Repr

/-- `getScalarValue` (metadata.go:391): the text of a scalar node, whatever its tag
    (`Gen.Codec.yamlScalarIsNodeText`; any other reading is outside the model) -/
def scalarOf : Node → Option Bytes
  | .scalar v => if Gen.Codec.yamlScalarIsNodeText then some v else none
  | _ => none

/-- `mappingParser` (metadata.go:386) -/
def kvFromYaml : Node → Option KV
  | .mapping kids =>
    if kids.length % 2 ≠ 0 then none else
    let rec go : List Node → KV → Option KV
      | k :: v :: rest, acc =>
        match scalarOf k, scalarOf v with
        | some ks, some vs => go rest (kvSet acc ks vs)
        | _, _ => none
      | _, acc => some acc
    go kids []
  | _ => none

/-- `getFinalizers` (metadata.go:431): no de-duplication on this path -/
def finsFromYaml : Node → Option (List Bytes)
  | .sequence kids => kids.mapM scalarOf
  | _ => none

/-- the key/value loop of `UnmarshalYAML` (metadata.go:339) -/
def metaFromPairs : List Node → Meta → YRes Meta
  | [], md => .ok md
  | [_], _ => .panic
  | k :: v :: rest, md =>
    match k with
    | .scalar key =>
      let str (set : Bytes → Meta) : YRes Meta :=
        match scalarOf v with
        | none => .err
        | some s => metaFromPairs rest (set s)
      let time (set : Time → Meta) : YRes Meta :=
        match scalarOf v with
        | none => .err
        | some s =>
          match parseRFC3339 s with
          | none => .imprecise
          | some none => .err
          | some (some t) => metaFromPairs rest (set t)
      if key = kNamespace then str (fun s => { md with ns := s })
      else if key = kType then str (fun s => { md with typ := s })
      else if key = kId then str (fun s => { md with id := s })
      else if key = kVersion then
        match scalarOf v with
        | none => .err
        | some s =>
          match parseVersion s with
          | none => .err
          | some ver => metaFromPairs rest { md with ver := ver }
      else if key = kOwner then str (fun s => { md with owner := s })
      else if key = kPhase then
        match scalarOf v with
        | none => .err
        | some s =>
          match parsePhase s with
          | none => .err
          | some ph => metaFromPairs rest { md with phase := ph }
      else if key = kCreated then time (fun t => { md with created := t })
      else if key = kUpdated then time (fun t => { md with updated := t })
      else if key = kFinalizers then
        match finsFromYaml v with
        | none => .err
        | some fs => metaFromPairs rest { md with fins := fs }
      else if key = kLabels then
        match kvFromYaml v with
        | none => .err
        | some m => metaFromPairs rest { md with labels := m }
      else if key = kAnnotations then
        match kvFromYaml v with
        | none => .err
        | some m => metaFromPairs rest { md with annotations := m }
      else metaFromPairs rest md
    | _ => .err

/-- the zero `Metadata{}` the decoder starts from: undefined version, phase 0, zero times -/
def zeroMeta : Meta := { created := { sec := zeroTimeSec }, updated := { sec := zeroTimeSec } }

/-- `(*Metadata).UnmarshalYAML` (metadata.go:311) on a zero receiver -/
def metaFromYaml (n : Node) : YRes Meta :=
  let inner : Option Node :=
    match n with
    | .document [c] => some c
    | .document _ => none
    | other => some other
  match inner with
  | some (.mapping kids) => metaFromPairs kids zeroMeta
  | _ => .err

end Cosi.Wire
