/-
  Cosi.Model.Handoff — the fine model of the hand-off inside `processWatched`
  (/repo/pkg/controller/runtime/runtime.go:291-478) and of registration, refining the
  `dedup` / `deliver` steps of Cosi.Model.Pipeline:

    processWatched (:291)            ch := make(chan dedup, 1); empty := make(chan dedup, 1); empty <- dedup{}
                                     EXACTLY ONE map exists; it sits in `empty` or in `ch` (both capacity 1)
                                     or is owned for a moment by one of the two goroutines
    deduplicateWatchEvents (:375)    receive a batch; acquire the map from `empty` OR `ch`; processEvents
                                     (m[key] = value); `if len(m) == 0 { send empty; continue }`; drain
                                     watchCh; `send ch`                       — the routing rule `parkAfterBatch`
    deliverDeduplicatedEvents (:434) receive the map from `ch` ONLY; k := m.takeOne(); `if len(m) > 0
                                     { send ch } else { send empty }`         — the routing rule `backToCh`
                                     then GetDependentControllers(k) (dependency/database.go:272: a FRESH
                                     slice, slices.Concat), controllersMu.RLock, WatchTrigger for each, RUnlock
    RegisterController (:103)        holds controllersMu (write) for the whole registration: the delivery
                                     goroutine can be parked between its lookup and its triggers while a
                                     controller is appended to the dependency tables; NewAdapter ends with
                                     triggerReconcile (rruntime.go:97)
    (*Adapter).UpdateInputs          the controller's own goroutine changes its inputs (no controllersMu)

  Every goroutine section that cannot block in the middle is one atomic step here: the
  dedup goroutine between acquiring and re-sending the map (`dedup`; the drain loop is a
  sequence of `dedup` steps: once non-empty the map stays non-empty), the delivery goroutine
  from `<-ch` to the send back (`takeKey`, includes the lookup: nothing that changes the
  tables can run in between except a registration, which is the `register` step placed before
  or after), and the trigger loop under RLock (`trigger`).

  The three rules that decide where the map goes and whether the looked-up list survives a
  registration are PARAMETERS (`Rules`) of the step function; `genRules` instantiates them
  from the regenerated facts (Cosi.Gen.Pipeline), fail closed.
-/
import Cosi.Model.Pipeline

namespace Cosi.Handoff
open Cosi Cosi.Pipeline

/-- which of the two capacity-1 channels holds the single dedup map -/
inductive Loc where
  | empty   -- parked: the delivery goroutine does not receive from this channel
  | ch      -- offered to the delivery goroutine (and to the dedup goroutine)
deriving DecidableEq, Repr, Inhabited

structure Rules where
  /-- deduplicateWatchEvents after processEvents: park the map in `empty`? (size before the batch, size after) -/
  parkAfterBatch : Nat → Nat → Bool
  /-- deliverDeduplicatedEvents after takeOne: hand the map back through `ch`? (remaining size) -/
  backToCh : Nat → Bool
  /-- the list an in-progress delivery has looked up, after controller `n` was added to the dependency
      tables meanwhile (identity iff GetDependentControllers returns a fresh slice) -/
  lookupAfterRegister : List Nat → Nat → List Nat
  /-- NewAdapter ends with triggerReconcile -/
  triggerOnRegister : Bool

/-- the rules the code is meant to implement (runtime.go:401, :449; database.go:280; rruntime.go:97) -/
def goodRules : Rules :=
  { parkAfterBatch := fun _ after => after == 0,
    backToCh := fun n => decide (0 < n),
    lookupAfterRegister := fun l _ => l,
    triggerOnRegister := true }

/-- the structural frame of the hand-off, regenerated: two capacity-1 channels, exactly one map,
    the dedup goroutine acquires it from either channel, the delivery goroutine from `ch` only and
    looks up the dependents before triggering them under the read lock -/
def frameOk : Bool :=
  Gen.Pipeline.handoffChCap == 1 && Gen.Pipeline.handoffEmptyCap == 1 && Gen.Pipeline.handoffInitialMaps == 1 &&
  Gen.Pipeline.dedupAcquire == .emptyOrCh && Gen.Pipeline.deliverAcquiresCh && Gen.Pipeline.lookupThenTrigger

/-- the rules of the CURRENT source text. Unrecognised shape ⇒ the worst rule: the map is always
    parked / never handed back / the looked-up list is lost. -/
def genRules : Rules :=
  { parkAfterBatch := fun before after =>
      match frameOk, Gen.Pipeline.dedupRoute with
      | true, .emptyIffEmpty => goodRules.parkAfterBatch before after
      | _, _ => true,
    backToCh := fun n =>
      match frameOk, Gen.Pipeline.deliverRoute with
      | true, .chIffNonEmpty => goodRules.backToCh n
      | _, _ => false,
    lookupAfterRegister := fun l _ => if Gen.Pipeline.dependentsFresh then l else [],
    triggerOnRegister := Gen.Pipeline.triggerOnRegister }

structure HSys where
  p : PSys                                            -- cur, logSuffix, watchCh, dedup (= content of THE map), ctls
  loc : Loc := .empty                                 -- processWatched: `empty <- dedup{}`
  /-- the delivery goroutine's in-progress delivery: key taken, its value, the dependents looked up
      (indices into `p.ctls`) and not yet triggered -/
  inflight : Option (Key × Val × List Nat) := none

inductive HStep where
  | write (k : Key) (dr : Bool)
  | fetch (n : Nat)
  | dedup                                   -- one batch through deduplicateWatchEvents
  | takeKey (k : Key)                       -- deliverDeduplicatedEvents: `<-ch`, takeOne = k, send back, lookup
  | trigger                                 -- … RLock, WatchTrigger for each looked-up dependent, RUnlock
  | register (km : KeyMap) (ds : List Decl) -- RegisterController of a controller with these inputs
  | updateInputs (c : Nat) (km : KeyMap) (ds : List Decl)   -- controller c replaces its inputs (from its Run goroutine)
  | take (c : Nat)
  | read (c : Nat)

/-- GetDependentControllers: the controllers with an input matching the key, by index -/
def dependents (cs : List Ctl) (k : Key) : List Nat :=
  (List.range cs.length).filter fun i =>
    match cs[i]? with
    | some c => decide (c.needs k ≠ .none)
    | none => false

/-- one iteration of the trigger loop (runtime.go:473): `runtime.controllers[ctrl].WatchTrigger(&k)` for the
    looked-up dependents — the adapter's filter, then the non-blocking send on the capacity-1 EventCh -/
def trig (k : Key) (v : Val) (l : List Nat) (i : Nat) (c : Ctl) : Ctl :=
  if l.contains i && c.passes k v then { c with trigger := true } else c

/-- the in-progress delivery after controller `n` was added to the dependency tables (AddControllerInput
    appends to `inputLookup[ns,type]`, database.go:158) -/
def relist (r : Rules) (o : Option (Key × Val × List Nat)) (n : Nat) : Option (Key × Val × List Nat) :=
  match o with
  | none => none
  | some (k, v, l) => some (k, v, r.lookupAfterRegister l n)

def stepWith (r : Rules) (s : HSys) : HStep → HSys
  | .write k dr => { s with p := Pipeline.step s.p (.write k dr) }
  | .fetch n => { s with p := Pipeline.step s.p (.fetch n) }
  | .take c => { s with p := Pipeline.step s.p (.take c) }
  | .read c => { s with p := Pipeline.step s.p (.read c) }
  | .dedup =>
    match s.p.watchCh with
    | [] => s
    | b :: bs =>
      -- the map is acquired from whichever channel holds it (`select { case m = <-empty: case m = <-ch: }`)
      let m := b.foldl upd s.p.dedup
      { s with p := { s.p with watchCh := bs, dedup := m },
               loc := if r.parkAfterBatch s.p.dedup.length m.length then .empty else .ch }
  | .takeKey k =>
    if s.loc = .ch ∧ s.inflight.isNone then
      match s.p.dedup.find? (·.1 = k) with
      | none => s
      | some (_, v) =>
        let m := s.p.dedup.filter (·.1 ≠ k)
        { p := { s.p with dedup := m },
          loc := if r.backToCh m.length then .ch else .empty,
          inflight := some (k, v, dependents s.p.ctls k) }
    else s
  | .trigger =>
    match s.inflight with
    | none => s
    | some (k, v, l) =>
      { s with inflight := none,
               p := { s.p with ctls := s.p.ctls.mapIdx (trig k v l) } }
  | .register km ds =>
    let c : Ctl := { needs := needsOf km ds, passes := passesOf km ds, trigger := r.triggerOnRegister }
    { s with p := { s.p with ctls := s.p.ctls ++ [c] },
             inflight := relist r s.inflight s.p.ctls.length }
  | .updateInputs i km ds =>
    { s with p := { s.p with ctls := setCtl s.p.ctls i fun x =>
                      if x.trigger || x.reading then { x with needs := needsOf km ds, passes := passesOf km ds } else x },
             inflight := relist r s.inflight i }

/-- the model of the current source text -/
def step (s : HSys) (x : HStep) : HSys := stepWith genRules s x

def runWith (r : Rules) (s : HSys) (xs : List HStep) : HSys := xs.foldl (stepWith r) s

def run (s : HSys) (xs : List HStep) : HSys := runWith genRules s xs

/-- the entry the delivery goroutine holds, as a one-element flight segment (oldest of all) -/
def inflightEntry (s : HSys) : List Entry :=
  match s.inflight with
  | none => []
  | some (k, v, _) => [(k, v)]

/-- everything between the state and the controllers, oldest first -/
def flightH (s : HSys) : List Entry := inflightEntry s ++ flight s.p

/-- `takeKey k` can fire -/
def TakeEnabled (s : HSys) (k : Key) : Prop :=
  s.loc = .ch ∧ s.inflight = none ∧ (s.p.dedup.find? (·.1 = k)).isSome = true

end Cosi.Handoff
