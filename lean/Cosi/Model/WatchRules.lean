/-
  Cosi.Model.WatchRules — the in-memory watch machinery and the bookmark codec of
  /repo/pkg/state/impl/inmem/collection.go with every decision point a PARAMETER.

  Cosi.Model.Watch / Cosi.Model.Bookmark are the machinery as intended. Here the same functions take `Rules`:
  which comparison guards the growth of the ring, the batch copy, the overrun test, the bookmark bounds; where a
  loop takes the capacity from; where the initial bookmark is computed; how the filter rewrites an event; how a
  bookmark is decoded. `genRules` / `genBmRules` instantiate the parameters from the facts REGENERATED from the
  source text on every run (Cosi.Gen.Watch, tools/extract/watch.go), fail closed: an unrecognised shape becomes
  `.unknown` / `false`, under which the functions below lose events, refuse to start or decode nothing.
  `goodRules` / `goodBmRules` are the intended ones.

  The driver of engine `watch` (Cosi.Driver.WatchSrc) runs `…With genRules` in model mode and `…With goodRules`
  in spec mode. Cosi.Props.C02Rules / C12Rules prove `…With R = intended function` whenever the rules of `R`
  that the function consults are the intended ones, and hold kernel-checked witnesses of what goes wrong under
  each seeded rule; Cosi.Props.C02Src / C12Src instantiate every property theorem at `genRules` (`src_…`).
  Core Lean only. Kept apart from Cosi.Model.Watch so that a change of collection.go rebuilds this module and the
  `watch` driver only, not the four models and six drivers that build on the intended machinery.
-/
import Cosi.Model.Watch
import Cosi.Model.Bookmark
import Cosi.Gen.Watch

namespace Cosi

/-! ## comparisons and the bookmark codec over the rules -/

/-- a regenerated comparison on naturals / integers; an unrecognised one never holds -/
def Gen.Cmp.evalN : Gen.Cmp → Nat → Nat → Bool
  | .lt, a, b => decide (a < b)
  | .le, a, b => decide (a ≤ b)
  | .gt, a, b => decide (a > b)
  | .ge, a, b => decide (a ≥ b)
  | .eq, a, b => decide (a = b)
  | .ne, a, b => decide (a ≠ b)
  | .unknown, _, _ => false

def Gen.Cmp.eval : Gen.Cmp → Int → Int → Bool
  | .lt, a, b => decide (a < b)
  | .le, a, b => decide (a ≤ b)
  | .gt, a, b => decide (a > b)
  | .ge, a, b => decide (a ≥ b)
  | .eq, a, b => decide (a = b)
  | .ne, a, b => decide (a ≠ b)
  | .unknown, _, _ => false

/-- the operator of a regenerated test, provided its operands are the expected ones -/
def Gen.Test.cmpIf (t : Gen.Test) (lhs rhs : Gen.WOperand) : Gen.Cmp :=
  if t.lhs = lhs ∧ t.rhs = rhs then t.cmp else .unknown

structure BmRules where
  /-- the cookie has 8 bytes, encodeBookmark appends the big-endian uint64 of the position to a copy of it,
      decodeBookmark reads the int64 at offset 8 and both of its tests return the invalid-bookmark error -/
  frame : Bool
  /-- decodeBookmark rejects when `len(bookmark) ⋈ lenLit` -/
  lenCmp : Gen.Cmp
  lenLit : Nat
  cookie : Gen.CookieTest
deriving DecidableEq, Repr

/-- collection.go:284-298 as intended -/
def goodBmRules : BmRules := { frame := true, lenCmp := .ne, lenLit := 16, cookie := .equalFirst8 }

/-- the rules of the CURRENT source text -/
def genBmRules : BmRules :=
  { frame := Gen.Watch.cookieLen == 8 && Gen.Watch.encShape && Gen.Watch.decPosOffset == 8 && Gen.Watch.decRejects,
    lenCmp := match Gen.Watch.decLen with
      | ⟨.lenBookmark, c, .lit _⟩ => c
      | _ => .unknown,
    lenLit := match Gen.Watch.decLen.rhs with
      | .lit n => n.toNat
      | _ => 0,
    cookie := Gen.Watch.decCookie }

/-- fail closed: without the frame nothing is encoded -/
def encodeBookmarkWith (R : BmRules) (cookie : List UInt8) (pos : Int) : List UInt8 :=
  if R.frame then cookie ++ be64 (toU64 pos) else []

/-- `binary.BigEndian.Uint64(bookmark[8:])` reads the first 8 bytes of the rest; fail closed: without the
    frame, or with an unrecognised test, nothing decodes -/
def decodeBookmarkWith (R : BmRules) (cookie : List UInt8) (b : List UInt8) : Option Int :=
  if !R.frame then none
  else if R.lenCmp.evalN b.length R.lenLit then none
  else match R.cookie with
    | .equalFirst8 => if b.take 8 ≠ cookie then none else some (toI64 (fromBe64 ((b.drop 8).take 8)))
    | .hasPrefix => if !(cookie.isPrefixOf b) then none else some (toI64 (fromBe64 ((b.drop 8).take 8)))
    | .unknown => none

/-! ## the watch machinery over the decision points of the source text -/

structure Rules where
  /-- publish: the event is stamped with `encodeBookmark(writePos)`, stored at `stream[writePos % capacity]`
      (the field), then `writePos++`, then Broadcast — after the growth step and in this order -/
  pubFrame : Bool
  /-- publish grows the ring when `writePos ⋈ capacity` … -/
  growPos : Gen.Cmp
  /-- … and `capacity ⋈ maxCapacity` -/
  growMax : Gen.Cmp
  grow : Gen.GrowRule
  /-- Watch: start at `writePos` under the lock; tail floor `max(writePos-capacity+gap, 0)`, slot `(pos-1) % capacity`;
      the loop takes the lock in every iteration, waits while `pos == writePos`, an overrun unlocks, sends Errored and
      returns; the scan runs while `pos < writePos` over `stream[pos % capacity]`, `pos++`, stops at the id -/
  sFrame : Bool
  /-- tail walk-back continues while `pos ⋈ minPos` … -/
  sTailCond : Gen.Cmp
  /-- … and `foundEvents ⋈ TailEvents` -/
  sTailCount : Gen.Cmp
  /-- StartFromBookmark is rejected when `pos ⋈ writePos-capacity+gap` … -/
  sBmLow : Gen.Cmp
  /-- … or `pos ⋈ sBmMinLit` … -/
  sBmMin : Gen.Cmp
  sBmMinLit : Int
  /-- … or `pos ⋈ writePos` -/
  sBmHigh : Gen.Cmp
  /-- `pos++` after an accepted bookmark -/
  sBmSkip : Bool
  /-- where the loop (overrun test and slot index) takes the capacity from -/
  sCap : Gen.CapSrc
  /-- overrun when `writePos - pos ⋈ capacity` -/
  sOverrun : Gen.Cmp
  /-- WatchAll: start at `writePos` under the lock; the loop as above; `first := pos % capacity`,
      `last := writePos % capacity`; `pos = writePos` after the copy, all before the lock is released -/
  kFrame : Bool
  kTail : Gen.KindTailRule
  kBmLow : Gen.Cmp
  kBmMin : Gen.Cmp
  kBmMinLit : Int
  kBmHigh : Gen.Cmp
  kBmSkip : Bool
  /-- where `encodeBookmark(pos - 1)` of the initial Bootstrapped / Noop event is evaluated -/
  kInitBm : Gen.InitBmAt
  kCap : Gen.CapSrc
  kOverrun : Gen.Cmp
  /-- the batch is `stream[first:last]` when `first ⋈ last`, else `stream[first:] ++ stream[:last]` -/
  kBatchGuard : Gen.Cmp
  kBatchCopy : Gen.BatchCopy
  kRewrite : Gen.RewriteMode
  bm : BmRules
deriving DecidableEq, Repr

/-- collection.go as intended -/
def goodRules : Rules :=
  { pubFrame := true, growPos := .eq, growMax := .lt, grow := .doubleClampMax,
    sFrame := true, sTailCond := .gt, sTailCount := .lt,
    sBmLow := .lt, sBmMin := .lt, sBmMinLit := 0, sBmHigh := .ge, sBmSkip := true,
    sCap := .field, sOverrun := .gt,
    kFrame := true, kTail := .clampWindowFloor0,
    kBmLow := .lt, kBmMin := .lt, kBmMinLit := -1, kBmHigh := .ge, kBmSkip := true,
    kInitBm := .afterSwitch, kCap := .field, kOverrun := .gt,
    kBatchGuard := .lt, kBatchCopy := .cloneOrConcat, kRewrite := .inPlace,
    bm := goodBmRules }

section
open Gen.Watch

/-- in the start section (one critical section) a local copy of the capacity is the capacity -/
private def startCap (c : Gen.CapSrc) : Bool := c == .field || c == .snapshot

private def startWindow (o : Gen.WOperand) : Bool := o == .windowStart || o == .windowStartLocal

private def lowCmp (t : Gen.Test) : Gen.Cmp :=
  if t.lhs = .pos ∧ startWindow t.rhs then t.cmp else .unknown

private def litCmp (t : Gen.Test) : Gen.Cmp :=
  match t with
  | ⟨.pos, c, .lit _⟩ => c
  | _ => .unknown

private def litOf (t : Gen.Test) : Int :=
  match t.rhs with
  | .lit n => n
  | _ => 0

private def lagCmp (t : Gen.Test) : Gen.Cmp :=
  if t.lhs = .lag ∧ (t.rhs = .capacity ∨ t.rhs = .capacityLocal) then t.cmp else .unknown

private def loopCap (a b : Gen.CapSrc) : Gen.CapSrc := if a = b then a else .unknown

/-- the rules of the CURRENT source text; an unrecognised shape gives `.unknown` / `false`, under which the
    functions below fail closed and no `src_…` theorem can be proved -/
def genRules : Rules :=
  { pubFrame := pubStamp == .writePos && pubSlot == .writePos && pubSlotCap == .field && pubOrder,
    growPos := pubGrowPos.cmpIf .writePos .capacity,
    growMax := pubGrowMax.cmpIf .capacity .maxCapacity,
    grow := pubGrow,
    sFrame := singleStart == .writePos && singleStartLocked && startWindow singleTailFloor && singleTailFloorLit == 0 &&
      singleTailSlot == .posMinus1 && startCap singleTailSlotCap && singleTailStep && singleBmRejects &&
      singleLoopLocks && singleWait == ⟨.pos, .eq, .writePos⟩ && singleOverrunTerminal &&
      singleScanCond == ⟨.pos, .lt, .writePos⟩ && singleSlot == .pos && singleScanStep && singleDeliver,
    sTailCond := singleTailCond.cmpIf .pos .minPos,
    sTailCount := singleTailCount.cmpIf .foundEvents .tailEvents,
    sBmLow := lowCmp singleBmLow, sBmMin := litCmp singleBmMin, sBmMinLit := litOf singleBmMin,
    sBmHigh := singleBmHigh.cmpIf .pos .writePos, sBmSkip := singleBmSkip,
    sCap := loopCap singleOverrunCap singleSlotCap,
    sOverrun := lagCmp singleOverrun,
    kFrame := kindStart == .writePos && kindStartLocked && kindBmRejects && kindLoopLocks &&
      kindWait == ⟨.pos, .eq, .writePos⟩ && kindOverrunTerminal && kindFirst == .pos && kindLast == .writePos &&
      kindPosAfter == .writePos && kindCopyUnderLock,
    kTail := kindTail,
    kBmLow := lowCmp kindBmLow, kBmMin := litCmp kindBmMin, kBmMinLit := litOf kindBmMin,
    kBmHigh := kindBmHigh.cmpIf .pos .writePos, kBmSkip := kindBmSkip,
    kInitBm := if kindInitBmPos = .posMinus1 then kindInitBm else .unknown,
    kCap := loopCap kindOverrunCap kindFirstLastCap,
    kOverrun := lagCmp kindOverrun,
    kBatchGuard := kindBatchGuard.cmpIf .first .last,
    kBatchCopy := kindBatchCopy,
    kRewrite := kindRewrite,
    bm := genBmRules }
end

/-! which rules each function consults, as decidable predicates (`by decide` at `genRules`) -/

def PublishOk (R : Rules) : Prop :=
  R.pubFrame = true ∧ R.growPos = .eq ∧ R.growMax = .lt ∧ R.grow = .doubleClampMax
def SingleLoopOk (R : Rules) : Prop := R.sFrame = true ∧ R.sCap = .field ∧ R.sOverrun = .gt
def KindLoopOk (R : Rules) : Prop :=
  R.kFrame = true ∧ R.kCap = .field ∧ R.kOverrun = .gt ∧ R.kBatchGuard = .lt ∧ R.kBatchCopy = .cloneOrConcat
def RewriteOk (R : Rules) : Prop := R.kRewrite = .inPlace
def SingleTailOk (R : Rules) : Prop := R.sFrame = true ∧ R.sTailCond = .gt ∧ R.sTailCount = .lt
def SingleBmOk (R : Rules) : Prop :=
  R.sFrame = true ∧ R.sBmLow = .lt ∧ R.sBmMin = .lt ∧ R.sBmMinLit = 0 ∧ R.sBmHigh = .ge ∧ R.sBmSkip = true
def KindTailOk (R : Rules) : Prop := R.kFrame = true ∧ R.kTail = .clampWindowFloor0
def KindBmOk (R : Rules) : Prop :=
  R.kFrame = true ∧ R.kBmLow = .lt ∧ R.kBmMin = .lt ∧ R.kBmMinLit = -1 ∧ R.kBmHigh = .ge ∧ R.kBmSkip = true
def KindInitOk (R : Rules) : Prop := R.kFrame = true ∧ R.kInitBm = .afterSwitch
def DecodeOk (R : Rules) : Prop := R.bm = goodBmRules

instance (R : Rules) : Decidable (PublishOk R) := by unfold PublishOk; infer_instance
instance (R : Rules) : Decidable (SingleLoopOk R) := by unfold SingleLoopOk; infer_instance
instance (R : Rules) : Decidable (KindLoopOk R) := by unfold KindLoopOk; infer_instance
instance (R : Rules) : Decidable (RewriteOk R) := by unfold RewriteOk; infer_instance
instance (R : Rules) : Decidable (SingleTailOk R) := by unfold SingleTailOk; infer_instance
instance (R : Rules) : Decidable (SingleBmOk R) := by unfold SingleBmOk; infer_instance
instance (R : Rules) : Decidable (KindTailOk R) := by unfold KindTailOk; infer_instance
instance (R : Rules) : Decidable (KindBmOk R) := by unfold KindBmOk; infer_instance
instance (R : Rules) : Decidable (KindInitOk R) := by unfold KindInitOk; infer_instance
instance (R : Rules) : Decidable (DecodeOk R) := by unfold DecodeOk; infer_instance

/-- collection.go:66 over the rules. Without the frame the event is not recorded at all. -/
def Ring.publishWith (R : Rules) (r : Ring) (e : Event) : Ring :=
  if !R.pubFrame then r else
  let grow := R.growPos.evalN r.writePos r.cap && R.growMax.evalN r.cap r.maxCap
  let cap' := if grow then (match R.grow with
      | .doubleClampMax => min (r.cap * 2) r.maxCap
      | .unknown => r.cap) else r.cap
  let buf' := if grow then r.buf ++ List.replicate (cap' - r.cap) none else r.buf
  let e' := { e with bm := some (r.writePos : Int) }
  { r with cap := cap', buf := buf'.set (r.writePos % cap') (some e'),
           writePos := r.writePos + 1, log := r.log ++ [e'] }

/-- the slot a position maps to under capacity `cap` (`stream[p % cap]`) -/
def Ring.atCap (r : Ring) (cap p : Nat) : Option Event := (r.buf[p % cap]?).join

/-- the capacity a loop works with -/
def capOf (c : Gen.CapSrc) (w : Watcher) (r : Ring) : Nat :=
  match c with
  | .field => r.cap
  | .snapshot => w.capSnap
  | .unknown => 0

/-- the scan of the single-resource loop with slot index `pos % cap` -/
def scanSingleWith (r : Ring) (cap : Nat) (id : String) : (fuel : Nat) → (pos : Nat) → Nat × Option Event
  | 0, pos => (pos, none)
  | fuel + 1, pos =>
    if pos < r.writePos then
      match r.atCap cap pos with
      | some e => if e.res.id = id then (pos + 1, some e) else scanSingleWith r cap id fuel (pos + 1)
      | none => scanSingleWith r cap id fuel (pos + 1)
    else (pos, none)

/-- the batch copy of WatchAll (collection.go:637-645) over the rules; an unrecognised copy yields nothing -/
def Ring.sliceWith (R : Rules) (r : Ring) (cap pos : Nat) : List Event :=
  match R.kBatchCopy with
  | .unknown => []
  | .cloneOrConcat =>
    let first := pos % cap
    let last := r.writePos % cap
    let raw := if R.kBatchGuard.evalN first last then (r.buf.drop first).take (last - first)
               else r.buf.drop first ++ r.buf.take last
    raw.filterMap id

/-- the filter closure over the rules: an Updated event that becomes Created / Destroyed keeps its bookmark only
    when it is rewritten in place -/
def rewriteWith (R : Rules) (sel : Option (String × String)) (e : Event) : Option Event :=
  match rewrite sel e with
  | none => none
  | some e' =>
    if e'.typ = e.typ then some e'
    else match R.kRewrite with
      | .inPlace => some e'
      | .freshEvent => some { e' with bm := none }
      | .unknown => none

def Watcher.die (w : Watcher) : Watcher := { w with pending := [[erroredEvent]], dead := true }

/-- one iteration of the goroutine loop over the rules -/
def Watcher.fetchWith (R : Rules) (w : Watcher) (r : Ring) : Watcher :=
  if w.dead ∨ w.pos = r.writePos then w
  else
    match w.kind with
    | .single id =>
      let cap := capOf R.sCap w r
      if !R.sFrame || R.sOverrun.evalN (r.writePos - w.pos) cap then w.die
      else
        let (pos', e) := scanSingleWith r cap id (r.writePos - w.pos) w.pos
        match e with
        | some e => { w with pos := pos', pending := [[e]] }
        | none => { w with pos := pos' }
    | .kind =>
      let cap := capOf R.kCap w r
      if !R.kFrame || R.kOverrun.evalN (r.writePos - w.pos) cap then w.die
      else
        let evs := (r.sliceWith R cap w.pos).filterMap (rewriteWith R w.sel)
        { w with pos := r.writePos, pending := evs.map fun e => [e] }
    | .agg =>
      let cap := capOf R.kCap w r
      if !R.kFrame || R.kOverrun.evalN (r.writePos - w.pos) cap then w.die
      else
        let evs := (r.sliceWith R cap w.pos).filterMap (rewriteWith R w.sel)
        { w with pos := r.writePos, pending := if evs.isEmpty then [] else [evs] }

def Watcher.settleWith (R : Rules) (r : Ring) : (fuel : Nat) → Watcher → Watcher
  | 0, w => w
  | fuel + 1, w =>
    match w.pending with
    | d :: ds =>
      if w.chan.length < w.chanCap then
        Watcher.settleWith R r fuel { w with chan := w.chan ++ [d], pending := ds }
      else w
    | [] =>
      if w.dead ∨ w.pos = r.writePos then w
      else Watcher.settleWith R r fuel (w.fetchWith R r)

/-- decodeBookmark at the level of positions, over the rules (byte level: `decodeBookmarkWith`; both reject when
    `len ⋈ lenLit`; `cookieOk` is "the first 8 bytes are the cookie", which is what either cookie test decides
    for a bookmark of at least 8 bytes, and a shorter one matches neither) -/
def decodeBmWith (R : Rules) (b : BookmarkArg) : Option Int :=
  if !R.bm.frame then none
  else if R.bm.lenCmp.evalN b.len R.bm.lenLit then none
  else match R.bm.cookie with
    | .equalFirst8 | .hasPrefix => if !b.cookieOk then none else some b.pos
    | .unknown => none

def tailBackWith (R : Rules) (r : Ring) (id : String) (tail : Nat) (minPos : Int) : (fuel : Nat) → (pos : Nat) → (found : Nat) → Nat
  | 0, pos, _ => pos
  | fuel + 1, pos, found =>
    if R.sTailCond.eval (pos : Int) minPos && R.sTailCount.evalN found tail then
      let hit : Bool := match r.at (pos - 1) with
        | some e => e.res.id == id
        | none => false
      tailBackWith R r id tail minPos fuel (pos - 1) (bif hit then found + 1 else found)
    else pos

/-- Watch over the rules. Without the frame nothing can be said: the call fails. -/
def startSingleWith (R : Rules) (r : Ring) (cur : Option Res) (ns typ id : String) (o : StartOpts) :
    Except StartErr (Nat × List Delivery) :=
  if !R.sFrame then .error .other
  else if o.tail > 0 ∧ o.bookmark.isSome then .error .other
  else if o.tail > 0 then
    let minPos : Int := max ((r.writePos : Int) - r.cap + r.gap) 0
    .ok (tailBackWith R r id o.tail minPos r.writePos r.writePos 0, [])
  else match o.bookmark with
    | some b =>
      match decodeBmWith R b with
      | none => .error .invalidBookmark
      | some p =>
        if R.sBmLow.eval p ((r.writePos : Int) - r.cap + r.gap) || R.sBmMin.eval p R.sBmMinLit ||
            R.sBmHigh.eval p r.writePos then .error .invalidBookmark
        else .ok ((if R.sBmSkip then p + 1 else p).toNat, [])
    | none =>
      let init : Event := match cur with
        | some c => { typ := .created, res := c }
        | none => { typ := .destroyed, res := tombstone ns typ id }
      .ok (r.writePos, [[init]])

def kindStartPosWith (R : Rules) (r : Ring) (o : StartOpts) : Except StartErr Nat :=
  if !R.kFrame then .error .other
  else if o.tail > 0 then
    match R.kTail with
    | .unknown => .error .other
    | .clampWindowFloor0 =>
      let t : Int := if (o.tail : Int) > (r.cap : Int) - r.gap then (r.cap : Int) - r.gap else o.tail
      let p : Int := (r.writePos : Int) - t
      .ok (if p < 0 then 0 else p.toNat)
  else match o.bookmark with
    | some b =>
      match decodeBmWith R b with
      | none => .error .invalidBookmark
      | some p =>
        if R.kBmLow.eval p ((r.writePos : Int) - r.cap + r.gap) || R.kBmMin.eval p R.kBmMinLit ||
            R.kBmHigh.eval p r.writePos then .error .invalidBookmark
        else .ok (if R.kBmSkip then p + 1 else p).toNat
    | none => .ok r.writePos

/-- WatchAll over the rules: the bookmark of the initial Bootstrapped / Noop event is `pos - 1` for the start
    position (evaluated after the switch) or for the write position (evaluated before it) -/
def startKindWith (R : Rules) (r : Ring) (contents : List Res) (ns typ : String) (agg : Bool) (o : StartOpts) :
    Except StartErr (Nat × List Delivery) :=
  if o.bootstrap ∧ (o.tail > 0 ∨ o.bookmark.isSome) then .error .other
  else if o.bookmark.isSome ∧ o.tail > 0 then .error .other
  else
    match kindStartPosWith R r o with
    | .error e => .error e
    | .ok pos =>
      match R.kInitBm with
      | .afterSwitch => .ok (pos, kindInit contents ns typ agg o pos)
      | .beforeSwitch => .ok (pos, kindInit contents ns typ agg o r.writePos)
      | .unknown => .error .other

/-! ### the state over the rules (what engine `watch`'s driver runs) -/

def WSys.settleWith (R : Rules) (s : WSys) : WSys :=
  { s with watchers := s.watchers.map fun w =>
      let r := s.ring w.rkey
      w.settleWith R r (r.writePos + w.pending.length + w.chanCap + 4) }

def WSys.storeOpWith (R : Rules) (s : WSys) (now : Nat) (op : Op) : WSys × Out :=
  let (st', out) := step s.cfg s.store now op
  let s' := { s with store := st' }
  match op, out with
  | .create r _, .wrote r' =>
    let k := s.rkey r.ns r.typ
    (s'.setRing k ((s.ring k).publishWith R { typ := .created, res := r' }), out)
  | .update r _ _, .wrote r' =>
    let k := s.rkey r.ns r.typ
    (s'.setRing k ((s.ring k).publishWith R { typ := .updated, res := r', old := s.store.get (r.key s.cfg) }), out)
  | .destroy ns typ id _, .ok =>
    let k := s.rkey ns typ
    match s.store.get (s.cfg.key ns typ id) with
    | some cur => (s'.setRing k ((s.ring k).publishWith R { typ := .destroyed, res := cur }), out)
    | none => (s', out)
  | _, _ => (s', out)

def WSys.storeOpBSWith (R : Rules) (s : WSys) (reject : Bool) (now : Nat) (op : Op) : WSys × Out :=
  if reject && op.isWrite && (s.storeOpWith R now op).2.isWrite then
    ((if Gen.Store.storeBeforeMemory then s else (s.storeOpWith R now op).1), .err { ctor := .backing, res := none })
  else s.storeOpWith R now op

def WSys.startWatchWith (R : Rules) (s : WSys) (wid : Nat) (ns typ : String) (wk : WKind)
    (sel : Option (String × String)) (chanCap : Nat) (o : StartOpts) : WSys × Option StartErr :=
  let k := s.rkey ns typ
  let r := s.ring k
  let res := match wk with
    | .single id => startSingleWith R r (s.store.get (s.cfg.key ns typ id)) ns typ id o
    | .kind => startKindWith R r (s.contents ns typ sel) ns typ false o
    | .agg => startKindWith R r (s.contents ns typ sel) ns typ true o
  match res with
  | .error e => (s, some e)
  | .ok (pos, init) =>
    let s := s.setRing k r
    ({ s with watchers := s.watchers ++ [{ wid := wid, rkey := k, kind := wk, sel := sel, pos := pos,
                                             pending := init, chanCap := chanCap, capSnap := r.cap }] }, none)

end Cosi
