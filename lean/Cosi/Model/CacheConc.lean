/-
  Cosi.Model.CacheConc — the read cache handler under CONCURRENT callers (property C15):
  the watch goroutine of the runtime applies events (append / put / remove / mark,
  runtime.go processEvents) while controller goroutines read (get / list /
  contextWithTeardown). Every method of cacheHandler that is ONE critical section of
  `cacheHandler.mu` is one atomic step of `Cosi.Cache.Handler`; whether it is one section
  is a REGENERATED fact (tools/extract/cache.go `wholeCriticalSection` →
  `Gen.Cache.ctxAtomic / putAtomic / removeAtomic / getAtomic / listAtomic / appendAtomic`).

    /repo/pkg/controller/runtime/internal/cache/handler.go
        contextWithTeardown :86   wait for bootstrap; Lock; binary search; absent / tearing down ⇒ cancel at
                                  once; else register (or reuse) the teardown waiter of the ID; Unlock on return
        put :184, remove :208     Lock; update the slice; close + delete the waiter; Unlock on return

  The decision points are PARAMETERS (`Rules`) of the step function, `genRules` instantiates them
  from the current source text (fail closed: a shape the extractor does not recognise as one
  critical section is `false`):

    ctxAtomic = false   contextWithTeardown is read as TWO sections — the lookup with the phase check
                        (`ctxBegin`), and the registration of the waiter (`ctxEnd`) — between which any
                        other step can be scheduled: a reader `Mid` is in flight;
    putAtomic / removeAtomic = false
                        the update of the slice and the close of the waiter are not one section: a waiter
                        registered in between is not closed — the pessimistic outcome is modelled, the slice
                        is updated and no waiter is closed.

  Reads without effect on the handler (get, list) are not steps of this system: `getAtomic` /
  `listAtomic` / `appendAtomic` are part of `frameOk` (what `Sound` asks of the source besides the rules).
  Core Lean only.
-/
import Cosi.Model.Cache

namespace Cosi.CacheConc
open Cosi Cosi.Cache

structure Rules where
  /-- contextWithTeardown: lookup, phase check and waiter registration are one critical section -/
  ctxAtomic : Bool
  /-- put: slice update and waiter close are one critical section -/
  putAtomic : Bool
  /-- remove: slice deletion and waiter close are one critical section -/
  removeAtomic : Bool
deriving DecidableEq, Repr

/-- what the code is meant to implement (handler.go:95-96, :185-186, :209-210) -/
def goodRules : Rules := { ctxAtomic := true, putAtomic := true, removeAtomic := true }

/-- the sections of the CURRENT source text -/
def genRules : Rules :=
  { ctxAtomic := Gen.Cache.ctxAtomic, putAtomic := Gen.Cache.putAtomic, removeAtomic := Gen.Cache.removeAtomic }

/-- the remaining methods that touch the shared fields are single sections as well -/
def frameOk : Bool := Gen.Cache.getAtomic && Gen.Cache.listAtomic && Gen.Cache.appendAtomic

/-- a reader between the two sections of a split contextWithTeardown: it has seen its resource
    present and running, and has not yet registered its waiter -/
structure Mid where
  cid : Nat
  id : String
deriving DecidableEq, Repr, Inhabited

structure CSys where
  h : Handler := {}
  mids : List Mid := []
deriving Repr, Inhabited

/-- one scheduling step: a whole call of the watch goroutine / a caller (`call`), or one section of a
    contextWithTeardown call -/
inductive CStep where
  | call (op : Cosi.Cache.Op)
  | ctxBegin (cid : Nat) (id : String)
  | ctxEnd (cid : Nat)

/-- the second section of contextWithTeardown (handler.go:113-133): the waiter channel of the ID is
    created unless it exists, the context is live -/
def register (h : Handler) (cid : Nat) (id : String) : Handler :=
  { h with waiters := if h.waiters.contains id then h.waiters else h.waiters ++ [id],
           ctxs := h.ctxs ++ [{ cid := cid, id := id, cancelled := false }] }

/-- entering contextWithTeardown -/
def ctxBegin (r : Rules) (s : CSys) (cid : Nat) (id : String) : CSys :=
  if r.ctxAtomic then { s with h := (s.h.ctxTeardown cid id).getD s.h }
  else if s.h.enabled Gen.Cache.ctxWaits then
    match getRes s.h.resources id with
    | none => { s with h := { s.h with ctxs := s.h.ctxs ++ [{ cid := cid, id := id, cancelled := true }] } }
    | some x =>
      if x.phase = .tearingDown then
        { s with h := { s.h with ctxs := s.h.ctxs ++ [{ cid := cid, id := id, cancelled := true }] } }
      else { s with mids := s.mids ++ [{ cid := cid, id := id }] }
  else s

def stepWith (r : Rules) (s : CSys) : CStep → CSys
  | .call (.put x) =>
    if r.putAtomic then { s with h := s.h.put x }
    else { s with h := { s.h with resources := putRes s.h.resources x } }
  | .call (.remove x) =>
    if r.removeAtomic then { s with h := s.h.remove x }
    else { s with h := { s.h with resources := removeRes s.h.resources x.id } }
  | .call (.ctx cid id) => ctxBegin r s cid id
  | .call op => { s with h := s.h.step op }
  | .ctxBegin cid id => ctxBegin r s cid id
  | .ctxEnd cid =>
    match s.mids.find? (·.cid = cid) with
    | none => s
    | some m => { h := register s.h m.cid m.id, mids := s.mids.filter (·.cid ≠ cid) }

/-- the model of the current source text -/
def step (s : CSys) (x : CStep) : CSys := stepWith genRules s x

def runWith (r : Rules) (s : CSys) (xs : List CStep) : CSys := xs.foldl (stepWith r) s

def run (s : CSys) (xs : List CStep) : CSys := runWith genRules s xs

/-- the linearisation: the operation sequence an atomic handler would have executed -/
def lin : List CStep → List Cosi.Cache.Op
  | [] => []
  | .call op :: xs => op :: lin xs
  | .ctxBegin cid id :: xs => .ctx cid id :: lin xs
  | .ctxEnd _ :: xs => lin xs

end Cosi.CacheConc
