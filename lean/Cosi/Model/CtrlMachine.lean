/-
  Cosi.Model.CtrlMachine — trace inclusion for the engine `ctrl`: is a recorded write of the real
  Transform / QTransform / Cleanup controller a write that the machine of Cosi.Model.Transform /
  Cosi.Model.Cleanup can make from some pass state?

  `TF.writeOk` / `CL.writeOk` (in the machines' modules) are decidable predicates on an abstract store before and after one
  write. Cosi.Props.C07Transform (`machine_writes_ok`, `writeOk_is_machine_write`) and
  Cosi.Props.C07Cleanup (`machine_writes_ok`) prove that they describe the machines' writes:
  every store change a controller action makes from a state satisfying the invariant passes the
  predicate, and (Transform) every change that passes it on a store satisfying the finalizer
  guard is made by some controller action from some state satisfying the invariant.

  The second half abstracts the concrete store of the driver (Cosi.Model.Store, resources
  (n1, CIn, id) / (n1, COut, id) / dependents labelled parent=<id>) to the machines' stores.
-/
import Cosi.Model.Cleanup
import Cosi.Model.QTransform
import Cosi.Model.CtrlMonitor


namespace Cosi.Ctrl
open Cosi.TF (Ph AIn AOut)

/-- the ids the engine uses for inputs / mapped outputs, and for dependents -/
def pairIds : List String := ["a", "b"]
def depIds : List String := ["o1", "o2", "o3"]

def qtPh : Phase → QT.Ph
  | .running => .running
  | .tearingDown => .tearingDown

def absPh : Phase → Ph
  | .running => .running
  | .tearingDown => .tearingDown

def absIn (c : Cfg) (s : Store) (id : String) : Option AIn :=
  (s.get (inKey id)).map fun r =>
    { phase := absPh r.phase, ctlFin := r.fins.contains c.name, foreign := r.fins.any (· != c.name) }

def absOut (c : Cfg) (s : Store) (id : String) : Option AOut :=
  (s.get (outKey id)).map fun r =>
    { owned := r.owner == c.name, phase := absPh r.phase, foreign := !r.fins.isEmpty,
      fresh := match s.get (inKey id) with
        | some i => r.spec == "t:" ++ i.spec
        | none => false }

def tfInp (c : Cfg) (s : Store) : Fin 2 → Option AIn := fun k => absIn c s (pairIds.getD k.val "")
def tfOut (c : Cfg) (s : Store) : Fin 2 → Option AOut := fun k => absOut c s (pairIds.getD k.val "")

/-- the sub-handlers of the engine's cleanup kinds and the type of dependents each one looks at -/
def clHandlers (c : Cfg) : List (CL.HKind × String) :=
  if c.kind == "cleanup-combine" then [(.hasNoOutputs, "COut2"), (.removeOutputs, "COut")]
  else [(.removeOutputs, "COut")]

/-- dependents of input `parent`: resources of the sub-handler's type labelled parent=<id> -/
def clDeps (c : Cfg) (s : Store) (parent : String) : Nat → Fin 3 → Option CL.ADep := fun j k =>
  match (clHandlers c)[j]? with
  | none => none
  | some (_, typ) =>
    match s.get ("n1", typ, depIds.getD k.val "") with
    | some r =>
      if r.labels.lookup "parent" == some parent then
        some { owned := r.owner != "", phase := absPh r.phase, foreign := !r.fins.isEmpty }
      else none
    | none => none

/-- trace inclusion: a successful controller write of a transform / cleanup run must be a write of the machine
    (or change nothing the machine's store records) -/
def machineViolations (c : Cfg) (actor : String) (ok : Bool) (before after : Store) : List String :=
  if !(ok && actor == "ctrl") then []
  else if c.kind == "transform" then
    let i := tfInp c before; let i' := tfInp c after
    let o := tfOut c before; let o' := tfOut c after
    if (TF.allFin 2).all (fun k => i k == i' k && o k == o' k) || TF.writeOk i i' o o' then []
    else ["not_a_machine_write"]
  else if isCleanup c then
    let hs := (clHandlers c).map (·.1)
    -- processInput works on one input at a time: the write must be a machine write for one of them
    let same := pairIds.all fun p =>
      absIn c before p == absIn c after p &&
      (List.range hs.length).all fun j => (TF.allFin 3).all fun k => clDeps c before p j k == clDeps c after p j k
    if same || pairIds.any (fun p =>
        CL.writeOk hs (absIn c before p) (absIn c after p) (clDeps c before p) (clDeps c after p) &&
        pairIds.all fun q => q == p ||
          (absIn c before q == absIn c after q &&
           (List.range hs.length).all fun j => (TF.allFin 3).all fun k => clDeps c before q j k == clDeps c after q j k))
    then [] else ["not_a_machine_write"]
  else if c.kind == "qtransform" || c.kind == "qtransform-ignore" then
    -- the QTransform machine works on one pair per reconcile: the write changes one pair, by a machine write
    let pairOf (s : Store) (id : String) : QT.Pair :=
      { inp := (s.get (inKey id)).map fun r =>
          { phase := qtPh r.phase, ctlFin := r.fins.contains c.name, foreign := r.fins.any (· != c.name) },
        out := ((s.get (outKey id)).filter (·.owner == c.name)).map fun r =>
          { phase := qtPh r.phase, foreign := !r.fins.isEmpty,
            fresh := match s.get (inKey id) with
              | some i => r.spec == "t:" ++ i.spec
              | none => false } }
    if pairIds.all (fun p => pairOf before p == pairOf after p) ||
       pairIds.any (fun p => QT.writeOk (pairOf before p) (pairOf after p) &&
         pairIds.all fun q => q == p || pairOf before q == pairOf after q)
    then [] else ["not_a_machine_write"]
  else []

end Cosi.Ctrl
