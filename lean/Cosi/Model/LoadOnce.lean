/-
  `inmem.State.loadStore` under concurrent callers (C10, C02, C01): the initial load of the backing
  store happens once.

      if st.loaded.Load() { return nil }          -- fast path
      st.storeMu.Lock(); defer st.storeMu.Unlock()
      if st.loaded.Load() { return nil }          -- re-check under the lock
      if err := st.store.Load(ctx, inject…); err != nil { return err }
      st.loaded.Store(true)

  Every call of a method of `State` is one caller (a natural number; a goroutine that calls twice is
  two callers). A schedule is a list of (caller, outcome) pairs: the caller named takes its next step
  (a caller waiting for the mutex stays where it is while it is held), the outcome is what `store.Load`
  returns if that step is the load. `injections` counts the Loads that ran to success: each of them
  injects every persisted resource and publishes a Created event for it.

  The machine is parametrised by the rules the extractor reads from the source (`Gen.Persist`):
  whether re-check, Load and Store happen between Lock and the deferred Unlock, whether `loaded` is
  read again under the lock, whether `loaded` is set only after a Load that returned nil.
-/
import Cosi.Gen.Persist

namespace Cosi.LoadOnce

inductive Pc
  | start | wantLock | locked | loading | doneOk | doneErr
deriving DecidableEq, Repr

structure Rules where
  mutex : Bool
  recheck : Bool
  onlyOnSuccess : Bool
deriving DecidableEq, Repr

/-- the intended rules -/
def goodRules : Rules := ⟨true, true, true⟩

/-- the rules regenerated from inmem.go (fail closed: an unrecognised shape gives `false`) -/
def genRules : Rules :=
  ⟨Gen.Persist.loadUnderMutex, Gen.Persist.loadRecheckUnderLock, Gen.Persist.loadedOnlyOnSuccess⟩

structure St where
  pc : Nat → Pc
  loaded : Bool
  lock : Option Nat
  injections : Nat

def init : St := ⟨fun _ => .start, false, none, 0⟩

def St.setPc (s : St) (t : Nat) (p : Pc) : St :=
  { s with pc := fun u => if u = t then p else s.pc u }

def St.unlock (R : Rules) (s : St) : St := if R.mutex then { s with lock := none } else s

def stepWith (R : Rules) (s : St) (t : Nat) (ok : Bool) : St :=
  match s.pc t with
  | .start => if s.loaded then s.setPc t .doneOk else s.setPc t .wantLock
  | .wantLock =>
    if R.mutex then
      match s.lock with
      | none => ({ s with lock := some t } : St).setPc t .locked
      | some _ => s
    else s.setPc t .locked
  | .locked =>
    if R.recheck && s.loaded then (s.unlock R).setPc t .doneOk else s.setPc t .loading
  | .loading =>
    if ok then (({ s with loaded := true, injections := s.injections + 1 } : St).unlock R).setPc t .doneOk
    else (({ s with loaded := s.loaded || !R.onlyOnSuccess } : St).unlock R).setPc t .doneErr
  | .doneOk => s
  | .doneErr => s

def runWith (R : Rules) (s : St) : List (Nat × Bool) → St
  | [] => s
  | (t, ok) :: rest => runWith R (stepWith R s t ok) rest

def step := stepWith genRules
def run := runWith genRules

end Cosi.LoadOnce
