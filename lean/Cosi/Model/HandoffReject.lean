/-
  Cosi.Model.HandoffReject — rejected registrations on top of Cosi.Model.Handoff.

  RegisterController holds controllersMu while NewAdapter adds the controller's outputs and
  inputs to the dependency database one by one (rruntime.go:86-93, UpdateInputs :175-183,
  with a call into the state — the watch set-up — between two inputs). If a later input is
  refused (duplicate keys, a failing watch) the registration is REJECTED and rolled back
  (Database.RollbackController), and `runtime.controllers` never gets the name. Meanwhile
  the delivery goroutine — which looks up the dependents BEFORE taking controllersMu.RLock
  (runtime.go:458-469) — may have obtained the half-registered name: a *ghost* in its
  looked-up list. When it then walks the list under RLock, the name is not in
  `runtime.controllers`:

      runtime.controllers[ctrl].WatchTrigger(&k)                      -- nil interface: the process panics
      if adapter, ok := runtime.controllers[ctrl]; ok { adapter.… }   -- the ghost is skipped

  Which of the two the source does is the regenerated fact
  `Gen.Pipeline.triggerSkipsUnknown`. This layer adds exactly that to the fine model: a
  `ghost` step (a rejected registration raced with the in-progress lookup) and a `crashed`
  flag (the delivery goroutine, and with it the process, died).
-/
import Cosi.Model.Handoff

namespace Cosi.Handoff

structure RSys where
  h : HSys
  ghost : Bool := false      -- the in-progress lookup contains a name that is not a registered controller
  crashed : Bool := false    -- the trigger loop dereferenced it

inductive RStep where
  | base (x : HStep)
  | ghost                    -- a registration that was (or will be) rejected ran around the in-progress lookup

/-- `skip`: the trigger loop skips names missing from `runtime.controllers` -/
def stepRWith (r : Rules) (skip : Bool) (s : RSys) : RStep → RSys
  | .ghost => if s.crashed then s else if s.h.inflight.isSome then { s with ghost := true } else s
  | .base x =>
    if s.crashed then s     -- the process is gone
    else match x with
      | .trigger =>
        if s.ghost && !skip then { s with crashed := true }
        else { s with h := stepWith r s.h .trigger, ghost := false }
      | x => { s with h := stepWith r s.h x }

def runRWith (r : Rules) (skip : Bool) (s : RSys) (xs : List RStep) : RSys := xs.foldl (stepRWith r skip) s

/-- the model of the current source text -/
def stepR (s : RSys) (x : RStep) : RSys := stepRWith genRules Gen.Pipeline.triggerSkipsUnknown s x
def runR (s : RSys) (xs : List RStep) : RSys := xs.foldl stepR s

/-- the schedule with the rejected registrations erased -/
def erase : List RStep → List HStep
  | [] => []
  | .base x :: xs => x :: erase xs
  | .ghost :: xs => erase xs

end Cosi.Handoff
