/-
  Cosi.Model.Watch — M2: the per-kind cyclic event history and the watcher state
  machines of the in-memory state.

  Written 1:1 after /repo/pkg/state/impl/inmem/collection.go:
    publish            :66   → Ring.publish
    encode/decodeBookmark :284/:288 → (positions; byte level in Cosi.Model.Bookmark)
    Watch              :303  → startSingle / fetchSingle
    WatchAll           :446  → startKind / fetchKind / rewrite (filter closure :651)
  The ghost field `log` (the unbounded list of everything ever published) is not in
  the code; `Cosi.Props.C02.ring_refines_log` relates the ring to it.

  This file is the machinery AS INTENDED (C03/C10/C11/C13/C15 build on it and reason about it by unfolding).
  Cosi.Model.WatchRules holds the same machinery with every decision point of collection.go a parameter
  (`Rules`, `…With`), instantiated from the facts REGENERATED from the source text (`genRules`); engine `watch`'s
  driver runs that one, and Cosi.C02 / Cosi.C12 prove `…With R = intended` under the intended rules.
-/
import Cosi.Model.Store

namespace Cosi

inductive EvType where
  | created | updated | destroyed | bootstrapped | errored | noop
deriving DecidableEq, Repr, Inhabited

def EvType.str : EvType → String
  | .created => "created" | .updated => "updated" | .destroyed => "destroyed"
  | .bootstrapped => "bootstrapped" | .errored => "errored" | .noop => "noop"

/-- `bm` is the decoded bookmark position (the process cookie is stripped by the
    harness); `none` = nil bookmark. -/
structure Event where
  typ : EvType
  res : Res
  old : Option Res := none
  bm : Option Int := none
deriving DecidableEq, Repr, Inhabited

structure Ring where
  cap : Nat
  maxCap : Nat
  gap : Nat
  writePos : Nat := 0
  buf : List (Option Event)
  log : List Event := []          -- ghost
deriving Repr, Inhabited

def Ring.new (initCap maxCap gap : Nat) : Ring :=
  { cap := initCap, maxCap := maxCap, gap := gap, buf := List.replicate initCap none }

/-- collection.go:66. The stream grows (×2, clamped) only when `writePos = cap`, i.e.
    at the end of the first lap, so `pos % cap` stays valid for retained positions. -/
def Ring.publish (r : Ring) (e : Event) : Ring :=
  let grow := r.writePos = r.cap ∧ r.cap < r.maxCap
  let cap' := if grow then min (r.cap * 2) r.maxCap else r.cap
  let buf' := if grow then r.buf ++ List.replicate (cap' - r.cap) none else r.buf
  let e' := { e with bm := some (r.writePos : Int) }
  { r with cap := cap', buf := buf'.set (r.writePos % cap') (some e'),
           writePos := r.writePos + 1, log := r.log ++ [e'] }

/-- the slot a position maps to -/
def Ring.at (r : Ring) (p : Nat) : Option Event := (r.buf[p % r.cap]?).join

/-! ### label-equality selector of kind watches (the general selector is Cosi.Model.Selector) -/

def matchSel (sel : Option (String × String)) (r : Res) : Bool :=
  match sel with
  | none => true
  | some (k, v) =>
    -- the pseudo key `@id` stands for an ID query: the resource's id starts with `v` (IDRegexpMatch("^v"))
    if k == "@id" then r.id.startsWith v else r.labels.lookup k == some v

/-- the filter closure of WatchAll (collection.go:651) -/
def rewrite (sel : Option (String × String)) (e : Event) : Option Event :=
  match e.typ with
  | .created | .destroyed => if matchSel sel e.res then some e else none
  | .updated =>
    let o := match e.old with
      | some o => matchSel sel o
      | none => false
    let n := matchSel sel e.res
    if o && !n then some { e with typ := .destroyed, old := none }
    else if !o && n then some { e with typ := .created, old := none }
    else if o && n then some e
    else none
  | _ => none

/-! ### watchers -/

inductive WKind where
  | single (id : String)
  | kind
  | agg
deriving DecidableEq, Repr, Inhabited

/-- A delivery is what one channel send carries: one event, or (aggregated) a batch. -/
abbrev Delivery := List Event

structure Watcher where
  wid : Nat
  rkey : String × String
  kind : WKind
  sel : Option (String × String) := none
  pos : Nat
  pending : List Delivery := []     -- fetched by the goroutine, not yet in the channel
  chan : List Delivery := []        -- channel buffer
  chanCap : Nat := 0
  dead : Bool := false              -- goroutine returned (after an overrun)
  capSnap : Nat := 0                -- the ring capacity when the watch was established (read only by
                                    -- Cosi.Model.WatchRules, under a rule that keeps using a local copy of it)
deriving Repr, Inhabited

def tombstone (ns typ id : String) : Res :=
  { ns := ns, typ := typ, id := id, ver := none, owner := "", phase := .running, fins := [],
    labels := [], created := 0, updated := 0, spec := "<tombstone>" }

def erroredEvent : Event := { typ := .errored, res := tombstone "" "" "" }

/-- scan `[pos, writePos)` for the first event of `id` (collection.go:418) -/
def scanSingle (r : Ring) (id : String) : (fuel : Nat) → (pos : Nat) → Nat × Option Event
  | 0, pos => (pos, none)
  | fuel + 1, pos =>
    if pos < r.writePos then
      match r.at pos with
      | some e => if e.res.id = id then (pos + 1, some e) else scanSingle r id fuel (pos + 1)
      | none => scanSingle r id fuel (pos + 1)
    else (pos, none)

/-- events of `[pos, writePos)` as the ring holds them (collection.go:637) -/
def Ring.slice (r : Ring) (pos : Nat) : List Event :=
  let first := pos % r.cap
  let last := r.writePos % r.cap
  let raw := if first < last then (r.buf.drop first).take (last - first)
             else r.buf.drop first ++ r.buf.take last
  raw.filterMap id

/-- one iteration of the watcher goroutine's loop body, entered only when the
    goroutine has nothing left to send. Returns the updated watcher. -/
def Watcher.fetch (w : Watcher) (r : Ring) : Watcher :=
  if w.dead ∨ w.pos = r.writePos then w
  else if r.writePos - w.pos > r.cap then
    { w with pending := [[erroredEvent]], dead := true }
  else
    match w.kind with
    | .single id =>
      let (pos', e) := scanSingle r id (r.writePos - w.pos) w.pos
      match e with
      | some e => { w with pos := pos', pending := [[e]] }
      | none => { w with pos := pos' }
    | .kind =>
      let evs := (r.slice w.pos).filterMap (rewrite w.sel)
      { w with pos := r.writePos, pending := evs.map fun e => [e] }
    | .agg =>
      let evs := (r.slice w.pos).filterMap (rewrite w.sel)
      { w with pos := r.writePos, pending := if evs.isEmpty then [] else [evs] }

/-- run the goroutine until it blocks: push pending deliveries into the channel
    buffer while there is room, fetch when nothing is pending. -/
def Watcher.settle (r : Ring) : (fuel : Nat) → Watcher → Watcher
  | 0, w => w
  | fuel + 1, w =>
    match w.pending with
    | d :: ds =>
      if w.chan.length < w.chanCap then
        Watcher.settle r fuel { w with chan := w.chan ++ [d], pending := ds }
      else w
    | [] =>
      if w.dead ∨ w.pos = r.writePos then w
      else Watcher.settle r fuel (w.fetch r)

/-- receive one delivery (non-blocking): the channel buffer first, else the
    delivery the goroutine is blocked sending -/
def Watcher.recv (w : Watcher) : Option Delivery × Watcher :=
  match w.chan with
  | d :: ds => (some d, { w with chan := ds })
  | [] =>
    match w.pending with
    | d :: ds => (some d, { w with pending := ds })
    | [] => (none, w)

/-! ### starting a watch -/

inductive StartErr where
  | invalidBookmark | other
deriving DecidableEq, Repr

/-- how a bookmark arrives: byte length, whether the first 8 bytes are this
    process' cookie, and the last 8 bytes read as a signed big-endian integer -/
structure BookmarkArg where
  len : Nat
  cookieOk : Bool
  pos : Int
deriving Repr

structure StartOpts where
  bootstrap : Bool := false
  bootstrapBookmark : Bool := false
  tail : Nat := 0
  bookmark : Option BookmarkArg := none
deriving Repr

/-- decodeBookmark (collection.go:288) at the level of positions -/
def decodeBm (b : BookmarkArg) : Option Int :=
  if b.len ≠ 16 then none else if !b.cookieOk then none else some b.pos

/-- the tail walk-back of Watch (collection.go:326): step back while `pos > minPos`
    and fewer than `tail` events of `id` have been found -/
def tailBack (r : Ring) (id : String) (tail : Nat) (minPos : Int) : (fuel : Nat) → (pos : Nat) → (found : Nat) → Nat
  | 0, pos, _ => pos
  | fuel + 1, pos, found =>
    if (pos : Int) > minPos ∧ found < tail then
      let hit : Bool := match r.at (pos - 1) with
        | some e => e.res.id == id
        | none => false
      tailBack r id tail minPos fuel (pos - 1) (bif hit then found + 1 else found)
    else pos

/-- Watch (collection.go:303): start position and initial event -/
def startSingle (r : Ring) (cur : Option Res) (ns typ id : String) (o : StartOpts) :
    Except StartErr (Nat × List Delivery) :=
  if o.tail > 0 ∧ o.bookmark.isSome then .error .other
  else if o.tail > 0 then
    let minPos : Int := max ((r.writePos : Int) - r.cap + r.gap) 0
    .ok (tailBack r id o.tail minPos r.writePos r.writePos 0, [])
  else match o.bookmark with
    | some b =>
      match decodeBm b with
      | none => .error .invalidBookmark
      | some p =>
        if p < (r.writePos : Int) - r.cap + r.gap ∨ p < 0 ∨ p ≥ r.writePos then .error .invalidBookmark
        else .ok ((p + 1).toNat, [])
    | none =>
      let init : Event := match cur with
        | some c => { typ := .created, res := c }
        | none => { typ := .destroyed, res := tombstone ns typ id }
      .ok (r.writePos, [[init]])

/-- start position of WatchAll (collection.go:482-508) -/
def kindStartPos (r : Ring) (o : StartOpts) : Except StartErr Nat :=
  if o.tail > 0 then
    let t : Int := if (o.tail : Int) > (r.cap : Int) - r.gap then (r.cap : Int) - r.gap else o.tail
    let p : Int := (r.writePos : Int) - t
    .ok (if p < 0 then 0 else p.toNat)
  else match o.bookmark with
    | some b =>
      match decodeBm b with
      | none => .error .invalidBookmark
      | some p =>
        if p < (r.writePos : Int) - r.cap + r.gap ∨ p < -1 ∨ p ≥ r.writePos then .error .invalidBookmark
        else .ok (p + 1).toNat
    | none => .ok r.writePos

/-- bootstrap deliveries of WatchAll (collection.go:521-587) for start position `pos` -/
def kindInit (contents : List Res) (ns typ : String) (agg : Bool) (o : StartOpts) (pos : Nat) : List Delivery :=
  let bmEv (t : EvType) : Event := { typ := t, res := tombstone ns typ "", bm := some ((pos : Int) - 1) }
  let boot : List Delivery :=
    if o.bootstrap then
      let evs := contents.map fun c => ({ typ := .created, res := c } : Event)
      if agg then [evs ++ [bmEv .bootstrapped]] else (evs ++ [bmEv .bootstrapped]).map fun e => [e]
    else []
  let bb : List Delivery := if o.bootstrapBookmark then [[bmEv .noop]] else []
  boot ++ bb

/-- WatchAll (collection.go:446): start position and the bootstrap deliveries.
    `contents` is the (already filtered and id-sorted) snapshot. -/
def startKind (r : Ring) (contents : List Res) (ns typ : String) (agg : Bool) (o : StartOpts) :
    Except StartErr (Nat × List Delivery) :=
  if o.bootstrap ∧ (o.tail > 0 ∨ o.bookmark.isSome) then .error .other
  else if o.bookmark.isSome ∧ o.tail > 0 then .error .other
  else
    match kindStartPos r o with
    | .error e => .error e
    | .ok pos => .ok (pos, kindInit contents ns typ agg o pos)

end Cosi

namespace Cosi

/-! ### the state with its watchers: store + one ring per kind + watcher goroutines -/

structure WSys where
  cfg : Cfg := {}
  initCap : Nat := 100
  maxCap : Nat := 1000
  gap : Nat := 5
  store : Store := []
  rings : List ((String × String) × Ring) := []
  watchers : List Watcher := []
deriving Inhabited

def WSys.rkey (s : WSys) (ns typ : String) : String × String :=
  (if s.cfg.nsAware then ns else "", typ)

def WSys.ring (s : WSys) (k : String × String) : Ring :=
  match s.rings.find? (·.1 = k) with
  | some (_, r) => r
  | none => Ring.new s.initCap s.maxCap s.gap

def WSys.setRing (s : WSys) (k : String × String) (r : Ring) : WSys :=
  { s with rings := (k, r) :: s.rings.filter (·.1 ≠ k) }

/-- let every watcher goroutine run until it blocks -/
def WSys.settle (s : WSys) : WSys :=
  { s with watchers := s.watchers.map fun w =>
      let r := s.ring w.rkey
      w.settle r (r.writePos + w.pending.length + w.chanCap + 4) }

/-- a store operation; a successful write publishes its event under the same lock
    (collection.go:166/221/262) -/
def WSys.storeOp (s : WSys) (now : Nat) (op : Op) : WSys × Out :=
  let (st', out) := step s.cfg s.store now op
  let s' := { s with store := st' }
  match op, out with
  | .create r _, .wrote r' =>
    let k := s.rkey r.ns r.typ
    (s'.setRing k ((s.ring k).publish { typ := .created, res := r' }), out)
  | .update r _ _, .wrote r' =>
    let k := s.rkey r.ns r.typ
    (s'.setRing k ((s.ring k).publish { typ := .updated, res := r', old := s.store.get (r.key s.cfg) }), out)
  | .destroy ns typ id _, .ok =>
    let k := s.rkey ns typ
    match s.store.get (s.cfg.key ns typ id) with
    | some cur => (s'.setRing k ((s.ring k).publish { typ := .destroyed, res := cur }), out)
    | none => (s', out)
  | _, _ => (s', out)

/-- a store operation over a backing store (inmem.WithBackingStore): the collection calls the
    backing store after its own checks and BEFORE it touches its memory or publishes
    (collection.go Create/Update/Destroy: `collection.store.Put/Destroy` precedes
    `collection.storage[...] =` and `collection.publish`, regenerated as
    `Gen.Store.storeBeforeMemory`); when the backing store rejects the call the operation
    fails with that error and nothing else happens. `reject` says whether the backing
    store rejects the call this operation makes, if it makes one. -/
def WSys.storeOpBS (s : WSys) (reject : Bool) (now : Nat) (op : Op) : WSys × Out :=
  if reject && op.isWrite && (s.storeOp now op).2.isWrite then
    -- fail closed: if the regenerated order is not "backing store first", the memory write has happened
    ((if Gen.Store.storeBeforeMemory then s else (s.storeOp now op).1), .err { ctor := .backing, res := none })
  else s.storeOp now op

/-- current contents of a kind, filtered and sorted by id (bootstrap snapshot) -/
def WSys.contents (s : WSys) (ns typ : String) (sel : Option (String × String)) : List Res :=
  let pre := (if s.cfg.nsAware then ns else "")
  sortById ((s.store.filter fun p => p.1.1 = pre ∧ p.1.2.1 = typ).map (·.2) |>.filter (matchSel sel))

def WSys.startWatch (s : WSys) (wid : Nat) (ns typ : String) (kind : WKind)
    (sel : Option (String × String)) (chanCap : Nat) (o : StartOpts) : WSys × Option StartErr :=
  let k := s.rkey ns typ
  let r := s.ring k
  let res := match kind with
    | .single id => startSingle r (s.store.get (s.cfg.key ns typ id)) ns typ id o
    | .kind => startKind r (s.contents ns typ sel) ns typ false o
    | .agg => startKind r (s.contents ns typ sel) ns typ true o
  match res with
  | .error e => (s, some e)
  | .ok (pos, init) =>
    -- the collection exists from now on (getCollection creates it)
    let s := s.setRing k r
    ({ s with watchers := s.watchers ++ [{ wid := wid, rkey := k, kind := kind, sel := sel, pos := pos,
                                             pending := init, chanCap := chanCap }] }, none)

def WSys.recv (s : WSys) (wid : Nat) : WSys × Option Delivery :=
  match s.watchers.find? (·.wid = wid) with
  | none => (s, none)
  | some w =>
    let (d, w') := w.recv
    ({ s with watchers := s.watchers.map fun x => if x.wid = wid then w' else x }, d)

def WSys.stopWatch (s : WSys) (wid : Nat) : WSys :=
  { s with watchers := s.watchers.filter (·.wid ≠ wid) }

end Cosi
