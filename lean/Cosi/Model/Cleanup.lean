/-
  Cosi.Model.Cleanup — the cleanup controller (/repo/pkg/controller/generic/cleanup/cleanup.go:
  Run :87, processInput :123, HasNoOutputs :218, RemoveOutputs :279, Combine :388,
  combinedHandler.FinalizerRemoval :402) for ONE input (processInput shares nothing between
  inputs) whose handler is a list of sub-handlers — a single handler is the one-element list,
  `cleanup.Combine(h₀, …)` the list — each with its own kind of dependent outputs
  (`deps j k`: dependent `k : Fin m` of sub-handler `j`, selected by `listOptions(input)`).

  Granularity as in Cosi.Model.Transform: List reads and helper calls are the atomic actions;
  decisions use the values LISTED, helpers act on the store as it is when they run.

  The decision points that come from the source text are PARAMETERS (`Rules`): where Combine
  stops and what it returns, and for which handler result processInput calls RemoveFinalizer.
  `genRules` instantiates them from the regenerated facts (Cosi.Gen.Ctrl), fail closed.
-/
import Cosi.Model.Transform

namespace Cosi.CL
open Cosi.TF (Ph AIn Choice allFin listOf)

/-- a dependent output -/
structure ADep where
  owned : Bool       -- has an owner that RemoveOutputs was not told to ignore (`owner != "" && !allowedOwner` :320)
  phase : Ph
  foreign : Bool     -- carries a finalizer
deriving DecidableEq, Repr, Inhabited

inductive HKind where
  | hasNoOutputs     -- waits until no dependent of its kind is listed (:218)
  | removeOutputs    -- tears down and destroys the unowned dependents of its kind (:279)
deriving DecidableEq, Repr, Inhabited

/-- what a FinalizerRemoval handler returns -/
inductive HRes where
  | ok               -- nil
  | pending          -- an error tagged SkipReconcileTag ("waiting for resources to be destroyed")
  | error            -- any other error
deriving DecidableEq, Repr, Inhabited

structure Rules where
  /-- combinedHandler.FinalizerRemoval returns right after a sub-handler with this result -/
  combineStops : HRes → Bool
  /-- … and this when its loop runs to the end (the sub-handlers' results in order) -/
  combineFinal : List HRes → HRes
  /-- processInput calls RemoveFinalizer after this handler result -/
  releaseOn : HRes → Bool

/-- the rules the code is meant to implement (:403-410, :137-151) -/
def goodRules : Rules :=
  { combineStops := fun r => r != .ok,
    combineFinal := fun _ => .ok,
    releaseOn := fun r => r == .ok }

/-- the rules of the CURRENT source text; unrecognised shape ⇒ the worst rule (Combine never stops and reports
    success; the finalizer is released whatever the handler said) -/
def genRules : Rules :=
  { combineStops := fun r =>
      match Gen.Ctrl.cleanupCombine with
      | .firstNonNil => goodRules.combineStops r
      | .unknown => false,
    combineFinal := fun _ => .ok,
    releaseOn := fun r =>
      match Gen.Ctrl.cleanupRelease with
      | .onlyOnNil => goodRules.releaseOn r
      | .unknown => true }

inductive Pc (m : Nat) where
  | idle
  | gotIn (i : AIn)                                   -- the input as LISTED by Run :101
  | handler (j : Nat)                                 -- about to run sub-handler j (its List)
  | remLoop (j : Nat) (todo : List (Fin m × ADep)) (inTD : Nat) (err : Bool)            -- RemoveOutputs' loop :311
  | remDestroy (j : Nat) (k : Fin m) (todo : List (Fin m × ADep)) (inTD : Nat) (err : Bool)   -- about to Destroy :338
  | decide (res : HRes)                               -- the (combined) handler returned: processInput's switch :137
  | release                                           -- about to RemoveFinalizer :151
deriving DecidableEq, Repr, Inhabited

structure Sys (m : Nat) where
  hs : List HKind
  inp : Option AIn
  deps : Nat → Fin m → Option ADep
  pc : Pc m := .idle
  /-- the results of the sub-handlers this processInput has run so far, in order -/
  results : List HRes := []

variable {m : Nat}

def updD (f : Nat → Fin m → Option ADep) (j : Nat) (k : Fin m) (v : Option ADep) : Nat → Fin m → Option ADep :=
  fun j' k' => if j' = j ∧ k' = k then v else f j' k'

/-- sub-handler `j` returned `res`: combinedHandler.FinalizerRemoval's loop :403 -/
def finish (r : Rules) (s : Sys m) (j : Nat) (res : HRes) : Sys m :=
  let rs := s.results ++ [res]
  if r.combineStops res then { s with results := rs, pc := .decide res }
  else if j + 1 < s.hs.length then { s with results := rs, pc := .handler (j + 1) }
  else { s with results := rs, pc := .decide (r.combineFinal rs) }

/-- one atomic action of the controller -/
def ctlWith (r : Rules) (s : Sys m) (c : Choice) : Sys m :=
  match s.pc with
  | .idle =>
    match s.inp with
    | none => s
    | some i => { s with pc := .gotIn i }
  | .gotIn i =>
    if i.phase = .tearingDown then
      if !i.ctlFin then { s with pc := .idle }                                          -- :131
      else { s with results := [], pc := .handler 0 }                                   -- :135
    else if i.ctlFin then { s with pc := .idle }                                        -- :163
    else
      -- AddFinalizer :167
      match s.inp with
      | none => { s with pc := .idle }
      | some cur =>
        if c.fail then { s with pc := .idle }
        else { s with inp := some { cur with ctlFin := true }, pc := .idle }
  | .handler j =>
    match s.hs[j]? with
    | none => { s with pc := .idle }                                                    -- no sub-handler: Combine() panics :391
    | some .hasNoOutputs =>
      -- List :229; any item → "waiting for resources to be destroyed" :245
      if c.fail then finish r s j .error
      else if (listOf (s.deps j)).isEmpty then finish r s j .ok else finish r s j .pending
    | some .removeOutputs =>
      if c.fail then finish r s j .error
      else { s with pc := .remLoop j (listOf (s.deps j)) 0 false }                      -- List :297
  | .remLoop j [] inTD err =>
    finish r s j (if err then .error else if inTD > 0 then .pending else .ok)           -- :346-360
  | .remLoop j ((k, d) :: rest) inTD err =>
    if d.owned then { s with pc := .remLoop j rest inTD err }                           -- owned: skipped, NOT counted :320
    else if c.fail then { s with pc := .remLoop j rest inTD true }
    else
      -- Teardown(out, WithOwner("")) :325; NotFound is let through with ready = false (counted as tearing down)
      match s.deps j k with
      | none => { s with pc := .remLoop j rest (inTD + 1) err }
      | some cur =>
        if cur.phase = .tearingDown then
          if cur.foreign then { s with pc := .remLoop j rest (inTD + 1) err }           -- :332
          else { s with pc := .remDestroy j k rest inTD err }
        else if cur.owned then { s with pc := .remLoop j rest inTD true }               -- owner conflict :326
        else
          let s1 := { s with deps := updD s.deps j k (some { cur with phase := .tearingDown }) }
          if cur.foreign then { s1 with pc := .remLoop j rest (inTD + 1) err }
          else { s1 with pc := .remDestroy j k rest inTD err }
  | .remDestroy j k rest inTD err =>
    -- Destroy(out, WithOwner("")) :338; NotFound ignored :339
    if c.fail then { s with pc := .remLoop j rest inTD true }
    else
      match s.deps j k with
      | none => { s with pc := .remLoop j rest inTD err }
      | some cur =>
        if cur.owned || cur.foreign then { s with pc := .remLoop j rest inTD true }
        else { s with deps := updD s.deps j k none, pc := .remLoop j rest inTD err }
  | .decide res =>
    if r.releaseOn res then { s with pc := .release } else { s with pc := .idle }       -- :137-149
  | .release =>
    -- RemoveFinalizer :151 (NotFound swallowed by the adapter)
    match s.inp with
    | none => { s with pc := .idle }
    | some cur =>
      if c.fail then { s with pc := .idle }
      else { s with inp := some { cur with ctlFin := false }, pc := .idle }

/-- external actors: they never remove the controller's finalizer; dependents are added to LIVE parents only (the
    property's environment: "dependent outputs" of a torn-down input are not created any more); everything else —
    teardown / destroy / finalizers of inputs and dependents — at any time -/
inductive Env (m : Nat) where
  | createIn (foreign : Bool)
  | teardownIn
  | destroyIn
  | setForeignIn (b : Bool)
  | createDep (j : Nat) (k : Fin m) (owned : Bool)
  | teardownDep (j : Nat) (k : Fin m)
  | destroyDep (j : Nat) (k : Fin m)
  | setForeignDep (j : Nat) (k : Fin m) (b : Bool)
deriving DecidableEq, Repr

def env (s : Sys m) : Env m → Sys m
  | .createIn f =>
    match s.inp with
    | none => { s with inp := some { phase := .running, ctlFin := false, foreign := f } }
    | some _ => s
  | .teardownIn =>
    match s.inp with
    | some i => { s with inp := some { i with phase := .tearingDown } }
    | none => s
  | .destroyIn =>
    match s.inp with
    | some i => if i.ctlFin || i.foreign then s else { s with inp := none }
    | none => s
  | .setForeignIn b =>
    match s.inp with
    | some i => { s with inp := some { i with foreign := b } }
    | none => s
  | .createDep j k o =>
    match s.inp, s.deps j k with
    | some i, none =>
      if i.phase = .running then { s with deps := updD s.deps j k (some { owned := o, phase := .running, foreign := false }) }
      else s
    | _, _ => s
  | .teardownDep j k =>
    match s.deps j k with
    | some d => { s with deps := updD s.deps j k (some { d with phase := .tearingDown }) }
    | none => s
  | .destroyDep j k =>
    match s.deps j k with
    | some d => if d.foreign then s else { s with deps := updD s.deps j k none }
    | none => s
  | .setForeignDep j k b =>
    match s.deps j k with
    | some d => { s with deps := updD s.deps j k (some { d with foreign := b }) }
    | none => s

inductive Act (m : Nat) where
  | ctl (c : Choice)
  | env (e : Env m)
deriving DecidableEq, Repr

def stepWith (r : Rules) (s : Sys m) : Act m → Sys m
  | .ctl c => ctlWith r s c
  | .env e => env s e

def runWith (r : Rules) (s : Sys m) (as : List (Act m)) : Sys m := as.foldl (stepWith r) s

/-- the model of the current source text -/
def step (s : Sys m) (a : Act m) : Sys m := stepWith genRules s a

def run (s : Sys m) (as : List (Act m)) : Sys m := runWith genRules s as

def init (m : Nat) (hs : List HKind) : Sys m := { hs := hs, inp := none, deps := fun _ _ => none }

def hasFin (s : Sys m) : Bool :=
  match s.inp with
  | some i => i.ctlFin
  | none => false

/-- is sub-handler kind `h` responsible for dependent `d`, i.e. does its success say `d` is gone -/
def resp (h : HKind) (d : ADep) : Bool :=
  match h with
  | .hasNoOutputs => true
  | .removeOutputs => !d.owned

/-! ### trace inclusion: which store changes are writes of this machine (see Cosi.Props.C07Cleanup.machine_writes_ok) -/

/-- the dependents agree everywhere except possibly at (j, k) -/
def sameExceptD (hn : Nat) (f g : Nat → Fin m → Option ADep) (j : Nat) (k : Fin m) : Bool :=
  (List.range hn).all fun j' => (allFin m).all fun k' => (j' == j && k' == k) || f j' k' == g j' k'

def tdFinOn (inp : Option AIn) : Bool :=
  match inp with
  | some i => i.phase == .tearingDown && i.ctlFin
  | none => false

/-- no dependent that a sub-handler is responsible for exists -/
def cleanOn (hs : List HKind) (deps : Nat → Fin m → Option ADep) : Bool :=
  (List.range hs.length).all fun j =>
    match hs[j]? with
    | none => true
    | some h => (allFin m).all fun k =>
      match deps j k with
      | some d => !resp h d
      | none => true

/-- the change is one of the cleanup controller's writes -/
def writeOk (hs : List HKind) (inp inp' : Option AIn) (deps deps' : Nat → Fin m → Option ADep) : Bool :=
  ((List.range hs.length).all (fun j => (allFin m).all fun k => deps j k == deps' j k) &&
    match inp, inp' with
    | some i, some i' =>
      i' == { i with ctlFin := true } ||                                                       -- AddFinalizer
      (i.phase == .tearingDown && i.ctlFin && i' == { i with ctlFin := false } && cleanOn hs deps)   -- RemoveFinalizer
    | _, _ => false) ||
  (inp == inp' && tdFinOn inp &&
    (List.range hs.length).any fun j => hs[j]? == some .removeOutputs && (allFin m).any fun k =>
      sameExceptD hs.length deps deps' j k &&
      match deps j k, deps' j k with
      | some d, some d' => !d.owned && d.phase == .running && d' == { d with phase := .tearingDown }   -- Teardown
      | some d, none => !d.owned && d.phase == .tearingDown && !d.foreign                              -- Destroy
      | _, _ => false)

end Cosi.CL
