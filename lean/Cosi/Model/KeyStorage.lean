/-
  Cosi.Model.KeyStorage — M9: the master-key storage (property C20).

  Written 1:1 after
    /repo/pkg/keystorage/keystorage.go
      Initialize :47   AddKeySlot :84   GetMasterKey :120   DeleteKeySlot :128
      getKey :152      MarshalBinary :186   UnmarshalBinary :199
      verifyKeySlots :214   hashSlots :222   isZero :236   error tags :242
    /repo/api/key_storage/key_storage.proto (message Storage / KeySlot, the two enums)
    /repo/api/key_storage/key_storage_vtproto.pb.go (UnmarshalVT :297 merges into the receiver)

  Crypto (gopenpgp's EncryptBinaryMessageArmored / DecryptBinaryMessageArmored and
  HMAC-SHA256) is a *parameter* (`Crypto`); what is assumed about it is stated as
  explicit hypotheses of the theorems in `Cosi.Props.C20` (`CryptoOk`), never as
  axioms. `symCrypto` is a concrete symbolic instance used by the driver and by the
  non-vacuity examples / negative witnesses.

  The guard chains, the list of slot fields fed into the HMAC, and whether getKey
  verifies the HMAC are NOT written here: they are consumed from `Gen.KeyStorage`,
  which the fact extractor regenerates from keystorage.go on every run.

  Representation: Go keeps `map[string]*KeySlot`; the model keeps the association list
  sorted by slot id (all constructors below go through `alInsert` / `alErase` /
  `alModify`, which keep it sorted), so that "iterate the keys in `sort.Strings` order"
  (hashSlots :226-231) is "iterate the list".
-/
import Cosi.Base
import Cosi.Gen.KeyStorage

namespace Cosi.KeyStorage
open Cosi.Gen (HmacField KsGuard)

/-- bytes; the model only concatenates, measures and compares them -/
abbrev Bytes := List Nat
/-- an armored key text (public or private), abstract; `0` is the empty string -/
abbrev KeyStr := Nat
def emptyKey : KeyStr := 0
abbrev SlotId := String

/-- the external primitives. `enc pub m r`: helper.EncryptBinaryMessageArmored with
    randomness `r` (`none` = it returned an error); `dec priv c`:
    helper.DecryptBinaryMessageArmored (`none` = error); `hmac key msg`: HMAC-SHA256. -/
structure Crypto where
  enc : KeyStr → Bytes → Nat → Option Bytes
  dec : KeyStr → Bytes → Option Bytes
  hmac : Bytes → Bytes → Bytes

/-! ### the proto-level state (key_storage.proto) -/

def versionUnspecified : Nat := 0   -- STORAGE_VERSION_UNSPECIFIED
def version1 : Nat := 1             -- STORAGE_VERSION_1
def algUnknown : Nat := 0           -- Algorithm UNKNOWN
def algPGP : Nat := 1               -- PGP_AES_GCM_256

/-- message KeySlot -/
structure Slot where
  alg : Nat
  blob : Bytes
deriving DecidableEq, Repr, Inhabited

/-- `KeyStorage.underlying : key_storage.Storage` (keystorage.go:28-31); the zero value
    is the uninitialised storage. -/
structure State where
  version : Nat := 0
  slots : List (SlotId × Slot) := []
  tag : Bytes := []
deriving DecidableEq, Repr, Inhabited

/-! ### association lists sorted by slot id (the Go map) -/

def alLookup {β : Type} (k : SlotId) : List (SlotId × β) → Option β
  | [] => none
  | (k', v) :: t => if k' = k then some v else alLookup k t

/-- `m[k] = v` -/
def alInsert {β : Type} (k : SlotId) (v : β) : List (SlotId × β) → List (SlotId × β)
  | [] => [(k, v)]
  | (k', v') :: t =>
    if k < k' then (k, v) :: (k', v') :: t
    else if k = k' then (k, v) :: t
    else (k', v') :: alInsert k v t

/-- `delete(m, k)` -/
def alErase {β : Type} (k : SlotId) : List (SlotId × β) → List (SlotId × β)
  | [] => []
  | (k', v') :: t => if k' = k then alErase k t else (k', v') :: alErase k t

/-- `*m[k] = f(*m[k])` when present -/
def alModify {β : Type} (k : SlotId) (f : β → β) : List (SlotId × β) → List (SlotId × β)
  | [] => []
  | (k', v') :: t => if k' = k then (k', f v') :: alModify k f t else (k', v') :: alModify k f t

def alKeys {β : Type} (l : List (SlotId × β)) : List SlotId := l.map (·.1)

/-! ### errors (the xerrors tags, keystorage.go:242-263; `other` = untagged fmt.Errorf) -/

inductive Err where
  | other | notInitialized | alreadyInitialized | slotExists | slotNotFound
  | versionMismatch | hmacMismatch | algMismatch | decryptFail | encryptFail | lastKey
deriving DecidableEq, Repr, Inhabited

def Err.str : Err → String
  | .other => "other" | .notInitialized => "notInitialized"
  | .alreadyInitialized => "alreadyInitialized" | .slotExists => "slotExists"
  | .slotNotFound => "slotNotFound" | .versionMismatch => "versionMismatch"
  | .hmacMismatch => "hmacMismatch" | .algMismatch => "algMismatch"
  | .decryptFail => "decryptFail" | .encryptFail => "encryptFail" | .lastKey => "lastKey"

/-- isZero, keystorage.go:236-240 -/
def isZero (s : State) : Bool :=
  decide (s.version = versionUnspecified ∧ s.slots.length = 0 ∧ s.tag.length = 0)

/-! ### guards (their order comes from `Gen.KeyStorage`) -/

/-- the arguments a guard can look at -/
structure GArgs where
  mkLen : Nat := 32
  id : SlotId := ""
  key : KeyStr := emptyKey

def guardErr (s : State) (a : GArgs) : KsGuard → Option Err
  | .mkLen32 => if a.mkLen ≠ 32 then some .other else none                       -- :49
  | .emptyId => if a.id = "" then some .other else none                          -- :51 :86 :154
  | .emptyKey => if a.key = emptyKey then some .other else none                  -- :53 :88 :156
  | .alreadyInit => if isZero s then none else some .alreadyInitialized          -- :60
  | .notInit => if isZero s then some .notInitialized else none                  -- :158
  | .version => if s.version ≠ version1 then some .versionMismatch else none     -- :160
  | .slotExists => if (alLookup a.id s.slots).isSome then some .slotExists else none  -- :95
  | .noSlots => if s.slots.length = 0 then some .notInitialized else none        -- :134
  | .lastSlot => if s.slots.length = 1 then some .lastKey else none              -- :136
  | .unknown => none   -- fail closed: an unrecognised guard is no guard

/-- the first guard of the chain that fires -/
def firstFail (gs : List KsGuard) (s : State) (a : GArgs) : Option Err :=
  gs.findSome? (guardErr s a)

/-! ### the integrity tag -/

def idBytes (id : SlotId) : Bytes := id.toUTF8.toList.map (·.toNat)

/-- what one slot contributes to the HMAC input: the fields `Gen.KeyStorage.hmacFields`
    lists, in that order, with NO separator, length or id unless listed
    (hashSlots :229-231 is `hash.Write(keySlots[key].EncryptedKey)` and nothing else). -/
def slotBytes (e : SlotId × Slot) : Bytes :=
  Gen.KeyStorage.hmacFields.flatMap fun
    | .blob => e.2.blob
    | .id => idBytes e.1
    | .alg => [e.2.alg]
    | .unknown => []

/-- the HMAC input: the slots' contributions in `sort.Strings` order of the ids,
    concatenated (hashSlots :225-231). Without the sort the Go map order would make the
    tag meaningless; the model then (fail closed) covers nothing. -/
def hmacInput (slots : List (SlotId × Slot)) : Bytes :=
  if Gen.KeyStorage.hmacSortedById then slots.flatMap slotBytes else []

/-- hashSlots, keystorage.go:222-234: HMAC-SHA256 keyed with the master key -/
def hashSlots (C : Crypto) (s : State) (mk : Bytes) : Bytes := C.hmac mk (hmacInput s.slots)

/-- verifyKeySlots, keystorage.go:214-220 (ConstantTimeCompare = 0 ⇔ the byte strings differ) -/
def verifyKeySlots (C : Crypto) (s : State) (mk : Bytes) : Option Err :=
  if Gen.KeyStorage.verifyRejectsMismatch && decide (hashSlots C s mk ≠ s.tag) then some .hmacMismatch
  else none

/-! ### the API -/

/-- getKey, keystorage.go:152-183 -/
def getKey (C : Crypto) (s : State) (id : SlotId) (priv : KeyStr) : Except Err Bytes :=
  match firstFail Gen.KeyStorage.getKeyGuards s { id := id, key := priv } with
  | some e => .error e
  | none =>
    match alLookup id s.slots with
    | none => .error .slotNotFound                                                  -- :164-167
    | some slot =>
      if Gen.KeyStorage.getKeyChecksAlgorithm && decide (slot.alg ≠ algPGP) then .error .algMismatch  -- :169
      else
        match C.dec priv slot.blob with
        | none => .error .decryptFail                                               -- :173-176
        | some mk =>
          match (if Gen.KeyStorage.getKeyVerifies then verifyKeySlots C s mk else none) with  -- :178
          | some e => .error e
          | none => .ok mk

/-- GetMasterKey, keystorage.go:120-125 -/
def getMasterKey (C : Crypto) (s : State) (id : SlotId) (priv : KeyStr) : Except Err Bytes :=
  getKey C s id priv

/-- Initialize, keystorage.go:47-79 (`r` = the randomness the encryption draws; `initialize` is a Lean keyword, hence the name) -/
def initializeStorage (C : Crypto) (s : State) (mk : Bytes) (id : SlotId) (pub : KeyStr) (r : Nat) :
    Except Err State :=
  match firstFail Gen.KeyStorage.initGuards s { mkLen := mk.length, id := id, key := pub } with
  | some e => .error e
  | none =>
    match C.enc pub mk r with
    | none => .error .encryptFail                                                   -- :64-67
    | some c =>
      let s' : State := { version := version1, slots := [(id, ⟨algPGP, c⟩)], tag := s.tag }  -- :69-75
      .ok { s' with tag := hashSlots C s' mk }                                      -- :76

/-- AddKeySlot, keystorage.go:84-117 -/
def addKeySlot (C : Crypto) (s : State) (newId : SlotId) (newPub : KeyStr) (oldId : SlotId)
    (oldPriv : KeyStr) (r : Nat) : Except Err State :=
  match firstFail Gen.KeyStorage.addGuards s { id := newId, key := newPub } with
  | some e => .error e
  | none =>
    match getKey C s oldId oldPriv with                                             -- :99-102
    | .error e => .error e
    | .ok mk =>
      match C.enc newPub mk r with
      | none => .error .encryptFail                                                 -- :104-107
      | some c =>
        let s' : State := { s with slots := alInsert newId ⟨algPGP, c⟩ s.slots }    -- :109-112
        .ok { s' with tag := hashSlots C s' mk }                                    -- :114

/-- DeleteKeySlot, keystorage.go:128-150 -/
def deleteKeySlot (C : Crypto) (s : State) (id : SlotId) (priv : KeyStr) : Except Err State :=
  match firstFail Gen.KeyStorage.deleteGuards s { id := id, key := priv } with
  | some e => .error e
  | none =>
    match getKey C s id priv with                                                   -- :140-143
    | .error e => .error e
    | .ok mk =>
      let s' : State := { s with slots := alErase id s.slots }                      -- :145
      .ok { s' with tag := hashSlots C s' mk }                                      -- :147

/-! ### serialisation, at the level of the proto fields -/

/-- message Storage as it travels: the map entries are a list (wire order; a repeated
    key overwrites, as in any proto map) -/
structure Proto where
  storageVersion : Nat := 0
  keySlots : List (SlotId × Slot) := []
  keysHmacHash : Bytes := []
deriving DecidableEq, Repr, Inhabited

/-- MarshalBinary, keystorage.go:186-196 (MarshalVT of `underlying`) -/
def marshal (s : State) : Proto := { storageVersion := s.version, keySlots := s.slots, keysHmacHash := s.tag }

/-- UnmarshalBinary, keystorage.go:199-212. UnmarshalVT does not reset the receiver:
    scalar/bytes fields present on the wire (proto3: non-default) overwrite, map entries
    are stored into the existing map; the version check comes AFTER the fields are
    stored, so a refused load still leaves the loaded fields behind. -/
def unmarshalInto (s : State) (p : Proto) : State × Option Err :=
  let s' : State :=
    { version := if p.storageVersion ≠ 0 then p.storageVersion else s.version
      slots := p.keySlots.foldl (fun acc e => alInsert e.1 e.2 acc) s.slots
      tag := if p.keysHmacHash ≠ [] then p.keysHmacHash else s.tag }
  (s', if s'.version ≠ version1 then some .versionMismatch else none)

/-- `var ks KeyStorage; ks.UnmarshalBinary(data)` -/
def unmarshal (p : Proto) : State × Option Err := unmarshalInto {} p

/-! ### tampering behind the API (edits of the serialized form) -/

inductive Tamper where
  | alterBlob (id : SlotId) (b : Bytes)          -- replace the encrypted blob of a stored slot
  | alterTag (t : Bytes)                         -- replace keys_hmac_hash
  | addSlot (id : SlotId) (alg : Nat) (b : Bytes)  -- add a map entry
  | removeSlot (id : SlotId)                     -- drop a map entry
  | renameSlot (src dst : SlotId)                -- change the key of a map entry
  | alterAlg (id : SlotId) (alg : Nat)           -- change a slot's algorithm field
  | alterVersion (v : Nat)                       -- change storage_version
deriving DecidableEq, Repr

def tamper (s : State) : Tamper → State
  | .alterBlob id b => { s with slots := alModify id (fun sl => { sl with blob := b }) s.slots }
  | .alterTag t => { s with tag := t }
  | .addSlot id alg b => { s with slots := alInsert id ⟨alg, b⟩ s.slots }
  | .removeSlot id => { s with slots := alErase id s.slots }
  | .renameSlot src dst =>
    match alLookup src s.slots with
    | none => s
    | some sl => { s with slots := alInsert dst sl (alErase src s.slots) }
  | .alterAlg id alg => { s with slots := alModify id (fun sl => { sl with alg := alg }) s.slots }
  | .alterVersion v => { s with version := v }

/-! ### operation sequences -/

inductive Op where
  | init (mk : Bytes) (id : SlotId) (pub : KeyStr) (r : Nat)
  | add (newId : SlotId) (newPub : KeyStr) (oldId : SlotId) (oldPriv : KeyStr) (r : Nat)
  | delete (id : SlotId) (priv : KeyStr)
  | get (id : SlotId) (priv : KeyStr)
  | reload    -- MarshalBinary, then UnmarshalBinary into a fresh KeyStorage
deriving DecidableEq, Repr

inductive Out where
  | ok
  | key (mk : Bytes)
  | err (e : Err)
deriving DecidableEq, Repr

def Out.isErr : Out → Bool
  | .err _ => true
  | _ => false

def stOut (s : State) : Except Err State → State × Out
  | .ok s' => (s', .ok)
  | .error e => (s, .err e)

def step (C : Crypto) (s : State) : Op → State × Out
  | .init mk id pub r => stOut s (initializeStorage C s mk id pub r)
  | .add n np o op r => stOut s (addKeySlot C s n np o op r)
  | .delete id priv => stOut s (deleteKeySlot C s id priv)
  | .get id priv =>
    match getMasterKey C s id priv with
    | .ok mk => (s, .key mk)
    | .error e => (s, .err e)
  | .reload =>
    match unmarshal (marshal s) with
    | (s', none) => (s', .ok)
    | (s', some e) => (s', .err e)

def run (C : Crypto) (s : State) : List Op → State × List Out
  | [] => (s, [])
  | op :: ops =>
    let (s1, o) := step C s op
    let (s2, os) := run C s1 ops
    (s2, o :: os)

/-- the state after a sequence of operations -/
def exec (C : Crypto) (s : State) (ops : List Op) : State := (run C s ops).1

/-! ### a concrete symbolic instance (driver, examples, negative witnesses)

  Key texts: `0` = "", `1` = a non-empty text that is no key, `2k` = the armored public
  key of pair `k ≥ 1`, `2k+1` = the armored private key of pair `k` (which gopenpgp also
  accepts as an encryption key — the repo's own tests do that). A ciphertext names
  its recipient, its randomness and the plaintext; the MAC names key and message. -/

def symKeyId (n : Nat) (ks : KeyStr) : Option Nat :=
  if 2 ≤ ks ∧ ks ≤ 2 * n + 1 then some (ks / 2) else none

/-- `n` key pairs exist: texts `2 .. 2n+1`; every other text is not a key -/
def symCrypto (n : Nat) : Crypto where
  enc := fun pub m r => (symKeyId n pub).map fun k => 1 :: k :: r :: m
  dec := fun priv c =>
    match c with
    | 1 :: k :: _ :: m => if 1 ≤ k ∧ k ≤ n ∧ priv = 2 * k + 1 then some m else none
    | _ => none
  hmac := fun k a => 2 :: k.length :: (k ++ a)

/-- the (encryption key text, decryption key text) pairs of `symCrypto` for pairs 1..n -/
def symPairs : Nat → List (KeyStr × KeyStr)
  | 0 => []
  | n + 1 => symPairs n ++ [(2 * (n + 1), 2 * (n + 1) + 1), (2 * (n + 1) + 1, 2 * (n + 1) + 1)]

end Cosi.KeyStorage
