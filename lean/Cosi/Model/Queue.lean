/-
  Cosi.Model.Queue — M5: the per-controller reconcile queue, the per-key error
  backoff and the outcome handling of the q-runtime worker (C09, C16).

  Written 1:1 after
    /repo/pkg/controller/runtime/internal/qruntime/internal/queue/queue.go
        (Run :53 — one `select` arm = one `Step`; Item.Release :187, Item.Requeue :192)
    /repo/pkg/controller/runtime/internal/qruntime/internal/containers/priority_queue.go
        (Push :36, Peek :77, Pop :94)
    /repo/pkg/controller/runtime/internal/qruntime/internal/containers/slice_set.go
        (Add :17, Contains :28, Remove :33)
    /repo/pkg/controller/runtime/internal/qruntime/internal/timer/resettable.go
        (only decides WHEN the loop re-peeks; it never changes queue state)
    /repo/pkg/controller/runtime/internal/qruntime/backoff.go   (getBackoffInterval :13, clearBackoff :27)
    /repo/pkg/controller/runtime/internal/qruntime/qruntime.go  (runReconcile :236, runOnce :349)
    github.com/cenkalti/backoff/v4 exponential.go (NewExponentialBackOff, NextBackOff,
        incrementCurrentInterval, getRandomValueFromInterval) — version pinned by /repo/go.mod

  Time is a natural number (the engine `queue` counts virtual milliseconds since the
  start of the synctest bubble, the backoff part counts nanoseconds like time.Duration).
  Keys and values are natural numbers (Go: any comparable K, any V).

  The `overwriteValue` arguments of the three `pqueue.Push` calls of queue.Run, the way
  the per-key backoff is constructed and the cenkalti default constants are NOT written
  here: they come from `Cosi.Gen.Queue`, regenerated from the source on every run.
-/
import Cosi.Base
import Cosi.Gen.Queue

namespace Cosi.Queue

/-! ### containers.PriorityQueue -/

/-- `itemWithBackoff` (priority_queue.go:14); `due` is `ReleaseAfter`. -/
structure Entry where
  key : Nat
  val : Nat
  due : Nat
deriving DecidableEq, Repr, Inhabited

abbrev PQ := List Entry

namespace PQ

def keys (pq : PQ) : List Nat := pq.map Entry.key

/-- `slices.IndexFunc(items, Key == key)` + `items[idx]` (priority_queue.go:37): first match. -/
def lookup (k : Nat) : PQ → Option Entry
  | [] => none
  | x :: xs => if x.key = k then some x else lookup k xs

/-- `queue.items[idx].Value = value` (priority_queue.go:44), idx = first match. -/
def setVal (k v : Nat) : PQ → PQ
  | [] => []
  | x :: xs => if x.key = k then { x with val := v } :: xs else x :: setVal k v xs

/-- `slices.Delete(queue.items, idx, idx+1)` (priority_queue.go:53), idx = first match. -/
def del (k : Nat) : PQ → PQ
  | [] => []
  | x :: xs => if x.key = k then xs else x :: del k xs

/-- `slices.BinarySearchFunc` with a comparison that answers "less" on equal
    `ReleaseAfter` + `slices.Insert` (priority_queue.go:57–68): the new entry goes in
    front of the first entry whose `ReleaseAfter` is strictly later, i.e. behind all
    entries with the same time (FIFO among equals). On a sorted slice — and the slice
    is always sorted, `C09.inv_run` — binary search finds exactly that index. -/
def ins (e : Entry) : PQ → PQ
  | [] => [e]
  | x :: xs => if x.due ≤ e.due then x :: ins e xs else e :: x :: xs

/-- `PriorityQueue.Push` (priority_queue.go:36). Returns the new queue and whether the
    key was added (`true`) or an existing entry was updated / skipped (`false`).
    Quirk transcribed as is: when the key exists and the new time is not later, the entry
    is re-inserted with the pushed `value` even if `overwriteValue` is false. -/
def push (pq : PQ) (k v t : Nat) (overwriteValue : Bool) : PQ × Bool :=
  match lookup k pq with
  | some e =>
    let pq1 := if overwriteValue then setVal k v pq else pq
    if Gen.Queue.pqPushKeepsIfLater && decide (t > e.due) then (pq1, false)
    else (ins ⟨k, v, t⟩ (del k pq1), false)
  | none => (ins ⟨k, v, t⟩ pq, true)

/-- `PriorityQueue.Peek` (priority_queue.go:77): the head if it is due at `now`. -/
def peek (pq : PQ) (now : Nat) : Option Entry :=
  match pq with
  | [] => none
  | x :: _ => if Gen.Queue.pqPeekDueLE && decide (x.due ≤ now) then some x else none

/-- the `nextDelay` result of `Peek`: what the loop's timer is reset to (0 = no timer). -/
def peekDelay (pq : PQ) (now : Nat) : Nat :=
  match pq with
  | [] => 0
  | x :: _ => x.due - now

/-- `PriorityQueue.Pop` (priority_queue.go:94). -/
def pop (pq : PQ) : PQ := pq.tail

end PQ

/-! ### containers.SliceSet -/

/-- `SliceSet.Add` (slice_set.go:17). -/
def ssAdd (s : List Nat) (k : Nat) : List Nat := if k ∈ s then s else s ++ [k]

/-- `SliceSet.Remove` (slice_set.go:33): deletes the first occurrence. -/
def ssRemove (s : List Nat) (k : Nat) : List Nat := s.erase k

/-! ### `onHoldQueue map[K]V` as an association list -/

def amLookup (k : Nat) : List (Nat × Nat) → Option Nat
  | [] => none
  | (k', v) :: xs => if k' = k then some v else amLookup k xs

/-- `m[k] = v` -/
def amSet (k v : Nat) : List (Nat × Nat) → List (Nat × Nat)
  | [] => [(k, v)]
  | (k', v') :: xs => if k' = k then (k, v) :: xs else (k', v') :: amSet k v xs

/-- `delete(m, k)` -/
def amDel (k : Nat) : List (Nat × Nat) → List (Nat × Nat)
  | [] => []
  | (k', v') :: xs => if k' = k then xs else (k', v') :: amDel k xs

def amKeys (m : List (Nat × Nat)) : List Nat := m.map Prod.fst

/-! ### queue.Run — the event loop -/

/-- The loop-local state of `Queue.Run` (queue.go:56–61) plus `queue.length` and the clock. -/
structure Q where
  pq : PQ := []
  onHold : List Nat := []
  ohq : List (Nat × Nat) := []      -- onHoldQueue
  length : Int := 0                  -- queue.length (atomic.Int64), what Len() reports
  now : Nat := 0
deriving Repr, Inhabited

def init : Q := {}

/-- One event the loop can take. `release k` is the message `Item.Release()` sends
    (ReleaseAfter zero), `requeue k v t` the one `Item.Requeue(t)` sends; `get` is a worker
    receiving from `Get()`; `tick` is the clock (the timer arm itself changes nothing). -/
inductive Step where
  | put (k v : Nat)
  | get
  | release (k : Nat)
  | requeue (k v t : Nat)
  | tick (d : Nat)
deriving DecidableEq, Repr, Inhabited

/-- put arm, key on hold (queue.go:115-116): `onHoldQueue[key] = value` — the latest value is parked
    (`Gen.Queue.onHoldPutKeepsLatest`; otherwise: only when nothing is parked yet) -/
def parkValue (k v : Nat) (ohq : List (Nat × Nat)) : List (Nat × Nat) :=
  if Gen.Queue.onHoldPutKeepsLatest || (amLookup k ohq).isNone then amSet k v ohq else ohq

/-- `case item := <-queue.putCh` (queue.go:111). -/
def doPut (s : Q) (k v : Nat) : Q :=
  if k ∈ s.onHold then
    { s with ohq := parkValue k v s.ohq,
             length := if (amLookup k s.ohq).isSome then s.length else s.length + 1 }
  else
    let r := s.pq.push k v s.now Gen.Queue.putOverwrite
    { s with pq := r.1, length := if r.2 then s.length + 1 else s.length }

/-- `case getCh <- topOfQueueReleaser` (queue.go:81): enabled only when `Peek(now)` has an item. -/
def doGet (s : Q) : Q × Option (Nat × Nat) :=
  match s.pq.peek s.now with
  | some e => ({ s with onHold := ssAdd s.onHold e.key, pq := s.pq.pop, length := s.length - 1 },
               some (e.key, e.val))
  | none => (s, none)

/-- first half of `case released := <-queue.releaseCh` (queue.go:94–101) -/
def doRequeuePart (s : Q) (k v : Nat) (after : Option Nat) : Q :=
  let s1 := { s with onHold := ssRemove s.onHold k }
  match after with
  | some t =>
    let r := s1.pq.push k v t Gen.Queue.requeueOverwrite
    { s1 with pq := r.1, length := if r.2 then s1.length + 1 else s1.length }
  | none => s1

/-- second half (queue.go:103–110): a value parked while the key was on hold is pushed now. -/
def doUnpark (s : Q) (k : Nat) : Q :=
  match amLookup k s.ohq with
  | some hv =>
    if Gen.Queue.onHoldRepush then
      let r := s.pq.push k hv s.now Gen.Queue.onHoldOverwrite
      { s with ohq := amDel k s.ohq, pq := r.1, length := if r.2 then s.length else s.length - 1 }
    else s
  | none => s

/-- `case released := <-queue.releaseCh` (queue.go:89). -/
def doReleased (s : Q) (k v : Nat) (after : Option Nat) : Q :=
  doUnpark (doRequeuePart s k v after) k

def step (s : Q) : Step → Q × Option (Nat × Nat)
  | .put k v => (doPut s k v, none)
  | .get => doGet s
  | .release k => (doReleased s k 0 none, none)
  | .requeue k v t => (doReleased s k v (some t), none)
  | .tick d => ({ s with now := s.now + d }, none)

def run (s : Q) : List Step → Q
  | [] => s
  | st :: rest => run (step s st).1 rest

/-- What a `get` would hand out in state `s`. -/
def delivers (s : Q) : Option (Nat × Nat) := (step s .get).2

/-- Domain of the queue API: a release message for `k` is only ever sent by the holder
    of an un-released `Item` for `k` (`Item.released` guard, queue.go:193), i.e. while `k`
    is on hold. `W.compile_valid` proves that every worker-level schedule satisfies it. -/
def validFrom (s : Q) : List Step → Bool
  | [] => true
  | st :: rest =>
    (match st with
     | .release k => decide (k ∈ s.onHold)
     | .requeue k _ _ => decide (k ∈ s.onHold)
     | _ => true) && validFrom (step s st).1 rest

/-! ### workers holding `Item`s (queue.go:167–207) -/

/-- `queue.Item`: key, value and the `released` flag. -/
structure Item where
  key : Nat
  val : Nat
  released : Bool := false
deriving DecidableEq, Repr, Inhabited

/-- queue + the item each worker currently holds (at most one variable per worker;
    a worker that receives again simply forgets its previous item). -/
structure W where
  q : Q := {}
  held : List (Nat × Item) := []
deriving Repr, Inhabited

inductive WStep where
  | put (k v : Nat)
  | get (w : Nat)
  | release (w : Nat)
  | requeue (w t : Nat)
  | tick (d : Nat)
deriving DecidableEq, Repr, Inhabited

def heldBy (w : Nat) : List (Nat × Item) → Option Item
  | [] => none
  | (w', it) :: xs => if w' = w then some it else heldBy w xs

def setHeld (w : Nat) (it : Item) : List (Nat × Item) → List (Nat × Item)
  | [] => [(w, it)]
  | (w', it') :: xs => if w' = w then (w, it) :: xs else (w', it') :: setHeld w it xs

/-- the core step a worker-level step turns into (none = nothing reaches the loop) -/
def toCore (s : W) : WStep → Option Step
  | .put k v => some (.put k v)
  | .get _ => some .get
  | .release w =>
    match heldBy w s.held with
    | some it => if it.released then none else some (.release it.key)
    | none => none
  | .requeue w t =>
    match heldBy w s.held with
    | some it => if it.released then none else some (.requeue it.key it.val t)
    | none => none
  | .tick d => some (.tick d)

def wstep (s : W) (st : WStep) : W :=
  match toCore s st with
  | none => s
  | some c =>
    let r := step s.q c
    match st with
    | .get w =>
      (match r.2 with
       | some (k, v) => { q := r.1, held := setHeld w ⟨k, v, false⟩ s.held }
       | none => { s with q := r.1 })
    | .release w | .requeue w _ =>
      (match heldBy w s.held with
       | some it => { q := r.1, held := setHeld w { it with released := true } s.held }
       | none => { s with q := r.1 })
    | _ => { s with q := r.1 }

def wrun (s : W) : List WStep → W
  | [] => s
  | st :: rest => wrun (wstep s st) rest

/-- the core schedule a worker-level schedule induces -/
def compile (s : W) : List WStep → List Step
  | [] => []
  | st :: rest =>
    (match toCore s st with
     | some c => [c]
     | none => []) ++ compile (wstep s st) rest

/-! ### per-key backoff (backoff.go + cenkalti ExponentialBackOff) -/

namespace Backoff

open Gen.Queue in
/-- `incrementCurrentInterval`: `if float64(cur) >= float64(Max)/Multiplier then Max else
    Duration(float64(cur)*Multiplier)`. With Multiplier = num/den the comparison is
    `cur*num ≥ Max*den` and the conversion truncates; both float operations are exact for
    the default constants (all values < 2^53, 60e9/1.5 = 40e9). -/
def incr (cur : Nat) : Nat :=
  if cur * multiplierNum ≥ maxIntervalNs * multiplierDen then maxIntervalNs
  else cur * multiplierNum / multiplierDen

open Gen.Queue in
/-- `getRandomValueFromInterval` for `random ∈ [0,1)`: the result is
    `⌊min + random·(max−min+1)⌋` with `min = cur − rf·cur`, `max = cur + rf·cur`; we model
    the bounds only: `lo = ⌊min⌋`, `hi = ⌊max⌋ + 1` (the +1 covers an odd `cur` and the
    float rounding of `random` close to 1). -/
def bounds (cur : Nat) : Nat × Nat :=
  let delta := cur * randomizationNum / randomizationDen
  (cur - (cur * randomizationNum + randomizationDen - 1) / randomizationDen, cur + delta + 1)

/-- `currentInterval` after `Reset()`: `InitialInterval`. -/
def initial : Nat := Gen.Queue.initialIntervalNs

/-- base interval before the (n+1)-th consecutive failure -/
def base : Nat → Nat
  | 0 => initial
  | n + 1 => incr (base n)

/-- `adapter.backoffs map[QKey]*ExponentialBackOff`: key ↦ currentInterval. -/
abbrev Map := List (Nat × Nat)

/-- `getBackoffInterval` (backoff.go:13): create on demand with
    `NewExponentialBackOff(); MaxElapsedTime = 0` (never stops), then `NextBackOff()`:
    the random value is drawn around the CURRENT interval, then the interval grows.
    Returns the bounds of the drawn value. If the regenerated facts say the constructor is
    not the default one or MaxElapsedTime is not cleared, nothing is known: bounds (0,0). -/
def getInterval (m : Map) (k : Nat) : Map × (Nat × Nat) :=
  let cur := (amLookup k m).getD initial
  if Gen.Queue.backoffDefaultCtor && Gen.Queue.backoffMaxElapsedZero then
    (amSet k (incr cur) m, bounds cur)
  else (m, (0, 0))

/-- `clearBackoff` (backoff.go:27). -/
def clear (m : Map) (k : Nat) : Map :=
  if Gen.Queue.clearDeletes then amDel k m else m

end Backoff

/-! ### qruntime.runReconcile: outcome ↦ release / requeue, backoff bookkeeping -/

/-- what `runOnce` returned, as `runReconcile` classifies it (qruntime.go:273–279):
    * `requeue = some i`: the error is a `*controller.RequeueError` with `Interval() = i`;
    * `err`: the (unwrapped) error is nil / carries `SkipReconcileTag` / anything else.
    A panic is recovered in `runOnce` (:356) into a plain error; `context.Canceled` is
    turned into nil there (:351), dropping a `RequeueError` that wraps it. -/
inductive ErrKind where
  | none | skip | fail
deriving DecidableEq, Repr, Inhabited

structure Outcome where
  requeue : Option Nat := none
  err : ErrKind := .none
deriving DecidableEq, Repr, Inhabited

def Outcome.ok : Outcome := {}
def Outcome.error : Outcome := { err := .fail }
def Outcome.panic : Outcome := { err := .fail }
def Outcome.skip : Outcome := { err := .skip }
def Outcome.requeueOnly (i : Nat) : Outcome := { requeue := some i }
def Outcome.requeueErr (i : Nat) : Outcome := { requeue := some i, err := .fail }

/-- what the worker does with the item: `Release()` (deferred, :251) or
    `Requeue(now + d)` with `lo ≤ d ≤ hi` (:333). -/
inductive Decision where
  | release
  | requeueIn (lo hi : Nat)
deriving DecidableEq, Repr, Inhabited

/-- the decision points of runReconcile's outcome handling that are NOT written here: parameters of
    `decisionWith`, instantiated by `genRules` from the regenerated facts of `Cosi.Gen.Queue`. -/
structure Rules where
  /-- `case reconcileError != nil`: is the requeue interval taken from the per-item error backoff?
      Arguments: the error was a `*controller.RequeueError` (`requeued`), the interval it carried
      (0 when it was not one). -/
  failBackoff : Bool → Nat → Bool

/-- the rule the code is meant to implement (qruntime.go:309): a failure that brings no interval of
    its own is retried after the error backoff; an explicit RequeueError interval overrides it -/
def goodRules : Rules := { failBackoff := fun _ interval => interval == 0 }

/-- the rule of the CURRENT source text. Unrecognised shape ⇒ the worst rule: the error backoff is
    never consulted, a failure without interval is simply released. -/
def genRules : Rules :=
  { failBackoff := fun requeued interval =>
      match Gen.Queue.outcomeSwitchKnown, Gen.Queue.failBackoffGuard with
      | true, .intervalZero => interval == 0
      | true, .notRequeued => !requeued
      | true, .always => true
      | _, _ => false }

/-- the `switch` of runReconcile (:298–334) followed by `if interval != 0 { item.Requeue(now + interval) }`
    (:332); otherwise the deferred `item.Release()` (:251) is all that happens to the item -/
def decisionWith (r : Rules) (m : Backoff.Map) (k : Nat) (o : Outcome) : Backoff.Map × Decision :=
  let interval := o.requeue.getD 0
  match o.err with
  | .skip => (Backoff.clear m k, if interval ≠ 0 then .requeueIn interval interval else .release)
  | .fail =>
    if r.failBackoff o.requeue.isSome interval then
      let g := Backoff.getInterval m k
      (g.1, if g.2.2 ≠ 0 then .requeueIn g.2.1 g.2.2 else .release)
    else (m, if interval ≠ 0 then .requeueIn interval interval else .release)
  | .none => (Backoff.clear m k, if interval ≠ 0 then .requeueIn interval interval else .release)

/-- the model of the current source text -/
def decision (m : Backoff.Map) (k : Nat) (o : Outcome) : Backoff.Map × Decision :=
  decisionWith genRules m k o

/-- what the worker sends to the queue loop for the item it holds (key `k`, value `v`) at time `now`,
    the randomised delay being `d` (any value of the decision's window): `Item.Requeue(now + d)` or,
    through the deferred `Item.Release()`, a plain release -/
def Decision.toStep (dec : Decision) (k v now d : Nat) : Step :=
  match dec with
  | .release => .release k
  | .requeueIn _ _ => .requeue k v (now + d)

/-- the backoff map after a history of (key, outcome) reconciles -/
def runOutcomes (m : Backoff.Map) : List (Nat × Outcome) → Backoff.Map
  | [] => m
  | (k, o) :: rest => runOutcomes (decision m k o).1 rest

end Cosi.Queue
