/-
  Cosi.Model.Pipeline — M7: how a committed change travels from the state to the
  controllers of the runtime (/repo/pkg/controller/runtime/runtime.go):

    collection log ──WatchKindAggregated──▶ watchCh (cap `watchBuffer`)      setupWatches :226 / watch :241
        ──deduplicateWatchEvents──▶ dedup map (last value per key wins)       processEvents :305, :357
        ──deliverDeduplicatedEvents──▶ takeOne, GetDependentControllers,
                                        adapter.WatchTrigger                  :423
    rruntime.WatchTrigger (rruntime/watch.go:41): per-(namespace,type) watch filter, then a
        NON-BLOCKING send on the capacity-1 EventCh (`triggerReconcile`)
    controller: takes the event, then reads its inputs.

  The model keeps only what matters for wake-ups: keys, versions and the
  destroy-ready bit of each value. `needs`/`passes` abstract one controller's input
  declarations and trigger rule; `Cosi.Model.Pipeline.Decl` below derives them from
  declarations exactly as rruntime.UpdateInputs / WatchTrigger do (filter keyed by
  (namespace,type) only).
-/
import Cosi.Base
import Cosi.Gen.Pipeline

namespace Cosi.Pipeline

abbrev Key := Nat

/-- what a watch event carries after reduction (reduced.go): enough for the filters -/
structure Val where
  ver : Nat
  dr : Bool        -- tearing down with no finalizers (FilterDestroyReady)
deriving DecidableEq, Repr, Inhabited

/-- what the property demands of a controller for a key -/
inductive Need where
  | none       -- not an input
  | always     -- weak / strong input: observe every change
  | whenDR     -- destroy-ready input only: observe it whenever it is destroy-ready
deriving DecidableEq, Repr, Inhabited

structure Ctl where
  needs : Key → Need
  passes : Key → Val → Bool       -- the adapter's trigger rule (watch filter)
  trigger : Bool := false         -- EventCh (capacity 1) holds an event
  reading : Bool := false         -- took the event, reconcile in progress
  observed : Key → Nat := fun _ => 0   -- version seen by its last read

abbrev Entry := Key × Val

structure PSys where
  cur : Key → Val
  logSuffix : List Entry := []        -- committed, not yet fetched by the runtime's watchers
  watchCh : List (List Entry) := []   -- batches in the runtime's watch channel
  dedup : List Entry := []            -- the dedup map, in insertion order, one entry per key
  ctls : List Ctl := []

/-- `m[k] = v` on the dedup map: last value wins -/
def upd (d : List Entry) (e : Entry) : List Entry := d.filter (·.1 ≠ e.1) ++ [e]

inductive Step where
  | write (k : Key) (dr : Bool)     -- a committed change of k (version + 1)
  | fetch (n : Nat)                 -- a watcher goroutine hands the next n events to watchCh as one batch
  | dedup                           -- deduplicateWatchEvents consumes one batch
  | deliver (k : Key)               -- deliverDeduplicatedEvents takes k out of the map and triggers dependents
  | take (c : Nat)                  -- controller c takes its reconcile event
  | read (c : Nat)                  -- controller c reads its inputs (reconcile)

def setCtl (l : List Ctl) (i : Nat) (f : Ctl → Ctl) : List Ctl :=
  match l[i]? with
  | some c => l.set i (f c)
  | none => l

def step (s : PSys) : Step → PSys
  | .write k dr =>
    let v : Val := { ver := (s.cur k).ver + 1, dr := dr }
    { s with cur := fun k' => if k' = k then v else s.cur k', logSuffix := s.logSuffix ++ [(k, v)] }
  | .fetch n =>
    if n = 0 ∨ s.logSuffix = [] then s
    else { s with watchCh := s.watchCh ++ [s.logSuffix.take n], logSuffix := s.logSuffix.drop n }
  | .dedup =>
    match s.watchCh with
    | [] => s
    | b :: bs => { s with watchCh := bs, dedup := b.foldl upd s.dedup }
  | .deliver k =>
    match s.dedup.find? (·.1 = k) with
    | none => s
    | some (_, v) =>
      { s with dedup := s.dedup.filter (·.1 ≠ k),
               ctls := s.ctls.map fun c =>
                 if c.needs k ≠ .none ∧ c.passes k v then { c with trigger := true } else c }
  | .take c =>
    setCtl' s c fun x => if x.trigger ∧ ¬ x.reading then { x with trigger := false, reading := true } else x
  | .read c =>
    setCtl' s c fun x => if x.reading then { x with reading := false, observed := fun k => (s.cur k).ver } else x
where
  setCtl' (s : PSys) (i : Nat) (f : Ctl → Ctl) : PSys := { s with ctls := setCtl s.ctls i f }

def run (s : PSys) (xs : List Step) : PSys := xs.foldl step s

/-- everything in flight between the state and the controllers, oldest first -/
def flight (s : PSys) : List Entry := s.dedup ++ s.watchCh.flatten ++ s.logSuffix

/-- the newest in-flight entry of a key -/
def lastOf (k : Key) (l : List Entry) : Option Val := ((l.filter (·.1 = k)).getLast?).map (·.2)

/-! ### from input declarations to `needs` / `passes` (rruntime) -/

inductive InKind where
  | weak | strong | destroyReady
deriving DecidableEq, Repr

/-- a declared input: kind group (namespace,type) `g`, optional id, input kind -/
structure Decl where
  g : Nat
  id : Option Nat
  kind : InKind
deriving DecidableEq, Repr

/-- keys are (group, id) pairs, encoded by the harness-independent functions below -/
structure KeyMap where
  group : Key → Nat
  ident : Key → Nat

def Decl.matchesKey (km : KeyMap) (d : Decl) (k : Key) : Bool :=
  d.g == km.group k && (match d.id with
    | none => true
    | some i => i == km.ident k)

/-- what the property demands, from the declarations -/
def needsOf (km : KeyMap) (ds : List Decl) (k : Key) : Need :=
  let ms := ds.filter (·.matchesKey km k)
  if ms.isEmpty then .none
  else if ms.any (·.kind != .destroyReady) then .always
  else .whenDR

/-- the rule of the tree before the D5 fix: `addWatchFilter(ns, typ, FilterDestroyReady)` for
    every DestroyReady input — keyed by the kind group only -/
def passesPerGroup (km : KeyMap) (ds : List Decl) (k : Key) (v : Val) : Bool :=
  if ds.any (fun d => d.kind == .destroyReady && d.g == km.group k) then v.dr else true

/-- rruntime/watch.go WatchTrigger: the event is dropped only if every input matching the
    resource is a DestroyReady input and the resource is not destroy-ready -/
def passesPerInput (km : KeyMap) (ds : List Decl) (k : Key) (v : Val) : Bool :=
  let ms := ds.filter (·.matchesKey km k)
  if ms.isEmpty then true else ms.any fun d => d.kind != .destroyReady || v.dr

/-- what rruntime does, by the regenerated shape of WatchTrigger -/
def passesOf (km : KeyMap) (ds : List Decl) (k : Key) (v : Val) : Bool :=
  match Gen.Pipeline.filterRule with
  | .perInput => passesPerInput km ds k v
  | .perGroup => passesPerGroup km ds k v
  | .unknown => false

/-- declarations for which the per-group filter is harmless: a group with a
    destroy-ready input has no input of another kind -/
def filtersConsistent (ds : List Decl) : Bool :=
  ds.all fun d => d.kind == .destroyReady || !(ds.any fun d' => d'.kind == .destroyReady && d'.g == d.g)

end Cosi.Pipeline
