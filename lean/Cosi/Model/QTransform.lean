/-
  Cosi.Model.QTransform — the QTransform controller
  (/repo/pkg/controller/generic/qtransform/qtransform.go: Reconcile :139, reconcileRunning :192,
  handleOutputTearingDown :244, reconcileTearingDown :275) for one input/output pair, as a
  machine whose atomic actions are the controller's reads and its helper calls.

  Granularity. Every helper call (AddFinalizer, RemoveFinalizer, Teardown, Modify) is ONE
  atomic action here. That is justified by C04 (`success_applied_once`, `error_no_effect`):
  whatever the interleaving of a helper's own Get/Update steps with other writers, its
  single committed write is its mutator applied to the value stored immediately before,
  and an erroring helper writes nothing — so on the totally ordered write log a helper is
  exactly one step. Get and Destroy are single store operations anyway.

  Abstraction. A pair keeps what the lifecycle depends on: phases, whether the
  controller's finalizer / any foreign finalizer is present, and whether the output
  carries the transform of the input's CURRENT spec (`fresh`). The environment (`Env`) is
  every external actor allowed by C07's `EnvOk`: it never removes the controller's finalizer
  and never creates/tears down/destroys the controller's output.
-/
import Cosi.Base
import Cosi.Gen.Ctrl

namespace Cosi.QT

inductive Ph where
  | running | tearingDown
deriving DecidableEq, Repr, Inhabited

structure AIn where
  phase : Ph
  ctlFin : Bool      -- the controller's finalizer is on the input
  foreign : Bool     -- some other finalizer is on the input
deriving DecidableEq, Repr, Inhabited

structure AOut where
  phase : Ph
  foreign : Bool     -- a foreign finalizer holds the output
  fresh : Bool       -- content = transform of the input's current spec
deriving DecidableEq, Repr, Inhabited

structure Pair where
  inp : Option AIn
  out : Option AOut
deriving DecidableEq, Repr, Inhabited

/-- the controller's program counter; `i` is the input as read at the start of the reconcile -/
inductive Pc where
  | idle
  | gotIn (i : AIn)
  | needOut (i : AIn)
  | destroyStale (i : AIn)
  | modify (i : AIn)
  | tdTeardown (i : AIn)
  | tdDestroy (i : AIn)
  | tdRelease (i : AIn)
deriving DecidableEq, Repr, Inhabited

/-- how the last reconcile ended -/
inductive Outcome where
  | ok | pending | error
deriving DecidableEq, Repr, Inhabited

structure Sys where
  p : Pair
  pc : Pc := .idle
  last : Outcome := .ok
  ignoreTeardown : Bool := false     -- WithIgnoreTeardownUntil(): keep going while others hold finalizers
  -- ghost: the controller destroyed an output that was not tearing down, or created an
  -- output while its finalizer was not on the input
  badDestroy : Bool := false
  -- the input's spec changed after this reconcile read it: what Modify writes is already stale
  readStale : Bool := false
deriving DecidableEq, Repr, Inhabited

/-- does reconcileRunning add the finalizer for this input (regenerated condition) -/
def addsFin (i : AIn) : Bool :=
  match Gen.Ctrl.addFinalizer with
  | .whenMissing => !i.ctlFin
  | .whenMissingAndRunning => !i.ctlFin && i.phase == .running
  | .unknown => false

/-- Reconcile's phase switch: a tearing-down input is treated as running while a foreign
    finalizer is present, when the ignore-teardown option is set (qtransform.go:156-183) -/
def treatRunning (s : Sys) (i : AIn) : Bool :=
  i.phase == .running || (s.ignoreTeardown && i.foreign)

/-- one atomic action of the controller -/
def ctl (s : Sys) : Sys :=
  match s.pc with
  | .idle =>
    match s.p.inp with
    | none => { s with last := .ok }                      -- input not found: nothing to do
    | some i => { s with pc := .gotIn i, readStale := false }
  | .gotIn i =>
    if treatRunning s i then
      if addsFin i then
        match s.p.inp with                                  -- AddFinalizer on the then-current input
        | none => { s with pc := .idle, last := .error }
        | some cur => { s with p := { s.p with inp := some { cur with ctlFin := true } }, pc := .needOut i }
      else { s with pc := .needOut i }
    else { s with pc := .tdTeardown i }
  | .needOut i =>
    match s.p.out with
    | some o =>
      if o.phase == .tearingDown then
        if o.foreign then { s with pc := .idle, last := .pending } else { s with pc := .destroyStale i }
      else { s with pc := .modify i }
    | none => { s with pc := .modify i }
  | .destroyStale i =>
    match s.p.out with                                      -- Destroy: needs an empty finalizer set
    | some o =>
      if o.foreign then { s with pc := .idle, last := .error }
      else { s with p := { s.p with out := none }, pc := .modify i,
                    badDestroy := s.badDestroy || o.phase != .tearingDown }
    | none => { s with pc := .idle, last := .error }
  | .modify i =>
    -- Modify: create, or update a running output; the content is computed from the input as READ
    let fresh := match s.p.inp with
      | some _ => !s.readStale
      | none => false
    match s.p.out with
    | none => { s with p := { s.p with out := some { phase := .running, foreign := false, fresh := fresh } },
                       pc := .idle, last := .ok }
    | some o =>
      if o.phase == .tearingDown then { s with pc := .idle, last := .error }   -- phase conflict
      else { s with p := { s.p with out := some { o with fresh := fresh } }, pc := .idle, last := .ok }
  | .tdTeardown i =>
    match s.p.out with                                      -- Teardown(out)
    | none => { s with pc := .tdRelease i }
    | some o =>
      let s' := { s with p := { s.p with out := some { o with phase := .tearingDown } } }
      if o.foreign then { s' with pc := .idle, last := .pending } else { s' with pc := .tdDestroy i }
  | .tdDestroy i =>
    match s.p.out with
    | some o =>
      if o.foreign then { s with pc := .idle, last := .error }
      else { s with p := { s.p with out := none }, pc := .tdRelease i,
                    badDestroy := s.badDestroy || o.phase != .tearingDown }
    | none => { s with pc := .idle, last := .error }
  | .tdRelease _ =>
    match s.p.inp with                                      -- RemoveFinalizer(in)
    | none => { s with pc := .idle, last := .error }
    | some cur => { s with p := { s.p with inp := some { cur with ctlFin := false } }, pc := .idle, last := .ok }

/-- external actors (C07's `EnvOk`: the controller's finalizer and the controller's output
    are the controller's alone; everything else may happen at any time) -/
inductive Env where
  | createIn (foreign : Bool)
  | updateIn                       -- new spec: an existing output becomes stale
  | teardownIn
  | destroyIn                      -- succeeds only with an empty finalizer set
  | setForeignIn (b : Bool)
  | setForeignOut (b : Bool)
deriving DecidableEq, Repr

def env (s : Sys) : Env → Sys
  | .createIn f =>
    match s.p.inp with
    | none => { s with p := { inp := some { phase := .running, ctlFin := false, foreign := f },
                              out := s.p.out.map fun o => { o with fresh := false } }, readStale := true }
    | some _ => s
  | .updateIn =>
    match s.p.inp with
    | some _ => { s with p := { s.p with out := s.p.out.map fun o => { o with fresh := false } }, readStale := true }
    | none => s
  | .teardownIn =>
    match s.p.inp with
    | some i => { s with p := { s.p with inp := some { i with phase := .tearingDown } } }
    | none => s
  | .destroyIn =>
    match s.p.inp with
    | some i => if i.ctlFin || i.foreign then s else { s with p := { s.p with inp := none } }
    | none => s
  | .setForeignIn b =>
    match s.p.inp with
    | some i => { s with p := { s.p with inp := some { i with foreign := b } } }
    | none => s
  | .setForeignOut b =>
    match s.p.out with
    | some o => { s with p := { s.p with out := some { o with foreign := b } } }
    | none => s

inductive Act where
  | ctl
  | env (e : Env)
deriving DecidableEq, Repr

def step (s : Sys) : Act → Sys
  | .ctl => ctl s
  | .env e => env s e

def run (s : Sys) (as : List Act) : Sys := as.foldl step s

/-- one whole reconcile with nobody interfering (at most 6 actions from idle back to idle) -/
def pass (s : Sys) : Sys :=
  let s1 := ctl s
  let go (x : Sys) : Sys := if x.pc = .idle then x else ctl x
  go (go (go (go (go s1))))

/-- C06's specification of a quiet pair -/
def specOk (s : Sys) : Bool :=
  match s.p.inp, s.p.out with
  | some i, some o =>
    if treatRunning s i then (o.phase == .running && o.fresh) || (o.phase == .tearingDown && o.foreign)
    else o.foreign                       -- stale output only while a foreign finalizer holds it
  | some i, none => !treatRunning s i && !i.ctlFin
  | none, some o => o.foreign
  | none, none => true

/-! ### trace inclusion: the writes the machine can make -/

/-- is the change `p → p'` of a pair a write the controller machine can make (one helper call or one
    Destroy), with the guards the C07 clauses give it: the finalizer goes on while it is missing, an
    output is created only under the finalizer, destroyed only when tearing down without foreign
    finalizers, the finalizer comes off only when no output is left. Used by the driver of engine
    `ctrl` on the abstraction of the recorded store (Cosi.Model.CtrlMachine); `Cosi.C07.qt_machine_writes_ok`
    proves that every controller action from a safe state passes it. -/
def writeOk (p p' : Pair) : Bool :=
  p == p' ||
  -- AddFinalizer / RemoveFinalizer on the input
  (p.out == p'.out && (match p.inp, p'.inp with
    | some a, some b =>
      a.phase == b.phase && a.foreign == b.foreign &&
        ((!a.ctlFin && b.ctlFin) || (a.ctlFin && !b.ctlFin && p.out.isNone))
    | _, _ => false)) ||
  -- writes of the output
  (p.inp == p'.inp && (match p.out, p'.out with
    | none, some o => o.phase == .running && !o.foreign &&
        (match p.inp with
          | some i => i.ctlFin
          | none => false)                                                   -- Modify creates
    | some o, none => o.phase == .tearingDown && !o.foreign                  -- Destroy
    | some o, some o' =>
      o.foreign == o'.foreign &&
        ((o.phase == .running && o'.phase == .running) ||                     -- Modify updates
         (o'.phase == .tearingDown && o.fresh == o'.fresh))                   -- Teardown
    | none, none => false))

end Cosi.QT
