/-
  Cosi.Model.Wrap — M4: the blocking / read-modify-write helpers of
  /repo/pkg/state/wrap.go as small-step machines whose atomic actions are single
  store operations and single watch deliveries (the granularity C03/C04 name):

    UpdateWithConflicts :29   → pcs uwcGet / uwcUpdate
    WatchFor            :73   → watchStart / recv
    Teardown            :110  → get0, then the UWC that sets the phase
    AddFinalizer        :141, RemoveFinalizer :158 → get0, then UWC (owner as read, any phase)
    ContextWithTeardown :175  → watchStart / recv
    TeardownAndDestroy  :215  → Teardown, then Destroy or waitFinalizersEmpty (:247) + Destroy
    ModifyWithResult    :291  → get0, then Create or UWC

  Each machine keeps exactly the locals the Go function keeps (`current` as read,
  the mutated copy, the options). `HSys.stepActor` lets one actor perform its next
  action; any `List` of actor ids / environment ops is a schedule.
-/
import Cosi.Model.Watch

namespace Cosi

/-- mutators: the closed family the harness uses for `UpdaterFunc`s -/
inductive Mut where
  | setLabel (k v : String)
  | addFins (fs : List String)
  | removeFins (fs : List String)
  | setSpec (s : String)
  | appendSpec (s : String)     -- NOT idempotent: applied twice it shows
  | setPhaseTD
  | noop
  | fail
deriving DecidableEq, Repr, Inhabited

/-- `Finalizers.Add` (finalizer.go:17) -/
def finsAdd (fins : List String) (f : String) : List String :=
  if fins.contains f then fins else fins ++ [f]

/-- `Finalizers.Remove` (finalizer.go:30): first occurrence -/
def finsRemove (fins : List String) (f : String) : List String := fins.erase f

def labelsSet (ls : List (String × String)) (k v : String) : List (String × String) :=
  sortBy (fun a b => a.1 < b.1) ((k, v) :: ls.filter (·.1 ≠ k))

def Mut.apply (m : Mut) (r : Res) : Option Res :=
  match m with
  | .setLabel k v => some { r with labels := labelsSet r.labels k v }
  | .addFins fs => some { r with fins := fs.foldl finsAdd r.fins }
  | .removeFins fs => some { r with fins := fs.foldl finsRemove r.fins }
  | .setSpec s => some { r with spec := s }
  | .appendSpec s => some { r with spec := r.spec ++ s }
  | .setPhaseTD => some { r with phase := .tearingDown }
  | .noop => some r
  | .fail => none

def sortStr (l : List String) : List String := sortBy (fun a b => a < b) l

/-- `resource.Equal` (resource.go:34 / metadata.go Equal): timestamps are not compared,
    finalizers are compared as multisets -/
def resEqual (a b : Res) : Bool :=
  a.ns == b.ns && a.typ == b.typ && a.id == b.id && a.phase == b.phase && a.owner == b.owner &&
  a.ver == b.ver && a.labels == b.labels && a.fins.length == b.fins.length &&
  sortStr a.fins == sortStr b.fins && a.spec == b.spec

/-- `WatchForCondition` (condition.go:18) without the free-form condition function -/
structure Cond where
  eventTypes : Option (List EvType) := none
  finsEmpty : Bool := false
  phases : Option (List Phase) := none
deriving Repr, Inhabited

/-- `WatchForCondition.Matches` (condition.go:28); an `Errored` event has no resource -/
def Cond.matches (c : Cond) (e : Event) : Bool :=
  (match c.eventTypes with
    | some ts => ts.contains e.typ
    | none => true) &&
  e.typ != .errored &&
  (!c.finsEmpty || (e.typ != .destroyed && e.res.fins.isEmpty)) &&
  (match c.phases with
    | some ps => ps.contains e.res.phase
    | none => true)

inductive HCall where
  | uwc (ns typ id : String) (m : Mut) (owner : String) (exp : Option Phase)
  | teardown (ns typ id : String) (owner : String)
  | addFin (ns typ id : String) (fins : List String)
  | removeFin (ns typ id : String) (fins : List String)
  | modify (r : Res) (m : Mut) (owner : String) (exp : Option Phase)
  | tad (ns typ id : String) (owner : String)
  | watchFor (ns typ id : String) (c : Cond)
  | ctxTeardown (ns typ id : String)
deriving Repr, Inhabited

def HCall.ptr : HCall → String × String × String
  | .uwc ns typ id _ _ _ | .teardown ns typ id _ | .addFin ns typ id _ | .removeFin ns typ id _
  | .tad ns typ id _ | .watchFor ns typ id _ | .ctxTeardown ns typ id => (ns, typ, id)
  | .modify r _ _ _ => (r.ns, r.typ, r.id)

/-- what a helper call returns -/
inductive HRet where
  | ok
  | okRes (r : Res)
  | ready (b : Bool)
  | err (cls : String)
  | cancelled (cause : String)
deriving DecidableEq, Repr, Inhabited

inductive Pc where
  | get0                        -- the helper's own initial Get
  | uwcGet                      -- UpdateWithConflicts: Get
  | uwcUpdate (cur new : Res)   -- UpdateWithConflicts: Update with the version it read
  | create (r : Res)            -- ModifyWithResult: Create
  | destroy                     -- TeardownAndDestroy: Destroy
  | watchStart
  | recv
  | done (ret : HRet)
deriving Repr, Inhabited

structure Local where
  call : HCall
  pc : Pc
  um : Mut := .noop             -- the running UpdateWithConflicts' mutator …
  uowner : String := ""         -- … owner option …
  uexp : Option Phase := none   -- … and expected phase (none = any)
deriving Repr, Inhabited

/-- the next atomic action a helper wants to perform -/
inductive Req where
  | get (ns typ id : String)
  | update (r : Res) (owner : String) (exp : Option Phase)
  | create (r : Res) (owner : String)
  | destroy (ns typ id : String) (owner : String)
  | watch (ns typ id : String)
  | recv
deriving Repr, Inhabited

inductive Resp where
  | out (o : Out)
  | event (e : Event)
  | watchOk
deriving Inhabited

def HCall.start (c : HCall) : Local :=
  match c with
  | .uwc _ _ _ m owner exp => { call := c, pc := .uwcGet, um := m, uowner := owner, uexp := exp }
  | .teardown .. | .addFin .. | .removeFin .. | .modify .. | .tad .. => { call := c, pc := .get0 }
  | .watchFor .. | .ctxTeardown .. => { call := c, pc := .watchStart }

def Local.req (l : Local) : Option Req :=
  let (ns, typ, id) := l.call.ptr
  match l.pc with
  | .get0 | .uwcGet => some (.get ns typ id)
  | .uwcUpdate _ new => some (.update new l.uowner l.uexp)
  | .create r =>
    match l.call with
    | .modify _ _ owner _ => some (.create r owner)
    | _ => none
  | .destroy =>
    match l.call with
    | .tad _ _ _ owner => some (.destroy ns typ id owner)
    | _ => none
  | .watchStart => some (.watch ns typ id)
  | .recv => some .recv
  | .done _ => none

/-- error class of a store error, through the public predicates (as `ErrClass` in the harness) -/
def errClass (e : Err) : String :=
  if e.ctor.isNotFound then "notFound"
  else if e.ctor.isOwnerConflict then "ownerConflict"
  else if e.ctor.isPhaseConflict then "phaseConflict"
  else if e.ctor.isConflict then "conflict"
  else "other"

/-- what happens with the result of the running UpdateWithConflicts -/
def Local.afterUwc (l : Local) (res : Except String Res) : Local :=
  match l.call, res with
  | .teardown .., .ok r => { l with pc := .done (.ready r.fins.isEmpty) }
  | .tad .., .ok r => if r.fins.isEmpty then { l with pc := .destroy } else { l with pc := .watchStart }
  | .addFin .., .ok _ | .removeFin .., .ok _ => { l with pc := .done .ok }
  | _, .ok r => { l with pc := .done (.okRes r) }
  | _, .error c => { l with pc := .done (.err c) }

def Local.resume (l : Local) (resp : Resp) : Local :=
  match l.pc, resp with
  | .get0, .out (.err e) =>
    match l.call with
    | .modify r m _ _ =>
      if e.ctor.isNotFound then
        match m.apply r with
        | none => { l with pc := .done (.err "other") }
        | some r' => { l with pc := .create r' }
      else { l with pc := .done (.err (errClass e)) }
    | _ => { l with pc := .done (.err (errClass e)) }
  | .get0, .out (.res cur) =>
    match l.call with
    | .teardown _ _ _ owner | .tad _ _ _ owner =>
      if cur.phase ≠ .tearingDown then
        { l with pc := .uwcGet, um := .setPhaseTD, uowner := owner, uexp := some .running }
      else l.afterUwc (.ok cur)
    | .addFin _ _ _ fs => { l with pc := .uwcGet, um := .addFins fs, uowner := cur.owner, uexp := none }
    | .removeFin _ _ _ fs => { l with pc := .uwcGet, um := .removeFins fs, uowner := cur.owner, uexp := none }
    | .modify _ m owner exp => { l with pc := .uwcGet, um := m, uowner := owner, uexp := exp }
    | _ => l
  | .uwcGet, .out (.err e) => l.afterUwc (.error (errClass e))
  | .uwcGet, .out (.res cur) =>
    if l.uexp.isSome ∧ l.uexp ≠ some cur.phase then l.afterUwc (.error "phaseConflict")
    else match l.um.apply cur with
      | none => l.afterUwc (.error "other")
      | some new => if resEqual cur new then l.afterUwc (.ok new) else { l with pc := .uwcUpdate cur new }
  | .uwcUpdate _ _, .out (.wrote r') => l.afterUwc (.ok r')
  | .uwcUpdate _ _, .out (.err e) =>
    if errClass e = "conflict" then { l with pc := .uwcGet } else l.afterUwc (.error (errClass e))
  | .create _, .out (.wrote r') => { l with pc := .done (.okRes r') }
  | .create _, .out (.err e) => { l with pc := .done (.err (errClass e)) }
  | .destroy, .out .ok => { l with pc := .done .ok }
  | .destroy, .out (.err e) => { l with pc := .done (.err (errClass e)) }
  | .watchStart, .watchOk => { l with pc := .recv }
  | .recv, .event e =>
    match l.call with
    | .tad .. =>   -- waitFinalizersEmpty (wrap.go:247)
      match e.typ with
      | .destroyed => { l with pc := .done .ok }
      | .created | .updated => if e.res.fins.isEmpty then { l with pc := .destroy } else l
      | .errored => { l with pc := .done (.err "other") }
      | _ => l
    | .watchFor _ _ _ c => if c.matches e then { l with pc := .done (.okRes e.res) } else l
    | .ctxTeardown .. =>
      match e.typ with
      | .created | .updated => if e.res.phase = .tearingDown then { l with pc := .done (.cancelled "") } else l
      | .destroyed => { l with pc := .done (.cancelled "") }
      | .errored => { l with pc := .done (.cancelled "watch") }
      | _ => l
    | _ => l
  | _, _ => l

/-! ### the system: state + watchers + helper actors -/

structure HSys where
  ws : WSys := {}
  actors : List (Nat × Local) := []
deriving Inhabited

def HSys.actor (s : HSys) (a : Nat) : Option Local := (s.actors.find? (·.1 = a)).map (·.2)

def HSys.setActor (s : HSys) (a : Nat) (l : Local) : HSys :=
  { s with actors := (a, l) :: s.actors.filter (·.1 ≠ a) }

/-- watcher id of an actor's watch -/
def actorWid (a : Nat) : Nat := 1000 + a

/-- what one scheduled step of an actor did -/
inductive StepOut where
  | noActor
  | finished (ret : HRet)            -- already done: nothing to do
  | blocked                          -- waiting for a watch event that has not arrived
  | did (req : Req) (resp : Resp) (now : Option HRet)

/-- one atomic action of actor `a` at virtual time `now` -/
def HSys.stepActor (s : HSys) (a : Nat) (now : Nat) : HSys × StepOut :=
  match s.actor a with
  | none => (s, .noActor)
  | some l =>
    match l.req with
    | none => (s, match l.pc with
        | .done r => .finished r
        | _ => .noActor)
    | some req =>
      let fin (l' : Local) : Option HRet := match l'.pc with
        | .done r => some r
        | _ => none
      match req with
      | .recv =>
        let (ws', d) := s.ws.recv (actorWid a)
        match d with
        | some (e :: _) =>
          let l' := l.resume (.event e)
          -- a finished helper cancels its watch
          let ws'' := match l'.pc with
            | .done _ => ws'.stopWatch (actorWid a)
            | .destroy => ws'.stopWatch (actorWid a)
            | _ => ws'
          (({ s with ws := ws''.settle } : HSys).setActor a l', .did req (.event e) (fin l'))
        | _ => (s, .blocked)
      | .watch ns typ id =>
        let (ws', _) := s.ws.startWatch (actorWid a) ns typ (.single id) none 1 {}
        let l' := l.resume .watchOk
        (({ s with ws := ws'.settle } : HSys).setActor a l', .did req .watchOk (fin l'))
      | .get ns typ id =>
        let (ws', out) := s.ws.storeOp now (.get ns typ id)
        let l' := l.resume (.out out)
        (({ s with ws := ws'.settle } : HSys).setActor a l', .did req (.out out) (fin l'))
      | .update r owner exp =>
        let (ws', out) := s.ws.storeOp now (.update r owner exp)
        let l' := l.resume (.out out)
        (({ s with ws := ws'.settle } : HSys).setActor a l', .did req (.out out) (fin l'))
      | .create r owner =>
        let (ws', out) := s.ws.storeOp now (.create r owner)
        let l' := l.resume (.out out)
        (({ s with ws := ws'.settle } : HSys).setActor a l', .did req (.out out) (fin l'))
      | .destroy ns typ id owner =>
        let (ws', out) := s.ws.storeOp now (.destroy ns typ id owner)
        let l' := l.resume (.out out)
        (({ s with ws := ws'.settle } : HSys).setActor a l', .did req (.out out) (fin l'))

/-- an environment actor performs a store op directly -/
def HSys.envOp (s : HSys) (now : Nat) (op : Op) : HSys × Out :=
  let (ws', out) := s.ws.storeOp now op
  ({ s with ws := ws'.settle }, out)

/-- an atomic read-modify-write by an environment actor: Get, mutate, Update with the
    version read, the stored owner and any phase (no interleaving) -/
def HSys.envMod (s : HSys) (now : Nat) (ns typ id : String) (m : Mut) : HSys × Option Out :=
  match s.ws.store.get (s.ws.cfg.key ns typ id) with
  | none => let (s', o) := s.envOp now (.get ns typ id); (s', some o)
  | some cur =>
    match m.apply cur with
    | none => (s, none)
    | some new => let (s', o) := s.envOp now (.update new cur.owner none); (s', some o)

def HSys.spawn (s : HSys) (a : Nat) (c : HCall) : HSys := s.setActor a c.start

end Cosi
