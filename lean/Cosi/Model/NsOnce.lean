/-
  `namespaced.State.getNamespace` under concurrent callers (C01, C10): every namespace has ONE state.

      if s, ok := st.namespaces.Load(ns); ok { return s }
      s, _ := st.namespaces.LoadOrStore(ns, st.builder(ns))
      return s

  Every call of a method of the namespaced state is one caller (a natural number). A schedule is a
  list of (caller, namespace) pairs: the caller named takes its next step; the namespace matters only
  for its first step (it is the namespace of the resource, pointer or kind the method was called
  with — `Gen.Namespaced.nsRouteByNamespace`). The builder hands out a fresh state object (a natural
  number) every time it is called; several callers may build for the same namespace side by side, but
  only one of the objects is published, and every caller proceeds on the published one.

  The machine is parametrised by the rules the extractor reads from namespaced.go.
-/
import Cosi.Gen.Namespaced

namespace Cosi.NsOnce

inductive Pc
  | start
  | built (ns obj : Nat)
  | done (ns obj : Nat)
deriving DecidableEq, Repr

structure Rules where
  fastPath : Bool          -- Load first, return what is published
  loadOrStore : Bool       -- publish with LoadOrStore and use what it returns (false: Store and use the own object)
deriving DecidableEq, Repr

def goodRules : Rules := ⟨true, true⟩

def genRules : Rules := ⟨Gen.Namespaced.nsFastPath, Gen.Namespaced.nsPublishLoadOrStore⟩

structure St where
  pc : Nat → Pc
  tbl : Nat → Option Nat   -- namespace ↦ published state object
  next : Nat               -- the builder's counter

def init : St := ⟨fun _ => .start, fun _ => none, 0⟩

def St.setPc (s : St) (t : Nat) (p : Pc) : St :=
  { s with pc := fun u => if u = t then p else s.pc u }

def St.publish (s : St) (ns obj : Nat) : St :=
  { s with tbl := fun n => if n = ns then some obj else s.tbl n }

def stepWith (R : Rules) (s : St) (t ns : Nat) : St :=
  match s.pc t with
  | .start =>
    match (if R.fastPath then s.tbl ns else none) with
    | some o => s.setPc t (.done ns o)
    | none => ({ s with next := s.next + 1 } : St).setPc t (.built ns s.next)
  | .built n o =>
    if R.loadOrStore then
      match s.tbl n with
      | some o' => s.setPc t (.done n o')
      | none => (s.publish n o).setPc t (.done n o)
    else (s.publish n o).setPc t (.done n o)
  | .done _ _ => s

def runWith (R : Rules) (s : St) : List (Nat × Nat) → St
  | [] => s
  | (t, ns) :: rest => runWith R (stepWith R s t ns) rest

def step := stepWith genRules
def run := runWith genRules

end Cosi.NsOnce
