/-
  Cosi.Model.RWatch — the client side of a remote watch (C13): the `recvMessage`
  state machine of `watchAdapter`, over a server whose inner watch IS the watcher
  machine of Cosi.Model.Watch.

  Written after /repo/pkg/state/protobuf/client/client.go
    watchAdapter            :593   → RClient / rstep
    recvMessage             :627   → RStep.fail (Recv error: :633 DisableWatchRetry, :638 nil bookmark)
    retry loop              :642   → RStep.attempt (NextBackOff/Stop :651, dial error :677,
                                       first Recv: FailedPrecondition :684 / other :687,
                                       re-issued request :671-674, waiting for a message :691,
                                       backoff.Reset :693)
    event loop              :700   → RStep.recv (lastBookmark = bookmark of EVERY event in turn,
                                       "even if it's nil" :711; all events of the message are
                                       forwarded before the next Recv :779-790)
    sendError               :601   → terminate
    event loop, error branch :701  → RRules.reports (is the error recvMessage returned handed to sendError
                                       before the goroutine returns?) — `withRules`, `genRRules`
  and /repo/pkg/state/protobuf/server/server.go
    Watch                   :314   → reconnect (options → inner Watch/WatchKind/WatchKindAggregated,
                                       invalid bookmark → FailedPrecondition :393, any other
                                       start error → a non-FailedPrecondition code :396)
  The server's inner watch is a `Watcher` of Cosi.Model.Watch; what the handler goroutine
  and the transport hold between that watch and the client is the watcher's channel
  buffer (`srvCap`). A transport failure drops the whole server side of the stream.
  Time is in seconds and only feeds the back-off's MaxElapsedTime test.
-/
import Cosi.Model.Watch
import Cosi.Gen.RWatch

namespace Cosi

/-- why the client-side watch ended with its own `Errored` event -/
inductive RCause where
  | retryDisabled     -- client.go:634
  | noBookmark        -- client.go:638
  | exhausted         -- client.go:652 (backoff.Stop)
  | invalidBookmark   -- client.go:684 (FailedPrecondition)
deriving DecidableEq, Repr, Inhabited

/-- what `cli.Recv` returned instead of a message -/
inductive RecvErr where
  | status   -- a gRPC status error (Unavailable, …): the transport broke
  | eof      -- io.EOF: the server side ended the stream CLEANLY (its handler returned nil / status OK:
             -- a draining server, a proxy in front of it)
deriving DecidableEq, Repr, Inhabited

def RecvErr.str : RecvErr → String
  | .status => "status" | .eof => "eof"

def RCause.str : RCause → String
  | .retryDisabled => "retryDisabled" | .noBookmark => "noBookmark"
  | .exhausted => "exhausted" | .invalidBookmark => "invalidBookmark"

inductive RPhase where
  | streaming (w : Watcher)   -- event loop, blocked in cli.Recv (client.go:628); `w` = the server's inner watch
  | waitFirst (w : Watcher)   -- retry loop, stream re-established, blocked in cli.Recv (client.go:691)
  | retrying                  -- retry loop without a stream (client.go:642-689)
  | done (c : RCause)         -- sendError called, goroutine returned
deriving Repr, Inhabited

structure RClient where
  ns : String
  typ : String
  kind : WKind
  sel : Option (String × String) := none
  srvCap : Nat := 1            -- deliveries held by the handler goroutine + transport
  retry : Bool := true         -- ¬ AdapterOptions.DisableWatchRetry
  maxElapsed : Nat := 900      -- backoff.DefaultMaxElapsedTime
  boStart : Nat := 0           -- backoff.startTime (NewExponentialBackOff / Reset)
  cookieOk : Bool := true      -- false once the serving process was replaced: its bookmarks are foreign
  lastBm : Option Int := none  -- lastBookmark (decoded position; nil = none)
  lastErr : RecvErr := .status -- recvMessage's `err`: the error to be retried (wrapped with %w when the back-off gives up, client.go:653)
  orig : StartOpts := {}       -- the options of the original request (only read when a regenerated fact is false)
  phase : RPhase
  delivered : List Event := [] -- ghost: everything handed to the subscriber, flattened
deriving Repr, Inhabited

/-- client.go:710-711: `lastBookmark = msgEvent.Bookmark` for every event of the message in turn -/
def lastBmAfter (lb : Option Int) (d : Delivery) : Option Int := d.foldl (fun _ e => e.bm) lb

/-- apply `f` to the server's inner watch of the current stream, if there is one -/
def RClient.withSrv (c : RClient) (f : Watcher → Watcher) : RClient :=
  match c.phase with
  | .streaming w => { c with phase := .streaming (f w) }
  | .waitFirst w => { c with phase := .waitFirst (f w) }
  | _ => c

/-- sendError (client.go:601) and return -/
def RClient.terminate (c : RClient) (cause : RCause) : RClient :=
  { c with phase := .done cause, delivered := c.delivered ++ [erroredEvent] }

/-- the options of the re-issued request (client.go:671-674): bootstrap contents, bootstrap
    bookmark and tail cleared, StartFromBookmark = lastBookmark (16 bytes as received) -/
def RClient.reqOpts (c : RClient) : StartOpts :=
  { bootstrap := false, bootstrapBookmark := false, tail := 0,
    bookmark := c.lastBm.map fun p => { len := 16, cookieOk := c.cookieOk, pos := p } }

/-- server.go:314-389 for the re-issued request: the id / aggregated flag / label query of
    the original request are kept. `cur` (the watched resource as stored now) only matters
    for a single-resource watch WITHOUT a bookmark. -/
def RClient.reconnect (c : RClient) (r : Ring) (cur : Option Res) : Except StartErr (Nat × List Delivery) :=
  match c.kind with
  | .single id => startSingle r cur c.ns c.typ id c.reqOpts
  | .kind => startKind r [] c.ns c.typ false c.reqOpts
  | .agg => startKind r [] c.ns c.typ true c.reqOpts

def RClient.newSrv (c : RClient) (pos : Nat) (init : List Delivery) : Watcher :=
  { wid := 0, rkey := ("", c.typ), kind := c.kind, sel := c.sel, pos := pos, pending := init, chanCap := c.srvCap }

/-- what one iteration of the retry loop meets -/
inductive Attempt where
  | dialFail                       -- adapter.client.Watch returns an error (client.go:677)
  | firstRecvFail (e : RecvErr)    -- the first (empty) message fails, not FailedPrecondition (client.go:687)
  | connect (cur : Option Res)     -- the request reaches the server's Watch handler
deriving Repr

inductive RStep where
  | write (e : Event)              -- a write to the watched kind (before, during, after an outage)
  | srvFetch                       -- the inner watch goroutine: one loop iteration
  | srvPush                        --   … one hand-over towards the transport
  | srvSettle (fuel : Nat)         --   … runs until it blocks
  | recv (now : Nat)               -- cli.Recv returns the next message
  | fail (restart : Bool) (e : RecvErr)   -- cli.Recv returns an error: the transport broke (`.status`) or the server
                                   -- ended the stream cleanly (`.eof`); restart: the server process is gone
  | attempt (now next : Nat) (a : Attempt)   -- one iteration of the retry loop; `next` = NextBackOff's value
deriving Repr

/-- **The machine as the anchored code is written** — every regenerated fact of
    `Cosi.Gen.RWatch` true. C13's theorems are proved about this function;
    `Cosi.C13.code_as_modelled` shows that it is `rstep` (below) for the current tree. -/
def rstepCore (s : Ring × RClient) : RStep → Ring × RClient
  | .write e => (s.1.publish e, s.2)
  | .srvFetch => (s.1, s.2.withSrv fun w => if w.pending = [] then w.fetch s.1 else w)
  | .srvPush => (s.1, s.2.withSrv fun w =>
      match w.pending with
      | d :: ds => if w.chan.length < w.chanCap then { w with chan := w.chan ++ [d], pending := ds } else w
      | [] => w)
  | .srvSettle fuel => (s.1, s.2.withSrv fun w => w.settle s.1 fuel)
  | .recv now =>
    match s.2.phase with
    | .streaming w =>
      match w.recv with
      | (some d, w') =>
        (s.1, { s.2 with phase := .streaming w', lastBm := lastBmAfter s.2.lastBm d,
                         delivered := s.2.delivered ++ d })
      | (none, _) => s
    | .waitFirst w =>
      match w.recv with
      | (some d, w') =>
        -- client.go:691-695: the first message after a re-establishment resets the back-off
        (s.1, { s.2 with phase := .streaming w', lastBm := lastBmAfter s.2.lastBm d,
                         delivered := s.2.delivered ++ d, boStart := now })
      | (none, _) => s
    | _ => s
  | .fail restart e =>
    let c := if restart then { s.2 with cookieOk := false } else s.2
    match c.phase with
    | .streaming _ =>
      if !c.retry then (s.1, c.terminate .retryDisabled)
      else if c.lastBm.isNone then (s.1, c.terminate .noBookmark)
      else (s.1, { c with phase := .retrying, lastErr := e })
    | .waitFirst _ => (s.1, { c with phase := .retrying, lastErr := e })   -- client.go:691 err ≠ nil: next loop iteration
    | _ => (s.1, c)
  | .attempt now next a =>
    match s.2.phase with
    | .retrying =>
      if now - s.2.boStart + next > s.2.maxElapsed then (s.1, s.2.terminate .exhausted)
      else match a with
        | .dialFail => (s.1, { s.2 with lastErr := .status })
        | .firstRecvFail e => (s.1, { s.2 with lastErr := e })
        | .connect cur =>
          match s.2.reconnect s.1 cur with
          | .error .invalidBookmark => (s.1, s.2.terminate .invalidBookmark)
          | .error .other => (s.1, { s.2 with lastErr := .status })
          | .ok (pos, init) => (s.1, { s.2 with phase := .waitFirst (s.2.newSrv pos init) })
    | _ => s

def rrunCore (s : Ring × RClient) (steps : List RStep) : Ring × RClient := steps.foldl rstepCore s

/-! ### the same machine, reading the facts regenerated from client.go / server.go

`rstep` (= `withRules genRRules rstepFacts`, below) is what the driver runs. Where a fact is `false` it does what the code would do
WITHOUT the corresponding statement (the original option is kept, the check is skipped,
the error is retried, …); nothing is proved about that machine. -/

open Gen.RWatch in
def gLastBmAfter (lb : Option Int) (d : Delivery) : Option Int :=
  if bookmarkPerEvent then lastBmAfter lb d else lb

open Gen.RWatch in
def RClient.gReqOpts (c : RClient) : StartOpts :=
  let rw := requestRewrittenBeforeDial
  { bootstrap := if clearsBootstrapContents && rw then false else c.orig.bootstrap,
    bootstrapBookmark := if clearsBootstrapBookmark && rw then false else c.orig.bootstrapBookmark,
    tail := if clearsTail && rw then 0 else c.orig.tail,
    bookmark := if resumesFromLastBookmark && rw
      then c.lastBm.map fun p => { len := 16, cookieOk := c.cookieOk, pos := p }
      else c.orig.bookmark }

def RClient.gReconnect (c : RClient) (r : Ring) (cur : Option Res) : Except StartErr (Nat × List Delivery) :=
  match c.kind with
  | .single id => startSingle r cur c.ns c.typ id c.gReqOpts
  | .kind => startKind r [] c.ns c.typ false c.gReqOpts
  | .agg => startKind r [] c.ns c.typ true c.gReqOpts

open Gen.RWatch in
def rstepFacts (s : Ring × RClient) : RStep → Ring × RClient
  | .write e => (s.1.publish e, s.2)
  | .srvFetch => (s.1, s.2.withSrv fun w => if w.pending = [] then w.fetch s.1 else w)
  | .srvPush => (s.1, s.2.withSrv fun w =>
      match w.pending with
      | d :: ds => if w.chan.length < w.chanCap then { w with chan := w.chan ++ [d], pending := ds } else w
      | [] => w)
  | .srvSettle fuel => (s.1, s.2.withSrv fun w => w.settle s.1 fuel)
  | .recv now =>
    match s.2.phase with
    | .streaming w =>
      match w.recv with
      | (some d, w') =>
        (s.1, { s.2 with phase := .streaming w', lastBm := gLastBmAfter s.2.lastBm d,
                         delivered := if forwardsBeforeNextRecv then s.2.delivered ++ d else s.2.delivered })
      | (none, _) => s
    | .waitFirst w =>
      match w.recv with
      | (some d, w') =>
        (s.1, { s.2 with phase := .streaming w', lastBm := gLastBmAfter s.2.lastBm d,
                         delivered := if forwardsBeforeNextRecv then s.2.delivered ++ d else s.2.delivered,
                         boStart := if resetsBackoffOnMessage then now else s.2.boStart })
      | (none, _) => s
    | _ => s
  | .fail restart e =>
    let c := if restart then { s.2 with cookieOk := false } else s.2
    match c.phase with
    | .streaming _ =>
      if checksDisable && !c.retry then (s.1, c.terminate .retryDisabled)
      else if checksNilBookmark && c.lastBm.isNone then (s.1, c.terminate .noBookmark)
      else (s.1, { c with phase := .retrying, lastErr := e })
    | .waitFirst _ => (s.1, { c with phase := .retrying, lastErr := e })
    | _ => (s.1, c)
  | .attempt now next a =>
    match s.2.phase with
    | .retrying =>
      if !(dialErrorContinues && otherCodesContinue) then (s.1, s.2.terminate .exhausted)   -- unknown loop shape
      else if stopsOnBackoffStop && backoffStopShape && backoffDefaultCtor &&
          decide (now - s.2.boStart + next > s.2.maxElapsed) then (s.1, s.2.terminate .exhausted)
      else match a with
        | .dialFail => (s.1, { s.2 with lastErr := .status })
        | .firstRecvFail e => (s.1, { s.2 with lastErr := e })
        | .connect cur =>
          match s.2.gReconnect s.1 cur with
          | .error .invalidBookmark =>
            if abortsOnFailedPrecondition && serverInvalidBookmarkIsFailedPrecondition
            then (s.1, s.2.terminate .invalidBookmark) else (s.1, { s.2 with lastErr := .status })
          | .error .other => (s.1, { s.2 with lastErr := .status })
          | .ok (pos, init) => (s.1, { s.2 with phase := .waitFirst (s.2.newSrv pos init) })
    | _ => s

/-! ### the event loop's error branch (client.go:700-706) as a rule

`recvMessage` returns an error when the watch cannot go on (retries disabled, no bookmark seen,
back-off exhausted, bookmark refused); the event loop must hand it to `sendError` — the
subscriber's ONLY sign that the watch is over — and return. Whether it does, per kind of error,
is the parameter `RRules.reports`; `genRRules` reads it off the current source text (fail closed).
A step that ends the watch without reporting leaves the client `done` WITHOUT the terminal
`Errored` in what was handed to the subscriber: the watch has gone silent. -/

structure RRules where
  /-- is an error recvMessage returned, of this kind (after unwrapping: the retry loop wraps with %w,
      client.go:653), handed to `sendError` before the goroutine returns? -/
  reports : RecvErr → Bool

/-- what the property demands (and client.go:702 does): every error is reported -/
def goodRRules : RRules := { reports := fun _ => true }

/-- the rule of the CURRENT source text; unrecognised shape ⇒ nothing is reported -/
def genRRules : RRules :=
  { reports := fun
      | .status => Gen.RWatch.eventLoopReportsStatus && Gen.RWatch.sendErrorSendsErrored
      | .eof => Gen.RWatch.eventLoopReportsEOF && Gen.RWatch.sendErrorSendsErrored }

/-- the error `recvMessage` returns when step `st` ends the watch with `cause` from client state `c`:
    the Recv error itself (client.go:634/:639), the last retried error wrapped (`%w`, :653), or
    `eInvalidWatchBookmark` around a FailedPrecondition status (:685) -/
def endErr (c : RClient) (st : RStep) : RCause → RecvErr
  | .exhausted => c.lastErr
  | .invalidBookmark => .status
  | _ => match st with
    | .fail _ e => e
    | _ => .status

def isDonePhase : RPhase → Bool
  | .done _ => true
  | _ => false

/-- a step function with the event loop's error branch governed by `r`: when the step ends the
    watch and the rule does not report that error, nothing is handed to the subscriber -/
def withRules (r : RRules) (f : Ring × RClient → RStep → Ring × RClient) (s : Ring × RClient) (st : RStep) :
    Ring × RClient :=
  let t := f s st
  match t.2.phase with
  | .done cause =>
    if !isDonePhase s.2.phase && !r.reports (endErr s.2 st cause) then (t.1, { t.2 with delivered := s.2.delivered })
    else t
  | _ => t

/-- the machine of the current source text: every regenerated fact read -/
def rstepW (r : RRules) : Ring × RClient → RStep → Ring × RClient := withRules r rstepFacts

def rstep : Ring × RClient → RStep → Ring × RClient := rstepW genRRules

def rrun (s : Ring × RClient) (steps : List RStep) : Ring × RClient := steps.foldl rstep s

/-- the first establishment (Adapter.Watch / WatchKind / WatchKindAggregated, client.go:444-590):
    the inner watch started with the caller's options -/
def RClient.establish (ns typ : String) (kind : WKind) (sel : Option (String × String)) (srvCap : Nat)
    (retry : Bool) (now pos : Nat) (init : List Delivery) (orig : StartOpts := {}) : RClient :=
  let c : RClient := { ns := ns, typ := typ, kind := kind, sel := sel, srvCap := srvCap, retry := retry,
                       maxElapsed := Gen.RWatch.maxElapsedS, boStart := now, phase := .retrying, orig := orig }
  { c with phase := .streaming (c.newSrv pos init) }

end Cosi
