/-
  Cosi.Model.Remote — property C11: a state reached through the gRPC client adapter and
  the gRPC server, as  clientDecode ∘ serverHandle ∘ clientEncode  over the wrapped state.

  Written 1:1 after
    /repo/pkg/state/protobuf/client/client.go   Get :83, List :118, Create :188, Update :233, Destroy :285,
                                                Teardown :326, TeardownAndDestroy :377, adapterCoreView :421,
                                                teardownFallback :427, teardownAndDestroyFallback :434,
                                                Watch :444, WatchKind :484, WatchKindAggregated :538,
                                                watchAdapter :593 (event decoding :710-777), updateResourceMetadata :794
    /repo/pkg/state/protobuf/client/errors.go   (error types = classes)
    /repo/pkg/state/protobuf/client/label_query.go, id_query.go
    /repo/pkg/state/protobuf/server/server.go   Get :37, List :63, Create :119, Update :172, Destroy :227,
                                                Teardown :256, TeardownAndDestroy :285, Watch :314, mapEvent :449
    /repo/pkg/state/protobuf/server/helpers.go  ConvertLabelQuery :18, ConvertIDQuery :54
    /repo/pkg/resource/protobuf/resource.go     Marshal :83, Unmarshal :204;  registry.go UnmarshalResource :94
    /repo/pkg/resource/metadata.go              NewMetadataFromProto :438
    /repo/api/v1alpha1/state.proto              (request messages: every message-typed / `optional` field may be absent)

  NOT written here but REGENERATED from those files on every run (`Cosi.Gen.Grpc`, tools/extract/grpc.go):
  the server's error→status-code switch per RPC (`srvCode`), the client's status-code→error-class
  switch per RPC (`cliClass`), which nil-able request fields a handler dereferences without a
  check (`derefUnchecked`), whether `ConvertLabelQuery` checks `len(term.Value)` before indexing
  (`valueGuarded`), owner option plumbing on both sides, the expected-phase plumbing, the fields
  `updateResourceMetadata` writes back, the sticky-flag load/store of the two fallbacks, the event
  type tables of `mapEvent` / `watchAdapter`. Label-operator translation: `Cosi.Gen.Selector`
  through `Cosi.Model.Selector`.

  The wrapped state is `Cosi.Model.Store.step` (M1) / `Cosi.WSys` (M2); the helpers the server
  calls for the native Teardown / TeardownAndDestroy RPCs and the client's fallbacks run are the
  small-step machines of `Cosi.Model.Wrap` (`Local`, `Local.req`, `Local.resume`), run to
  completion (or until they block on a watch) with fuel.

  Abstractions (domain, stated as hypotheses in Cosi.Props.C11): version and phase strings are
  modelled by their parse result (`WVer`, `WPhase`; the text codec is property C18), timestamps
  by ticks, the ID regexp by its source text, whether it compiles, and its match bit per ID
  (Go regexp is trusted). Core Lean only.
-/
import Cosi.Model.Wrap
import Cosi.Model.Selector
import Cosi.Gen.Grpc

namespace Cosi.Remote
open Cosi Cosi.Gen

/-! ### error classes and the two regenerated code tables -/

/-- class of a store error through the public predicates, in the order the harness (and
    `Cosi.errClass`) asks them -/
def clsOfCtor (c : ErrCtor) : ErrClass :=
  if c.isNotFound then .notFound
  else if c.isOwnerConflict then .ownerConflict
  else if c.isPhaseConflict then .phaseConflict
  else if c.isConflict then .conflict
  else .other

def clsStr : ErrClass → String
  | .notFound => "notFound" | .ownerConflict => "ownerConflict" | .phaseConflict => "phaseConflict"
  | .conflict => "conflict" | .invalidBookmark => "invalidBookmark" | .other => "other"
  | .fallback => "fallback" | .unknown => "unknown"

def clsOfStr : String → ErrClass
  | "notFound" => .notFound | "ownerConflict" => .ownerConflict | "phaseConflict" => .phaseConflict
  | "conflict" => .conflict | "invalidBookmark" => .invalidBookmark | "other" => .other
  | _ => .unknown

/-- a representative error value of a class: what the client adapter's error looks like to the
    public predicates (client/errors.go); the resource pointer is not modelled -/
def errOfClass : ErrClass → Err
  | .notFound => ⟨.notFound, none⟩
  | .ownerConflict => ⟨.ownerConflict, none⟩
  | .phaseConflict => ⟨.phaseConflict, none⟩
  | .conflict => ⟨.versionConflict, none⟩
  | _ => ⟨.backing, none⟩

/-- does a server-side `case` condition hold of an error of class `c` (state/errors.go: an owner
    or phase conflict of the in-memory state also satisfies `IsConflictError`); `none` = the
    extractor did not recognise the condition -/
def predHolds : ErrPred → ErrClass → Option Bool
  | .isNotFound, c => some (c == .notFound)
  | .isOwnerConflict, c => some (c == .ownerConflict)
  | .isPhaseConflict, c => some (c == .phaseConflict)
  | .isConflict, c => some (c == .conflict || c == .ownerConflict || c == .phaseConflict)
  | .isInvalidBookmark, c => some (c == .invalidBookmark)
  | .nonNil, _ => some true
  | .unknown, _ => none

/-- Go's tag-less `switch`: the first arm whose condition holds. `none` = no arm: the handler
    goes on as if the call had succeeded. -/
def firstArm : List (ErrPred × Code) → ErrClass → Option Code
  | [], _ => none
  | (p, code) :: rest, c =>
    match predHolds p c with
    | none => some .unknown
    | some true => some code
    | some false => firstArm rest c

/-- the status code a handler answers when the wrapped call failed with class `c`
    (server.go:40/88/132/200/234/263/292/392); fail closed when nothing matches -/
def srvStatus (rpc : Rpc) (c : ErrClass) : Code := (firstArm (Gen.Grpc.srvCode rpc) c).getD .unknown

/-- `switch status.Code(err)` on the client: the first arm naming the code, else `default:` -/
def cliArm : List (Code × ErrClass) → Code → ErrClass
  | [], _ => .unknown
  | (k, cls) :: rest, code =>
    if k == .unknown then .unknown
    else if k == .any || k == code then cls
    else cliArm rest code

/-- the class of the error the client returns for a status code (client.go:97/145/213/264/302/347/398/470) -/
def cliDecode (rpc : Rpc) (code : Code) : ErrClass :=
  if code == .unknown then .unknown else cliArm (Gen.Grpc.cliClass rpc) code

/-! ### resources on the wire (api/v1alpha1/resource.proto) -/

/-- `Metadata.version` by what `resource.ParseVersion` makes of it -/
inductive WVer where
  | undefined | num (n : Nat) | garbage
deriving DecidableEq, Repr, Inhabited

/-- `Metadata.phase` / `UpdateOptions.expected_phase` by what `resource.ParsePhase` makes of it -/
inductive WPhase where
  | running | tearingDown | garbage
deriving DecidableEq, Repr, Inhabited

structure WMeta where
  ns : String
  typ : String
  id : String
  ver : WVer
  owner : String
  phase : WPhase
  created : Nat
  updated : Nat
  fins : List String
  labels : List (String × String)
deriving DecidableEq, Repr, Inhabited

/-- `v1alpha1.Resource`: both sub-messages may be absent -/
structure WRes where
  md : Option WMeta
  spec : Option String
deriving DecidableEq, Repr, Inhabited

def encVer : Option Nat → WVer
  | none => .undefined
  | some n => .num n

def decVer : WVer → Option (Option Nat)
  | .undefined => some none
  | .num n => some (some n)
  | .garbage => none

def encPhase : Phase → WPhase
  | .running => .running
  | .tearingDown => .tearingDown

def decPhase : WPhase → Option Phase
  | .running => some .running
  | .tearingDown => some .tearingDown
  | .garbage => none

/-- the marker `Cosi.tombstone` uses for "no spec" -/
def tombSpec : String := "<tombstone>"

def isTomb (r : Res) : Bool := r.spec == tombSpec

/-- `protobuf.FromResource` + `Resource.Marshal` (resource.go:147/83): a tombstone is marshaled
    with an empty spec -/
def encodeRes (r : Res) : WRes :=
  { md := some { ns := r.ns, typ := r.typ, id := r.id, ver := encVer r.ver, owner := r.owner,
                 phase := encPhase r.phase, created := r.created, updated := r.updated,
                 fins := r.fins, labels := r.labels },
    spec := some (if isTomb r then "" else r.spec) }

/-- `md.Finalizers().Add(fin)` for each wire finalizer (metadata.go:458): duplicates vanish -/
def dedupFins (fs : List String) : List String := fs.foldl finsAdd []

/-- `protobuf.Unmarshal` (resource.go:204) + `NewMetadataFromProto` (metadata.go:438) +
    `UnmarshalResource` (registry.go:94). `none` = an error return ("metadata is missing",
    "spec is missing", unparsable version or phase). All getters involved are nil-safe. -/
def decodeRes (w : Option WRes) : Option Res :=
  match w with
  | none => none
  | some w =>
    match w.md, w.spec with
    | some m, some sp =>
      match decVer m.ver, decPhase m.phase with
      | some v, some p =>
        some { ns := m.ns, typ := m.typ, id := m.id, ver := v, owner := m.owner, phase := p,
               fins := dedupFins m.fins, labels := m.labels, created := m.created,
               updated := m.updated, spec := sp }
      | _, _ => none
    | _, _ => none

/-! ### requests on the wire (api/v1alpha1/state.proto): every optional field is an `Option` -/

/-- a `LabelTerm` as it can arrive: `op = none` is an enum number the proto does not define -/
structure WTermX where
  key : String
  value : List String
  op : Option WireOp
  invert : Bool
deriving DecidableEq, Repr, Inhabited

/-- `IDQuery`: the regexp source, whether `regexp.Compile` accepts it, its match bit per ID -/
structure WIdQuery where
  regexp : String
  compiles : Bool
  matchBit : String → Bool

structure WListOpts where
  labelQuery : List (List WTermX) := []
  idQuery : Option WIdQuery := none

structure WWatchOpts where
  bootstrapContents : Bool := false
  bootstrapBookmark : Bool := false
  aggregated : Bool := false
  tail : Int := 0
  bookmark : Option BookmarkArg := none        -- `GetStartFromBookmark() != nil`
  labelQuery : List (List WTermX) := []
  idQuery : Option WIdQuery := none

inductive WReq where
  | get (ns typ id : String) (opts : Option Unit)
  | list (ns typ : String) (opts : Option WListOpts)
  | create (res : Option WRes) (opts : Option String)                      -- CreateOptions{owner}
  | update (res : Option WRes) (opts : Option (String × Option WPhase))    -- UpdateOptions{owner, optional expected_phase}
  | destroy (ns typ id : String) (opts : Option String)
  | teardown (ns typ id : String) (opts : Option String)
  | teardownAndDestroy (ns typ id : String) (opts : Option String)
  | watch (ns typ : String) (id : Option String) (opts : Option WWatchOpts) (apiVersion : Int)

def WReq.rpc : WReq → Rpc
  | .get .. => .get | .list .. => .list | .create .. => .create | .update .. => .update
  | .destroy .. => .destroy | .teardown .. => .teardown | .teardownAndDestroy .. => .teardownAndDestroy
  | .watch .. => .watch

/-! ### server: from a request to the call on the wrapped state -/

/-- how a handler can end before it reaches the wrapped state -/
inductive Early where
  | panic
  | err (c : Code)
deriving DecidableEq, Repr, Inhabited

/-- the selection predicate of List / WatchKind: ID query AND label queries (collection.go:108) -/
def selOf (qs : Selector.Queries) (idq : Option (String → Bool)) (r : Res) : Bool :=
  (match idq with
    | none => true
    | some f => f r.id) && Selector.queriesMatch qs r.labels

/-- does the server pass `term.Value[0]` for this wire operator (regenerated `serverTable`) -/
def takesFirst (op : WireOp) : Bool :=
  match Gen.Selector.serverTable.find? (fun r => r.wire == op) with
  | some r => r.value == .first
  | none => false

/-- one iteration of `ConvertLabelQuery` (helpers.go:21-48). An operator number outside the
    enum reaches `default:` (Unimplemented). When the source checks `len(term.Value)` first
    (`Gen.Grpc.valueGuarded`) a value-less value-taking term is rejected with InvalidArgument;
    today it is not, and `Selector.serverTerm` answers `.panic` (index out of range). -/
def srvTerm (w : WTermX) : Except Early Selector.Term :=
  match w.op with
  | none => if Gen.Selector.serverDefaultErrors then .error (.err .unimplemented) else .error (.err .unknown)
  | some op =>
    if Gen.Grpc.valueGuarded && takesFirst op && w.value.isEmpty then .error (.err .invalidArgument)
    else match Selector.serverTerm ⟨w.key, w.value, op, w.invert⟩ with
      | .ok t => .ok t
      | .panic => .error .panic
      | .error => .error (.err .unimplemented)
      | .unknown => .error (.err .unknown)

def srvQuery : List WTermX → Except Early Selector.Query
  | [] => .ok []
  | w :: ws =>
    match srvTerm w with
    | .error e => .error e
    | .ok t => match srvQuery ws with
      | .error e => .error e
      | .ok ts => .ok (t :: ts)

/-- the loop over `GetLabelQuery()` (server.go:67 / :342): stops at the first failure -/
def srvQueries : List (List WTermX) → Except Early Selector.Queries
  | [] => .ok []
  | q :: qs =>
    match srvQuery q with
    | .error e => .error e
    | .ok t => match srvQueries qs with
      | .error e => .error e
      | .ok ts => .ok (t :: ts)

/-- `ConvertIDQuery` (helpers.go:54): nil or empty regexp ⇒ no query; a regexp that does not
    compile ⇒ InvalidArgument -/
def srvIdQuery : Option WIdQuery → Except Early (Option (String → Bool))
  | none => .ok none
  | some q =>
    if q.regexp == "" then .ok none
    else if !q.compiles then .error (.err .invalidArgument)
    else .ok (some q.matchBit)

/-- the owner a handler hands to the wrapped call: `req.GetOptions().GetOwner()` (nil-safe) -/
def srvOwner (rpc : Rpc) (o : Option String) : String :=
  if Gen.Grpc.srvOwnerFromOptions rpc then o.getD "" else ""

/-- a kind watch's label selector as far as `Cosi.WSys` models it: none, or one `k = v` term -/
def watchSel : Selector.Queries → Option (Option (String × String))
  | [] => some none
  | [[⟨k, [v], .opEqual, false⟩]] => some (some (k, v))
  | _ => none

/-- what a handler does once the request is taken apart -/
inductive SCall where
  | early (e : Early)
  | op (rpc : Rpc) (o : Op)
  | teardown (ns typ id owner : String)
  | tad (ns typ id owner : String)
  | watch (ns typ : String) (kind : WKind) (qs : Selector.Queries) (idq : Option (String → Bool)) (o : StartOpts)

/-- `GetTailEvents() > 0` (server.go:330/372): a non-positive tail is ignored -/
def tailOf (t : Int) : Nat := if t > 0 then t.toNat else 0

/-! ### the watch plumbing decisions as rules

Three decisions about a watch are taken outside the wrapped state, each at ONE place of the
source: which kind of watch the server starts for a request (server.go:323: on the PRESENCE of the
optional `id` field, never on its value — the empty string is a legal resource ID), which
`ApiVersion` the client's three watch methods announce (client.go:459/:513/:568 — `mapEvent`
withholds Bootstrapped and Errored from a client that announces less than 1), and whether the
methods put the `id` field on the wire (client.go:453). They are the parameters `WatchRules` of the
functions below; `genWatchRules` instantiates them from the regenerated facts, fail closed. -/

structure WatchRules where
  /-- server Watch: is a request with this `id` field served by WatchKind / WatchKindAggregated? -/
  servesKind : Option String → Bool
  /-- client: the ApiVersion the method announces -/
  apiVersion : WatchCall → Int
  /-- client: the `id` field of the method's request for a target with this ID (`none` = not on the wire) -/
  idField : WatchCall → String → Option String

/-- what the code is meant to implement -/
def goodWatchRules : WatchRules :=
  { servesKind := fun id => id.isNone,
    apiVersion := fun _ => 1,
    idField := fun c id => if c = .watch then some id else none }

/-- the rules of the CURRENT source text. Unrecognised dispatch ⇒ everything is served as a kind
    watch; unrecognised request literal ⇒ ApiVersion -1, no id. -/
def genWatchRules : WatchRules :=
  { servesKind := fun id =>
      match Gen.Grpc.watchDispatch with
      | .idAbsent => id.isNone
      | .idEmpty => id.getD "" == ""
      | .unknown => true,
    apiVersion := Gen.Grpc.cliApiVersion,
    idField := fun c id =>
      match Gen.Grpc.cliIdField c with
      | .pointerId => some id
      | .absent => none
      | .unknown => none }

/-- the adapter method behind a watch of this kind -/
def callOf : WKind → WatchCall
  | .single _ => .watch
  | .kind => .watchKind
  | .agg => .watchKindAggregated

/-- the Watch handler before the wrapped call (server.go:314-389): `r.servesKind` is the condition of
    the `if` at :323; the else-branch watches `req.GetId()` (the empty string when the field is absent) -/
def srvDecodeWatch (r : WatchRules) (ns typ : String) (id : Option String) (opts : Option WWatchOpts) : SCall :=
  if opts.isNone && (Gen.Grpc.derefUnchecked .watch).contains .options then .early .panic else
  let o := opts.getD {}
  if r.servesKind id then
    match srvQueries o.labelQuery with
    | .error e => .early e
    | .ok qs =>
      match srvIdQuery o.idQuery with
      | .error e => .early e
      | .ok idq =>
        .watch ns typ (if o.aggregated then .agg else .kind) qs idq
          { bootstrap := o.bootstrapContents, bootstrapBookmark := o.bootstrapBookmark,
            tail := tailOf o.tail, bookmark := o.bookmark }
  else
    if o.bootstrapContents then .early (.err .unimplemented)
    else if !o.labelQuery.isEmpty then .early (.err .unimplemented)
    else .watch ns typ (.single (id.getD "")) [] none { tail := tailOf o.tail, bookmark := o.bookmark }

/-- the part of every handler before the wrapped call, in source order of the checks -/
def srvDecode : WReq → SCall
  | .get ns typ id _ => .op .get (.get ns typ id)
  | .list ns typ opts =>
    match opts with
    | none => .op .list (.list ns typ (selOf [] none))
    | some o =>
      match srvQueries o.labelQuery with
      | .error e => .early e
      | .ok qs =>
        match srvIdQuery o.idQuery with
        | .error e => .early e
        | .ok idq => .op .list (.list ns typ (selOf qs idq))
  | .create res opts =>
    match decodeRes res with
    | none => .early (.err .unclassified)
    | some r =>
      if opts.isNone && (Gen.Grpc.derefUnchecked .create).contains .options then .early .panic
      else .op .create (.create r (srvOwner .create opts))
  | .update res opts =>
    match decodeRes res with
    | none => .early (.err .unclassified)
    | some r =>
      match opts with
      | none =>
        -- `req.GetOptions().ExpectedPhase` (server.go:185) on a nil *UpdateOptions
        if (Gen.Grpc.derefUnchecked .update).contains .options then .early .panic
        else if !Gen.Grpc.srvExpectedPhase then .early (.err .unknown)
        else .op .update (.update r (srvOwner .update none) none)
      | some (owner, exp) =>
        if !Gen.Grpc.srvExpectedPhase then .early (.err .unknown)
        else match exp with
          | none => .op .update (.update r (srvOwner .update (some owner)) none)
          | some p =>
            match decPhase p with
            | none => .early (.err .unclassified)
            | some p => .op .update (.update r (srvOwner .update (some owner)) (some p))
  | .destroy ns typ id opts =>
    if opts.isNone && (Gen.Grpc.derefUnchecked .destroy).contains .options then .early .panic
    else .op .destroy (.destroy ns typ id (srvOwner .destroy opts))
  | .teardown ns typ id opts =>
    if opts.isNone && (Gen.Grpc.derefUnchecked .teardown).contains .options then .early .panic
    else .teardown ns typ id (srvOwner .teardown opts)
  | .teardownAndDestroy ns typ id opts =>
    if opts.isNone && (Gen.Grpc.derefUnchecked .teardownAndDestroy).contains .options then .early .panic
    else .tad ns typ id (srvOwner .teardownAndDestroy opts)
  | .watch ns typ id opts _ => srvDecodeWatch genWatchRules ns typ id opts

/-! ### server: responses -/

inductive SOut where
  | panic
  | err (c : Code)
  | res (r : WRes)          -- GetResponse / CreateResponse / UpdateResponse
  | items (l : List WRes)   -- the ListResponse stream
  | empty                   -- DestroyResponse / TeardownAndDestroyResponse
  | ready (b : Bool)        -- TeardownResponse
  | started                 -- the empty first WatchResponse
  | pending                 -- a TeardownAndDestroy still waiting for finalizers
deriving DecidableEq, Repr, Inhabited

/-- the tail of a store handler: error switch, or marshal the result -/
def respond (rpc : Rpc) : Out → SOut
  | .err e => .err (srvStatus rpc (clsOfCtor e.ctor))
  | .wrote r => .res (encodeRes r)
  | .res r => .res (encodeRes r)
  | .items l => .items (l.map encodeRes)
  | .ok => .empty

/-- the store handlers (Get, List, Create, Update, Destroy) over any wrapped state; the other
    RPCs need the full system (`serverHandle`) -/
def handleVia {σ : Type} (wrapped : σ → Op → σ × Out) (s : σ) (req : WReq) : σ × SOut :=
  match srvDecode req with
  | .early .panic => (s, .panic)
  | .early (.err c) => (s, .err c)
  | .op rpc o => let (s', out) := wrapped s o; (s', respond rpc out)
  | _ => (s, .err .unimplemented)

/-! ### client: store operations -/

/-- an ID query as the caller holds it: a compiled regexp (source text, match bit per ID) -/
structure IdQ where
  src : String
  matchBit : String → Bool

/-- a store operation as a caller of `state.CoreState` issues it -/
inductive ROp where
  | create (r : Res) (owner : String)
  | update (r : Res) (owner : String) (exp : Option Phase)
  | destroy (ns typ id : String) (owner : String)
  | get (ns typ id : String)
  | list (ns typ : String) (qs : Selector.Queries) (idq : Option IdQ)

/-- the same call on the wrapped state directly -/
def ROp.direct : ROp → Op
  | .create r owner => .create r owner
  | .update r owner exp => .update r owner exp
  | .destroy ns typ id owner => .destroy ns typ id owner
  | .get ns typ id => .get ns typ id
  | .list ns typ qs idq => .list ns typ (selOf qs (idq.map (·.matchBit)))

def ROp.rpc : ROp → Rpc
  | .create .. => .create | .update .. => .update | .destroy .. => .destroy | .get .. => .get | .list .. => .list

def ROp.ofOp : Op → ROp
  | .create r owner => .create r owner
  | .update r owner exp => .update r owner exp
  | .destroy ns typ id owner => .destroy ns typ id owner
  | .get ns typ id => .get ns typ id
  | .list ns typ _ => .list ns typ [] none

def cliOwner (rpc : Rpc) (owner : String) : Option String :=
  some (if Gen.Grpc.cliOwnerInOptions rpc then owner else "")

def wtermX (w : Selector.WTerm) : WTermX := { key := w.key, value := w.value, op := some w.op, invert := w.invert }

/-- the request a client method builds; `none` = it returns an error without sending
    (`transformLabelQuery`'s `default:`) -/
def clientEncode : ROp → Option WReq
  | .create r owner => some (.create (some (encodeRes r)) (cliOwner .create owner))
  | .update r owner exp =>
    if !Gen.Grpc.cliExpectedPhase then none else
    some (.update (some (encodeRes r)) (some ((cliOwner .update owner).getD "", exp.map encPhase)))
  | .destroy ns typ id owner => some (.destroy ns typ id (cliOwner .destroy owner))
  | .get ns typ id => some (.get ns typ id (some ()))
  | .list ns typ qs idq =>
    match Selector.clientTransform qs with
    | .ok wqs =>
      some (.list ns typ (some { labelQuery := wqs.map (·.map wtermX),
                                 idQuery := idq.map fun q => { regexp := q.src, compiles := true, matchBit := q.matchBit } }))
    | _ => none

/-- what a client call returns: a result (errors as a representative of their class), or the
    server process crashed under it -/
inductive RRes where
  | out (o : Out)
  | panic
deriving Inhabited

def rErr (c : ErrClass) : RRes := .out (.err (errOfClass c))

/-- `updateResourceMetadata` (client.go:794): the regenerated field list, applied in order to the
    caller's object; `none` = `SetOwner` refused -/
def writeBackField (src : Res) : Option Res → WbField → Option Res
  | none, _ => none
  | some t, .version => some { t with ver := src.ver }
  | some t, .updated => some { t with updated := src.updated }
  | some t, .owner => setOwner t src.owner
  | some t, .created => some { t with created := src.created }
  | some t, .phase => some { t with phase := src.phase }
  | some _, .unknown => none

def writeBack (target src : Res) : Option Res := Gen.Grpc.writeBack.foldl (writeBackField src) (some target)

/-- the response's metadata as `updateResourceMetadata` reads it: version (parsed), updated,
    owner; everything else is not looked at -/
def respMeta (target : Res) (w : WRes) : Option Res :=
  match w.md with
  | none => none                                   -- ParseVersion("") fails
  | some m =>
    match decVer m.ver, decPhase m.phase with
    | some v, p => some { target with ver := v, updated := m.updated, owner := m.owner, created := m.created,
                                      phase := p.getD target.phase }
    | none, _ => none

/-- the tail of a client method: error switch, or unmarshal the response -/
def clientDecode (op : ROp) : SOut → RRes
  | .panic => .panic
  | .err c => rErr (cliDecode op.rpc c)
  | .res w =>
    match op with
    | .create r _ | .update r _ _ =>
      if !Gen.Grpc.cliWritesBack op.rpc then .out (.wrote r) else
      match respMeta r w with
      | none => rErr .other
      | some src =>
        match writeBack r src with
        | none => rErr .other
        | some r' => .out (.wrote r')
    | .get .. =>
      match decodeRes (some w) with
      | some r => .out (.res r)
      | none => rErr .other
    | _ => rErr .other
  | .items l =>
    match op with
    | .list .. =>
      match l.mapM (fun w => decodeRes (some w)) with
      | some rs => .out (.items rs)
      | none => rErr .other
    | _ => rErr .other
  | .empty =>
    match op with
    | .destroy .. => .out .ok
    | _ => rErr .other
  | _ => rErr .other

/-- a store operation through client adapter and server, over any wrapped state -/
def remoteVia {σ : Type} (wrapped : σ → Op → σ × Out) (s : σ) (op : ROp) : σ × RRes :=
  match clientEncode op with
  | none => (s, rErr .other)
  | some req => let (s', r) := handleVia wrapped s req; (s', clientDecode op r)

/-- `remoteStep = clientDecode ∘ serverHandle ∘ clientEncode` over `Cosi.step` -/
def remoteStep (cfg : Cfg) (s : Store) (now : Nat) (op : ROp) : Store × RRes :=
  remoteVia (fun s o => step cfg s now o) s op

def runRemote (cfg : Cfg) (s : Store) (t0 : Nat) : List ROp → Store × List RRes
  | [] => (s, [])
  | op :: ops =>
    let (s', o) := remoteStep cfg s t0 op
    let (s'', os) := runRemote cfg s' (t0 + 1) ops
    (s'', o :: os)

/-! ### what a caller can observe of a result -/

inductive Obs where
  | ok
  | wrote (ver : Option Nat) (owner : String) (updated : Nat)   -- the three written-back fields
  | res (r : Res)
  | items (l : List Res)
  | err (c : ErrClass)
  | panic
deriving DecidableEq, Repr, Inhabited

def obsOut : Out → Obs
  | .ok => .ok
  | .wrote r => .wrote r.ver r.owner r.updated
  | .res r => .res r
  | .items l => .items l
  | .err e => .err (clsOfCtor e.ctor)

def obsR : RRes → Obs
  | .out o => obsOut o
  | .panic => .panic

/-! ### watch events on the wire (server.go mapEvent :449, client.go watchAdapter :710-777) -/

def evGen : EvType → EvT
  | .created => .created | .updated => .updated | .destroyed => .destroyed
  | .bootstrapped => .bootstrapped | .errored => .errored | .noop => .noop

def evOfGen : EvT → Option EvType
  | .created => some .created | .updated => some .updated | .destroyed => some .destroyed
  | .bootstrapped => some .bootstrapped | .errored => some .errored | .noop => some .noop
  | .unknown => none

structure WEvent where
  typ : WireEv
  res : Option WRes
  old : Option WRes
  bm : Option Int
deriving DecidableEq, Repr, Inhabited

/-- `mapEvent`: `none` = the event is skipped for this client (apiVersion < 1). An `Errored`
    event carries no resource. -/
def mapEvent (apiVersion : Int) (e : Event) : Option WEvent :=
  if apiVersion < 1 && Gen.Grpc.legacySkip.contains (evGen e.typ) then none
  else
    let t := if Gen.Grpc.eventCopies then (Gen.Grpc.srvEventMap.lookup (evGen e.typ)).getD .unknown else .unknown
    some { typ := t,
           res := if e.typ == .errored then none else some (encodeRes e.res),
           old := e.old.map encodeRes,
           bm := e.bm }

/-- the event the client adapter hands to the caller; `none` = it fails to decode
    (`sendError`: the caller gets one `Errored` event and the stream ends) -/
def cliEvent (w : WEvent) : Option Event :=
  if !Gen.Grpc.eventCopies then none else
  match (Gen.Grpc.cliEventMap.lookup w.typ).bind evOfGen with
  | none => none
  | some t =>
    let res : Option Res := match w.res with
      | none => some (tombstone "" "" "")
      | some wr => decodeRes (some wr)
    let old : Option (Option Res) := match w.old with
      | none => some none
      | some wo => (decodeRes (some wo)).map some
    match res, old with
    | some r, some o => some { typ := t, res := r, old := o, bm := w.bm }
    | _, _ => none

/-- what a watcher behind the client adapter (ApiVersion 1) receives for the state's event `e` -/
def wireEvent (e : Event) : Event :=
  match (mapEvent 1 e).bind cliEvent with
  | some e' => e'
  | none => erroredEvent

/-- what the subscriber of a watch started through adapter method `c` receives for the state's
    event `e`: `none` = NOTHING (the server's `mapEvent` withheld it for the ApiVersion the method
    announced); an event that fails to decode becomes the adapter's own `Errored` -/
def wireDeliverWith (r : WatchRules) (c : WatchCall) (e : Event) : Option Event :=
  (mapEvent (r.apiVersion c) e).map fun w => (cliEvent w).getD erroredEvent

/-- … for the current source text -/
def wireDeliver : WatchCall → Event → Option Event := wireDeliverWith genWatchRules

/-! ### helpers run against a state, directly or through the wire -/

/-- how a helper's atomic actions reach the state -/
structure Exec where
  op : WSys → Nat → Op → WSys × Out
  ev : Event → Event

def RRes.toOut : RRes → Out
  | .out o => o
  | .panic => .err (errOfClass .other)     -- behind a recovering interceptor: an Unknown status

def directExec : Exec := { op := fun ws now o => ws.storeOp now o, ev := id }

/-- a store operation of the client adapter against the server's state -/
def remoteOp (ws : WSys) (now : Nat) (op : ROp) : WSys × RRes :=
  remoteVia (fun ws o => ws.storeOp now o) ws op

def remoteExec : Exec :=
  { op := fun ws now o => let (ws', r) := remoteOp ws now (ROp.ofOp o); (ws', r.toOut), ev := wireEvent }

/-- watcher id of a helper call -/
def callWid (cid : Nat) : Nat := 1000 + cid

/-- one atomic action of helper `l` (as `HSys.stepActor`, wrap.go's granularity) through `x`;
    `none` = nothing to do: the helper has returned, or waits for an event that is not there -/
def actVia (x : Exec) (ws : WSys) (cid now : Nat) (l : Local) : Option (WSys × Local) :=
  match l.req with
  | none => none
  | some .recv =>
    let (ws', d) := ws.recv (callWid cid)
    match d with
    | some (e :: _) =>
      let l' := l.resume (.event (x.ev e))
      let ws'' := match l'.pc with
        | .done _ => ws'.stopWatch (callWid cid)
        | .destroy => ws'.stopWatch (callWid cid)
        | _ => ws'
      some (ws''.settle, l')
    | _ => none
  | some (.watch ns typ id) =>
    let (ws', _) := ws.startWatch (callWid cid) ns typ (.single id) none 1 {}
    some (ws'.settle, l.resume .watchOk)
  | some (.get ns typ id) =>
    let (ws', out) := x.op ws now (.get ns typ id)
    some (ws'.settle, l.resume (.out out))
  | some (.update r owner exp) =>
    let (ws', out) := x.op ws now (.update r owner exp)
    some (ws'.settle, l.resume (.out out))
  | some (.create r owner) =>
    let (ws', out) := x.op ws now (.create r owner)
    some (ws'.settle, l.resume (.out out))
  | some (.destroy ns typ id owner) =>
    let (ws', out) := x.op ws now (.destroy ns typ id owner)
    some (ws'.settle, l.resume (.out out))

/-- run a helper until it returns or blocks (all at virtual time `now`: helpers do not sleep) -/
def runVia (x : Exec) : Nat → WSys → Nat → Nat → Local → WSys × Local
  | 0, ws, _, _, l => (ws, l)
  | fuel + 1, ws, cid, now, l =>
    match actVia x ws cid now l with
    | none => (ws, l)
    | some (ws', l') => runVia x fuel ws' cid now l'

/-- the outcome of a helper call as its caller sees it -/
inductive HRes where
  | finished (r : HRet)
  | blocked
  | panic
deriving DecidableEq, Repr, Inhabited

def localResult (l : Local) : HRes :=
  match l.pc with
  | .done r => .finished r
  | _ => .blocked

/-! ### server: the complete handler -/

structure Caps where
  hasTeardown : Bool := true
  hasTad : Bool := true
deriving DecidableEq, Repr, Inhabited

structure Srv where
  ws : WSys := {}
  caps : Caps := {}
  calls : List (Nat × Local) := []     -- TeardownAndDestroy handlers still waiting, by call id
deriving Inhabited

/-- the error switch after the helper call of the native Teardown / TeardownAndDestroy RPCs -/
def respondHelper (rpc : Rpc) : HRet → SOut
  | .ready b => .ready b
  | .ok => .empty
  | .err c => .err (srvStatus rpc (clsOfStr c))
  | _ => .err .unknown

/-- every RPC of the service. `cid` identifies the call (its watcher / its blocked helper),
    `fuel` bounds the helper runs. -/
def serverHandle (fuel : Nat) (s : Srv) (cid now : Nat) (req : WReq) : Srv × SOut :=
  match srvDecode req with
  | .early .panic => (s, .panic)
  | .early (.err c) => (s, .err c)
  | .op rpc o =>
    let (ws', out) := s.ws.storeOp now o
    ({ s with ws := ws'.settle }, respond rpc out)
  | .teardown ns typ id owner =>
    if !s.caps.hasTeardown then (s, .err .unimplemented) else
    let (ws', l) := runVia directExec fuel s.ws cid now (HCall.teardown ns typ id owner).start
    match l.pc with
    | .done r => ({ s with ws := ws' }, respondHelper .teardown r)
    | _ => ({ s with ws := ws' }, .pending)
  | .tad ns typ id owner =>
    if !s.caps.hasTad then (s, .err .unimplemented) else
    let (ws', l) := runVia directExec fuel s.ws cid now (HCall.tad ns typ id owner).start
    match l.pc with
    | .done r => ({ s with ws := ws' }, respondHelper .teardownAndDestroy r)
    | _ => ({ s with ws := ws', calls := (cid, l) :: s.calls.filter (·.1 ≠ cid) }, .pending)
  | .watch ns typ kind qs _idq o =>
    -- `Cosi.WSys` filters by at most one `k = v` term; any other selector starts unfiltered here
    -- (what a remote watch selects is property C14's subject; only its start is answered here)
    let sel := (watchSel qs).getD none
    let (ws', e) := s.ws.startWatch cid ns typ kind sel 1 o
    match e with
    | none => ({ s with ws := ws'.settle }, .started)
    | some .invalidBookmark => (s, .err (srvStatus .watch .invalidBookmark))
    | some .other => (s, .err (srvStatus .watch .other))

/-- a blocked TeardownAndDestroy handler gets to run again -/
def Srv.resumeCall (fuel : Nat) (s : Srv) (cid now : Nat) : Srv × SOut :=
  match (s.calls.find? (·.1 = cid)).map (·.2) with
  | none => (s, .err .unknown)
  | some l =>
    let (ws', l') := runVia directExec fuel s.ws cid now l
    match l'.pc with
    | .done r => ({ s with ws := ws', calls := s.calls.filter (·.1 ≠ cid) }, respondHelper .teardownAndDestroy r)
    | _ => ({ s with ws := ws', calls := (cid, l') :: s.calls.filter (·.1 ≠ cid) }, .pending)

/-! ### client: Teardown / TeardownAndDestroy with the sticky fallbacks -/

structure Cli where
  tdNotSupported : Bool := false
  tadNotSupported : Bool := false
  tdRpcs : Nat := 0                      -- ghost: Teardown RPCs sent
  tadRpcs : Nat := 0                     -- ghost: TeardownAndDestroy RPCs sent
  calls : List (Nat × Local) := []       -- fallback TeardownAndDestroy calls still waiting
deriving Inhabited

structure RSys where
  srv : Srv := {}
  cli : Cli := {}
deriving Inhabited

def helperErr (rpc : Rpc) (c : Code) : HRes := .finished (.err (clsStr (cliDecode rpc c)))

/-- `teardownFallback` (client.go:427): the default Get + UpdateWithConflicts of `coreWrapper`
    over the adapter's own store operations -/
def RSys.teardownFallback (fuel : Nat) (s : RSys) (cid now : Nat) (ns typ id owner : String) : RSys × HRes :=
  let owner' := if Gen.Grpc.fallbackOwner .teardown then owner else ""
  let (ws', l) := runVia remoteExec fuel s.srv.ws cid now (HCall.teardown ns typ id owner').start
  ({ s with srv := { s.srv with ws := ws' } }, localResult l)

/-- `Adapter.Teardown` (client.go:326) -/
def RSys.teardown (fuel : Nat) (s : RSys) (cid now : Nat) (ns typ id owner : String) : RSys × HRes :=
  if Gen.Grpc.stickyLoad .teardown && s.cli.tdNotSupported then s.teardownFallback fuel cid now ns typ id owner
  else
    let s := { s with cli := { s.cli with tdRpcs := s.cli.tdRpcs + 1 } }
    let (srv', resp) := serverHandle fuel s.srv cid now (.teardown ns typ id (cliOwner .teardown owner))
    let s := { s with srv := srv' }
    match resp with
    | .ready b => (s, .finished (.ready b))
    | .panic => (s, .panic)
    | .err c =>
      match cliDecode .teardown c with
      | .fallback =>
        let s := if Gen.Grpc.stickyStore .teardown then { s with cli := { s.cli with tdNotSupported := true } } else s
        s.teardownFallback fuel cid now ns typ id owner
      | cls => (s, .finished (.err (clsStr cls)))
    | _ => (s, .finished (.err "other"))

/-- `teardownAndDestroyFallback` (client.go:434) -/
def RSys.tadFallback (fuel : Nat) (s : RSys) (cid now : Nat) (ns typ id owner : String) : RSys × HRes :=
  let owner' := if Gen.Grpc.fallbackOwner .teardownAndDestroy then owner else ""
  let (ws', l) := runVia remoteExec fuel s.srv.ws cid now (HCall.tad ns typ id owner').start
  let calls := match l.pc with
    | .done _ => s.cli.calls.filter (·.1 ≠ cid)
    | _ => (cid, l) :: s.cli.calls.filter (·.1 ≠ cid)
  ({ srv := { s.srv with ws := ws' }, cli := { s.cli with calls := calls } }, localResult l)

/-- `Adapter.TeardownAndDestroy` (client.go:377); a blocked call stays registered on the side
    where it blocks -/
def RSys.tad (fuel : Nat) (s : RSys) (cid now : Nat) (ns typ id owner : String) : RSys × HRes :=
  if Gen.Grpc.stickyLoad .teardownAndDestroy && s.cli.tadNotSupported then s.tadFallback fuel cid now ns typ id owner
  else
    let s := { s with cli := { s.cli with tadRpcs := s.cli.tadRpcs + 1 } }
    let (srv', resp) := serverHandle fuel s.srv cid now (.teardownAndDestroy ns typ id (cliOwner .teardownAndDestroy owner))
    let s := { s with srv := srv' }
    match resp with
    | .empty => (s, .finished .ok)
    | .pending => (s, .blocked)
    | .panic => (s, .panic)
    | .err c =>
      match cliDecode .teardownAndDestroy c with
      | .fallback =>
        let s := if Gen.Grpc.stickyStore .teardownAndDestroy then { s with cli := { s.cli with tadNotSupported := true } } else s
        s.tadFallback fuel cid now ns typ id owner
      | cls => (s, .finished (.err (clsStr cls)))
    | _ => (s, .finished (.err "other"))

/-- a blocked TeardownAndDestroy call gets to run again (after some other actor's write) -/
def RSys.resumeTad (fuel : Nat) (s : RSys) (cid now : Nat) : RSys × HRes :=
  match (s.cli.calls.find? (·.1 = cid)).map (·.2) with
  | some l =>
    let (ws', l') := runVia remoteExec fuel s.srv.ws cid now l
    let calls := match l'.pc with
      | .done _ => s.cli.calls.filter (·.1 ≠ cid)
      | _ => (cid, l') :: s.cli.calls.filter (·.1 ≠ cid)
    ({ srv := { s.srv with ws := ws' }, cli := { s.cli with calls := calls } }, localResult l')
  | none =>
    let (srv', resp) := s.srv.resumeCall fuel cid now
    let s := { s with srv := srv' }
    match resp with
    | .empty => (s, .finished .ok)
    | .pending => (s, .blocked)
    | .err c => (s, helperErr .teardownAndDestroy c)
    | _ => (s, .finished (.err "other"))

/-! ### client: watches -/

/-- the error a client watch method returns when the first `Recv` fails (client.go:470/524/579) -/
def watchStartErr (c : Code) : ErrClass := cliDecode .watch c

/-- the WatchRequest of `Watch` / `WatchKind` / `WatchKindAggregated` for the options the
    harness uses (one optional `k = v` label term) -/
def watchRequestWith (r : WatchRules) (ns typ : String) (kind : WKind) (sel : Option (String × String)) (o : StartOpts) : WReq :=
  let lq : List (List WTermX) := match sel with
    | none => []
    | some (k, v) =>
      match Selector.clientTransform [[⟨k, [v], .opEqual, false⟩]] with
      | .ok wqs => wqs.map (·.map wtermX)
      | _ => [[⟨k, [v], none, false⟩]]
  match kind with
  | .single id => .watch ns typ (r.idField .watch id) (some { tail := o.tail, bookmark := o.bookmark }) (r.apiVersion .watch)
  | k => .watch ns typ (r.idField (callOf k) "")
      (some { bootstrapContents := o.bootstrap, bootstrapBookmark := o.bootstrapBookmark, aggregated := k == .agg,
              tail := o.tail, bookmark := o.bookmark, labelQuery := lq }) (r.apiVersion (callOf k))

/-- … as the current source text builds it -/
def watchRequest : String → String → WKind → Option (String × String) → StartOpts → WReq := watchRequestWith genWatchRules

/-- start a watch through the adapter: `none` = it runs -/
def RSys.startWatch (s : RSys) (wid now : Nat) (ns typ : String) (kind : WKind) (sel : Option (String × String))
    (o : StartOpts) : RSys × Option ErrClass × Bool :=
  let (srv', resp) := serverHandle 0 s.srv wid now (watchRequest ns typ kind sel o)
  match resp with
  | .started => ({ s with srv := srv' }, none, false)
  | .err c => ({ s with srv := srv' }, some (watchStartErr c), false)
  | .panic => ({ s with srv := srv' }, some .other, true)
  | _ => ({ s with srv := srv' }, some .other, false)

end Cosi.Remote
