/-
  Cosi.Model.Bookmark — byte level of watch bookmarks
  (/repo/pkg/state/impl/inmem/collection.go: encodeBookmark :284, decodeBookmark :288).
  A bookmark is the 8-byte per-process cookie followed by the position as a
  big-endian uint64; decoding reinterprets it as int64.
-/
import Cosi.Base

namespace Cosi

/-- `binary.BigEndian.AppendUint64(_, uint64(pos))` for `n = uint64(pos)` -/
def be64 (n : Nat) : List UInt8 :=
  [UInt8.ofNat (n / 2^56 % 256), UInt8.ofNat (n / 2^48 % 256), UInt8.ofNat (n / 2^40 % 256),
   UInt8.ofNat (n / 2^32 % 256), UInt8.ofNat (n / 2^24 % 256), UInt8.ofNat (n / 2^16 % 256),
   UInt8.ofNat (n / 2^8 % 256), UInt8.ofNat (n % 256)]

/-- `binary.BigEndian.Uint64` -/
def fromBe64 : List UInt8 → Nat
  | [a, b, c, d, e, f, g, h] =>
    a.toNat * 2^56 + b.toNat * 2^48 + c.toNat * 2^40 + d.toNat * 2^32 + e.toNat * 2^24 +
      f.toNat * 2^16 + g.toNat * 2^8 + h.toNat
  | _ => 0

/-- `uint64(pos)` for an int64 -/
def toU64 (p : Int) : Nat := (p % (2^64 : Int)).toNat

/-- `int64(u)` for a uint64 -/
def toI64 (u : Nat) : Int := if u < 2^63 then (u : Int) else (u : Int) - 2^64

def encodeBookmark (cookie : List UInt8) (pos : Int) : List UInt8 := cookie ++ be64 (toU64 pos)

def decodeBookmark (cookie : List UInt8) (b : List UInt8) : Option Int :=
  if b.length ≠ 16 then none
  else if b.take 8 ≠ cookie then none
  else some (toI64 (fromBe64 (b.drop 8)))

/-- the placeholder both sides print instead of the per-process random cookie -/
def placeholderCookie : List UInt8 := [0x43, 0x4f, 0x4f, 0x4b, 0x49, 0x45, 0x21, 0x21]  -- "COOKIE!!"

end Cosi
