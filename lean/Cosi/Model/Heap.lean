/-
  Cosi.Model.Heap — M10: a reference model of aliasing behind `resource.Metadata`
  copies and across the store boundary (property C19).

  Transcribed from
    /repo/pkg/resource/internal/kv/kv.go        KV.Delete :29, KV.Set :50, KV.Do :142, tempKV.Delete :157, tempKV.Set :171
    /repo/pkg/resource/finalizer.go             Finalizers.Add :19, Remove :31, Set :55
    /repo/pkg/resource/metadata.go              Metadata struct :22, Copy :66, SetVersion :86, SetPhase :121, SetOwner :133, Equal :149
    /repo/pkg/resource/typed/typed_resource.go  DeepCopy :52   (`&Resource{t.spec.DeepCopy(), t.md}`: the metadata is copied BY VALUE)
    /repo/pkg/resource/protobuf/resource.go     DeepCopy :67   (`md: r.md.Copy()`: by value as well)
    /repo/pkg/state/impl/inmem/collection.go    Get :88, List :101, Create :138, Update :180, Destroy :235
    /repo/pkg/controller/runtime/internal/cache/handler.go  get :58, list :140, put :184 (holds the event's object itself)
    /repo/pkg/state/wrap.go                     UpdateWithConflicts :28, ModifyWithResult :311

  Two tables:
    * `heap : List Cell` — one cell per Go map or slice backing array. A `Meta` value
      holds cell references (labels, annotations, finalizers) next to plain scalars;
      copying a `Meta` (Go struct copy — that is all `Metadata.Copy` and every
      `DeepCopy` do to it) shares the references.
    * `objs : List Obj` — one entry per Go `resource.Resource` pointer. Handles (the
      caller's variables), the store and the cache hold indices into it. Scalar setters
      write the object in place, as the pointer-receiver methods do.

  Nothing is ever freed; allocation appends. Every public mutator is modelled as the
  code does it, with the clone steps driven by the regenerated facts `AliasFacts`
  (`Cosi.Gen.Alias.facts`): fact false ⇒ no allocation ⇒ the write goes to the cell /
  object that is shared. Go's `append` capacity rules are modelled (size classes for
  16-byte elements) so that a missing `slices.Clone` shows exactly the overwrites Go
  would produce.
-/
import Cosi.Base
import Cosi.Gen.Alias

namespace Cosi.Heap

open Cosi.Gen (AliasFacts Mutator CopySite)

/-! ### association lists (handles, store, cache, map contents) -/

section Assoc
variable {κ : Type} [DecidableEq κ] {α : Type}

def aget : List (κ × α) → κ → Option α
  | [], _ => none
  | (k', v) :: r, k => if k' = k then some v else aget r k

def adel (l : List (κ × α)) (k : κ) : List (κ × α) := l.filter (fun p => decide (p.1 ≠ k))

def aput (l : List (κ × α)) (k : κ) (v : α) : List (κ × α) := (k, v) :: adel l k

end Assoc

/-! ### map contents as values; `KV.Do` edit scripts -/

abbrev KVs := List (String × String)

inductive KVEdit where
  | set (k v : String)
  | del (k : String)
deriving DecidableEq, Repr, Inhabited

/-- tempKV.Set :171 / tempKV.Delete :157 return early ("no change") -/
def editNoop (m : KVs) : KVEdit → Bool
  | .set k v => aget m k == some v
  | .del k => (aget m k).isNone

def applyEdit (m : KVs) : KVEdit → KVs
  | .set k v => aput m k v
  | .del k => adel m k

/-- run a `Do` callback: final contents and the `dirty` flag -/
def runEdits (m : KVs) (dirty : Bool) : List KVEdit → KVs × Bool
  | [] => (m, dirty)
  | e :: es => if editNoop m e then runEdits m dirty es else runEdits (applyEdit m e) true es

/-! ### the heap of cells -/

inductive Cell where
  | map (kvs : KVs)
  | arr (elems : List String)     -- a backing array; its length is the capacity it was allocated with
deriving DecidableEq, Repr, Inhabited

abbrev Heap := List Cell

/-- Go slice header. A zero-capacity slice can neither be read nor written through, so
    its pointer is normalised to `none` (this also covers `nil`). -/
structure Slice where
  ptr : Option Nat
  len : Nat
  cap : Nat
deriving DecidableEq, Repr, Inhabited

def Slice.nil : Slice := ⟨none, 0, 0⟩

def mapAt (h : Heap) (r : Option Nat) : KVs :=
  match r with
  | none => []
  | some p => match h[p]? with
    | some (.map m) => m
    | _ => []

def arrAt (h : Heap) (r : Option Nat) : List String :=
  match r with
  | none => []
  | some p => match h[p]? with
    | some (.arr e) => e
    | _ => []

/-- the elements visible through a slice header -/
def viewSlice (h : Heap) (s : Slice) : List String := (arrAt h s.ptr).take s.len

/-- `roundupsize(n*16)/16`: Go's malloc size classes for `n` string headers (16 bytes
    each). Exact up to 64 elements (1024 bytes); identity above (the harness stays far below). -/
def roundCap (n : Nat) : Nat :=
  if n ≤ 16 then n
  else if n ≤ 32 then n + n % 2
  else if n ≤ 48 then (n + 3) / 4 * 4
  else if n ≤ 64 then (n + 7) / 8 * 8
  else n

/-- runtime.growslice / nextslicecap for appending ONE element to a full slice of capacity `c` -/
def growCap (c : Nat) : Nat :=
  roundCap (if c = 0 then 1 else if c < 256 then 2 * c else c + (c + 768) / 4)

def pad (l : List String) (cap : Nat) : List String := l ++ List.replicate (cap - l.length) ""

/-- `slices.Clone(s)` = `append(s[:0:0], s...)`: an empty slice yields a zero-capacity
    slice, otherwise a fresh backing array of the size class of `len` elements. -/
def sliceClone (h : Heap) (s : Slice) : Heap × Slice :=
  if s.len = 0 then (h, Slice.nil)
  else (h ++ [.arr (pad (viewSlice h s) (roundCap s.len))], ⟨some h.length, s.len, roundCap s.len⟩)

/-- `append(s, f)`: in place when there is spare capacity, otherwise a grown fresh array -/
def sliceAppend (h : Heap) (s : Slice) (f : String) : Heap × Slice :=
  match s.ptr with
  | some p =>
    if s.len < s.cap then (h.set p (.arr ((arrAt h s.ptr).set s.len f)), { s with len := s.len + 1 })
    else (h ++ [.arr (pad (viewSlice h s ++ [f]) (growCap s.cap))], ⟨some h.length, s.len + 1, growCap s.cap⟩)
  | none => (h ++ [.arr (pad [f] (growCap 0))], ⟨some h.length, 1, growCap 0⟩)

/-- `*fins = append((*fins)[:i], (*fins)[i+1:]...)` (finalizer.go:36): always in place —
    a memmove of the tail one slot down; the old last slot keeps its value. -/
def sliceRemoveAt (h : Heap) (s : Slice) (i : Nat) : Heap × Slice :=
  match s.ptr with
  | some p =>
    let e := arrAt h s.ptr
    (h.set p (.arr (e.take i ++ (e.take s.len).drop (i + 1) ++ e.drop (s.len - 1))), { s with len := s.len - 1 })
  | none => (h, s)

def indexOf : List String → String → Option Nat
  | [], _ => none
  | x :: xs, f => if x = f then some 0 else (indexOf xs f).map (· + 1)

/-- Finalizers.Add (finalizer.go:19): clone, `slices.Contains`, append -/
def finAdd (F : AliasFacts) (h : Heap) (s : Slice) (f : String) : Heap × Slice × Bool :=
  let c := if F.cloneBeforeWrite .finAdd then sliceClone h s else (h, s)
  if (viewSlice c.1 c.2).contains f then (c.1, c.2, false)
  else let a := sliceAppend c.1 c.2 f; (a.1, a.2, true)

/-- Finalizers.Remove (finalizer.go:31): clone, find, shift in place -/
def finRemove (F : AliasFacts) (h : Heap) (s : Slice) (f : String) : Heap × Slice × Bool :=
  let c := if F.cloneBeforeWrite .finRemove then sliceClone h s else (h, s)
  match indexOf (viewSlice c.1 c.2) f with
  | none => (c.1, c.2, false)
  | some i => let a := sliceRemoveAt c.1 c.2 i; (a.1, a.2, true)

/-- Finalizers.Set (finalizer.go:55): `*fins = slices.Clone(other)` -/
def finSet (F : AliasFacts) (h : Heap) (other : Slice) : Heap × Slice :=
  if F.cloneBeforeWrite .finSet then sliceClone h other else (h, other)

/-- a slice literal `resource.Finalizers{l...}`: its own array, capacity = length -/
def sliceLit (h : Heap) (l : List String) : Heap × Slice :=
  if l.length = 0 then (h, Slice.nil) else (h ++ [.arr l], ⟨some h.length, l.length, l.length⟩)

/-- KV.Set (kv.go:50): nil map ⇒ fresh map; same value ⇒ nothing; else clone, then write -/
def kvSetM (F : AliasFacts) (h : Heap) (r : Option Nat) (k v : String) : Heap × Option Nat :=
  match r with
  | none => ((h ++ [Cell.map []]).set h.length (Cell.map [(k, v)]), some h.length)
  | some p =>
    let m := mapAt h r
    if aget m k = some v then (h, r)
    else
      let c : Heap × Nat := if F.cloneBeforeWrite .kvSet then (h ++ [.map m], h.length) else (h, p)
      (c.1.set c.2 (.map (aput m k v)), some c.2)

/-- KV.Delete (kv.go:29): absent ⇒ nothing; else build `kvCopy` without the key and
    swap it in. Fact false = an in-place `delete(kv.m, key)`. -/
def kvDelM (F : AliasFacts) (h : Heap) (r : Option Nat) (k : String) : Heap × Option Nat :=
  let m := mapAt h r
  if (aget m k).isNone then (h, r)
  else if F.cloneBeforeWrite .kvDelete then (h ++ [.map (adel m k)], some h.length)
  else match r with
    | some p => (h.set p (.map (adel m k)), r)
    | none => (h, r)

/-- KV.Do (kv.go:142) with a callback performing `edits` through the tempKV: the first
    effective edit clones (or makes a fresh map when nil), later ones write that clone,
    `Do` swaps it in when dirty. Fact false = the effective edits write `kv.m` itself. -/
def kvDoM (F : AliasFacts) (h : Heap) (r : Option Nat) (edits : List KVEdit) : Heap × Option Nat :=
  let res := runEdits (mapAt h r) false edits
  if !res.2 then (h, r)
  else match r with
    | none => (h ++ [.map res.1], some h.length)
    | some p =>
      if F.cloneBeforeWrite .kvDo then (h ++ [.map res.1], some h.length)
      else (h.set p (.map res.1), r)

/-! ### metadata values and resource objects -/

/-- `resource.Metadata` (metadata.go:22). Namespace and type are fixed in this model
    (one collection); timestamps are scalars like `ver` and are not tracked. -/
structure Meta where
  id : String
  ver : Option Nat          -- none = VersionUndefined
  owner : String
  tearing : Bool            -- Phase
  labels : Option Nat       -- KV.m
  annos : Option Nat
  fins : Slice
deriving DecidableEq, Repr, Inhabited

/-- a resource object behind a Go pointer: metadata by value + a scalar spec -/
structure Obj where
  md : Meta
  spec : String
deriving DecidableEq, Repr, Inhabited

def Meta.fresh (id : String) : Meta :=
  { id := id, ver := none, owner := "", tearing := false, labels := none, annos := none, fins := Slice.nil }

/-- mutations through the public metadata/spec API of ONE object -/
inductive Mut where
  | setLabel (k v : String) | delLabel (k : String) | doLabels (es : List KVEdit)
  | setAnno (k v : String) | delAnno (k : String) | doAnnos (es : List KVEdit)
  | finAdd (f : String) | finRemove (f : String) | finSetLit (l : List String)
  | setPhase (tearing : Bool) | setVersion (v : Option Nat) | setOwner (o : String) | setSpec (s : String)
deriving DecidableEq, Repr, Inhabited

inductive Err where
  | notFound | conflict | ownerConflict | phaseConflict | ownerSet
deriving DecidableEq, Repr, Inhabited

inductive Out where
  | ok | bool (b : Bool) | err (e : Err) | noHandle | oob | ids (l : List String) | noop
deriving DecidableEq, Repr, Inhabited

/-- one public mutator call on object `o` -/
def applyMut (F : AliasFacts) (h : Heap) (o : Obj) : Mut → Heap × Obj × Out
  | .setLabel k v => let r := kvSetM F h o.md.labels k v; (r.1, { o with md := { o.md with labels := r.2 } }, .ok)
  | .delLabel k => let r := kvDelM F h o.md.labels k; (r.1, { o with md := { o.md with labels := r.2 } }, .ok)
  | .doLabels es => let r := kvDoM F h o.md.labels es; (r.1, { o with md := { o.md with labels := r.2 } }, .ok)
  | .setAnno k v => let r := kvSetM F h o.md.annos k v; (r.1, { o with md := { o.md with annos := r.2 } }, .ok)
  | .delAnno k => let r := kvDelM F h o.md.annos k; (r.1, { o with md := { o.md with annos := r.2 } }, .ok)
  | .doAnnos es => let r := kvDoM F h o.md.annos es; (r.1, { o with md := { o.md with annos := r.2 } }, .ok)
  | .finAdd f => let r := finAdd F h o.md.fins f; (r.1, { o with md := { o.md with fins := r.2.1 } }, .bool r.2.2)
  | .finRemove f => let r := finRemove F h o.md.fins f; (r.1, { o with md := { o.md with fins := r.2.1 } }, .bool r.2.2)
  | .finSetLit l =>
    let lit := sliceLit h l
    let r := finSet F lit.1 lit.2
    (r.1, { o with md := { o.md with fins := r.2 } }, .ok)
  | .setPhase t => (h, { o with md := { o.md with tearing := t } }, .ok)
  | .setVersion v => (h, { o with md := { o.md with ver := v } }, .ok)
  | .setOwner w =>
    if o.md.owner = "" ∨ o.md.owner = w then (h, { o with md := { o.md with owner := w } }, .ok)
    else (h, o, .err .ownerSet)
  | .setSpec s => (h, { o with spec := s }, .ok)

/-! ### observable content (what the public getters return) -/

structure VMeta where
  id : String
  ver : Option Nat
  owner : String
  tearing : Bool
  labels : KVs
  annos : KVs
  fins : List String
deriving DecidableEq, Repr, Inhabited

structure VObj where
  md : VMeta
  spec : String
deriving DecidableEq, Repr, Inhabited

def viewMeta (h : Heap) (m : Meta) : VMeta :=
  { id := m.id, ver := m.ver, owner := m.owner, tearing := m.tearing,
    labels := mapAt h m.labels, annos := mapAt h m.annos, fins := viewSlice h m.fins }

def viewObj (h : Heap) (o : Obj) : VObj := { md := viewMeta h o.md, spec := o.spec }

/-- map equality as `maps.Equal` (kv.go:88): same length, every binding of one found in the other.
    (contents never hold duplicate keys: `aput` erases before it conses) -/
def kvsEqual (a b : KVs) : Bool :=
  a.length == b.length && a.all (fun p => aget b p.1 == some p.2)

def sortStrs (l : List String) : List String := sortBy (fun a b => a < b) l

/-- `resource.Equal` (resource.go:45) over `Metadata.Equal` (metadata.go:149): finalizers as
    multisets, timestamps ignored -/
def vEqual (a b : VObj) : Bool :=
  a.md.id == b.md.id && a.md.tearing == b.md.tearing && a.md.owner == b.md.owner && a.md.ver == b.md.ver
    && kvsEqual a.md.labels b.md.labels && kvsEqual a.md.annos b.md.annos
    && sortStrs a.md.fins == sortStrs b.md.fins && a.spec == b.spec

/-! ### the caller program's state -/

structure St where
  heap : Heap := []
  objs : List Obj := []
  hs : List (Nat × Nat) := []         -- caller variable ↦ object
  raws : List (Nat × Slice) := []     -- caller-owned `resource.Finalizers` values (plain slices)
  store : List (String × Nat) := []   -- collection.storage: id ↦ object
  cache : List (String × Nat) := []   -- what the watch delivered at the last `sync`: the same objects
deriving Repr, Inhabited

def objAt (objs : List Obj) (q : Nat) : Obj := (objs[q]?).getD default

/-- `DeepCopy()` when `b`, else the very same pointer -/
def copyIf (b : Bool) (objs : List Obj) (q : Nat) : List Obj × Nat :=
  if b then (objs ++ [objAt objs q], objs.length) else (objs, q)

/-- where a read goes: the state itself or the runtime's read cache -/
inductive Via where
  | direct | cached
deriving DecidableEq, Repr, Inhabited

/-- the table a read reads … -/
def viaTable (st : St) : Via → List (String × Nat)
  | .direct => st.store
  | .cached => st.cache

/-- … and the code site whose copy-out fact applies (`inList` = one iteration of a List) -/
def readSite : Via → Bool → CopySite
  | .direct, false => .collGet
  | .direct, true => .collList
  | .cached, false => .cacheGet
  | .cached, true => .cacheList

/-- expected-phase option of Update -/
inductive Exp where
  | any | running | tearing
deriving DecidableEq, Repr, Inhabited

def Exp.ok : Exp → Bool → Bool
  | .any, _ => true
  | .running, t => !t
  | .tearing, t => t

/-- primitive steps of a caller program -/
inductive Prim where
  | new (h : Nat) (id : String)                  -- h := NewResource(NewMetadata(.., id, VersionUndefined))
  | copy (dst src : Nat)                         -- dst := src.DeepCopy()
  | copyMd (dst src : Nat)                       -- *dst.Metadata() = src.Metadata().Copy()
  | mutate (h : Nat) (m : Mut)
  | finSetFrom (h src : Nat)                     -- h.Metadata().Finalizers().Set(*src.Metadata().Finalizers())
  | finSetRaw (h r : Nat)                        -- h.Metadata().Finalizers().Set(raw_r)
  | rawNew (r : Nat) (l : List String)           -- raw_r := resource.Finalizers{l...}
  | rawWrite (r i : Nat) (v : String)            -- raw_r[i] = v   (the caller's own slice)
  | create (h : Nat) (owner : String)
  | update (h : Nat) (owner : String) (exp : Exp)
  | destroy (id : String) (owner : String)
  | get (id : String) (dst : Nat) (via : Via) (inList : Bool)
  | sync                                         -- deliver the pending watch events to the cache
  | drop (h : Nat)                               -- the variable goes out of scope
deriving DecidableEq, Repr, Inhabited

/-- ResourceCollection.Create (collection.go:138) -/
def createM (F : AliasFacts) (st : St) (q : Nat) (owner : String) : St × Out :=
  let c := copyIf (F.deepCopyIn .collCreate) st.objs q          -- resCopy := res.DeepCopy()
  let o := objAt c.1 c.2
  if ¬ (o.md.owner = "" ∨ o.md.owner = owner) then ({ st with objs := c.1 }, .err .ownerSet)
  else
    let o1 : Obj := { o with md := { o.md with owner := owner } } -- resCopy.Metadata().SetOwner(owner)
    let objs1 := c.1.set c.2 o1
    if (aget st.store o.md.id).isSome then ({ st with objs := objs1 }, .err .conflict)
    else
      let o2 : Obj := { o1 with md := { o1.md with ver := some 1 } }  -- SetVersion(1)
      let objs2 := objs1.set c.2 o2
      -- collection.inject(resCopy); then `*res.Metadata() = *resCopy.Metadata()` (:174)
      let objs3 := objs2.set q { objAt objs2 q with md := o2.md }
      ({ st with objs := objs3, store := aput st.store o.md.id c.2 }, .ok)

/-- ResourceCollection.Update (collection.go:180) -/
def updateM (F : AliasFacts) (st : St) (q : Nat) (owner : String) (exp : Exp) : St × Out :=
  let c := copyIf (F.deepCopyIn .collUpdate) st.objs q          -- newResourceCopy := newResource.DeepCopy()
  let n := objAt c.1 c.2
  match aget st.store n.md.id with
  | none => ({ st with objs := c.1 }, .err .notFound)
  | some cq =>
    let cur := objAt c.1 cq
    if cur.md.owner ≠ owner then ({ st with objs := c.1 }, .err .ownerConflict)
    else if cur.md.ver ≠ n.md.ver then ({ st with objs := c.1 }, .err .conflict)
    else if !(exp.ok cur.md.tearing) then ({ st with objs := c.1 }, .err .phaseConflict)
    else
      let n1 : Obj := { n with md := { n.md with ver := some (n.md.ver.getD 0 + 1) } }
      let objs1 := c.1.set c.2 n1
      -- collection.storage[id] = newResourceCopy; then `*newResource.Metadata() = *newResourceCopy.Metadata()` (:229)
      let objs2 := objs1.set q { objAt objs1 q with md := n1.md }
      ({ st with objs := objs2, store := aput st.store n.md.id c.2 }, .ok)

/-- one primitive step -/
def primStep (F : AliasFacts) (st : St) : Prim → St × Out
  | .new h id =>
    ({ st with objs := st.objs ++ [{ md := Meta.fresh id, spec := "" }], hs := aput st.hs h st.objs.length }, .ok)
  | .copy dst src =>
    match aget st.hs src with
    | none => (st, .noHandle)
    | some q => ({ st with objs := st.objs ++ [objAt st.objs q], hs := aput st.hs dst st.objs.length }, .ok)
  | .copyMd dst src =>
    match aget st.hs dst, aget st.hs src with
    | some qd, some qs => ({ st with objs := st.objs.set qd { objAt st.objs qd with md := (objAt st.objs qs).md } }, .ok)
    | _, _ => (st, .noHandle)
  | .mutate h m =>
    match aget st.hs h with
    | none => (st, .noHandle)
    | some q =>
      let r := applyMut F st.heap (objAt st.objs q) m
      ({ st with heap := r.1, objs := st.objs.set q r.2.1 }, r.2.2)
  | .finSetFrom h src =>
    match aget st.hs h, aget st.hs src with
    | some q, some qs =>
      let o := objAt st.objs q
      let r := finSet F st.heap (objAt st.objs qs).md.fins
      ({ st with heap := r.1, objs := st.objs.set q { o with md := { o.md with fins := r.2 } } }, .ok)
    | _, _ => (st, .noHandle)
  | .finSetRaw h rv =>
    match aget st.hs h, aget st.raws rv with
    | some q, some s =>
      let o := objAt st.objs q
      let r := finSet F st.heap s
      ({ st with heap := r.1, objs := st.objs.set q { o with md := { o.md with fins := r.2 } } }, .ok)
    | _, _ => (st, .noHandle)
  | .rawNew rv l =>
    let lit := sliceLit st.heap l
    ({ st with heap := lit.1, raws := aput st.raws rv lit.2 }, .ok)
  | .rawWrite rv i v =>
    match aget st.raws rv with
    | none => (st, .noHandle)
    | some s =>
      match s.ptr with
      | some p =>
        if i < s.len then ({ st with heap := st.heap.set p (.arr ((arrAt st.heap s.ptr).set i v)) }, .ok)
        else (st, .oob)
      | none => (st, .oob)
  | .create h owner =>
    match aget st.hs h with
    | none => (st, .noHandle)
    | some q => createM F st q owner
  | .update h owner exp =>
    match aget st.hs h with
    | none => (st, .noHandle)
    | some q => updateM F st q owner exp
  | .destroy id owner =>
    -- ResourceCollection.Destroy (collection.go:235)
    match aget st.store id with
    | none => (st, .err .notFound)
    | some q =>
      let o := objAt st.objs q
      if o.md.owner ≠ owner then (st, .err .ownerConflict)
      else if o.md.fins.len ≠ 0 then (st, .err .conflict)
      else ({ st with store := adel st.store id }, .ok)
  | .get id dst via inList =>
    -- collection.Get :88 / one iteration of List :108 / cacheHandler.get :58 / list :140
    match aget (viaTable st via) id with
    | none => (st, .err .notFound)
    | some q =>
      let c := copyIf (F.deepCopyOut (readSite via inList)) st.objs q
      ({ st with objs := c.1, hs := aput st.hs dst c.2 }, .ok)
  | .sync => ({ st with cache := st.store }, .ok)
  | .drop h => ({ st with hs := adel st.hs h }, .ok)

/-- steps of a caller program: the primitive ones and the composite API calls -/
inductive Step where
  | prim (p : Prim)
  | list (base : Nat) (via : Via)                             -- handles base, base+1, … := List(), sorted by id
  | modify (h : Nat) (ms : List Mut) (owner : String)         -- state.WrapCore(st).Modify(ctx, h, f) with f = ms
  | updateWC (id : String) (ms : List Mut) (dst : Nat) (owner : String)  -- dst, _ := UpdateWithConflicts(ptr, f)
deriving Repr, Inhabited

def runPrims (F : AliasFacts) (st : St) : List Prim → St
  | [] => st
  | p :: ps => runPrims F (primStep F st p).1 ps

def sortedIds (t : List (String × Nat)) : List String := sortStrs (t.map (·.1))

/-- reads of a List call: one copy-out per id, bound to consecutive handles -/
def listPrims (ids : List String) (base : Nat) (via : Via) : List Prim :=
  match ids with
  | [] => []
  | id :: r => .get id base via true :: listPrims r (base + 1) via

/-- the handle `UpdateWithConflicts` keeps `current` in (wrap.go:36); reserved, never printed -/
def scratch : Nat := 0

/-- the private `newResource` of the UpdateWithConflicts inside Modify; reserved, never printed -/
def scratch2 : Nat := 1

/-- UpdateWithConflicts (wrap.go:28), sequential (no concurrent writer ⇒ no retry) -/
def updateWCcore (F : AliasFacts) (st : St) (id : String) (ms : List Mut) (dst : Nat) (owner : String) : St × Out :=
  let g := primStep F st (.get id scratch .direct false)             -- current, err := state.Get(..)
  match g.2 with
  | .ok =>
    let st1 := g.1
    let cur := viewObj st1.heap (objAt st1.objs ((aget st1.hs scratch).getD 0))
    if cur.md.tearing then ((primStep F st1 (.drop scratch)).1, .err .phaseConflict)   -- default ExpectedPhase = running
    else
      let st2 := (primStep F st1 (.copy dst scratch)).1            -- newResource := current.DeepCopy()
      let st3 := runPrims F st2 (ms.map (.mutate dst ·))           -- f(newResource)
      let new := viewObj st3.heap (objAt st3.objs ((aget st3.hs dst).getD 0))
      -- `current` is read again AFTER the callback ran (it is the same object; it only
      -- shows something else if the callback's writes leaked into its cells)
      let cur' := viewObj st3.heap (objAt st3.objs ((aget st3.hs scratch).getD 0))
      let st4 := (primStep F st3 (.drop scratch)).1
      if vEqual cur' new then (st4, .noop)                        -- resource.Equal(current, newResource)
      else primStep F st4 (.update dst owner .running)             -- state.Update(ctx, newResource, opts...)
  | o => (g.1, o)

/-- … on an error nothing is returned: the result variable is not bound -/
def updateWCM (F : AliasFacts) (st : St) (id : String) (ms : List Mut) (dst : Nat) (owner : String) : St × Out :=
  let r := updateWCcore F st id ms dst owner
  match r.2 with
  | .err e => ((primStep F r.1 (.drop dst)).1, .err e)
  | o => (r.1, o)

def step (F : AliasFacts) (st : St) : Step → St × Out
  | .prim p => primStep F st p
  | .list base via =>
    let ids := sortedIds (viaTable st via)
    (runPrims F st (listPrims ids base via), .ids ids)
  | .modify h ms owner =>
    -- ModifyWithResult (wrap.go:311)
    match aget st.hs h with
    | none => (st, .noHandle)
    | some q =>
      let id := (objAt st.objs q).md.id
      match aget st.store id with
      | none =>
        let st1 := runPrims F st (ms.map (.mutate h ·))           -- updateFunc(emptyResource)
        primStep F st1 (.create h owner)                          -- state.Create(ctx, emptyResource, WithCreateOwner)
      | some _ =>
        -- UpdateWithConflicts on a private newResource; the result is not bound
        let r := updateWCM F st id ms scratch2 owner
        ((primStep F r.1 (.drop scratch2)).1, r.2)
  | .updateWC id ms dst owner => updateWCM F st id ms dst owner

def run (F : AliasFacts) (st : St) : List Step → St
  | [] => st
  | s :: ss => run F (step F st s).1 ss

/-! ### observers -/

def viewRef (st : St) (q : Nat) : VObj := viewObj st.heap (objAt st.objs q)

/-- what the caller sees through handle `h` -/
def viewHandle (st : St) (h : Nat) : Option VObj := (aget st.hs h).map (viewRef st)

/-- what Get/List on the store would return (content, by id) -/
def storeView (st : St) : List (String × VObj) := st.store.map fun p => (p.1, viewRef st p.2)

/-- what the watch replica / cached reads show -/
def cacheView (st : St) : List (String × VObj) := st.cache.map fun p => (p.1, viewRef st p.2)

def rawView (st : St) (r : Nat) : Option (List String) := (aget st.raws r).map (viewSlice st.heap)

/-- the model instantiated with the regenerated facts: this is what the driver runs -/
abbrev facts : AliasFacts := Cosi.Gen.Alias.facts

end Cosi.Heap
