/-
  Cosi.Model.AccessTypes — vocabulary of property C08 and the part of the call path
  that is NOT about access control, shared by the model (Cosi.Model.Access) and the
  independent specification (Cosi.Spec.Access). Nothing here looks at Cosi.Gen.Access.

  A controller's call goes
      rruntime/qruntime.Adapter  →  controllerstate.StateAdapter (guard)      adapter.go
                                 →  owned.State (owner option)                owned/state.go
                                 →  state.State = WrapCore(core) (helpers)    state/wrap.go
                                 →  core store (atomic ops)                   Cosi.Model.Store
  `execCore` is that path with the two access-control stages left abstract in a
  `Policy` (which guard lets the call through; which owner is handed down) and the
  wrap.go helpers written out as compositions of atomic store operations. The helper
  semantics transcribed here is the SEQUENTIAL one: no other writer acts between the
  store operations of one call (the correspondence engine serialises; interleavings of
  the helpers are properties C03/C04), hence `UpdateWithConflicts` never retries.
-/
import Cosi.Spec.Store
import Cosi.Model.Wrap

namespace Cosi.Access

open Cosi

/-- controller.Input (pkg/controller/runtime.go:66). `kind`: 0 Weak, 1 Strong, 2 DestroyReady,
    3 QPrimary, 4 QMapped, 5 QMappedDestroyReady. `id = none` is a kind-wide input. -/
structure AInput where
  ns : String
  typ : String
  id : Option String
  kind : Nat
deriving DecidableEq, Repr, Inhabited

/-- controller.Output (runtime.go:107): kind 0 Exclusive, 1 Shared -/
structure AOutput where
  typ : String
  kind : Nat
deriving DecidableEq, Repr, Inhabited

/-- what a controller declares: its name, inputs (Controller.Inputs()/UpdateInputs or
    QSettings.Inputs) and outputs -/
structure Decl where
  name : String
  inputs : List AInput
  outputs : List AOutput
deriving Repr, Inhabited

/-- the (namespace,type,id) a call is about; `id = none` for List (a whole kind) -/
structure Target where
  ns : String
  typ : String
  id : Option String
deriving DecidableEq, Repr, Inhabited

/-- the methods of controller.Runtime / controller.QRuntime that reach the state
    (controller.Reader, controller.Writer; pkg/controller/runtime.go) -/
inductive AdapterOp where
  | get | getUncached | list | listUncached | ctxTeardown
  | create | update | modify | modifyWithResult | teardown | destroy
  | addFinalizer | removeFinalizer
deriving DecidableEq, Repr, Inhabited

def AdapterOp.isList : AdapterOp → Bool
  | .list | .listUncached => true
  | _ => false

/-- reads of a single resource -/
def AdapterOp.isRead1 : AdapterOp → Bool
  | .get | .getUncached | .ctxTeardown => true
  | _ => false

def AdapterOp.isWrite : AdapterOp → Bool
  | .create | .update | .modify | .modifyWithResult | .teardown | .destroy => true
  | _ => false

def AdapterOp.isFinalizer : AdapterOp → Bool
  | .addFinalizer | .removeFinalizer => true
  | _ => false

/-- owner-related option of a call: none, `WithCreateNoOwner`/`WithModifyNoOwner`
    (owned.go:73,113), or `WithOwner(o)` on Teardown/Destroy (owned.go:55) -/
inductive OwnerArg where
  | dflt | noOwner | explicit (o : String)
deriving DecidableEq, Repr, Inhabited

/-- expected-phase option of Modify (owned.go:97,104): default running -/
inductive PhaseArg where
  | dflt | any | exact (p : Phase)
deriving DecidableEq, Repr, Inhabited

def PhaseArg.toExp : PhaseArg → Option Phase
  | .dflt => some .running
  | .any => none
  | .exact p => some p

/-- one call through the runtime handle -/
structure Call where
  op : AdapterOp
  ns : String
  typ : String
  id : String                 -- ignored by list
  payload : Res := default    -- the object handed to Create/Update (its ns/typ/id are overridden by the three above)
  mu : Mut := .noop           -- Modify's update function
  own : OwnerArg := .dflt
  exp : PhaseArg := .dflt     -- Modify only
  fins : List String := []    -- Add/RemoveFinalizer
deriving Repr, Inhabited

def Call.target (c : Call) : Target :=
  { ns := c.ns, typ := c.typ, id := if c.op.isList then none else some c.id }

def Call.obj (c : Call) : Res := { c.payload with ns := c.ns, typ := c.typ, id := c.id }

/-- a fresh object as the caller builds it (`resource.NewMetadata`, metadata.go:37: both
    timestamps are the construction time); what Modify is called with -/
def emptyRes (ns typ id : String) (now : Nat) : Res :=
  { ns := ns, typ := typ, id := id, ver := none, owner := "", phase := .running, fins := [], labels := [],
    created := now, updated := now, spec := "" }

/-- what the caller gets back -/
inductive ARet where
  | denied                    -- refused by the adapter's guard (a plain error, class `other`)
  | ok
  | okRes (r : Res)
  | items (l : List Res)
  | ready (b : Bool)          -- Teardown
  | done (b : Bool)           -- ContextWithTeardown: is the returned context already cancelled
  | err (cls : String)        -- error from below the adapter, by its public class
deriving Repr, Inhabited

def ARet.isErr : ARet → Bool
  | .denied | .err _ => true
  | _ => false

/-- the two access-control decisions, plus the atomic store underneath -/
structure Policy where
  allowed : Decl → AdapterOp → Target → Bool
  /-- owner handed to the store; `none` = no owner check at all -/
  owner : String → AdapterOp → OwnerArg → Option String
  step : Cfg → Store → Nat → Op → Store × Out

/-- `err != nil` -/
def Out.err? : Out → Option Err
  | .err e => some e
  | _ => none

/-- the resource a successful Create/Update writes back into the caller's object -/
def Out.resOr (dflt : Res) : Out → Res
  | .wrote r => r
  | .res r => r
  | _ => dflt

section
variable (P : Policy) (cfg : Cfg) (s : Store) (now : Nat)

/-- a Get through the state; reads never change the store (C01), so it is not threaded -/
def readRes (ns typ id : String) : Except Err Res :=
  match (P.step cfg s now (.get ns typ id)).2 with
  | .res r => .ok r
  | .err e => .error e
  | _ => .error { ctor := .backing, res := none }

/-- one core write: the store after it, and the error if any -/
def write (op : Op) (tr : List String) (okRet : Res → ARet) (dflt : Res) : Store × ARet × List String :=
  let r := P.step cfg s now op
  match Out.err? r.2 with
  | some e => (r.1, .err (errClass e), tr)
  | none => (r.1, okRet (Out.resOr dflt r.2), tr)

/-- `UpdateWithConflicts` (wrap.go:29), sequential: Get, expected-phase check, mutate,
    skip the write when nothing changed, else one Update with the version just read.
    `owner = none`: the owner as stored (what AddFinalizer/RemoveFinalizer pass, wrap.go:153,170).
    `okRet` turns the resulting resource into the caller's return value. -/
def uwc (ns typ id : String) (m : Mut) (owner : Option String) (exp : Option Phase) (okRet : Res → ARet)
    (pre : List String) : Store × ARet × List String :=
  match readRes P cfg s now ns typ id with
  | .error e => (s, .err (errClass e), pre ++ ["get"])
  | .ok cur =>
    if exp.isSome ∧ exp ≠ some cur.phase then (s, .err "phaseConflict", pre ++ ["get"])
    else match m.apply cur with
      | none => (s, .err "other", pre ++ ["get"])
      | some new =>
        if resEqual cur new then (s, okRet new, pre ++ ["get"])
        else write P cfg s now (.update new (owner.getD cur.owner) exp) (pre ++ ["get", "update"]) okRet new

/-- the call path below the guard; third component: the core-store operations performed -/
def below (name : String) (c : Call) : Store × ARet × List String :=
  let owner := P.owner name c.op c.own
  let stored := ((s.get (cfg.key c.ns c.typ c.id)).map (·.owner)).getD ""
  match c.op with
  | .get | .getUncached =>
    match readRes P cfg s now c.ns c.typ c.id with
    | .ok r => (s, .okRes r, ["get"])
    | .error e => (s, .err (errClass e), ["get"])
  | .list | .listUncached =>
    match (P.step cfg s now (.list c.ns c.typ (fun _ => true))).2 with
    | .items l => (s, .items l, ["list"])
    | _ => (s, .err "other", ["list"])
  | .ctxTeardown =>
    -- wrap.go:175 / cache handler.go:86: cancelled at once iff absent or tearing down
    match readRes P cfg s now c.ns c.typ c.id with
    | .ok r => (s, .done (r.phase == .tearingDown), ["watch"])
    | .error _ => (s, .done true, ["watch"])
  | .create =>
    -- owned/state.go:46 → core Create
    write P cfg s now (.create c.obj (owner.getD "")) ["create"] (fun _ => .ok) c.obj
  | .update =>
    -- owned/state.go:65 → core Update with DefaultUpdateOptions (expected phase running, options.go:89)
    write P cfg s now (.update c.obj (owner.getD stored) (some .running)) ["update"] (fun _ => .ok) c.obj
  | .modify | .modifyWithResult =>
    -- wrap.go:291 ModifyWithResult: Get; not found ⇒ mutate the empty resource and Create; else UpdateWithConflicts
    let fin (r : Res) : ARet := if c.op = .modifyWithResult then .okRes r else .ok
    match readRes P cfg s now c.ns c.typ c.id with
    | .error e =>
      if e.ctor.isNotFound then
        match c.mu.apply (emptyRes c.ns c.typ c.id now) with
        | none => (s, .err "other", ["get"])
        | some r => write P cfg s now (.create r (owner.getD "")) ["get", "create"] fin r
      else (s, .err (errClass e), ["get"])
    | .ok _ => uwc P cfg s now c.ns c.typ c.id c.mu owner c.exp.toExp fin ["get"]
  | .teardown =>
    -- wrap.go:110 Teardown: Get; unless already tearing down, UpdateWithConflicts(set phase) with the owner
    match readRes P cfg s now c.ns c.typ c.id with
    | .error e => (s, .err (errClass e), ["get"])
    | .ok cur =>
      if cur.phase ≠ .tearingDown then
        uwc P cfg s now c.ns c.typ c.id .setPhaseTD (some (owner.getD cur.owner)) (some .running)
          (fun r => .ready r.fins.isEmpty) ["get"]
      else (s, .ready cur.fins.isEmpty, ["get"])
  | .destroy =>
    write P cfg s now (.destroy c.ns c.typ c.id (owner.getD stored)) ["destroy"] (fun _ => .ok) c.obj
  | .addFinalizer =>
    -- wrap.go:141: Get, then UpdateWithConflicts with the owner as read and any phase
    match readRes P cfg s now c.ns c.typ c.id with
    | .error e => (s, .err (errClass e), ["get"])
    | .ok _ => uwc P cfg s now c.ns c.typ c.id (.addFins c.fins) none none (fun _ => .ok) ["get"]
  | .removeFinalizer =>
    -- wrap.go:158; adapter.go:253 turns NotFound into success
    match readRes P cfg s now c.ns c.typ c.id with
    | .error e => (s, if e.ctor.isNotFound then .ok else .err (errClass e), ["get"])
    | .ok _ => uwc P cfg s now c.ns c.typ c.id (.removeFins c.fins) none none (fun _ => .ok) ["get"]

/-- one call of controller `d` through its runtime handle -/
def execCore (d : Decl) (c : Call) : Store × ARet × List String :=
  if P.allowed d c.op c.target then below P cfg s now d.name c else (s, .denied, [])

end

/-- a call sequence; one tick per call -/
def runCore (P : Policy) (cfg : Cfg) (d : Decl) (s : Store) (t0 : Nat) : List Call → Store × List ARet
  | [] => (s, [])
  | c :: cs =>
    let r := execCore P cfg s t0 d c
    let rest := runCore P cfg d r.1 (t0 + 1) cs
    (rest.1, r.2.1 :: rest.2)

end Cosi.Access
