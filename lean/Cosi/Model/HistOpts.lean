/-
  Cosi.Model.HistOpts — the history options of the in-memory state
  (/repo/pkg/state/impl/inmem/options.go): WithHistoryCapacity :21, WithHistoryMaxCapacity :29,
  WithHistoryInitialCapacity :40, WithHistoryGap :53, DefaultStateOptions :66. Options are
  applied in the order given, each adjusting the OTHER capacity so that initial ≤ maximum;
  which way each one adjusts, and the defaults, are regenerated (Cosi.Gen.HistOpts).
-/
import Cosi.Gen.HistOpts

namespace Cosi.HistOpts
open Cosi.Gen

inductive Opt where
  | cap (n : Nat)       -- WithHistoryCapacity
  | maxCap (n : Nat)    -- WithHistoryMaxCapacity
  | initCap (n : Nat)   -- WithHistoryInitialCapacity
  | gap (n : Nat)       -- WithHistoryGap
deriving DecidableEq, Repr, Inhabited

structure Caps where
  init : Nat
  max : Nat
  gap : Nat
deriving DecidableEq, Repr, Inhabited

/-- the adjustment rules as parameters (`applyOpt := applyOptWith` the regenerated ones) -/
structure Rules where
  onSetInitial : CapAdjust
  onSetMax : CapAdjust
  capBoth : Bool
  gapSets : Bool
deriving DecidableEq, Repr

def goodRules : Rules := ⟨.raiseMax, .lowerInit, true, true⟩
def genRules : Rules := ⟨HistOpts.onSetInitial, HistOpts.onSetMax, HistOpts.capacitySetsBoth, HistOpts.gapSetsGap⟩

/-- fail closed: an unrecognised adjustment leaves the other capacity alone (so the two may cross) -/
def applyOptWith (r : Rules) (c : Caps) : Opt → Caps
  | .cap n => if r.capBoth then { c with init := n, max := n } else c
  | .maxCap n =>
    match r.onSetMax with
    | .lowerInit => { c with max := n, init := if c.init > n then n else c.init }
    | .raiseMax => { c with max := if c.init > n then c.init else n }
    | .unknown => { c with max := n }
  | .initCap n =>
    match r.onSetInitial with
    | .raiseMax => { c with init := n, max := if c.max < n then n else c.max }
    | .lowerInit => { c with init := if c.max < n then c.max else n }
    | .unknown => { c with init := n }
  | .gap n => if r.gapSets then { c with gap := n } else c

def defaults : Caps := ⟨HistOpts.defaultInitial, HistOpts.defaultMax, HistOpts.defaultGap⟩

def applyOptsWith (r : Rules) (os : List Opt) : Caps := os.foldl (applyOptWith r) defaults

def applyOpt : Caps → Opt → Caps := applyOptWith genRules
def applyOpts (os : List Opt) : Caps := applyOptsWith genRules os

end Cosi.HistOpts
