/-
  Cosi.Model.WrapRemote — the helper machines of Cosi.Model.Wrap (wrap.go) run against a state
  that is reached over gRPC: `state.WrapCore(client.NewAdapter(conn))`, the server being
  `server.NewState(<the wrapped state>)` (C03 over the remote path, engine `helpers` with
  `remote=1`).

  The atomic actions are still single store operations and single watch deliveries ON THE WRAPPED
  STATE (that is where the harness' gate sits and what it records); what differs is what the
  helper — which runs in the client process — gets to see of them:

    store operations   the adapter's view of the result (`Via.op`: errors by class, on Create /
                       Update the caller's object with version, owner, update-time written back:
                       client.go + server.go, Cosi.Remote.remoteOp)
    watch start        the request the adapter builds and the kind of watch the server starts for
                       it (`WatchRules.idField`, `WatchRules.servesKind`: client.go:453, server.go:323)
    watch deliveries   what the server's `mapEvent` lets through for the ApiVersion the adapter
                       announced (`WatchRules.apiVersion`, client.go:459 / server.go:450): an event
                       that is withheld is consumed on the server side and NEVER reaches the helper
    Teardown,          run by the SERVER's handler as the same machine on the wrapped state (native
    TeardownAndDestroy RPCs, server.go:256/:285); the client gets the handler's answer through the
                       status-code tables (`Via.ret`)
-/
import Cosi.Model.Remote

namespace Cosi
open Cosi.Remote Cosi.Gen

/-- how a helper in the client process sees the wrapped state -/
structure Via where
  rules : WatchRules
  /-- a store operation through adapter and server: the state after it and the adapter's answer -/
  op : WSys → Nat → Op → WSys × Out
  /-- the result of a native Teardown / TeardownAndDestroy RPC as the adapter returns it; the flag:
      the handler's helper failed on UpdateWithConflicts' OWN expected-phase check (wrap.go:45) -/
  ret : Rpc → Bool → HRet → HRet

/-- helper calls the adapter forwards to a native RPC (client.go:326 / :373); everything else is
    wrap.go running in the client over the adapter's store operations and watches -/
def HCall.native : HCall → Option Rpc
  | .teardown .. => some .teardown
  | .tad .. => some .teardownAndDestroy
  | _ => none

/-- the adapter's answer to a native helper RPC whose handler returned `r` (server: the error
    switch `respondHelper`; client: `switch status.Code(err)`) -/
def nativeRet (rpc : Rpc) (r : HRet) : HRet :=
  match respondHelper rpc r with
  | .ready b => .ready b
  | .empty => .ok
  | .err c => .err (clsStr (cliDecode rpc c))
  | _ => .err "other"

/-- the handler's error switch on `state.errPhaseConflict` — the error of UpdateWithConflicts' own
    check of the expected phase against the value it has just READ (wrap.go:45, reached when another
    Teardown got in between). Unlike the in-memory state's ErrPhaseConflict it satisfies
    `IsPhaseConflictError` only, not `IsConflictError` (state/errors.go). -/
def wrapPhaseArm : List (ErrPred × Code) → Code
  | [] => .unknown
  | (.isPhaseConflict, code) :: _ => code
  | (.nonNil, code) :: _ => code
  | (.unknown, _) :: _ => .unknown
  | _ :: rest => wrapPhaseArm rest

def nativeRetVia (rpc : Rpc) (wrapPhase : Bool) (r : HRet) : HRet :=
  if wrapPhase then .err (clsStr (cliDecode rpc (wrapPhaseArm (Gen.Grpc.srvCode rpc)))) else nativeRet rpc r

/-- the path as the CURRENT source text has it: every table regenerated -/
def genVia : Via :=
  { rules := genWatchRules,
    op := fun ws now o => let (ws', r) := remoteOp ws now (ROp.ofOp o); (ws', r.toOut),
    ret := nativeRetVia }

/-- one atomic action of actor `a` whose state handle is the gRPC adapter. The `Resp` in the
    result is what happened ON THE WRAPPED STATE (the gate's record); the helper is resumed with
    what the wire hands it. -/
def HSys.stepActorVia (v : Via) (s : HSys) (a : Nat) (now : Nat) : HSys × StepOut :=
  match s.actor a with
  | none => (s, .noActor)
  | some l =>
    match l.call.native with
    | some rpc =>
      -- the server's handler runs the helper on the wrapped state
      let (s', o) := s.stepActor a now
      (s', match o with
        | .did req resp (some r) =>
          let wrapPhase := match l.pc, resp, r with
            | .uwcGet, .out (.res _), .err "phaseConflict" => true
            | _, _, _ => false
          .did req resp (some (v.ret rpc wrapPhase r))
        | o => o)
    | none =>
      match l.req with
      | none => (s, match l.pc with
          | .done r => .finished r
          | _ => .noActor)
      | some req =>
        let fin (l' : Local) : Option HRet := match l'.pc with
          | .done r => some r
          | _ => none
        match req with
        | .recv =>
          let (ws', d) := s.ws.recv (actorWid a)
          match d with
          | some (e :: _) =>
            -- the server's handler has taken the event from the inner watch; `mapEvent` decides
            -- whether anything is sent to the client
            match wireDeliverWith v.rules .watch e with
            | none => (({ s with ws := ws'.settle } : HSys), .did req (.event e) none)
            | some e' =>
              let l' := l.resume (.event e')
              let ws'' := match l'.pc with
                | .done _ => ws'.stopWatch (actorWid a)
                | .destroy => ws'.stopWatch (actorWid a)
                | _ => ws'
              (({ s with ws := ws''.settle } : HSys).setActor a l', .did req (.event e) (fin l'))
          | _ => (s, .blocked)
        | .watch ns typ id =>
          let ws' := match srvDecodeWatch v.rules ns typ (v.rules.idField .watch id) (some {}) with
            | .watch ns' typ' kind qs _ o => (s.ws.startWatch (actorWid a) ns' typ' kind ((watchSel qs).getD none) 1 o).1
            | _ => s.ws
          let l' := l.resume .watchOk
          (({ s with ws := ws'.settle } : HSys).setActor a l', .did req .watchOk (fin l'))
        | .get ns typ id =>
          let (_, out) := s.ws.storeOp now (.get ns typ id)
          let (ws', seen) := v.op s.ws now (.get ns typ id)
          let l' := l.resume (.out seen)
          (({ s with ws := ws'.settle } : HSys).setActor a l', .did req (.out out) (fin l'))
        | .update r owner exp =>
          let (_, out) := s.ws.storeOp now (.update r owner exp)
          let (ws', seen) := v.op s.ws now (.update r owner exp)
          let l' := l.resume (.out seen)
          (({ s with ws := ws'.settle } : HSys).setActor a l', .did req (.out out) (fin l'))
        | .create r owner =>
          let (_, out) := s.ws.storeOp now (.create r owner)
          let (ws', seen) := v.op s.ws now (.create r owner)
          let l' := l.resume (.out seen)
          (({ s with ws := ws'.settle } : HSys).setActor a l', .did req (.out out) (fin l'))
        | .destroy ns typ id owner =>
          let (_, out) := s.ws.storeOp now (.destroy ns typ id owner)
          let (ws', seen) := v.op s.ws now (.destroy ns typ id owner)
          let l' := l.resume (.out seen)
          (({ s with ws := ws'.settle } : HSys).setActor a l', .did req (.out out) (fin l'))

end Cosi
