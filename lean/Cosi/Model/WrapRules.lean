/-
  Cosi.Model.WrapRules — the helper machines of Cosi.Model.Wrap with their decision points as PARAMETERS
  (`Rules`). Cosi.Model.WrapGen instantiates them from the regenerated facts of Cosi.Gen.Wrap
  (tools/extract/wrap.go reads pkg/state/wrap.go, condition.go, owned/state.go, owned/owned.go on every run):
  `genRules`, `genORules`, `RLocal.resume := resumeWith genRules`, `RHSys.stepActor := stepActorWith genRules`.
  This file does not depend on the facts.

    Cosi.Model.Wrap        `Local.resume`            the hand-written machine: what the helpers are MEANT to do (the spec
                                                     the driver runs in spec mode; C11's and C08's models build on it)
    this file              `RLocal.resumeWith r`     the same machine, every decision taken by a rule; `resume := resumeWith genRules`
                                                     is the model of the CURRENT source text (the driver's model mode)
                           `resumeWith_good`         under `goodRules` the two machines are the same function
    Props/WrapSim          `resumeWith_good`, `resumeWith_congr`, `runWith_sim`, `stepActorWith_good` (fact-independent)
    Props/C03Gen, C04Gen   `genRules_good`           the current source text implements the good rules (breaks when wrap.go /
                                                     condition.go change shape), the theorems of C03 / C04 for the generated
                                                     machine, and kernel-checked negative witnesses for other rules

  Decision points (the rule, the Go statement, the fact):

    rmw.readyFrom          Teardown :144 `return res.Metadata().Finalizers().Empty()` — which `res`      teardownReadyFrom (+ teardownFrame)
    rmw.phaseCheckOnRetry  UpdateWithConflicts :42 the expected-phase test is inside the retry loop      uwcFirstPass / uwcRetryPass
    rmw.retryOn            UpdateWithConflicts :61 which Update errors are retried                       uwcRetryOn
    rmw.onCreateError      ModifyWithResult :330 an error of the Create is returned                      modifyOnCreateError (+ modifyFrame)
    rmw.modifyDefaultRunning  ModifyWithResult :314                                                      modifyDefaultsRunning
    rmw.finalizers         Add/RemoveFinalizer :148/:166                                                 addFinalizerFrame, removeFinalizerFrame
    wait                   waitFinalizersEmpty :282 `switch event.Type`                                  waitAct (+ waitFrame, tadFrame)
    ctx                    ContextWithTeardown :201 `switch ev.Type`                                     ctxAct (+ ctxFrame)
    guards                 WatchForCondition.Matches (condition.go:29): guards in order, each deny-only   matchGuards, matchFallthrough (+ watchForFrame)

  Extra locals the parametrised machine needs (the hand-written one does not, because under the good rules they are
  never read): `tcur` — Teardown's `res` as read by its initial Get; `retry` — the pending Get of UpdateWithConflicts
  follows a version conflict.

  The thin forwarding layer of pkg/state/owned/state.go is `Owned.forward` at the end of the file.
-/
import Cosi.Model.Wrap

namespace Cosi.WR
open Cosi

/-- one action per event type (a `switch event.Type`) -/
structure EvActs where
  created : Gen.EvAct
  updated : Gen.EvAct
  destroyed : Gen.EvAct
  bootstrapped : Gen.EvAct
  errored : Gen.EvAct
  noop : Gen.EvAct
deriving DecidableEq, Repr, Inhabited

def EvActs.get (a : EvActs) : EvType → Gen.EvAct
  | .created => a.created | .updated => a.updated | .destroyed => a.destroyed
  | .bootstrapped => a.bootstrapped | .errored => a.errored | .noop => a.noop

def EvActs.ofFn (f : Gen.EvT → Gen.EvAct) : EvActs :=
  { created := f .created, updated := f .updated, destroyed := f .destroyed,
    bootstrapped := f .bootstrapped, errored := f .errored, noop := f .noop }

def EvActs.const (a : Gen.EvAct) : EvActs :=
  { created := a, updated := a, destroyed := a, bootstrapped := a, errored := a, noop := a }

/-- the rules of the read-modify-write helpers (UpdateWithConflicts, Teardown, Add/RemoveFinalizer, Modify) -/
structure RmwRules where
  /-- Teardown: which `res` the returned readiness is computed from -/
  readyFrom : Gen.ReadySrc
  /-- UpdateWithConflicts: the expected-phase test is repeated after every re-read -/
  phaseCheckOnRetry : Bool
  /-- UpdateWithConflicts: which Update errors lead to another attempt -/
  retryOn : Gen.RetryRule
  /-- ModifyWithResult: what an error of the Create leads to -/
  onCreateError : Gen.CreateErrAct
  /-- Add/RemoveFinalizer have the transcribed shape (owner as read, any phase) -/
  finalizers : Bool
deriving DecidableEq, Repr, Inhabited

structure Rules where
  rmw : RmwRules
  /-- waitFinalizersEmpty's switch -/
  wait : EvActs
  /-- ContextWithTeardown's switch -/
  ctx : EvActs
  /-- WatchForCondition.Matches: the guards in source order, and how each can leave the function -/
  guards : List (Gen.MatchGuard × Gen.GuardExit)
deriving DecidableEq, Repr, Inhabited

/-- what the code is meant to do (wrap.go as transcribed in Cosi.Model.Wrap) -/
def goodRules : Rules :=
  { rmw := { readyFrom := .uwcResult, phaseCheckOnRetry := true, retryOn := .versionConflict,
             onCreateError := .returnErr, finalizers := true },
    wait := { created := .checkFins, updated := .checkFins, destroyed := .retDestroyed,
              bootstrapped := .ignore, errored := .retError, noop := .ignore },
    ctx := { created := .checkTearingDown, updated := .checkTearingDown, destroyed := .cancel,
             bootstrapped := .ignore, errored := .cancelWithError, noop := .ignore },
    guards := [(.eventTypes, .denyOnly), (.resourceNil, .denyOnly), (.condFunc, .denyOnly),
               (.finsEmpty, .denyOnly), (.phases, .denyOnly)] }

/-! ### WatchForCondition.Matches as a chain of guards -/

/-- the test of one guard on one event: `none` = the guard is not configured (its `if` is skipped) -/
def guardTest (c : Cond) (e : Event) : Gen.MatchGuard → Option Bool
  | .eventTypes => c.eventTypes.map (·.contains e.typ)
  | .resourceNil => some (e.typ != .errored)
  | .condFunc => none                                  -- no free-form condition function in the model (Cosi.Cond)
  | .finsEmpty => if c.finsEmpty then some (e.typ != .destroyed && e.res.fins.isEmpty) else none
  | .phases => c.phases.map (·.contains e.res.phase)
  | .unknown => some false

/-- condition.go:29 — the guards run in order; a failing test returns false; a passing `.denyOnly` guard falls
    through to the next one; a passing guard that returns its own test (`.decides`) ends the function with true;
    the end of the chain is `return true, nil` -/
def matchesWith : List (Gen.MatchGuard × Gen.GuardExit) → Cond → Event → Bool
  | [], _, _ => true
  | (g, x) :: gs, c, e =>
    match guardTest c e g with
    | none => matchesWith gs c e
    | some false => false
    | some true =>
      match x with
      | .denyOnly => matchesWith gs c e
      | _ => true

/-! ### the machine -/

structure RLocal where
  l : Local
  /-- Teardown :128 `res, err := state.Get(…)` — the value the initial Get read -/
  tcur : Option Res := none
  /-- UpdateWithConflicts: the pending Get is a re-read after a version conflict -/
  retry : Bool := false
deriving Repr, Inhabited

def RLocal.start (c : HCall) : RLocal := { l := c.start }

def RLocal.setPc (x : RLocal) (pc : Pc) : RLocal := { x with l := { x.l with pc := pc } }

/-- Teardown :144 -/
def readyOf (r : Rules) (x : RLocal) (res : Res) : Bool :=
  match r.rmw.readyFrom with
  | .uwcResult => res.fins.isEmpty
  | .initialGet => (x.tcur.getD res).fins.isEmpty
  | .unknown => true

/-- UpdateWithConflicts :61 -/
def retries (r : Rules) (cls : String) : Bool :=
  match r.rmw.retryOn with
  | .versionConflict => cls == "conflict"
  | .anyConflict => cls == "conflict" || cls == "ownerConflict" || cls == "phaseConflict"
  | .unknown => true

/-- what happens with the result of the running UpdateWithConflicts (as `Local.afterUwc`) -/
def afterUwcWith (r : Rules) (x : RLocal) (res : Except String Res) : RLocal :=
  match x.l.call, res with
  | .teardown .., .ok v => x.setPc (.done (.ready (readyOf r x v)))
  | .tad .., .ok v => if readyOf r x v then x.setPc .destroy else x.setPc .watchStart
  | _, _ => { x with l := x.l.afterUwc res }

/-- `Local.resume` with every decision taken by a rule -/
def RLocal.resumeWith (r : Rules) (x : RLocal) (resp : Resp) : RLocal :=
  match x.l.pc, resp with
  | .get0, .out (.err e) =>
    match x.l.call with
    | .modify r0 m _ _ =>
      if e.ctor.isNotFound then
        match m.apply r0 with
        | none => x.setPc (.done (.err "other"))
        | some r' => x.setPc (.create r')
      else x.setPc (.done (.err (errClass e)))
    | _ => x.setPc (.done (.err (errClass e)))
  | .get0, .out (.res cur) =>
    match x.l.call with
    | .teardown _ _ _ owner | .tad _ _ _ owner =>
      if cur.phase ≠ .tearingDown then
        { l := { x.l with pc := .uwcGet, um := .setPhaseTD, uowner := owner, uexp := some .running },
          tcur := some cur, retry := false }
      else afterUwcWith r { x with tcur := some cur } (.ok cur)
    | .addFin _ _ _ fs =>
      if r.rmw.finalizers then
        { x with l := { x.l with pc := .uwcGet, um := .addFins fs, uowner := cur.owner, uexp := none }, retry := false }
      else x.setPc (.done (.err "unknown-shape"))
    | .removeFin _ _ _ fs =>
      if r.rmw.finalizers then
        { x with l := { x.l with pc := .uwcGet, um := .removeFins fs, uowner := cur.owner, uexp := none }, retry := false }
      else x.setPc (.done (.err "unknown-shape"))
    | .modify _ m owner exp =>
      { x with l := { x.l with pc := .uwcGet, um := m, uowner := owner, uexp := exp }, retry := false }
    | _ => x
  | .uwcGet, .out (.err e) => afterUwcWith r x (.error (errClass e))
  | .uwcGet, .out (.res cur) =>
    if (x.retry = false ∨ r.rmw.phaseCheckOnRetry = true) ∧ x.l.uexp.isSome ∧ x.l.uexp ≠ some cur.phase then
      afterUwcWith r x (.error "phaseConflict")
    else match x.l.um.apply cur with
      | none => afterUwcWith r x (.error "other")
      | some new => if resEqual cur new then afterUwcWith r x (.ok new) else x.setPc (.uwcUpdate cur new)
  | .uwcUpdate _ _, .out (.wrote r') => afterUwcWith r x (.ok r')
  | .uwcUpdate _ _, .out (.err e) =>
    if retries r (errClass e) then { x with l := { x.l with pc := .uwcGet }, retry := true }
    else afterUwcWith r x (.error (errClass e))
  | .create _, .out (.wrote r') => x.setPc (.done (.okRes r'))
  | .create r', .out (.err e) =>
    match r.rmw.onCreateError with
    | .returnErr => x.setPc (.done (.err (errClass e)))
    | _ =>
      -- the function calls itself again with the caller's emptyResource, which `updateFunc` has already mutated
      if r.rmw.onCreateError = .unknown ∨ (e.ctor.isConflict ∧ ¬ e.ctor.isOwnerConflict) then
        match x.l.call with
        | .modify _ m owner exp => { x with l := { x.l with call := .modify r' m owner exp, pc := .get0 } }
        | _ => x.setPc (.done (.err (errClass e)))
      else x.setPc (.done (.err (errClass e)))
  | .destroy, .out .ok => x.setPc (.done .ok)
  | .destroy, .out (.err e) => x.setPc (.done (.err (errClass e)))
  | .watchStart, .watchOk => x.setPc .recv
  | .recv, .event e =>
    match x.l.call with
    | .tad .. =>   -- waitFinalizersEmpty (wrap.go:282)
      match r.wait.get e.typ with
      | .retDestroyed => x.setPc (.done .ok)
      | .checkFins => if e.typ ≠ .errored ∧ e.res.fins.isEmpty then x.setPc .destroy else x
      | .retError => x.setPc (.done (.err "other"))
      | _ => x
    | .watchFor _ _ _ c => if matchesWith r.guards c e then x.setPc (.done (.okRes e.res)) else x
    | .ctxTeardown .. =>   -- wrap.go:201
      match r.ctx.get e.typ with
      | .checkTearingDown => if e.typ ≠ .errored ∧ e.res.phase = .tearingDown then x.setPc (.done (.cancelled "")) else x
      | .cancel => x.setPc (.done (.cancelled ""))
      | .cancelWithError => x.setPc (.done (.cancelled "watch"))
      | _ => x
    | _ => x
  | _, _ => x

/-! ### the system the driver runs: state + watchers + helper actors (as `HSys`) -/

structure RHSys where
  ws : WSys := {}
  actors : List (Nat × RLocal) := []
deriving Inhabited

def RHSys.actor (s : RHSys) (a : Nat) : Option RLocal := (s.actors.find? (·.1 = a)).map (·.2)

def RHSys.setActor (s : RHSys) (a : Nat) (x : RLocal) : RHSys :=
  { s with actors := (a, x) :: s.actors.filter (·.1 ≠ a) }

def RHSys.spawn (s : RHSys) (a : Nat) (c : HCall) : RHSys := s.setActor a (RLocal.start c)

/-- the hand-written system this one refines -/
def RHSys.proj (s : RHSys) : HSys := { ws := s.ws, actors := s.actors.map fun p => (p.1, p.2.l) }

/-- one atomic action of actor `a` at virtual time `now` (as `HSys.stepActor`) -/
def RHSys.stepActorWith (r : Rules) (s : RHSys) (a : Nat) (now : Nat) : RHSys × StepOut :=
  match s.actor a with
  | none => (s, .noActor)
  | some x =>
    match x.l.req with
    | none => (s, match x.l.pc with
        | .done ret => .finished ret
        | _ => .noActor)
    | some req =>
      let fin (x' : RLocal) : Option HRet := match x'.l.pc with
        | .done ret => some ret
        | _ => none
      match req with
      | .recv =>
        let (ws', d) := s.ws.recv (actorWid a)
        match d with
        | some (e :: _) =>
          let x' := x.resumeWith r (.event e)
          let ws'' := match x'.l.pc with
            | .done _ => ws'.stopWatch (actorWid a)
            | .destroy => ws'.stopWatch (actorWid a)
            | _ => ws'
          (({ s with ws := ws''.settle } : RHSys).setActor a x', .did req (.event e) (fin x'))
        | _ => (s, .blocked)
      | .watch ns typ id =>
        let (ws', _) := s.ws.startWatch (actorWid a) ns typ (.single id) none 1 {}
        let x' := x.resumeWith r .watchOk
        (({ s with ws := ws'.settle } : RHSys).setActor a x', .did req .watchOk (fin x'))
      | .get ns typ id =>
        let (ws', out) := s.ws.storeOp now (.get ns typ id)
        let x' := x.resumeWith r (.out out)
        (({ s with ws := ws'.settle } : RHSys).setActor a x', .did req (.out out) (fin x'))
      | .update res owner exp =>
        let (ws', out) := s.ws.storeOp now (.update res owner exp)
        let x' := x.resumeWith r (.out out)
        (({ s with ws := ws'.settle } : RHSys).setActor a x', .did req (.out out) (fin x'))
      | .create res owner =>
        let (ws', out) := s.ws.storeOp now (.create res owner)
        let x' := x.resumeWith r (.out out)
        (({ s with ws := ws'.settle } : RHSys).setActor a x', .did req (.out out) (fin x'))
      | .destroy ns typ id owner =>
        let (ws', out) := s.ws.storeOp now (.destroy ns typ id owner)
        let x' := x.resumeWith r (.out out)
        (({ s with ws := ws'.settle } : RHSys).setActor a x', .did req (.out out) (fin x'))

def RHSys.envOp (s : RHSys) (now : Nat) (op : Op) : RHSys × Out :=
  let (ws', out) := s.ws.storeOp now op
  ({ s with ws := ws'.settle }, out)

def RHSys.envMod (s : RHSys) (now : Nat) (ns typ id : String) (m : Mut) : RHSys × Option Out :=
  match s.ws.store.get (s.ws.cfg.key ns typ id) with
  | none => let (s', o) := s.envOp now (.get ns typ id); (s', some o)
  | some cur =>
    match m.apply cur with
    | none => (s, none)
    | some new => let (s', o) := s.envOp now (.update new cur.owner none); (s', some o)

end Cosi.WR

/-! ## pkg/state/owned/state.go: the thin forwarding layer -/

namespace Cosi.Owned
open Cosi

/-- the expected-phase option of `owned.Modify` as the caller wrote it (owned.go) -/
inductive OExp where
  | dflt                      -- no phase option: `ToModifyOptions` starts from running
  | any                       -- `owned.WithExpectedPhaseAny()`
  | explicit (p : Phase)      -- `owned.WithExpectedPhase(p)`
deriving DecidableEq, Repr, Inhabited

/-- a write helper called on `owned.State` -/
inductive OCall where
  | modify (r : Res) (m : Mut) (noOwner : Bool) (exp : OExp)              -- Modify / ModifyWithResult
  | teardown (ns typ id : String) (owner : Option String)                 -- `owned.WithOwner(o)` or nothing
  | addFin (ns typ id : String) (fins : List String)
  | removeFin (ns typ id : String) (fins : List String)
deriving Repr, Inhabited

structure ORules where
  modifyOwner : Gen.OwnerOpt
  modifyPhase : Gen.PhaseFwd
  teardownOwner : Gen.OwnerOpt
  destroyOwner : Gen.OwnerOpt
  addFinOwner : Gen.OwnerOpt
  removeFinOwner : Gen.OwnerOpt
  /-- owned.ToModifyOptions / the option constructors have the transcribed shape -/
  optionsFrame : Bool
  /-- the wrapped ModifyWithResult defaults the expected phase to running when no phase option reaches it -/
  wrappedDefaultRunning : Bool
deriving DecidableEq, Repr, Inhabited

def goodORules : ORules :=
  { modifyOwner := .nameOrNone, modifyPhase := .explicitOrAny, teardownOwner := .explicitOrName,
    destroyOwner := .explicitOrName, addFinOwner := .noOption, removeFinOwner := .noOption,
    optionsFrame := true, wrappedDefaultRunning := true }

/-- `ModifyOptions.ExpectedPhase` after `ToModifyOptions` (none = nil = any phase) -/
def OExp.toOption : OExp → Option Phase
  | .dflt => some .running
  | .any => none
  | .explicit p => some p

/-- the owner a method hands down: `name` is the owned.State's owner, `noOwner` the WithNoOwner flag, `explicit`
    the `owned.WithOwner` option. An unrecognised shape hands down a name nobody owns anything under. -/
def ownerOf (o : Gen.OwnerOpt) (name : String) (noOwner : Bool) (explicit : Option String) : String :=
  match o with
  | .name => name
  | .nameOrNone => if noOwner then "" else name
  | .explicitOrName => explicit.getD name
  | .noOption => ""
  | .unknown => "?unknown-shape"

/-- the effective expected phase of the wrapped ModifyWithResult (none = any) -/
def phaseOf (r : ORules) (e : OExp) : Option Phase :=
  let opt := if r.optionsFrame then e.toOption else none
  match r.modifyPhase with
  | .explicitOrAny => opt
  | .anyOnly =>
    match opt with
    | none => none
    | some p => if r.wrappedDefaultRunning then some .running else some p
  | .noOption => if r.wrappedDefaultRunning then some .running else none
  | .unknown => none

/-- owned/state.go: the call on the wrapped state an owned.State call `name` ends in -/
def forward (r : ORules) (name : String) : OCall → HCall
  | .modify res m noOwner exp => .modify res m (ownerOf r.modifyOwner name noOwner none) (phaseOf r exp)
  | .teardown ns typ id owner => .teardown ns typ id (ownerOf r.teardownOwner name false owner)
  | .addFin ns typ id fins =>
    match r.addFinOwner with
    | .noOption => .addFin ns typ id fins
    | _ => .addFin ns typ id ("?unknown-shape" :: fins)
  | .removeFin ns typ id fins =>
    match r.removeFinOwner with
    | .noOption => .removeFin ns typ id fins
    | _ => .removeFin ns typ id ("?unknown-shape" :: fins)

/-- owned.State.Destroy (state.go:120): the store operation it ends in -/
def forwardDestroy (r : ORules) (name : String) (ns typ id : String) (owner : Option String) : Op :=
  .destroy ns typ id (ownerOf r.destroyOwner name false owner)

end Cosi.Owned
