/-
  Cosi.Model.CtrlMonitor — the executable predicates of C06 (specification at
  quiescence) and C07 (safety on every prefix of the totally ordered write log) for the
  generic controllers (transform/controller.go, qtransform/qtransform.go,
  cleanup/cleanup.go, destroy/destroy.go). Inputs are (n1, CIn, id), outputs (n1, COut, id);
  Transform/QTransform map an input to the output with the same id and content
  `t:<input spec>`; a cleanup input's dependent outputs carry the label parent=<id>.

  The driver evaluates them on the REAL write log recorded by the engine `ctrl`;
  Cosi.Props.C07 proves them for every reachable state of the QTransform machine.
-/
import Cosi.Model.Store

namespace Cosi.Ctrl

structure Cfg where
  kind : String          -- qtransform | qtransform-ignore | transform | cleanup | cleanup-combine | destroy
  name : String := "CTL"
deriving Repr, Inhabited

def inKey (id : String) : Key := ("n1", "CIn", id)
def outKey (id : String) : Key := ("n1", "COut", id)

def mapsOutputs (c : Cfg) : Bool :=
  c.kind == "qtransform" || c.kind == "transform" || c.kind == "qtransform-ignore" || c.kind == "transform-sel"

/-- `transform-sel`: the controller lists its inputs with two label queries that add up (sel=a or sel=b, given in two
    WithInputListOptions calls); an input outside the selection is not an input of the controller at all -/
def selected (c : Cfg) (i : Res) : Bool :=
  c.kind != "transform-sel" || i.labels.lookup "sel" == some "a" || i.labels.lookup "sel" == some "b"

def destroyName : String := "Destroy[CIn]"

/-- cleanup controllers: one RemoveOutputs handler, or Combine(HasNoOutputs[COut2], RemoveOutputs[COut]) -/
def isCleanup (c : Cfg) : Bool := c.kind == "cleanup" || c.kind == "cleanup-combine"

/-- C07 fin_before_output / fin_until_output_gone: an output owned by the controller
    exists only while its input exists and carries the controller's finalizer -/
def finGuardsOutput (c : Cfg) (s : Store) : Bool :=
  s.all fun p =>
    !(p.2.typ == "COut" && p.2.owner == c.name) ||
      (match s.get (inKey p.2.id) with
        | some i => i.fins.contains c.name
        | none => false)

/-- dependent outputs of a cleanup input -/
def dependents (s : Store) (id : String) : List Res :=
  (s.filter fun p => (p.2.typ == "COut" || p.2.typ == "COut2") && p.2.labels.lookup "parent" == some id).map (·.2)

/-- the monitors of one logged write: `before`/`after` are the stores around it -/
def violations (c : Cfg) (actor : String) (op : Op) (ok : Bool) (before after : Store) : List String :=
  let v1 := if mapsOutputs c && !finGuardsOutput c after then ["fin_guards_output"] else []
  let v2 := match op with
    | .destroy _ "COut" id _ =>
      if ok && actor == "ctrl" then
        match before.get (outKey id) with
        | some o => if o.phase == .tearingDown && o.fins.isEmpty then [] else ["destroy_after_teardown_and_empty"]
        | none => []
      else []
    | _ => []
  let v3 := match op with
    | .update r _ _ =>
      if ok && actor == "ctrl" && isCleanup c && r.typ == "CIn" then
        match before.get (inKey r.id) with
        | some b =>
          if b.fins.contains c.name && !r.fins.contains c.name && !(dependents after r.id).isEmpty
          then ["cleanup_release_after_handler"] else []
        | none => []
      else []
    | _ => []
  let v4 := match op with
    | .destroy _ "CIn" id _ =>
      if ok then
        (if mapsOutputs c && (match after.get (outKey id) with
            | some o => o.owner == c.name
            | none => false) then ["input_outlives_output"] else []) ++
        (if isCleanup c && (match before.get (inKey id) with
            | some b => b.fins.contains c.name
            | none => false) then ["input_outlives_output"] else [])
      else []
    | _ => []
  v1 ++ v2 ++ v3 ++ v4

/-- C06: the specification a quiescent state must satisfy -/
def specViolations (c : Cfg) (s : Store) (ids : List String) : List String :=
  if mapsOutputs c then
    ids.flatMap fun id =>
      let i := s.get (inKey id)
      let o := (s.get (outKey id)).filter (·.owner == c.name)
      let held := match o with
        | some o => !o.fins.isEmpty      -- still held by a foreign finalizer
        | none => false
      match i.filter (selected c) with
      | some i =>
        -- WithIgnoreTeardownUntil(): a tearing-down input counts as running while other parties hold finalizers on it
        if i.phase == .running || (c.kind == "qtransform-ignore" && i.fins.any (· != c.name)) then
          match o with
          | some o =>
            if held && o.phase == .tearingDown then []
            else if o.spec == "t:" ++ i.spec && o.phase == .running then [] else [s!"stale_output({id})"]
          | none => [s!"missing_output({id})"]
        else
          match o with
          | some _ => if held then [] else [s!"orphan_output({id})"]
          | none => if i.fins.contains c.name then [s!"finalizer_not_released({id})"] else []
      | none =>
        match o with
        | some _ => if held then [] else [s!"orphan_output({id})"]
        | none => []
  else if c.kind == "destroy" then
    (s.filter fun p => p.2.typ == "CIn" && p.2.phase == .tearingDown && p.2.owner == "" && p.2.fins.isEmpty).map
      fun p => s!"not_destroyed({p.2.id})"
  else
    -- cleanup controllers: C06 speaks of Transform/QTransform only and C07 is a safety property, so nothing is
    -- demanded of a cleanup controller at quiescence. (A liveness expectation "a torn-down input without
    -- dependents loses the controller's finalizer" was checked here at first; it fails on the unchanged tree when
    -- a dependent is destroyed by its owner between RemoveOutputs' List and its Teardown — NotFound is counted as
    -- "still tearing down" and the Destroyed event of a running resource does not pass the destroy-ready filter —
    -- which is outside the given properties: DESIGN.md §5, observation O1.)
    []

end Cosi.Ctrl
