/-
  Cosi.Model.Restart — restart loops, fault containment and shutdown of the controller
  runtime (C16).

  Written 1:1 after
    /repo/pkg/controller/runtime/internal/rruntime/run.go       (Run :20 — the restart loop; runOnce :48 — recover)
    /repo/pkg/controller/runtime/internal/rruntime/rruntime.go  (NewAdapter :53 — backoff construction, initial
                                                                 trigger :97; ResetRestartBackoff :114)
    /repo/pkg/controller/runtime/internal/rruntime/watch.go     (WatchTrigger :39, triggerReconcile :53)
    /repo/pkg/controller/runtime/internal/qruntime/qruntime.go  (runWithBackoff :395, runWithPanicHandler :428,
                                                                 runReconcile :236 / runOnce :349 → Cosi.Model.Queue)
    /repo/pkg/task/task.go                                      (runWithRestarts :63, runWithPanicHandler :93)
    /repo/pkg/controller/runtime/runtime.go                     (NewRuntime :66 — `watchErrors: make(chan error, 1)`; Run :182,
                                                                 processEvents :318 — the report of a failed watch :323,
                                                                 deduplicateWatchEvents :375, deliverDeduplicatedEvents :432)
    /repo/pkg/state/impl/inmem/collection.go                    (the `Errored` event a failed watch delivers)

  All three loops build their backoff with `backoff.NewExponentialBackOff()` and clear
  `MaxElapsedTime`, like the per-key backoff of the q-runtime: the interval functions
  `Cosi.Queue.Backoff.incr / bounds / initial / base` (cenkalti constants regenerated into
  `Cosi.Gen.Queue`) are shared. The statement shapes the definitions below rely on are NOT
  written here: they are the Booleans of `Cosi.Gen.Restart`, regenerated from the source on
  every run. Where a fact is `false` the model does the pessimistic thing (a panic crashes,
  a restart does not trigger, a watch error is ignored, …).

  Time never appears as a value: a loop that backs off is in phase `backingOff lo hi`, the
  window (ns) the randomised interval is drawn from.
-/
import Cosi.Base
import Cosi.Model.Queue
import Cosi.Gen.Restart

namespace Cosi.Restart

open Cosi.Queue

/-- how one execution of `ctrl.Run` / the run hook / `RunTask` ended, as the loop sees it:
    `finished` = returned nil, or an error that `errors.Is` context.Canceled, which
    runOnce (run.go:51) and runWithPanicHandler (qruntime.go:430) turn into nil. -/
inductive RunEnd where
  | finished
  | failed
  | panicked
deriving DecidableEq, Repr, Inhabited

inductive Phase where
  | running                      -- inside runOnce / the hook / RunTask
  | backingOff (lo hi : Nat)     -- in `select { <-ctx.Done(); <-time.After(interval) }`, interval ∈ [lo, hi]
  | stopped                      -- the loop function returned
  | crashed                      -- a panic escaped (only when the facts say there is no recover)
deriving DecidableEq, Repr, Inhabited

def Phase.isBackingOff : Phase → Bool
  | .backingOff _ _ => true
  | _ => false

def Phase.live : Phase → Bool
  | .running => true
  | .backingOff _ _ => true
  | _ => false

/-- `NextBackOff()` of a backoff built the recognised way: the window the value is drawn
    from (around the CURRENT interval) and the grown interval. If the construction is not the
    recognised one nothing is known: window (0,0), interval unchanged. -/
def nextBackoff (known : Bool) (cur : Nat) : (Nat × Nat) × Nat :=
  if known then (Backoff.bounds cur, Backoff.incr cur) else ((0, 0), cur)

/-! ### rruntime.Run — the restart loop of a `controller.Controller` -/

/-- adapter-local state: `adapter.backoff.currentInterval`, where the loop is, and whether
    `adapter.ch` (capacity 1) holds a reconcile event. -/
structure RLoop where
  cur : Nat := Backoff.initial
  phase : Phase := .running
  pending : Bool := Gen.Restart.rInitialTrigger   -- NewAdapter: "initial reconcile" (rruntime.go:97)
deriving DecidableEq, Repr, Inhabited

inductive REv where
  | runEnds (e : RunEnd)   -- runOnce returned (run.go:25)
  | timerFires             -- `<-time.After(interval)` (run.go:42)
  | ctxDone                -- `<-ctx.Done()` in the same select (run.go:40)
  | reset                  -- the controller calls ResetRestartBackoff (rruntime.go:114)
  | takeEvent              -- the controller receives from EventCh()
  | trigger                -- WatchTrigger / QueueReconcile → triggerReconcile (watch.go:53)
deriving DecidableEq, Repr, Inhabited

/-- the backoff of rruntime is the default cenkalti one with MaxElapsedTime cleared and is
    touched only by NextBackOff / Reset -/
def rBackoffKnown : Bool :=
  Gen.Restart.rLoopShape && Gen.Restart.rDefaultCtor && Gen.Restart.rMaxElapsedZero && Gen.Restart.rBackoffPrivate

def REv.enabled (s : RLoop) : REv → Bool
  | .runEnds _ => s.phase == .running
  | .timerFires => s.phase.isBackingOff
  | .ctxDone => s.phase.isBackingOff
  | .reset => s.phase == .running
  | .takeEvent => s.phase == .running && s.pending
  | .trigger => true

/-- run.go:29–37: count the crash, `interval := adapter.backoff.NextBackOff()`, wait -/
def RLoop.fail (s : RLoop) : RLoop :=
  let r := nextBackoff rBackoffKnown s.cur
  { s with cur := r.2, phase := .backingOff r.1.1 r.1.2 }

/-- what an enabled event does -/
def rstepOn (s : RLoop) (e : REv) : RLoop :=
  match e with
  | .runEnds .finished => { s with phase := .stopped }                    -- run.go:26
  | .runEnds .failed => s.fail
  | .runEnds .panicked => if Gen.Restart.rRecovers then s.fail else { s with phase := .crashed }
  | .timerFires =>                                                         -- run.go:42–46
    { s with phase := .running, pending := s.pending || Gen.Restart.rRetrigger }
  | .ctxDone => { s with phase := .stopped }                               -- run.go:40
  | .reset => if Gen.Restart.rResetResets then { s with cur := Backoff.initial } else s
  | .takeEvent => { s with pending := false }
  | .trigger => { s with pending := true }                                 -- cap-1 channel, non-blocking send

/-- one step of the loop; an event that is not enabled changes nothing -/
def rstep (s : RLoop) (e : REv) : RLoop := if e.enabled s then rstepOn s e else s

def rrun (s : RLoop) : List REv → RLoop
  | [] => s
  | e :: rest => rrun (rstep s e) rest

/-! ### qruntime.runWithBackoff (run hooks) and task.runWithRestarts -/

/-- loop-local state of both functions: the local `backoff` and where the loop is -/
structure BLoop where
  cur : Nat := Backoff.initial
  phase : Phase := .running
deriving DecidableEq, Repr, Inhabited

inductive BEv where
  | runEnds (e : RunEnd) (ranNs : Nat)   -- the hook / RunTask returned after running for `ranNs`
  | timerFires
  | ctxDone
deriving DecidableEq, Repr, Inhabited

def BEv.enabled (s : BLoop) : BEv → Bool
  | .runEnds _ _ => s.phase == .running
  | .timerFires => s.phase.isBackingOff
  | .ctxDone => s.phase.isBackingOff

def hookBackoffKnown : Bool :=
  Gen.Restart.hookLoopShape && Gen.Restart.hookDefaultCtor && Gen.Restart.hookMaxElapsedZero

def taskBackoffKnown : Bool :=
  Gen.Restart.taskLoopShape && Gen.Restart.taskDefaultCtor && Gen.Restart.taskMaxElapsedZero && Gen.Restart.taskNoReset

/-- qruntime.go:411–416: "automatically reset the interval if run time was long enough":
    `if time.Since(startTime) > D { backoff.Reset() }`, then NextBackOff -/
def BLoop.failHook (s : BLoop) (ranNs : Nat) : BLoop :=
  let cur0 := if Gen.Restart.hookResetAfterNs ≠ 0 && ranNs > Gen.Restart.hookResetAfterNs then Backoff.initial else s.cur
  let r := nextBackoff (hookBackoffKnown && Gen.Restart.hookResetAfterNs ≠ 0) cur0
  { cur := r.2, phase := .backingOff r.1.1 r.1.2 }

/-- task.go:80: NextBackOff, never a reset -/
def BLoop.failTask (s : BLoop) : BLoop :=
  let r := nextBackoff taskBackoffKnown s.cur
  { cur := r.2, phase := .backingOff r.1.1 r.1.2 }

/-- qruntime.runWithBackoff (qruntime.go:395), an enabled event -/
def hstepOn (s : BLoop) (e : BEv) : BLoop :=
  match e with
  | .runEnds .finished _ => { s with phase := .stopped }
  | .runEnds .failed d => s.failHook d
  | .runEnds .panicked d => if Gen.Restart.hookRecovers then s.failHook d else { s with phase := .crashed }
  | .timerFires => { s with phase := .running }
  | .ctxDone => { s with phase := .stopped }

def hstep (s : BLoop) (e : BEv) : BLoop := if e.enabled s then hstepOn s e else s

/-- task.runWithRestarts (task.go:63), an enabled event -/
def tstepOn (s : BLoop) (e : BEv) : BLoop :=
  match e with
  | .runEnds .finished _ => { s with phase := .stopped }
  | .runEnds .failed _ => s.failTask
  | .runEnds .panicked _ => if Gen.Restart.taskRecovers then s.failTask else { s with phase := .crashed }
  | .timerFires => { s with phase := .running }
  | .ctxDone => { s with phase := .stopped }

def tstep (s : BLoop) (e : BEv) : BLoop := if e.enabled s then tstepOn s e else s

def hrun (s : BLoop) : List BEv → BLoop
  | [] => s
  | e :: rest => hrun (hstep s e) rest

def trun (s : BLoop) : List BEv → BLoop
  | [] => s
  | e :: rest => trun (tstep s e) rest

/-! ### the runtime: N controllers, the watch pipeline, watch failure, cancellation -/

/-- one registered Controller: its restart loop, the input value its last reconcile read and
    the output it wrote last. -/
structure Ctl where
  loop : RLoop := {}
  obs : Option Nat := none
  out : Option Nat := none
deriving DecidableEq, Repr, Inhabited

/-- `runCtx`: live, or cancelled with the value `Run` is going to return
    (`none` = nil, `some e` = the wrapped watch error `e`) -/
inductive Status where
  | running
  | cancelled (ret : Option Nat)
deriving DecidableEq, Repr, Inhabited

def Status.isCancelled : Status → Bool
  | .cancelled _ => true
  | .running => false

/-- what a reconcile (one event taken from EventCh inside ctrl.Run) does -/
inductive Rec where
  | ok (reset : Bool)              -- computes and writes its output; optionally ResetRestartBackoff
  | fail (partialOut : Option Nat) -- Run returns an error, possibly after a partial output write
  | panic (partialOut : Option Nat)
deriving DecidableEq, Repr, Inhabited

structure Sys where
  n : Nat                         -- controllers 0 … n-1
  ctl : Nat → Ctl
  input : Nat := 0                -- the (single) input resource all controllers depend on
  note : Bool := false            -- a change notification is in the pipeline (watchCh / dedup map; coalesced)
  intake : Bool := true           -- deduplicateWatchEvents is alive
  deliverer : Bool := true        -- deliverDeduplicatedEvents is alive
  status : Status := .running
  crashed : Bool := false         -- a panic escaped a loop: the process is gone
  errq : Nat := 0                 -- errors sitting in the buffer of `watchErrors` that nobody will receive any more
  stuck : Bool := false           -- deduplicateWatchEvents is blocked in the report of a failed watch (runtime.go:323)

def Sys.setCtl (s : Sys) (i : Nat) (c : Ctl) : Sys :=
  { s with ctl := fun j => if j = i then c else s.ctl j }

inductive Ev where
  | write (v : Nat)                -- the environment changes the input
  | deliver                        -- the pipeline hands the notification to every dependent controller
  | reconcile (i : Nat) (r : Rec)  -- controller i takes its event, reads the input, acts
  | restart (i : Nat)              -- controller i's backoff timer fires
  | watchErr (e : Nat)             -- the aggregated watch delivers `Errored` with error e
  | cancel                         -- the context given to Run is cancelled
  | observe (i : Nat)              -- loop i notices runCtx.Done (in its select, or ctrl.Run returns on it)
  | pipeObserve                    -- the pipeline goroutines notice runCtx.Done
deriving DecidableEq, Repr, Inhabited

/-- Run has returned: runCtx cancelled and `group.Wait()` is through (runtime.go:222–226) -/
def Sys.returned (s : Sys) : Bool :=
  s.status.isCancelled && !s.intake && !s.deliverer && !s.crashed &&
    (List.range s.n).all fun i => (s.ctl i).loop.phase == .stopped

/-- what Run returns once it has returned -/
def Sys.retval (s : Sys) : Option (Option Nat) :=
  match s.status with
  | .cancelled r => if s.returned then some r else none
  | .running => none

def Ev.enabled (s : Sys) : Ev → Bool
  | .write _ => true
  | .deliver => !s.crashed && s.deliverer && s.note
  | .reconcile i _ => !s.crashed && decide (i < s.n) && REv.takeEvent.enabled (s.ctl i).loop
  | .restart i => !s.crashed && decide (i < s.n) && REv.timerFires.enabled (s.ctl i).loop
  | .watchErr _ => !s.crashed && s.intake
  | .cancel => !s.crashed && s.status == .running
  | .observe i => !s.crashed && decide (i < s.n) && s.status.isCancelled && (s.ctl i).loop.phase.live
  | .pipeObserve => !s.crashed && s.status.isCancelled && (s.intake || s.deliverer)

/-- the controller body: `f i v` is the output controller `i` derives from the observed input
    `v` — reconcile is a function of the observed state only. A failing reconcile may leave an
    arbitrary partial output behind. -/
def Ctl.reconcile (f : Nat → Nat → Nat) (i : Nat) (input : Nat) (c : Ctl) (r : Rec) : Ctl :=
  let l := rstep c.loop .takeEvent
  match r with
  | .ok reset => { loop := if reset then rstep l .reset else l, obs := some input, out := some (f i input) }
  | .fail p => { loop := rstep l (.runEnds .failed), obs := some input, out := if p.isSome then p else c.out }
  | .panic p => { loop := rstep l (.runEnds .panicked), obs := some input, out := if p.isSome then p else c.out }

def Sys.anyCrashed (s : Sys) : Bool :=
  (List.range s.n).any fun i => (s.ctl i).loop.phase == .crashed

/-! ### the channel `watchErrors` (runtime.go:41, made in NewRuntime :73)

  `processEvents` reports a failed watch by sending on it (:323), `Run` receives from it in its
  only select (:218) and never again once it has left that select (it goes on to `runCtxCancel();
  group.Wait()`). The group it waits for contains the sender. So the report must never block once
  `Run` has stopped listening: whether it does depends on the capacity of the channel and on the
  shape of the send, both regenerated from the source. -/

/-- the two facts about `watchErrors` the machine depends on -/
structure ChanCfg where
  cap : Nat                  -- `make(chan error, cap)`
  send : Gen.SendKind        -- the shape of the send in processEvents
deriving DecidableEq, Repr, Inhabited

/-- the channel as it is in the source tree -/
def genCfg : ChanCfg :=
  { cap := if Gen.Restart.watchErrChanPrivate then Gen.Restart.watchErrCap else 0,
    send := Gen.Restart.watchErrSend }

/-- the report of a failed watch when NOBODY is receiving (Run has left its select): does the
    send statement complete?  A bare send needs a free buffer slot; a context-aware one also
    completes (by giving up) once runCtx is cancelled; a non-blocking one always does (dropping the
    error); an unrecognised one is assumed to block. -/
def ChanCfg.completes (c : ChanCfg) (s : Sys) : Bool :=
  match c.send with
  | .plain => decide (s.errq < c.cap)
  | .ctxAware => decide (s.errq < c.cap) || s.status.isCancelled
  | .nonBlocking => true
  | .unknown => false

/-- the recognised shape: the report is followed by `return false`, on which deduplicateWatchEvents
    returns; otherwise (pessimistically) the failed watch is ignored and the runtime runs on -/
def reportEndsIntake : Bool := Gen.Restart.watchErrAborts && Gen.Restart.dedupStopsOnAbort

/-- `processEvents` meets an `Errored` event (runtime.go:321–326): `watchErrors <- e.Error; return
    false`, which ends deduplicateWatchEvents (:400, :418).
      * Run is in its select (:215): it receives the error (directly from the sender if the channel
        is unbuffered, out of the buffer otherwise), wraps it, cancels runCtx (:218–222);
      * Run has left its select (runCtx was cancelled first): nobody receives. The send completes
        into a free buffer slot (the error is never looked at: Run returns nil) — or the goroutine
        blocks in it, for good: the send does not watch the context (`stuck`). -/
def reportStep (c : ChanCfg) (s : Sys) (e : Nat) : Sys :=
  if !reportEndsIntake then s
  else if s.status == .running && Gen.Restart.runReturnsWatchErr then
    { s with intake := false, status := .cancelled (some e) }
  else if c.completes s then
    { s with intake := false, errq := if s.errq < c.cap then s.errq + 1 else s.errq }
  else { s with stuck := true }

/-- the pipeline goroutines notice runCtx.Done in their selects — all but a deduplicateWatchEvents
    that sits in a send which does not watch the context -/
def pipeStop (c : ChanCfg) (s : Sys) : Sys :=
  let held := s.intake && s.stuck && c.send != .ctxAware
  { s with intake := held, deliverer := false, stuck := held }

/-- what an enabled event does -/
def stepOn (f : Nat → Nat → Nat) (s : Sys) (e : Ev) : Sys :=
  match e with
  | .write v =>
    -- the event reaches the pipeline only while deduplicateWatchEvents is reading watchCh
    { s with input := v, note := s.note || (s.intake && !s.crashed) }
  | .deliver =>
    -- deliverDeduplicatedEvents: WatchTrigger on every dependent controller (runtime.go:471)
    { s with note := false, ctl := fun j => { s.ctl j with loop := rstep (s.ctl j).loop .trigger } }
  | .reconcile i r =>
    let c := Ctl.reconcile f i s.input (s.ctl i) r
    let s' := s.setCtl i c
    { s' with crashed := c.loop.phase == .crashed }
  | .restart i => s.setCtl i { s.ctl i with loop := rstep (s.ctl i).loop .timerFires }
  | .watchErr e => reportStep genCfg s e
  | .cancel => { s with status := .cancelled none }
  | .observe i =>
    if Gen.Restart.adaptersInGroup then s.setCtl i { s.ctl i with loop := { (s.ctl i).loop with phase := .stopped } } else s
  | .pipeObserve => pipeStop genCfg s

/-- one step of the runtime machine; an event that is not enabled changes nothing -/
def step (f : Nat → Nat → Nat) (s : Sys) (e : Ev) : Sys := if e.enabled s then stepOn f s e else s

def run (f : Nat → Nat → Nat) (s : Sys) : List Ev → Sys
  | [] => s
  | e :: rest => run f (step f s e) rest

/-- the same machine over an arbitrary `watchErrors` channel (for what-if statements about other
    capacities / send shapes; `stepC genCfg = step`, theorem `C16.stepC_gen`) -/
def stepC (c : ChanCfg) (f : Nat → Nat → Nat) (s : Sys) (e : Ev) : Sys :=
  if e.enabled s then
    match e with
    | .watchErr x => reportStep c s x
    | .pipeObserve => pipeStop c s
    | e => stepOn f s e
  else s

def runC (c : ChanCfg) (f : Nat → Nat → Nat) (s : Sys) : List Ev → Sys
  | [] => s
  | e :: rest => runC c f (stepC c f s e) rest

/-- `n` registered controllers (each with its initial reconcile pending), input `v` -/
def init (n v : Nat) : Sys := { n := n, ctl := fun _ => {}, input := v }

/-- the events of normal operation and of faults: everything but watch failure and shutdown -/
def Ev.isRun : Ev → Bool
  | .write _ | .deliver | .reconcile _ _ | .restart _ => true
  | _ => false

def Ev.isFault : Ev → Bool
  | .reconcile _ (.fail _) | .reconcile _ (.panic _) | .restart _ => true
  | _ => false

/-- fault-free completion for controller `i`: its pending restart (if any) happens, then it
    reconciles successfully (if it has an event) -/
def settleCtl (f : Nat → Nat → Nat) (s : Sys) (i : Nat) : Sys :=
  step f (step f s (.restart i)) (.reconcile i (.ok true))

/-- faults have ceased: the notification in flight is delivered, every controller restarts
    and reconciles without error -/
def settle (f : Nat → Nat → Nat) (s : Sys) : Sys :=
  (List.range s.n).foldl (settleCtl f) (step f s .deliver)

/-- the shutdown schedule: every loop and the pipeline observe the cancellation -/
def shutdownEvs (n : Nat) : List Ev := (List.range n).map Ev.observe ++ [.pipeObserve]

end Cosi.Restart
