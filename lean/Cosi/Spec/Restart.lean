/-
  Cosi.Spec.Restart — independent specification of the restart schedule of C16, written from
  the statement of the property, NOT from the code. It imports neither `Cosi.Gen.*` nor
  `Cosi.Model.*`.

  "A controller, run hook or task that returns an error or panics is restarted with
   exponentially growing, success-resettable backoff and gets a fresh reconcile."

    * every failed run (error or panic alike) is followed by a restart after a delay within
      [0.5, 1.5] × min(500 ms · 1.5ⁿ, 60 s) (`Spec.Queue.window`), n = consecutive failures so far;
    * what resets n ("success"):
        controller  — a run in which the controller reported success (ResetRestartBackoff)
        queue item  — a reconcile that ended without error
        run hook    — a run that lasted longer than one minute
        task        — nothing (a task that returns nil is finished, not restarted)
    * every restart of a controller is followed by a reconcile;
    * a watch `Errored` event stops the runtime, `Run` returns that error;
    * after cancellation / after `Run` returned nothing runs.
-/
import Cosi.Spec.Queue

namespace Cosi.Spec.Restart

inductive Kind where
  | controller | item | hook | task
deriving DecidableEq, Repr, Inhabited

/-- a run hook that ran longer than this before failing starts over -/
def hookResetNs : Nat := 60000000000

/-- the streak a failure is counted against: a long-running hook starts over -/
def streakAtFailure (k : Kind) (n ranNs : Nat) : Nat :=
  if k = .hook ∧ ranNs > hookResetNs then 0 else n

/-- the streak after a failed run -/
def afterFailure (k : Kind) (n ranNs : Nat) : Nat := streakAtFailure k n ranNs + 1

/-- the streak after a run that did not fail; `reported` = the controller reported success -/
def afterSuccess (k : Kind) (n : Nat) (reported : Bool) : Nat :=
  match k with
  | .controller => if reported then 0 else n
  | .item => 0
  | _ => n

/-- the delay before the restart that follows a failure counted against streak `n` -/
def window (n : Nat) : Nat × Nat := Spec.Queue.window n

end Cosi.Spec.Restart
