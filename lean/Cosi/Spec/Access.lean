/-
  Cosi.Spec.Access — the access policy of property C08, written directly from the
  property statement. It does not look at Cosi.Gen.Access (nor at Cosi.Gen.Store: the
  store underneath is Cosi.Spec.step).

  "Through the runtime API a controller can read only its declared inputs and outputs,
   can create/update/modify/teardown/destroy only resource types declared as its outputs,
   and can change finalizers only on its strong (or queue primary/mapped) inputs. Every
   resource it creates is stamped with its name as owner, and unless it explicitly names
   another owner for a teardown/destroy it cannot modify or remove a resource owned by
   anyone else."

  Reading fixed in DESIGN.md §4 C08: the explicit no-owner options of Create/Modify are
  the documented way to act on unowned resources (effective owner "").
-/
import Cosi.Model.AccessTypes

namespace Cosi.Spec.Access

open Cosi Cosi.Access

/-- a declared input covers a target: same namespace and type, and it is kind-wide or
    names exactly the requested ID (so a by-ID input never covers a whole-kind request) -/
def covers (i : AInput) (t : Target) : Bool :=
  i.ns == t.ns && i.typ == t.typ &&
  match i.id with
  | none => true
  | some x => t.id == some x

def isOutputType (d : Decl) (typ : String) : Bool := d.outputs.any (fun o => o.typ == typ)

/-- strong, queue-primary, queue-mapped -/
def finalizerCapable (kind : Nat) : Bool := kind == 1 || kind == 3 || kind == 4

def readable (d : Decl) (t : Target) : Bool := isOutputType d t.typ || d.inputs.any (covers · t)

def finalizable (d : Decl) (t : Target) : Bool :=
  d.inputs.any (fun i => finalizerCapable i.kind && covers i t)

def allowed (d : Decl) (op : AdapterOp) (t : Target) : Bool :=
  match op with
  | .get | .getUncached | .ctxTeardown => readable d t
  | .list | .listUncached => readable d { t with id := none }
  | .create | .update | .modify | .modifyWithResult | .teardown | .destroy => isOutputType d t.typ
  | .addFinalizer | .removeFinalizer => finalizable d t

/-- the owner a write acts as -/
def effOwner (name : String) (op : AdapterOp) (a : OwnerArg) : Option String :=
  match op, a with
  | .create, .noOwner | .modify, .noOwner | .modifyWithResult, .noOwner => some ""
  | .teardown, .explicit o | .destroy, .explicit o => some o
  | .create, _ | .update, _ | .modify, _ | .modifyWithResult, _ | .teardown, _ | .destroy, _ => some name
  | _, _ => some ""    -- reads and finalizer changes carry no owner

def specPolicy : Policy := { allowed := allowed, owner := effOwner, step := Cosi.Spec.step }

def exec (cfg : Cfg) (s : Store) (now : Nat) (d : Decl) (c : Call) : Store × ARet × List String :=
  execCore specPolicy cfg s now d c

def run (cfg : Cfg) (d : Decl) (s : Store) (t0 : Nat) (cs : List Call) : Store × List ARet :=
  runCore specPolicy cfg d s t0 cs

end Cosi.Spec.Access
