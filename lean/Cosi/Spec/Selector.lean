/-
  Cosi.Spec.Selector — what property C14 itself says about a selector-filtered kind
  watch, written from the property statement and independent of every regenerated fact
  (no `Gen.*` is mentioned here): "a resource updated into the selector appears as
  Created, one updated out of it as Destroyed", an update inside it passes, one outside
  it is not seen; Created / Destroyed are seen iff the resource satisfies the selector.

  `Cosi.C14.rewrite_eq_spec` proves that the model of the code — whose case table is
  regenerated from collection.go — is this function, and `site_predicates_are_the_selector`
  that every site applies the one selector predicate.
-/
import Cosi.Model.Selector

namespace Cosi.Spec.Selector
open Cosi.Selector

def rewrite (m : Item → Bool) : Ev → Option Ev
  | .created r => if m r then some (.created r) else none
  | .destroyed r => if m r then some (.destroyed r) else none
  | .updated old new =>
    match m old, m new with
    | true, false => some (.destroyed new)      -- updated out of the selector
    | false, true => some (.created new)        -- updated into the selector
    | true, true => some (.updated old new)
    | false, false => none

end Cosi.Spec.Selector
