/-
  Cosi.Spec.Cache — what property C15 itself says about the read cache of one cached kind,
  written from the property statement; no regenerated fact (`Gen.*`) and no binary search is
  mentioned here:

    * the cached view is a map ID ↦ resource: bootstrap contents arrive in ID order, afterwards
      a Created/Updated event overwrites the entry of its ID and a Destroyed event deletes it;
    * reads (get / list / teardown-bound context) are not enabled before the Bootstrapped mark;
      then `get` is the map lookup and `list` the entries satisfying the selector, in ID order;
    * a teardown-bound context is cancelled at once when the resource is absent or tearing down
      at call time, otherwise exactly when a later event tears the resource down or removes it
      (or the caller cancels the parent).

  `Cosi.C15.run_refines_spec` proves that the model of the code (binary searches over a slice,
  waiter channels, regenerated wait / close facts) is this specification on its domain.
-/
import Cosi.Model.Cache

namespace Cosi.Spec.Cache
open Cosi Cosi.Cache

structure View where
  booted : Bool := false
  contents : List Res := []      -- ID-sorted, one entry per ID
  ctxs : List TCtx := []
  /-- still inside the domain the property talks about: bootstrap contents arrived in strictly
      ascending ID order before the one Bootstrapped mark -/
  inDomain : Bool := true
deriving Repr, Inhabited

def cancelId (ctxs : List TCtx) (id : String) : List TCtx :=
  ctxs.map fun c => if c.id = id then { c with cancelled := true } else c

def View.step (v : View) : Cosi.Cache.Op → View
  | .append r =>
    { v with contents := ins v.contents r,
             inDomain := v.inDomain && !v.booted && v.contents.all (fun x => x.id < r.id) }
  | .put r =>
    { v with contents := ins v.contents r,
             ctxs := if r.phase = .tearingDown then cancelId v.ctxs r.id else v.ctxs }
  | .remove r => { v with contents := del v.contents r.id, ctxs := cancelId v.ctxs r.id }
  | .mark => { v with booted := true, inDomain := v.inDomain && !v.booted }
  | .ctx cid id =>
    if v.booted then
      let now := match find v.contents id with
        | none => true
        | some r => r.phase = .tearingDown
      { v with ctxs := v.ctxs ++ [{ cid := cid, id := id, cancelled := now }] }
    else v
  | .cancel cid =>
    { v with ctxs := v.ctxs.map fun c => if c.cid = cid then { c with cancelled := true } else c }

def View.run (v : View) (ops : List Cosi.Cache.Op) : View := ops.foldl View.step v

/-- `none` = the read is not enabled -/
def View.get (v : View) (id : String) : Option (Option Res) :=
  if v.booted then some (find v.contents id) else none

def View.list (v : View) (s : Selector.Sel) : Option (List Res) :=
  if v.booted then some (v.contents.filter fun r => s.matches (toItem r)) else none

end Cosi.Spec.Cache
