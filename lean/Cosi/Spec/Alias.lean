/-
  Cosi.Spec.Alias — the specification of property C19, written from the property
  statement: VALUE SEMANTICS. Every holder (a caller variable, the store, the cache /
  watch replica, a caller-owned finalizer slice) owns a plain value; there is no heap,
  no sharing and therefore nothing a mutation through one holder could change in
  another. The store keeps the value it was handed at Create/Update time; reads return
  the stored value.

  It uses no regenerated fact (it shares only the syntax of programs, the pure map /
  list helpers and the error enum with `Cosi.Model.Heap`). The driver runs it in `spec`
  mode: an implementation trace that differs from it is a concrete failing input of C19.

  Tie to the heap model (`Cosi.Props.C19`):
    * proved: under the regenerated facts a mutator changes the observable content of its
      own object exactly as `vApplyMut` says (`applyMut_refines`), nothing any other holder
      observes changes (`copy_independence`, `raw_write_isolated`, `write_call_isolated`,
      `store_isolated`), and reads return the stored content (`get_returns_view`);
    * checked on every run, not proved: the whole-program equality
      `abs (Heap.run prog) = Spec.run prog` (the bookkeeping of the store operations and of
      the composite calls) — engine `alias` compares the implementation with BOTH on every case.
-/
import Cosi.Model.Heap

namespace Cosi.Spec.Alias

open Cosi.Heap

structure VSt where
  hs : List (Nat × VObj) := []
  raws : List (Nat × List String) := []
  store : List (String × VObj) := []
  cache : List (String × VObj) := []
deriving Repr, Inhabited

def vFresh (id : String) : VObj :=
  { md := { id := id, ver := none, owner := "", tearing := false, labels := [], annos := [], fins := [] }, spec := "" }

def kvSetV (m : KVs) (k v : String) : KVs := if aget m k = some v then m else aput m k v
def kvDelV (m : KVs) (k : String) : KVs := if (aget m k).isNone then m else adel m k
def kvDoV (m : KVs) (es : List KVEdit) : KVs := (runEdits m false es).1

def vApplyMut (o : VObj) : Mut → VObj × Out
  | .setLabel k v => ({ o with md := { o.md with labels := kvSetV o.md.labels k v } }, .ok)
  | .delLabel k => ({ o with md := { o.md with labels := kvDelV o.md.labels k } }, .ok)
  | .doLabels es => ({ o with md := { o.md with labels := kvDoV o.md.labels es } }, .ok)
  | .setAnno k v => ({ o with md := { o.md with annos := kvSetV o.md.annos k v } }, .ok)
  | .delAnno k => ({ o with md := { o.md with annos := kvDelV o.md.annos k } }, .ok)
  | .doAnnos es => ({ o with md := { o.md with annos := kvDoV o.md.annos es } }, .ok)
  | .finAdd f =>
    if o.md.fins.contains f then (o, .bool false)
    else ({ o with md := { o.md with fins := o.md.fins ++ [f] } }, .bool true)
  | .finRemove f =>
    match indexOf o.md.fins f with
    | none => (o, .bool false)
    | some i => ({ o with md := { o.md with fins := o.md.fins.eraseIdx i } }, .bool true)
  | .finSetLit l => ({ o with md := { o.md with fins := l } }, .ok)
  | .setPhase t => ({ o with md := { o.md with tearing := t } }, .ok)
  | .setVersion v => ({ o with md := { o.md with ver := v } }, .ok)
  | .setOwner w =>
    if o.md.owner = "" ∨ o.md.owner = w then ({ o with md := { o.md with owner := w } }, .ok)
    else (o, .err .ownerSet)
  | .setSpec s => ({ o with spec := s }, .ok)

def vTable (st : VSt) : Via → List (String × VObj)
  | .direct => st.store
  | .cached => st.cache

def primStep (st : VSt) : Prim → VSt × Out
  | .new h id => ({ st with hs := aput st.hs h (vFresh id) }, .ok)
  | .copy dst src =>
    match aget st.hs src with
    | none => (st, .noHandle)
    | some o => ({ st with hs := aput st.hs dst o }, .ok)
  | .copyMd dst src =>
    match aget st.hs dst, aget st.hs src with
    | some d, some s => ({ st with hs := aput st.hs dst { d with md := s.md } }, .ok)
    | _, _ => (st, .noHandle)
  | .mutate h m =>
    match aget st.hs h with
    | none => (st, .noHandle)
    | some o => let r := vApplyMut o m; ({ st with hs := aput st.hs h r.1 }, r.2)
  | .finSetFrom h src =>
    match aget st.hs h, aget st.hs src with
    | some o, some s => ({ st with hs := aput st.hs h { o with md := { o.md with fins := s.md.fins } } }, .ok)
    | _, _ => (st, .noHandle)
  | .finSetRaw h rv =>
    match aget st.hs h, aget st.raws rv with
    | some o, some l => ({ st with hs := aput st.hs h { o with md := { o.md with fins := l } } }, .ok)
    | _, _ => (st, .noHandle)
  | .rawNew rv l => ({ st with raws := aput st.raws rv l }, .ok)
  | .rawWrite rv i v =>
    match aget st.raws rv with
    | none => (st, .noHandle)
    | some l => if i < l.length then ({ st with raws := aput st.raws rv (l.set i v) }, .ok) else (st, .oob)
  | .create h owner =>
    match aget st.hs h with
    | none => (st, .noHandle)
    | some o =>
      if ¬ (o.md.owner = "" ∨ o.md.owner = owner) then (st, .err .ownerSet)
      else if (aget st.store o.md.id).isSome then (st, .err .conflict)
      else
        let stored : VObj := { o with md := { o.md with owner := owner, ver := some 1 } }
        -- the caller's object gets the stored metadata back (owner, version)
        ({ st with store := aput st.store o.md.id stored, hs := aput st.hs h stored }, .ok)
  | .update h owner exp =>
    match aget st.hs h with
    | none => (st, .noHandle)
    | some n =>
      match aget st.store n.md.id with
      | none => (st, .err .notFound)
      | some cur =>
        if cur.md.owner ≠ owner then (st, .err .ownerConflict)
        else if cur.md.ver ≠ n.md.ver then (st, .err .conflict)
        else if !(exp.ok cur.md.tearing) then (st, .err .phaseConflict)
        else
          let stored : VObj := { n with md := { n.md with ver := some (n.md.ver.getD 0 + 1) } }
          ({ st with store := aput st.store n.md.id stored, hs := aput st.hs h stored }, .ok)
  | .destroy id owner =>
    match aget st.store id with
    | none => (st, .err .notFound)
    | some o =>
      if o.md.owner ≠ owner then (st, .err .ownerConflict)
      else if o.md.fins.length ≠ 0 then (st, .err .conflict)
      else ({ st with store := adel st.store id }, .ok)
  | .get id dst via _ =>
    match aget (vTable st via) id with
    | none => (st, .err .notFound)
    | some o => ({ st with hs := aput st.hs dst o }, .ok)
  | .sync => ({ st with cache := st.store }, .ok)
  | .drop h => ({ st with hs := adel st.hs h }, .ok)

def runPrims (st : VSt) : List Prim → VSt
  | [] => st
  | p :: ps => runPrims (primStep st p).1 ps

def updateWCcoreV (st : VSt) (id : String) (ms : List Mut) (dst : Nat) (owner : String) : VSt × Out :=
  match aget st.store id with
  | none => (st, .err .notFound)
  | some cur =>
    if cur.md.tearing then (st, .err .phaseConflict)
    else
      let st2 : VSt := { st with hs := aput st.hs dst cur }
      let st3 := runPrims st2 (ms.map (.mutate dst ·))
      let new := (aget st3.hs dst).getD default
      if vEqual cur new then (st3, .noop) else primStep st3 (.update dst owner .running)

def updateWCV (st : VSt) (id : String) (ms : List Mut) (dst : Nat) (owner : String) : VSt × Out :=
  let r := updateWCcoreV st id ms dst owner
  match r.2 with
  | .err e => ({ r.1 with hs := adel r.1.hs dst }, .err e)
  | o => (r.1, o)

def step (st : VSt) : Step → VSt × Out
  | .prim p => primStep st p
  | .list base via =>
    let ids := sortedIds ((vTable st via).map fun p => (p.1, 0))
    (runPrims st (listPrims ids base via), .ids ids)
  | .modify h ms owner =>
    match aget st.hs h with
    | none => (st, .noHandle)
    | some o =>
      match aget st.store o.md.id with
      | none => primStep (runPrims st (ms.map (.mutate h ·))) (.create h owner)
      | some _ =>
        let r := updateWCV st o.md.id ms scratch2 owner
        ({ r.1 with hs := adel r.1.hs scratch2 }, r.2)
  | .updateWC id ms dst owner => updateWCV st id ms dst owner

def run (st : VSt) : List Step → VSt
  | [] => st
  | s :: ss => run (step st s).1 ss

end Cosi.Spec.Alias

namespace Cosi.Spec.Alias
open Cosi.Heap

/-- the abstraction: what every holder of a heap-model state observes -/
def abs (st : St) : VSt :=
  { hs := st.hs.map fun p => (p.1, viewRef st p.2),
    raws := st.raws.map fun p => (p.1, viewSlice st.heap p.2),
    store := storeView st,
    cache := cacheView st }

end Cosi.Spec.Alias
