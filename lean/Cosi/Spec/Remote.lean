/-
  Cosi.Spec.Remote — what property C11 demands, written from the property statement and
  independent of every regenerated gRPC fact (`Cosi.Gen.Grpc` is not used here; the types come
  from `Cosi.Model.Remote`).

  1. Transparency: a call through client adapter and server gives the result of the same call on
     the wrapped state, seen through the client API: errors by class, and on Create / Update the
     caller's object gets exactly version, owner and update-time of the stored resource.
  2. Watch events arrive with their type, resource, old resource and bookmark (a tombstone, which
     has no spec, arrives as a resource with an empty spec).
  3. The Teardown / TeardownAndDestroy RPC is sent until the first Unimplemented answer and never
     again.
  4. No request crashes the server; a malformed request is answered with an error status.
-/
import Cosi.Model.Remote
import Cosi.Spec.Store

namespace Cosi.Spec.Remote
open Cosi Cosi.Remote Cosi.Gen

/-- the direct result as the remote caller must see it -/
def viewOf (op : ROp) (o : Out) : Out :=
  match o, op with
  | .wrote r', .create r _ => .wrote { r with ver := r'.ver, owner := r'.owner, updated := r'.updated }
  | .wrote r', .update r _ _ => .wrote { r with ver := r'.ver, owner := r'.owner, updated := r'.updated }
  | .err e, _ => .err (errOfClass (clsOfCtor e.ctor))
  | o, _ => o

/-- the remote store operation the property demands: the sequential spec of C01, seen through `viewOf` -/
def step (cfg : Cfg) (s : Store) (now : Nat) (op : ROp) : Store × Out :=
  let (s', o) := Spec.step cfg s now op.direct
  (s', viewOf op o)

/-- a resource as it arrives in a remote watch event -/
def wireRes (r : Res) : Res := if isTomb r then { r with spec := "" } else r

/-- the event a remote watcher must receive for the state's event -/
def wireImage (e : Event) : Event :=
  if e.typ == .errored then erroredEvent
  else { e with res := wireRes e.res, old := e.old.map wireRes }

/-- how many Teardown (or TeardownAndDestroy) RPCs reach the server after `calls` calls of the
    client method: all of them when the server has the RPC, else only the first -/
def expectedRpcs (supported : Bool) (calls : Nat) : Nat := if supported then calls else min calls 1

/-! ### malformed requests -/

/-- a label term no well-behaved client sends: an operator outside the enum, or a value-taking
    operator (everything but EXISTS, NOT_EXISTS, IN) without a value -/
def termMalformed (w : WTermX) : Bool :=
  match w.op with
  | none => true
  | some .unknown => true
  | some .wExists | some .wNotExists | some .wIn => false
  | some _ => w.value.isEmpty

def idqMalformed : Option WIdQuery → Bool
  | none => false
  | some q => q.regexp != "" && !q.compiles

def queriesMalformed (lq : List (List WTermX)) : Bool := lq.any (·.any termMalformed)

def bookmarkMalformed : Option BookmarkArg → Bool
  | none => false
  | some b => (decodeBm b).isNone

/-- a request that must be answered with an error status: a resource without metadata or spec or
    with an unparsable version / phase, an unparsable expected phase, a malformed label term, a
    regexp that does not compile, a bookmark that is not a bookmark of this server -/
def malformed : WReq → Bool
  | .get .. => false
  | .list _ _ opts =>
    match opts with
    | none => false
    | some o => queriesMalformed o.labelQuery || idqMalformed o.idQuery
  | .create res _ => (decodeRes res).isNone
  | .update res opts =>
    (decodeRes res).isNone ||
    (match opts with
      | some (_, some .garbage) => true
      | _ => false)
  | .destroy .. => false
  | .teardown .. => false
  | .teardownAndDestroy .. => false
  | .watch _ _ id opts _ =>
    match opts with
    | none => false
    | some o =>
      bookmarkMalformed o.bookmark ||
      (id.isNone && (queriesMalformed o.labelQuery || idqMalformed o.idQuery))

end Cosi.Spec.Remote
