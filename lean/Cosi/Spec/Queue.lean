/-
  Cosi.Spec.Queue — independent specification of the reconcile queue and of the error
  backoff, written from the statement of property C09, NOT from the code. It does not
  import `Cosi.Gen.*` nor `Cosi.Model.Queue`.

  The queue, per key:
    * at most ONE pending delivery `pend = (value, notBefore)`        (coalescing)
    * `held` while a worker has the item                               (exclusion: no
      delivery of a held key)
    * a notification that arrives while the key is held is `parked` (latest value wins) and
      becomes pending, deliverable at once, when the key is released   (no loss)
    * `Requeue(t)` makes the key pending not before `t`; only a fresh notification (or one
      parked during the hold) makes it deliverable earlier             (honoured backoff)
    * a fresh notification replaces the value and makes the key deliverable now.
  WHICH of several deliverable keys a `get` hands out is not fixed by the property; the
  event `deliver k` names it (its precondition is `canDeliver`).
  `len` = pending + parked.

  The backoff: after `n` consecutive plain failures of a key the base interval is
  min(500 ms · 1.5ⁿ, 60 s), the delay lies within [0.5, 1.5] × base; success or skip reset `n`;
  an explicit RequeueError interval is used as is and leaves `n` alone when it comes with an
  error.
-/
namespace Cosi.Spec.Queue

structure KeySt where
  pend : Option (Nat × Nat) := none     -- (value, not before)
  held : Bool := false
  parked : Option Nat := none
deriving DecidableEq, Repr, Inhabited

structure S where
  ks : Nat → KeySt := fun _ => {}
  now : Nat := 0

def S.set (s : S) (k : Nat) (x : KeySt) : S :=
  { s with ks := fun k' => if k' = k then x else s.ks k' }

inductive Ev where
  | put (k v : Nat)
  | deliver (k : Nat)
  | release (k : Nat)
  | requeue (k v t : Nat)
  | tick (d : Nat)
deriving DecidableEq, Repr

/-- a fresh value becomes deliverable now, or stays deliverable as early as it already was -/
def freshen (old : Option (Nat × Nat)) (v now : Nat) : Option (Nat × Nat) :=
  match old with
  | some (_, d) => some (v, min d now)
  | none => some (v, now)

def step (s : S) : Ev → S
  | .put k v =>
    let x := s.ks k
    if x.held then s.set k { x with parked := some v }
    else s.set k { x with pend := freshen x.pend v s.now }
  | .deliver k => s.set k { s.ks k with pend := none, held := true }
  | .release k =>
    let x := s.ks k
    match x.parked with
    | some pv => s.set k { pend := freshen x.pend pv s.now, held := false, parked := none }
    | none => s.set k { x with held := false }
  | .requeue k v t =>
    let x := s.ks k
    match x.parked with
    | some pv => s.set k { pend := freshen (some (v, t)) pv s.now, held := false, parked := none }
    | none => s.set k { pend := some (v, t), held := false, parked := none }
  | .tick d => { s with now := s.now + d }

/-- precondition of `deliver k`, and the value handed out -/
def canDeliver (s : S) (k : Nat) : Option Nat :=
  match (s.ks k).pend with
  | some (v, d) => if d ≤ s.now ∧ (s.ks k).held = false then some v else none
  | none => none

/-- reported length over a set of keys: pending + held back -/
def len (s : S) (univ : List Nat) : Nat :=
  (univ.filter fun k => (s.ks k).pend.isSome).length +
  (univ.filter fun k => (s.ks k).parked.isSome).length

/-! ### backoff -/

/-- min(500 ms · 1.5ⁿ, 60 s) in ns -/
def base (n : Nat) : Nat := min (500000000 * 3 ^ n / 2 ^ n) 60000000000

/-- [0.5, 1.5] × base -/
def window (n : Nat) : Nat × Nat := (base n / 2, base n + base n / 2)

inductive Result where
  | ok | skip | fail
deriving DecidableEq, Repr

/-- consecutive plain failures so far; `interval` is an explicit RequeueError interval (0 = none) -/
def nextStreak (n : Nat) (r : Result) (interval : Nat) : Nat :=
  match r with
  | .fail => if interval = 0 then n + 1 else n
  | _ => 0

end Cosi.Spec.Queue
