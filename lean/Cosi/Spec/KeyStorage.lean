/-
  Cosi.Spec.KeyStorage — what property C20 demands, written from the property
  statement and independent of every regenerated fact (it imports the model only for
  the shared vocabulary `Op`, `SlotId`, `KeyStr`, `Bytes` and the association-list
  helpers; it never looks at a blob, a tag, a guard table or `Gen.*`).

  The specification state is the *meaning* of a storage: the master key and, for each
  live slot, the public key it was created for. `pairs` lists the (encryption key text,
  decryption key text) pairs that exist.

    * a slot's private key recovers the master key iff the slot is live and the key
      matches; every other retrieval is refused;
    * a second initialisation is refused, an existing slot is never overwritten, the
      last slot is never deleted, an uninitialised storage refuses everything;
    * marshal + unmarshal changes nothing;
    * after ANY alteration of the serialized form that the property names (a blob, the
      tag, a slot added / removed / renamed — with any blob, empty included — or the
      version) every retrieval is refused (`tampered`).
-/
import Cosi.Model.KeyStorage

namespace Cosi.Spec.KeyStorage
open Cosi.KeyStorage

/-- initialised storage: the master key and slot ↦ public key -/
structure Live where
  master : Bytes
  slots : List (SlotId × KeyStr)
deriving DecidableEq, Repr

abbrev St := Option Live

inductive SOut where
  | ok
  | key (mk : Bytes)
  | refused
deriving DecidableEq, Repr

def knownPub (pairs : List (KeyStr × KeyStr)) (pu : KeyStr) : Bool := pairs.any (fun p => p.1 == pu)

/-- `priv` is a private key matching the public key slot `id` was created for -/
def auth (pairs : List (KeyStr × KeyStr)) (slots : List (SlotId × KeyStr)) (id : SlotId) (priv : KeyStr) : Bool :=
  match alLookup id slots with
  | none => false
  | some pu => pairs.contains (pu, priv)

def step (pairs : List (KeyStr × KeyStr)) (st : St) : Op → St × SOut
  | .init mk id pub _ =>
    match st with
    | some _ => (st, .refused)                                   -- second initialisation refused
    | none =>
      if mk.length = 32 ∧ id ≠ "" ∧ knownPub pairs pub then (some ⟨mk, [(id, pub)]⟩, .ok)
      else (st, .refused)
  | .add newId newPub oldId oldPriv _ =>
    match st with
    | none => (st, .refused)                                     -- uninitialised refuses everything
    | some l =>
      if newId ≠ "" ∧ knownPub pairs newPub ∧ (alLookup newId l.slots).isNone   -- never overwrite
          ∧ auth pairs l.slots oldId oldPriv then
        (some { l with slots := alInsert newId newPub l.slots }, .ok)
      else (st, .refused)
  | .delete id priv =>
    match st with
    | none => (st, .refused)
    | some l =>
      if 2 ≤ l.slots.length ∧ auth pairs l.slots id priv then           -- never the last slot
        (some { l with slots := alErase id l.slots }, .ok)
      else (st, .refused)
  | .get id priv =>
    match st with
    | none => (st, .refused)
    | some l => if auth pairs l.slots id priv then (st, .key l.master) else (st, .refused)
  | .reload =>
    match st with
    | none => (st, .refused)     -- there is nothing to load back: the empty serialization is refused
    | some _ => (st, .ok)        -- marshal + unmarshal changes nothing

def run (pairs : List (KeyStr × KeyStr)) (st : St) : List Op → St × List SOut
  | [] => (st, [])
  | op :: ops =>
    let (s1, o) := step pairs st op
    let (s2, os) := run pairs s1 ops
    (s2, o :: os)

def exec (pairs : List (KeyStr × KeyStr)) (st : St) (ops : List Op) : St := (run pairs st ops).1

/-- the model's outputs seen through the specification's eyes -/
def abs : Out → SOut
  | .ok => .ok
  | .key mk => .key mk
  | .err _ => .refused

/-- tampering: every alteration the property names must be noticed by the next
    retrieval, whatever the slot and key used. (`alterAlg` is not among the alterations
    the property names; the specification leaves it unconstrained.) -/
def mustDetect : Tamper → Bool
  | .alterBlob _ _ => true
  | .alterTag _ => true
  | .addSlot _ _ _ => true
  | .removeSlot _ => true
  | .renameSlot _ _ => true
  | .alterVersion _ => true
  | .alterAlg _ _ => false

/-- a retrieval on a storage tampered with behind the API -/
def getTampered : SOut := .refused

end Cosi.Spec.KeyStorage
