/-
  Cosi.Spec.DepDB — what property C17 demands, written from the property statement.
  Independent of the regenerated facts (no `Cosi.Gen.*` import) and of the table layout,
  binary search and merge loop of the model: the state is just the SET of accepted
  declarations (a list without order significance) plus the registered controllers.

  * outputs: a type has at most one exclusive holder, ever; exclusive and shared claims
    never coexist; a controller holds a shared claim at most once;
  * inputs: two inputs of one controller with the same (namespace, type, id) conflict
    (`id` absent and `id = ""` are different ids);
  * Controllers may declare Weak/Strong/DestroyReady inputs, QControllers
    QPrimary/QMapped/QMappedDestroyReady; a QController's concurrency must not be 0;
  * registration is TRANSACTIONAL: a rejected registration changes nothing;
  * the graph is exactly the accepted declarations; a change of (ns,typ,id) is notified to
    exactly the controllers with an input (ns,typ,absent) or (ns,typ,id).

  The property does not say what a rejected `UpdateInputs` leaves behind (the code applies
  the edits preceding the conflicting one). After such a call the spec stops constraining
  the case (`unspec`); the model-mode comparison still pins what the code does.

  Imports the model only for the vocabulary (`Input`, `Output`, `Decl`, `Edge`, `edgeOfDecl`).
-/
import Cosi.Model.DepDB

namespace Cosi.Spec.DepDB

open Cosi.DepDB

/-- the accepted declarations -/
abbrev SDB := List (String × Decl)

def holdsExcl (s : SDB) (t : String) : Bool :=
  s.any fun p => match p.2 with
    | .out o => decide (o.typ = t) && decide (o.kind = 0)
    | .inp _ => false

def holdsShared (s : SDB) (t : String) : Bool :=
  s.any fun p => match p.2 with
    | .out o => decide (o.typ = t) && decide (o.kind = 1)
    | .inp _ => false

def hasInputKey (s : SDB) (c : String) (d : Input) : Bool :=
  s.any fun p => decide (p.1 = c) && (match p.2 with
    | .inp i => decide (i.ns = d.ns) && decide (i.typ = d.typ) && decide (i.id = d.id)
    | .out _ => false)

def addOutput (s : SDB) (c : String) (o : Output) : SDB × Bool :=
  if holdsExcl s o.typ then (s, false)
  else if o.kind = 0 then (if holdsShared s o.typ then (s, false) else (s ++ [(c, .out o)], true))
  else if o.kind = 1 then (if s.contains (c, .out o) then (s, false) else (s ++ [(c, .out o)], true))
  else (s, true) -- outside the declared constants: excluded point, mirrors the code

def addInput (s : SDB) (c : String) (d : Input) : SDB × Bool :=
  if hasInputKey s c d then (s, false) else (s ++ [(c, .inp d)], true)

def deleteInput (s : SDB) (c : String) (d : Input) : SDB × Bool :=
  if hasInputKey s c d then
    (s.filter (fun p => !(decide (p.1 = c) && (match p.2 with
      | .inp i => decide (i.ns = d.ns) && decide (i.typ = d.typ) && decide (i.id = d.id)
      | .out _ => false))), true)
  else (s, false)

def inputsOf (s : SDB) (c : String) : List Input :=
  s.filterMap fun p => match p.2 with
    | .inp i => if p.1 = c then some i else none
    | .out _ => none

def outputsOf (s : SDB) (c : String) : List Output :=
  s.filterMap fun p => match p.2 with
    | .out o => if p.1 = c then some o else none
    | .inp _ => none

/-- controllers to notify about a change of (ns,typ,id): one entry per matching input -/
def dependents (s : SDB) (ns typ id : String) : List String :=
  s.filterMap fun p => match p.2 with
    | .inp i => if i.ns = ns ∧ i.typ = typ ∧ (i.id = none ∨ i.id = some id) then some p.1 else none
    | .out _ => none

def exclusiveOf (s : SDB) (t : String) : String :=
  match s.find? (fun p => match p.2 with
      | .out o => decide (o.typ = t) && decide (o.kind = 0)
      | .inp _ => false) with
  | some p => p.1
  | none => ""

def edges (s : SDB) : List Edge := s.map fun p => edgeOfDecl p.1 p.2

/-! ### registration histories -/

structure SSys where
  db : SDB := []
  /-- registered controllers: name, isQ -/
  ctrls : List (String × Bool) := []
  started : Bool := false
  /-- a rejected UpdateInputs happened: the property no longer determines the state -/
  unspec : Bool := false

def addOutputs (s : SDB) (c : String) : List Output → Option SDB
  | [] => some s
  | o :: os => match addOutput s c o with
    | (s', true) => addOutputs s' c os
    | (_, false) => none

def addInputs (s : SDB) (c : String) : List Input → Option SDB
  | [] => some s
  | i :: is => match addInput s c i with
    | (s', true) => addInputs s' c is
    | (_, false) => none

def kindOkR (k : Nat) : Bool := k = 0 || k = 1 || k = 2
def kindOkQ (k : Nat) : Bool := k = 3 || k = 4 || k = 5

/-- all-or-nothing -/
def register (s : SSys) (isQ : Bool) (name : String) (inputs : List Input) (outputs : List Output)
    (conc : Option Nat) : SSys × Bool :=
  if s.ctrls.any (fun p => p.1 = name) then (s, false)
  else if isQ && conc == some 0 then (s, false)
  else if !(inputs.all fun i => if isQ then kindOkQ i.kind else kindOkR i.kind) then (s, false)
  else match addOutputs s.db name outputs with
    | none => (s, false)
    | some db1 => match addInputs db1 name inputs with
      | none => (s, false)
      | some db2 => ({ s with db := db2, ctrls := s.ctrls ++ [(name, isQ)] }, true)

inductive UpdRes where
  | ok
  | rejected
  | nohandle

def updateInputs (s : SSys) (name : String) (inputs : List Input) : SSys × UpdRes :=
  if !(s.started && s.ctrls.contains (name, false)) then (s, .nohandle)
  else if !(inputs.all fun i => kindOkR i.kind) then (s, .rejected) -- nothing touched
  else
    let rest : SDB := s.db.filter fun p => !(decide (p.1 = name) && (match p.2 with
      | .inp _ => true
      | .out _ => false))
    match addInputs rest name inputs with
    | some db' => ({ s with db := db' }, .ok)
    | none => ({ s with unspec := true }, .rejected)

/-- who reconciles on a change of (ns,typ,id); nothing is delivered before the runtime runs -/
def woken (s : SSys) (ns typ id : String) : List String :=
  if s.started then (dependents s.db ns typ id).eraseDups else []

end Cosi.Spec.DepDB
