/-
  Cosi.Spec.Persist — the specification of property C10, written from the property
  statement and independent of every regenerated fact about the persistence path (it does
  not import Cosi.Gen.*; the sequential semantics of the operations themselves is C01's
  `Spec.step`, the event rings and watchers are C02's `WSys`).

    * an operation that the state cannot serve because the backing store could not be loaded
      fails with the load error, and changes nothing a client can see;
    * a write whose backing-store call is rejected fails, and neither the memory contents, nor
      the event log, nor any watcher, nor the durable contents change;
    * every other write is applied to the durable contents AND to memory (with its event);
    * a (re)opened state serves exactly the durable contents: it becomes `loaded` only through a
      Load that went through every durable entry.

  `Cosi.Props.C10.exec_eq_spec` proves that the model of the code (which consumes
  `Gen.Store.storeBeforeMemory`, `Gen.Persist.*`) equals it. The driver runs it in `spec` mode.
-/
import Cosi.Model.Persist
import Cosi.Spec.Store

namespace Cosi.Spec.Persist

open Cosi

/-- Load: the handler sees the entries one by one; the image is complete iff it saw them all -/
def loadEntries {E} (c : Codec E) (m : WSys) : List (Key × Res) → Option Nat → WSys × Bool
  | [], budget => (m, budget.isNone)
  | e :: es, budget =>
    if budget = some 0 then (m, false) else
    match c.dec (c.enc e.2) with
    | none => (m, false)
    | some r => loadEntries c (m.inject e.1.2.1 r) es (budget.map (· - 1))

def ensureLoaded {E} (c : Codec E) (s : PSys) : PSys × Bool :=
  if s.loaded then (s, true) else
  let (f, rest) := popLoad s.faults.load
  let (m', ok) := loadEntries c s.mem (loadOrder s.D) f
  ({ s with mem := m', loaded := ok, faults := { s.faults with load := rest } }, ok)

def dWrite (cfg : Cfg) (D : Store) : Op → Out → Store
  | .create r _, .wrote r' => D.put (r.key cfg) r'
  | .update r _ _, .wrote r' => D.put (r.key cfg) r'
  | .destroy ns typ id _, .ok => D.del (cfg.key ns typ id)
  | _, _ => D

def storeOp {E} (c : Codec E) (s : PSys) (now : Nat) (op : Op) : PSys × POut :=
  let (s1, ok) := ensureLoaded c s
  if !ok then (s1, .loadErr) else
  let out := (Cosi.Spec.step s1.mem.cfg s1.mem.store now op).2
  if !isWrite op || out.isErr then (s1, .out out) else
  let (rej, f') := s1.faults.forWrite op
  if rej then ({ s1 with faults := f' }, .storeErr)
  else ({ s1 with faults := f', D := dWrite s1.mem.cfg s1.D op out, mem := (s1.mem.storeOp now op).1 }, .out out)

def exec {E} (c : Codec E) (s : PSys) : POp → PSys × POut
  | .store now op => storeOp c s now op
  | .wstart wid ns typ wk sel cap o =>
    let (s1, ok) := ensureLoaded c s
    if !ok then (s1, .loadErr) else
    let (m', e) := s1.mem.startWatch wid ns typ wk sel cap o
    ({ s1 with mem := m' }, .started e)
  | .recv wid =>
    let (m', d) := s.mem.recv wid
    ({ s with mem := m' }, .delivery d)
  | .wstop wid => ({ s with mem := s.mem.stopWatch wid }, .done)
  | .crash => (s.crash, .done)
  | .arm f => ({ s with faults := f s.faults }, .done)

def run {E} (c : Codec E) (s : PSys) : List POp → PSys × List POut
  | [] => (s, [])
  | op :: ops =>
    let (s', o) := exec c s op
    let (s'', os) := run c s' ops
    (s'', o :: os)

end Cosi.Spec.Persist
