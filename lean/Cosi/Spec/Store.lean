/-
  Cosi.Spec.Store — the sequential resource-store specification of property C01,
  written directly from the property statement and independent of every regenerated
  fact (it does not import Cosi.Gen.*). `Cosi.Props.C01.step_eq_spec` proves that the
  model of the code (which consumes the regenerated precondition tables) equals it.

  It is also what the driver runs in `spec` mode when a proof obligation or the
  correspondence breaks and a concrete failing input is searched for.
-/
import Cosi.Model.Store

namespace Cosi.Spec

open Cosi

/-- every classifiable error carries the (namespace,type) of the resource, so the
    qualified predicates can always be evaluated -/
def err (c : ErrCtor) (ns typ : String) : Out :=
  .err { ctor := c, res := if c.isConflict then some (ns, typ) else none }

def step (cfg : Cfg) (s : Store) (now : Nat) : Op → Store × Out
  | .create r owner =>
    let k := r.key cfg
    if r.owner ≠ "" ∧ r.owner ≠ owner then (s, err .ownerAlreadySet r.ns r.typ)
    else if (s.get k).isSome then (s, err .alreadyExists r.ns r.typ)
    else
      let r' := { r with owner := owner, ver := some 1, created := now }
      (s.put k r', .wrote r')
  | .update r owner exp =>
    let k := r.key cfg
    match s.get k with
    | none => (s, err .notFound r.ns r.typ)
    | some cur =>
      if cur.owner ≠ owner then (s, err .ownerConflict cur.ns cur.typ)
      else if cur.ver ≠ r.ver then (s, err .versionConflict cur.ns cur.typ)
      else if exp.isSome ∧ exp ≠ some cur.phase then (s, err .phaseConflict cur.ns cur.typ)
      else
        let r' := { r with ver := some (r.ver.getD 0 + 1), updated := now, created := cur.created }
        (s.put k r', .wrote r')
  | .destroy ns typ id owner =>
    let k := cfg.key ns typ id
    match s.get k with
    | none => (s, err .notFound ns typ)
    | some cur =>
      if cur.owner ≠ owner then (s, err .ownerConflict cur.ns cur.typ)
      else if cur.fins ≠ [] then (s, err .pendingFinalizers cur.ns cur.typ)
      else (s.del k, .ok)
  | .get ns typ id =>
    match s.get (cfg.key ns typ id) with
    | none => (s, err .notFound ns typ)
    | some r => (s, .res r)
  | .list ns typ sel =>
    let pre := (if cfg.nsAware then ns else "")
    (s, .items (sortById ((s.filter fun p => p.1.1 = pre ∧ p.1.2.1 = typ).map (·.2) |>.filter sel)))

def run (cfg : Cfg) (s : Store) (t0 : Nat) : List Op → Store × List Out
  | [] => (s, [])
  | op :: ops =>
    let (s', o) := step cfg s t0 op
    let (s'', os) := run cfg s' (t0 + 1) ops
    (s'', o :: os)

/-- over a backing store: a write the backing store rejects fails and changes nothing -/
def stepBS (cfg : Cfg) (reject : Bool) (s : Store) (now : Nat) (op : Op) : Store × Out :=
  if reject && op.isWrite && (step cfg s now op).2.isWrite then (s, .err { ctor := .backing, res := none })
  else step cfg s now op

end Cosi.Spec
