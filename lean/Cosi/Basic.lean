def hello := "world"
