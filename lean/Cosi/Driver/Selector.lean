/-
  Cosi.Driver.Selector — line protocol of engine `selector` (property C14).

  Header   `# engine=selector mode=eval|hist [q=<queries> idm=<id:bit,..> re=<hex>]`
  Tokens   string  = lowercase hex of its bytes (ASCII domain)
           labels  = `hexk:hexv,hexk:hexv`            (empty = no labels)
           term    = `<hexkey>.<op>.<0|1 invert>.<values>`, op ∈ exists eq in lt lte ltn lten,
                     values = `x<hex>_x<hex>..` (empty = empty value list)
           query   = terms joined by `+`, `-` = a query without terms
           queries = queries joined by `|`           (empty = no label query)
  Ops
    eval  id=<hex> idm=<0|1> [re=<hex>] wire=<0|1> l=<labels> q=<queries>
          one (labels, queries) pair at the four sites:
          `v direct=<b> t=<per-term bits> list=<b> watch=<b> cache=<b> grpc=<b|PANIC|err|skip> grpcw=<..>`
    evalx …  non-ASCII operands, outside the model: the sites only have to agree: `vx agree=true`
    watch                       (hist) start the selector-filtered watches with bootstrap
    create|update id=<hex> l=<labels>,  destroy id=<hex>   (hist) one write, then
          `h r=<ok|fail> ev=<events> gev=<events> list=<items> glist=<items> clist=<items> view=<items>`

  `spec = true`: every site's verdict is what the property demands — the one selector
  predicate, the same as the direct one — and events are rewritten by `Spec.Selector.rewrite`,
  instead of what the regenerated tables (operator translation, site predicates, rewrite
  cases) compute.
-/
import Cosi.Spec.Selector

namespace Cosi.Driver.Selector
open Cosi Cosi.Selector

def hexStr (s : String) : Option String :=
  (hexToBytes s).map fun bs => String.ofList (bs.map fun b => Char.ofNat b.toNat)

def strHex (s : String) : String :=
  bytesToHex (s.toList.map fun c => UInt8.ofNat c.toNat)

def optAll {α β} (f : α → Option β) : List α → Option (List β)
  | [] => some []
  | a :: as => match f a, optAll f as with
    | some b, some bs => some (b :: bs)
    | _, _ => none

def parseLabels (s : String) : Option Labels :=
  optAll (fun kv : String × String =>
    match hexStr kv.1, hexStr kv.2 with
    | some k, some v => some (k, v)
    | _, _ => none) (splitMap s)

def parseOpTok : String → Option LabelOp
  | "exists" => some .opExists | "eq" => some .opEqual | "in" => some .opIn | "lt" => some .opLT
  | "lte" => some .opLTE | "ltn" => some .opLTNumeric | "lten" => some .opLTENumeric | _ => none

def parseValues (s : String) : Option (List String) :=
  if s == "" then some [] else
  optAll (fun v : String => if v.startsWith "x" then hexStr (v.drop 1).toString else none) (s.splitOn "_")

def parseTerm (s : String) : Option Term :=
  match s.splitOn "." with
  | [k, op, inv, vals] =>
    match hexStr k, parseOpTok op, parseValues vals with
    | some k, some op, some vs => some { key := k, value := vs, op := op, invert := inv == "1" }
    | _, _, _ => none
  | _ => none

def parseQuery (s : String) : Option Query :=
  if s == "-" then some [] else optAll parseTerm (s.splitOn "+")

def parseQueries (s : String) : Option Queries :=
  if s == "" then some [] else optAll parseQuery (s.splitOn "|")

def labelsStr (l : Labels) : String :=
  joinMap (l.map fun (k, v) => (strHex k, strHex v))

def itemStr (r : Item) : String := s!"{strHex r.id}@{r.ver}\{{labelsStr r.labels}}"

def itemsStr (l : List Item) : String :=
  if l.isEmpty then "-" else ";".intercalate (l.map itemStr)

def evStr : Ev → String
  | .created r => "C:" ++ itemStr r
  | .updated old new => "U:" ++ itemStr new ++ "<" ++ itemStr old
  | .destroyed r => "D:" ++ itemStr r

def evsStr (l : List String) : String := if l.isEmpty then "-" else ";".intercalate l

def bit (b : Bool) : String := if b then "1" else "0"

def termBits (qs : Queries) (l : Labels) : String :=
  if qs.isEmpty then "none" else
  "|".intercalate (qs.map fun q => if q.isEmpty then "-" else String.join (q.map fun t => bit (termMatches l t)))

def convStr : Conv Bool → String
  | .ok b => boolStr b
  | .panic => "PANIC"
  | .error => "err"
  | .unknown => "unknown"

structure St where
  spec : Bool := false
  sel : Sel := { idQ := none, queries := [] }
  stg : List Item := []          -- the collection
  cache : List Item := []        -- a runtime cache fed with the unfiltered events
  view : Option (List Item) := none   -- replay of the filtered watch; none = no watch yet

def idTable (a : List (String × String)) : Option (String → Bool) :=
  if hasArg a "re" then
    let tab := splitMap (arg a "idm")
    some fun id => match tab.lookup (strHex id) with
      | some b => b == "1"
      | none => false
  else none

def init (spec : Bool) (a : List (String × String)) : St :=
  { spec := spec, sel := { idQ := idTable a, queries := (parseQueries (arg a "q")).getD [] } }

def evalLine (st : St) (a : List (String × String)) : String :=
  match hexStr (arg a "id"), parseLabels (arg a "l"), parseQueries (arg a "q") with
  | some id, some l, some qs =>
    let idm := arg a "idm" == "1"
    let sel : Sel := { idQ := if hasArg a "re" then some (fun _ => idm) else none, queries := qs }
    let it : Item := { id := id, labels := l, ver := 1 }
    let direct := sel.matches it
    let grpc :=
      if arg a "wire" == "0" then "skip"
      else if st.spec then boolStr direct
      else convStr ((grpcVerdict qs l).bind fun b => .ok (sel.idMatches id && b))
    let site (b : Bool) := boolStr (if st.spec then direct else b)
    s!"v direct={boolStr direct} t={termBits qs l} list={site !(listSel [it] sel).isEmpty} watch={site !(bootstrap [it] sel).isEmpty} cache={site !(cacheList [it] sel).isEmpty} grpc={grpc} grpcw={grpc}"
  | _, _, _ => "bad-op"

/-- the selector-filtered List at a site: the model of that site, or (spec) the exact view -/
def exact (stg : List Item) (sel : Sel) : List Item := sortById (stg.filter sel.matches)

def histLine (st : St) (m : Mut) : St × String :=
  let (stg', ev) := applyMut st.stg m
  let fev := if st.spec then ev.bind (Spec.Selector.rewrite st.sel.matches)
    else ev.bind (rewrite (st.sel.matchesAt Gen.Selector.watchPred))
  let view' := st.view.map fun v => match fev with
    | some e => viewApply v e
    | none => v
  let cache' := match ev with
    | some e => viewApply st.cache e
    | none => st.cache
  let evs := match st.view with
    | none => "nowatch"
    | some _ => evsStr (fev.toList.map evStr)
  let ls := itemsStr (if st.spec then exact stg' st.sel else listSel stg' st.sel)
  let vs := match view' with
    | none => "nowatch"
    | some v => itemsStr v
  ({ st with stg := stg', cache := cache', view := view' },
   s!"h r={if ev.isSome then "ok" else "fail"} ev={evs} gev={evs} list={ls} glist={ls} clist={itemsStr (if st.spec then exact cache' st.sel else cacheList cache' st.sel)} view={vs}")

def stepLine (st : St) (op : String) (a : List (String × String)) : St × String :=
  match op with
  | "eval" => (st, evalLine st a)
  | "evalx" => (st, "vx agree=true")
  | "watch" =>
    let boot := if st.spec then (exact st.stg st.sel).map .created else bootstrap st.stg st.sel
    let evs := evsStr (boot.map evStr ++ ["B"])
    ({ st with view := some (replay [] boot) }, s!"w ev={evs} gev={evs}")
  | "create" | "update" =>
    match hexStr (arg a "id"), parseLabels (arg a "l") with
    | some id, some l => histLine st (if op == "create" then .create id l else .update id l)
    | _, _ => (st, "bad-op")
  | "destroy" =>
    match hexStr (arg a "id") with
    | some id => histLine st (.destroy id)
    | none => (st, "bad-op")
  | _ => (st, "bad-op")

end Cosi.Driver.Selector
