/-
  Cosi.Driver.Access — line protocol of engine `access` (property C08).

  Header: `# engine=access flavour=r|q via=run|hook|reconcile name=<ctl> in=<inputs> out=<outputs>
           cached=<ns/typ,..> nss=<..> typs=<..> [retain=1]`
    The probe keeps two input buffers (0 = its initial inputs, 1 = empty) and one output buffer. With `retain=1`
    its Inputs() / Outputs() / Settings() hand out those buffers themselves, otherwise copies.
    input token `ns/typ/<id>/kind` with `<id>` = `none` | `s:<value>`; output token `typ:kind`.
  Controller ops (through the runtime handle of the probe controller), all with `t=<tick> ns= typ= id=`:
    get getu list listu ctx | create powner= spec= opt=default|noowner | update spec=
    modify/modifyr mut=set:<spec>|noop|fail opt=default|noowner exp=default|any|running|tearingDown
    teardown/destroy own=default|s:<owner> | addfin/rmfin fins=<..>
    setinputs in=<inputs>   (flavour r: UpdateInputs through the handle, with a fresh slice) → `ok` / `err class=other`
    setinputs b=<k> n=<n>   (flavour r: UpdateInputs(buffer k[:n]): the caller's buffer is sorted in place, the update is
                             accepted or rejected by the dependency database — Cosi.Model.AccessDecl)
    bufw what=in|out b=<k> at=<i> v=<tokens>   the probe rewrites its own buffer from index i (no runtime call)
    track                   (flavour r: StartTrackingOutputs; `panic` when already tracking, output_tracker.go:23)
    cleanup ns= typ=        (flavour r: CleanupOutputs(kind), output_tracker.go:32: List through the adapter, then
                             Destroy through the adapter of every listed resource owned by the controller and not
                             touched by Create/Update/Modify since `track` (rruntime/state.go marks the target even
                             when the call failed); the first error ends it and leaves tracking on)
  Harness ops (directly on the state, by-passing the adapter): env-set owner= phase= fins= spec=, env-del.
  Output: `<result> calls=<core store ops of this call> | st=[<all resources>]`.
  In `spec` mode the policy, the owner and the store are the ones of Cosi.Spec.Access
  and `calls=*` (the property says nothing about the cache).
-/
import Cosi.Model.Access
import Cosi.Model.AccessDecl
import Cosi.Spec.Access
import Cosi.Driver.Store

namespace Cosi.Driver.Access
open Cosi Cosi.Access

def parseId (s : String) : Option String :=
  if s == "none" then none else some (s.drop 2).toString

def parseInput (tok : String) : AInput :=
  match tok.splitOn "/" with
  | [ns, typ, id, k] => { ns := ns, typ := typ, id := parseId id, kind := k.toNat?.getD 0 }
  | _ => default

def parseOutput (tok : String) : AOutput :=
  match tok.splitOn ":" with
  | [t, k] => { typ := t, kind := k.toNat?.getD 0 }
  | _ => default

def parseCached (tok : String) : String × String :=
  match tok.splitOn "/" with
  | [ns, typ] => (ns, typ)
  | _ => ("", "")

structure St where
  spec : Bool := false
  cfg : Cfg := {}
  /-- the probe's buffers, what its adapter keeps of them, and the declaration last accepted -/
  ds : AccessDecl.DSt := {}
  cached : List (String × String) := []
  nss : List String := []
  typs : List String := []
  store : Store := []
  tracking : Option (List (String × String × String)) := none

def init (spec : Bool) (a : List (String × String)) : St :=
  let ins := (argList a "in").map parseInput
  let outs := (argList a "out").map parseOutput
  let fl : AccessDecl.Flavour := if arg a "flavour" == "q" then .q else .r
  -- buffers 0 and 1 are the probe's own; without `retain` the runtime is handed copies nobody else can reach
  -- (input buffer 2 / output buffer 1)
  let ds := if arg a "retain" == "1" then AccessDecl.register fl (arg a "name") [ins, []] [outs] 0 ins.length 0 outs.length
            else AccessDecl.register fl (arg a "name") [ins, [], ins] [outs, outs] 2 ins.length 1 outs.length
  { spec := spec, ds := ds,
    cached := (argList a "cached").map parseCached, nss := argList a "nss", typs := argList a "typs" }

/-- the declaration the guards decide by: in model mode what the adapter's slices hold NOW (views of the probe's
    buffers where the regenerated `declKeep` says the adapter keeps the caller's slice), in spec mode the declaration
    last accepted — the property's "declared inputs and outputs" -/
def St.decl (st : St) : Decl := if st.spec then st.ds.decl else st.ds.eff

def St.step (st : St) (now : Nat) (op : Op) : Store × Out :=
  if st.spec then Spec.step st.cfg st.store now op else Cosi.step st.cfg st.store now op

def dump (st : St) : String :=
  let rs := st.nss.flatMap fun ns => st.typs.flatMap fun typ =>
    sortById ((st.store.filter fun p => p.1.1 = ns ∧ p.1.2.1 = typ).map (·.2))
  "st=[" ++ ";".intercalate (rs.map Driver.Store.resStr) ++ "]"

def retStr : ARet → String
  | .denied => "err class=other"
  | .err cls => "err class=" ++ cls
  | .ok => "ok"
  | .okRes r => "res " ++ Driver.Store.resStr r
  | .items l => "items [" ++ ";".intercalate (l.map Driver.Store.resStr) ++ "]"
  | .ready b => "ok ready=" ++ boolStr b
  | .done b => "ok done=" ++ boolStr b

def callsStr (l : List String) : String := if l.isEmpty then "-" else joinList l

def parseOwn (s : String) : OwnerArg :=
  if s == "noowner" then .noOwner
  else if s.startsWith "s:" then .explicit (s.drop 2).toString
  else .dflt

def parseExp (s : String) : PhaseArg :=
  if s == "any" then .any
  else if s == "running" then .exact .running
  else if s == "tearingDown" then .exact .tearingDown
  else .dflt

def parseMut (s : String) : Mut :=
  if s == "noop" then .noop
  else if s == "fail" then .fail
  else if s.startsWith "set:" then .setSpec (s.drop 4).toString
  else .noop

def parseAdapterOp : String → Option AdapterOp
  | "get" => some .get | "getu" => some .getUncached | "list" => some .list | "listu" => some .listUncached
  | "ctx" => some .ctxTeardown | "create" => some .create | "update" => some .update
  | "modify" => some .modify | "modifyr" => some .modifyWithResult | "teardown" => some .teardown
  | "destroy" => some .destroy | "addfin" => some .addFinalizer | "rmfin" => some .removeFinalizer
  | _ => none

def parseCall (st : St) (o : AdapterOp) (now : Nat) (a : List (String × String)) : Call :=
  let ns := arg a "ns"; let typ := arg a "typ"; let id := arg a "id"
  let payload : Res :=
    match o with
    | .update =>
      -- the probe reads the stored resource (directly, not through the adapter) and changes its spec
      match st.store.get (st.cfg.key ns typ id) with
      | some cur => { cur with spec := arg a "spec" }
      | none => let e := emptyRes ns typ id now; { e with spec := arg a "spec" }
    | _ => let e := emptyRes ns typ id now; { e with owner := arg a "powner", spec := arg a "spec" }
  { op := o, ns := ns, typ := typ, id := id, payload := payload, mu := parseMut (arg a "mut"),
    own := parseOwn (if hasArg a "own" then arg a "own" else arg a "opt"),
    exp := parseExp (arg a "exp"), fins := argList a "fins" }

/-- harness-side forced removal: strip the finalizers, then destroy as the stored owner -/
def envDel (st : St) (now : Nat) (ns typ id : String) : St :=
  match st.store.get (st.cfg.key ns typ id) with
  | none => st
  | some cur =>
    let st1 := if cur.fins.isEmpty then st
      else { st with store := (st.step now (.update { cur with fins := [] } cur.owner none)).1 }
    { st1 with store := (st1.step now (.destroy ns typ id cur.owner)).1 }

/-- one call, in model or spec mode; third component = printed core-store calls (`none` = `*`) -/
def execAny (st : St) (now : Nat) (c : Call) : Store × ARet × List String :=
  if st.spec then Spec.Access.exec st.cfg st.store now st.decl c
  else
    let r := Access.exec st.cfg st.store now st.decl c
    (r.1, r.2.1, if fromCache st.cached c then [] else r.2.2)

/-- the loop of CleanupOutputs (output_tracker.go:44) over the listed items -/
def cleanupLoop (st : St) (now : Nat) (ns typ : String) (touched : List (String × String × String)) :
    List Res → Store → List String → Store × ARet × List String × Bool
  | [], s, tr => (s, .ok, tr, true)
  | x :: xs, s, tr =>
    if x.owner ≠ st.decl.name ∨ touched.contains (x.ns, x.typ, x.id) then cleanupLoop st now ns typ touched xs s tr
    else
      let r := execAny { st with store := s } now { op := .destroy, ns := x.ns, typ := x.typ, id := x.id }
      if r.2.1.isErr then (r.1, r.2.1, tr ++ r.2.2, false)
      else cleanupLoop st now ns typ touched xs r.1 (tr ++ r.2.2)

def callsOut (st : St) (l : List String) : String := if st.spec then "*" else callsStr l

def stepLine (st : St) (op : String) (a : List (String × String)) : St × String :=
  let now := argNat a "t"
  let ns := arg a "ns"; let typ := arg a "typ"; let id := arg a "id"
  match op with
  | "env-set" =>
    let st1 := envDel st now ns typ id
    let e := emptyRes ns typ id now
    let r : Res := { e with phase := Phase.parse (arg a "phase"), fins := argList a "fins", spec := arg a "spec" }
    let st2 := { st1 with store := (st1.step now (.create r (arg a "owner"))).1 }
    (st2, "ok calls=- | " ++ dump st2)
  | "env-del" =>
    let st1 := envDel st now ns typ id
    (st1, "ok calls=- | " ++ dump st1)
  | "setinputs" =>
    if st.ds.fl == .q then (st, "unsupported calls=- | " ++ dump st) else
    let x : AccessDecl.DOp := if hasArg a "b" then .updateBuf (argNat a "b" % 2) (argNat a "n")
      else .updateFresh ((argList a "in").map parseInput)
    let ok := AccessDecl.accepted AccessDecl.genRules st.ds x
    let st1 := { st with ds := AccessDecl.step st.ds x }
    (st1, (if ok then "ok" else "err class=other") ++ " calls=- | " ++ dump st1)
  | "bufw" =>
    let x : AccessDecl.DOp := if arg a "what" == "out" then .writeO 0 (argNat a "at") ((argList a "v").map parseOutput)
      else .writeI (argNat a "b" % 2) (argNat a "at") ((argList a "v").map parseInput)
    let st1 := { st with ds := AccessDecl.step st.ds x }
    (st1, "ok calls=- | " ++ dump st1)
  | "track" =>
    match st.tracking with
    | some _ => (st, "panic calls=- | " ++ dump st)
    | none => let st1 := { st with tracking := some [] }; (st1, "ok calls=- | " ++ dump st1)
  | "cleanup" =>
    match st.tracking with
    | none => (st, "panic calls=- | " ++ dump st)
    | some touched =>
      let l := execAny st now { op := .list, ns := ns, typ := typ, id := "" }
      match l.2.1 with
      | .items items =>
        let r := cleanupLoop st now ns typ touched items st.store l.2.2
        let st1 := { st with store := r.1, tracking := if r.2.2.2 then none else st.tracking }
        (st1, retStr r.2.1 ++ " calls=" ++ callsOut st r.2.2.1 ++ " | " ++ dump st1)
      | e => (st, retStr e ++ " calls=" ++ callsOut st l.2.2 ++ " | " ++ dump st)
  | _ =>
    match parseAdapterOp op with
    | none => (st, "bad-op")
    | some o =>
      let c := parseCall st o now a
      let r := execAny st now c
      -- rruntime/state.go:15-58: Create/Update/Modify(WithResult) mark the target as touched, whatever the outcome
      let marks := o == .create || o == .update || o == .modify || o == .modifyWithResult
      let st1 := { st with store := r.1,
                           tracking := if marks then st.tracking.map ((ns, typ, id) :: ·) else st.tracking }
      (st1, retStr r.2.1 ++ " calls=" ++ callsOut st r.2.2 ++ " | " ++ dump st1)

end Cosi.Driver.Access
